"""Random in-place edits of a document model through the public object model (C02/C03/C06/C17).

`apply(doc, case_seed, i, gen)` performs the i-th edit of a history; its random choices come from
Random('edit/<case_seed>/<i>') only, so any sub-sequence of a history can be replayed (shrinking).
Edits keep the model self-consistent (no object that is still referenced is removed; an effect's
sampler stays behind its surface) - what the property quantifies over is edits of a valid model.
Returns a short description of what was done, or None when the chosen edit was not applicable.
"""
import random

import numpy

LIBS = ['geometries', 'lights', 'cameras', 'images', 'effects', 'materials', 'nodes', 'scenes']


def all_nodes(doc):
    """every scene.Node reachable from library nodes and scenes (not through instance_node)"""
    from collada import scene
    out = []

    def walk(n):
        if isinstance(n, scene.Node) and not isinstance(n, scene.NodeNode):
            out.append(n)
            for c in n.children:
                walk(c)
    for n in doc.nodes:
        walk(n)
    for s in doc.scenes:
        for n in s.nodes:
            walk(n)
    return out


def allowed_targets(doc, container):
    """library nodes that can be instantiated under `container` without creating a cycle"""
    from collada import scene

    def contains(root, x):
        if root is x:
            return True
        return any(contains(c, x) for c in getattr(root, 'children', []) if isinstance(c, scene.Node) and not isinstance(c, scene.NodeNode))
    roots = [L for L in doc.nodes if container is not None and contains(L, container)]

    def reaches(n, seen):
        if id(n) in seen:
            return False
        seen.add(id(n))
        if any(n is R for R in roots):
            return True
        for c in getattr(n, 'children', []):
            t = c.node if isinstance(c, scene.NodeNode) else c
            if isinstance(t, scene.Node) and reaches(t, seen):
                return True
        return False
    return [T for T in doc.nodes if not reaches(T, set())]


def referenced(doc):
    """ids of objects something else refers to, per library"""
    from collada import scene, material
    ref = {k: set() for k in LIBS}
    for n in all_nodes(doc):
        for c in n.children:
            if isinstance(c, scene.GeometryNode):
                ref['geometries'].add(id(c.geometry))
                for m in c.materials:
                    ref['materials'].add(id(m.target))
            elif isinstance(c, scene.LightNode):
                ref['lights'].add(id(c.light))
            elif isinstance(c, scene.CameraNode):
                ref['cameras'].add(id(c.camera))
            elif isinstance(c, scene.NodeNode):
                ref['nodes'].add(id(c.node))
            elif isinstance(c, scene.ControllerNode):
                for m in c.materials:
                    ref['materials'].add(id(m.target))
    for m in doc.materials:
        ref['effects'].add(id(m.effect))
    for e in doc.effects:
        for p in e.params:
            if isinstance(p, material.Surface):
                ref['images'].add(id(p.image))
    for c in doc.controllers:
        g = getattr(c, 'geometry', None) or getattr(c, 'source_geometry', None)
        if g is not None:
            ref['geometries'].add(id(g))
        for t in getattr(c, 'target_list', []):
            ref['geometries'].add(id(t[0]))
    if doc.scene is not None:
        ref['scenes'].add(id(doc.scene))
    return ref


def list_edit(r, lst, make, removable=lambda o: True, again=None):
    """one positional edit of a python list; returns description or None.
    again: a predicate for elements that may be listed a second time (the same transform applied again, the same instance placed twice)"""
    k = r.choice(['append', 'insert', 'insert0', 'remove', 'remove2', 'pop', 'swap', 'reverse', 'setitem', 'delslice', 'clear'] + (['again'] if again else []))
    n = len(lst)
    if k == 'clear':
        # everything goes (when nothing in the list is referred to from elsewhere)
        if not n or not all(removable(o) for o in lst):
            return None
        del lst[:]
        return k
    if k == 'again':
        c = [o for o in lst if again(o)]
        if not c:
            return None
        lst.insert(r.randint(0, n), r.choice(c))
        return k
    if k == 'append':
        o = make()
        if o is None:
            return None
        lst.append(o)
    elif k in ('insert', 'insert0'):
        o = make()
        if o is None:
            return None
        lst.insert(0 if k == 'insert0' else r.randint(0, n), o)
    elif k == 'remove':
        c = [o for o in lst if removable(o)]
        if not c:
            return None
        lst.remove(r.choice(c))
    elif k == 'remove2':
        # two adjacent siblings
        c = [i for i in range(n - 1) if removable(lst[i]) and removable(lst[i + 1])]
        if not c:
            return None
        i = r.choice(c)
        del lst[i]
        del lst[i]
    elif k == 'pop':
        if not n or not removable(lst[-1]):
            return None
        lst.pop()
    elif k == 'swap':
        if n < 2:
            return None
        i, j = r.sample(range(n), 2)
        a, b = lst[i], lst[j]
        lst[i] = b
        lst[j] = a
    elif k == 'reverse':
        if n < 2:
            return None
        lst.reverse()
    elif k == 'setitem':
        c = [i for i in range(n) if removable(lst[i])]
        o = make() if c else None
        if o is None:
            return None
        lst[r.choice(c)] = o
    elif k == 'delslice':
        c = [i for i in range(n - 1) if removable(lst[i]) and removable(lst[i + 1])]
        if not c:
            return None
        i = r.choice(c)
        del lst[i:i + 2]
    return k


def apply(doc, case_seed, i, gen, kinds=None):
    """gen: a modelgen.Gen bound to `doc` (gen.doc = doc) used to build new objects;
    kinds: restrict the edit kinds drawn from (e.g. ['attr', 'rename', 'save'] for value-only histories)"""
    from collada import scene, material, source
    r = random.Random('edit/%s/%s' % (case_seed, i))
    gen.rng = r
    gen.n = 1000 + 50 * i
    gen.doc = doc
    kind = r.choice(['lib', 'lib', 'scene_nodes', 'node_children', 'node_children', 'transforms', 'transforms', 'matbind',
                     'matinputs', 'prims', 'sources', 'params', 'attr', 'attr', 'attr', 'rename', 'rename', 'default_scene',
                     'contributors', 'save', 'srcdata'] if kinds is None else kinds)
    ref = referenced(doc)
    nodes = all_nodes(doc)
    if kind == 'save':
        doc.save()
        return 'save'
    if kind == 'lib':
        name = r.choice(LIBS)
        lst = getattr(doc, name)
        make = {'geometries': gen.geometry, 'lights': gen.light, 'cameras': gen.camera, 'images': gen.image,
                'effects': gen.effect,
                'materials': (lambda: material.Material(gen.uid('mat'), 'm', r.choice(list(doc.effects))) if doc.effects else None),
                'nodes': (lambda: gen.node(1, libnodes=[])), 'scenes': gen.scene}[name]
        d = list_edit(r, lst, make, removable=lambda o: id(o) not in ref[name])
        return d and 'lib:%s:%s' % (name, d)
    if kind == 'scene_nodes':
        if not doc.scenes:
            return None
        s = r.choice(list(doc.scenes))
        d = list_edit(r, s.nodes, lambda: gen.node(1), removable=lambda o: id(o) not in ref['nodes'])
        return d and 'scene_nodes:' + d
    if kind == 'node_children':
        if not nodes:
            return None
        n = r.choice(nodes)

        def mk():
            k = r.choice(['geom', 'light', 'cam', 'node', 'inode'])
            if k == 'geom' and doc.geometries:
                if doc.materials and r.random() < 0.5:
                    return scene.GeometryNode(r.choice(list(doc.geometries)), [gen.matnode()])
                return scene.GeometryNode(r.choice(list(doc.geometries)))
            if k == 'light' and doc.lights:
                return scene.LightNode(r.choice(list(doc.lights)))
            if k == 'cam' and doc.cameras:
                return scene.CameraNode(r.choice(list(doc.cameras)))
            ok = allowed_targets(doc, n)
            if k == 'inode' and ok:
                return scene.NodeNode(r.choice(ok))
            if k == 'node':
                return gen.node(0, libnodes=ok)
            return None
        d = list_edit(r, n.children, mk, again=lambda o: not isinstance(o, scene.Node) or isinstance(o, scene.NodeNode))
        return d and 'node_children:' + d
    if kind == 'transforms':
        if not nodes:
            return None
        n = r.choice(nodes)
        d = list_edit(r, n.transforms, gen.transform, again=lambda o: True)
        return d and 'transforms:' + d
    if kind in ('matbind', 'matinputs'):
        gnodes = [c for n in nodes for c in n.children if isinstance(c, scene.GeometryNode)]
        if not gnodes or not doc.materials:
            return None
        g = r.choice(gnodes)
        if kind == 'matbind':
            d = list_edit(r, g.materials, gen.matnode)
            return d and 'matbind:' + d
        if not g.materials:
            return None
        m = r.choice(g.materials)
        d = list_edit(r, m.inputs, lambda: (r.choice(['UVSET0', 'TEX1']), 'TEXCOORD', str(r.randint(0, 2))))
        return d and 'matinputs:' + d
    if kind == 'prims':
        if not doc.geometries:
            return None
        g = r.choice(list(doc.geometries))
        donors = [p for p in g.primitives]

        def mk():
            # a fresh primitive over the same inputs as an existing one
            if not donors:
                return None
            p = r.choice(donors)
            polys = [q for q in donors if type(q).__name__ in ('Polylist', 'Polygons') and len(q) and min(int(v) for v in q.vcounts) >= 3]
            if polys and r.random() < 0.35:
                # the documented way to get triangles out of polygons: the derived set carries the polygon element it came from
                return r.choice(polys).triangleset()
            il = p.getInputList()
            idx = numpy.array(p.index, dtype=numpy.int32).reshape(-1).copy()
            k = type(p).__name__
            if k == 'TriangleSet':
                return g.createTriangleSet(idx, il, r.choice([None, 'sym0', 'symX']))
            if k == 'LineSet':
                return g.createLineSet(idx, il, r.choice([None, 'sym0']))
            if k == 'Polylist':
                return g.createPolylist(idx, numpy.array(p.vcounts, dtype=numpy.int32).copy(), il, r.choice([None, 'sym1']))
            return None
        d = list_edit(r, g.primitives, mk)
        return d and 'prims:' + d
    if kind == 'sources':
        if not doc.geometries:
            return None
        g = r.choice(list(doc.geometries))
        used = set()
        for p in g.primitives:
            for tupes in p.sources.values():
                for t in tupes:
                    used.add(t[2][1:])
        for v in g.sourceById.values():
            if isinstance(v, dict):
                for s in v.values():
                    used.add(s.id)
        k = r.choice(['add', 'remove', 'data', 'rename-reuse'])
        if k == 'rename-reuse':
            # a source nothing refers to gets another id, the document is saved, and a NEW source takes the id that became free
            c = [key for key, s in g.sourceById.items() if isinstance(s, source.FloatSource) and key not in used and s.id not in used and s.id == key]
            if not c:
                return None
            key = r.choice(c)
            old = g.sourceById.pop(key)
            old.id = gen.uid(key + '-was')
            g.sourceById[old.id] = old
            doc.save()
            g.sourceById[key] = source.FloatSource(key, numpy.array([gen.f32() for _ in range(6)], dtype=numpy.float32), ('X', 'Y', 'Z'))
        elif k == 'add':
            sid = gen.uid(g.id + '-extra')
            g.sourceById[sid] = source.FloatSource(sid, numpy.array([gen.f32() for _ in range(6)], dtype=numpy.float32), ('X', 'Y', 'Z'))
        elif k == 'remove':
            c = [key for key, s in g.sourceById.items() if isinstance(s, source.Source) and key not in used and s.id not in used]
            if sum(1 for s in g.sourceById.values() if isinstance(s, source.Source)) <= 1:
                c = []      # a <mesh> without any <source> is not expressible: <vertices> needs a position source
            if not c:
                return None
            del g.sourceById[r.choice(c)]
        else:
            c = [s for s in g.sourceById.values() if isinstance(s, source.FloatSource) and s.data.size]
            if not c:
                return None
            s = r.choice(c)
            if r.random() < 0.5:
                s.data[r.randrange(len(s.data))][0] = numpy.float32(gen.f32())
            else:
                # a whole new array, in the unshaped form the constructor takes; rows are only added, so every index stays valid
                flat = numpy.array(s.data, dtype=numpy.float32).reshape(-1)
                extra = numpy.array([gen.f32() for _ in range(len(s.components) * r.randint(0, 2))], dtype=numpy.float32)
                s.data = numpy.concatenate([flat, extra])
        return 'sources:' + k
    if kind == 'srcdata':
        # values of a source changed in place, in the array the source already holds (its shape and dtype stay)
        c = [s for g in doc.geometries for s in g.sourceById.values() if isinstance(s, source.FloatSource) and s.data.size]
        if not c:
            return None
        s = r.choice(c)
        k = r.choice(['item', 'row', 'scale', 'slice'])
        if k == 'item':
            s.data[r.randrange(len(s.data))][r.randrange(s.data.shape[1])] = gen.f32()
        elif k == 'row':
            s.data[r.randrange(len(s.data))] = [gen.f32() for _ in range(s.data.shape[1])]
        elif k == 'scale':
            s.data *= r.choice([2, 0.5, -1])
        else:
            s.data[::2] += 1
        return 'srcdata:' + k
    if kind == 'params':
        if not doc.effects:
            return None
        e = r.choice(list(doc.effects))
        maps = [getattr(e, p) for p in e.supported if isinstance(getattr(e, p), material.Map)]
        if e.bumpmap is not None:
            maps.append(e.bumpmap)
        usedsamp = set(id(m.sampler) for m in maps)
        k = r.choice(['addpair', 'addpair0', 'removepair'])
        if k.startswith('addpair'):
            if not doc.images:
                return None
            surf = material.Surface(gen.uid('surf'), r.choice(list(doc.images)))
            samp = material.Sampler2D(gen.uid('samp'), surf, r.choice([None, 'LINEAR']))
            if k == 'addpair0':
                e.params[0:0] = [surf, samp]
            else:
                e.params.extend([surf, samp])
        else:
            c = [p for p in e.params if isinstance(p, material.Sampler2D) and id(p) not in usedsamp]
            if not c:
                return None
            s = r.choice(c)
            e.params.remove(s)
            if not any(isinstance(p, material.Sampler2D) and p.surface is s.surface for p in e.params):
                e.params.remove(s.surface)
        return 'params:' + k
    if kind == 'contributors':
        from collada import asset
        d = list_edit(r, doc.assetInfo.contributors, lambda: asset.Contributor(author=r.choice(['x', 'y z']), comments=r.choice([None, 'cc'])))
        if d is None and doc.assetInfo.contributors:
            c = r.choice(doc.assetInfo.contributors)
            c.author = r.choice([None, 'new author'])
            c.copyright = r.choice([None, 'new (c)'])
            d = 'fields'
        return d and 'contributors:' + d
    if kind == 'default_scene':
        doc.scene = r.choice(list(doc.scenes) + [None]) if doc.scenes else None
        return 'default_scene'
    if kind == 'rename':
        name = r.choice(['geometries', 'lights', 'cameras', 'effects', 'materials', 'nodes', 'scenes', 'images', 'node', 'effectparam'])
        if name == 'effectparam':
            # surfaces and samplers are referred to by sid from samplers and <texture>
            ps = [p for e in doc.effects for p in e.params if isinstance(getattr(p, 'id', None), str)]
            if not ps:
                return None
            r.choice(ps).id = gen.uid('renamedparam')
            return 'rename:effectparam'
        if name == 'node':
            if not nodes:
                return None
            o = r.choice(nodes)
        else:
            lst = getattr(doc, name)
            if not len(lst):
                return None
            o = r.choice(list(lst))
        new = gen.uid('renamed')
        if name == 'geometries':
            # source ids are independent of the geometry id
            pass
        o.id = new
        if name in ('nodes', 'node') and r.random() < 0.5:
            o.name = 'N' + new
        return 'rename:' + name
    if kind == 'attr':
        k = r.choice(['light', 'camera', 'effect', 'material', 'matnode', 'geomname', 'asset', 'image', 'nodename', 'geomds', 'geomds', 'transform', 'transform', 'shading'])
        if k == 'light' and doc.lights:
            l = r.choice(list(doc.lights))
            l.color = gen.color(3)
            for a in ('constant_att', 'linear_att', 'quad_att', 'zfar', 'falloff_ang', 'falloff_exp'):
                if hasattr(l, a) and r.random() < 0.4:
                    setattr(l, a, r.choice([None, 0.0, gen.pyfloat()]))
        elif k == 'camera' and doc.cameras:
            c = r.choice(list(doc.cameras))
            c.znear = r.choice([0.5, 2.0])
            c.zfar = r.choice([500.0, 77.5])
            a, b = ('xfov', 'yfov') if hasattr(c, 'xfov') else ('xmag', 'ymag')
            combo = r.choice([(1, 0, 0), (0, 1, 0), (1, 0, 1), (0, 1, 1), (1, 1, 0)])
            vals = [r.choice([10.0, 33.0, 1.25]) if x else None for x in combo]
            setattr(c, a, vals[0])
            setattr(c, b, vals[1])
            c.aspect_ratio = vals[2]
        elif k == 'effect' and doc.effects:
            e = r.choice(list(doc.effects))
            p = r.choice(['emission', 'reflective', 'transparent'])
            cur = getattr(e, p)
            if not isinstance(cur, material.Map):
                setattr(e, p, r.choice([None, gen.color(4)]))
            maps = [getattr(e, q) for q in material.Effect.supported if isinstance(getattr(e, q), material.Map)]
            if maps and r.random() < 0.6:
                # edit a texture map in place: other texcoord channel, other sampler of the same effect
                m = r.choice(maps)
                m.texcoord = r.choice(['UVSET0', 'TEX1', 'CHANNEL2'])
                samplers = [q for q in e.params if isinstance(q, material.Sampler2D)]
                if samplers and r.random() < 0.5:
                    m.sampler = r.choice(samplers)
            if r.random() < (0.6 if e.bumpmap is not None else 0.2):
                # the bump map: replaced by another Map object, taken away, or given for the first time
                samplers = [q for q in e.params if isinstance(q, material.Sampler2D)]
                e.bumpmap = material.Map(r.choice(samplers), r.choice(['BUMPUV', 'TEX9'])) if samplers and r.random() < 0.7 else None
            e.reflectivity = r.choice([None, 0.5, 0.125])
            e.double_sided = r.random() < 0.5
            if e.transparent is None:
                e.opaque_mode = material.OPAQUE_MODE.A_ONE
            else:
                e.opaque_mode = r.choice([material.OPAQUE_MODE.A_ONE, material.OPAQUE_MODE.RGB_ZERO])
        elif k == 'shading' and doc.effects:
            e = r.choice(list(doc.effects))
            e.shadingtype = r.choice([t for t in material.Effect.shaders if t != e.shadingtype])
            if gen.o.get('schema'):
                # a schema-respecting edit: the new shader keeps only the parameters it has
                from vlib import modelgen as _mg
                for prop in material.Effect.supported:
                    if prop not in _mg.SHADER_PARAMS[e.shadingtype]:
                        setattr(e, prop, None)
        elif k == 'material' and doc.materials:
            m = r.choice(list(doc.materials))
            m.name = r.choice(['newname', 'nn2'])
            m.effect = r.choice(list(doc.effects))
        elif k == 'matnode':
            ms = [m for n in nodes for c in n.children if isinstance(c, scene.GeometryNode) for m in c.materials]
            if not ms:
                return None
            m = r.choice(ms)
            m.symbol = r.choice(['sym0', 'symZ'])
            m.target = r.choice(list(doc.materials))
        elif k == 'geomname' and doc.geometries:
            r.choice(list(doc.geometries)).name = r.choice(['gname', 'G2', ''])     # (a name may also be taken away: the loader reads a missing name as '')
        elif k == 'geomds' and doc.geometries:
            on = [x for x in doc.geometries if x.double_sided]
            g = r.choice(on) if on and r.random() < 0.7 else r.choice(list(doc.geometries))   # switching OFF needs an element that says "1"
            g.double_sided = not g.double_sided
        elif k == 'asset':
            a = doc.assetInfo
            a.title = r.choice([None, 'new title'])
            a.upaxis = r.choice(['X_UP', 'Y_UP', 'Z_UP'])
            a.keywords = r.choice([None, 'kw'])
            a.unitname, a.unitmeter = r.choice([(None, None), ('foot', 0.3048)])
        elif k == 'image' and doc.images:
            r.choice(list(doc.images)).path = r.choice(['new/path.png', './p2.jpg'])
        elif k == 'transform':
            ts = [t for n in nodes for t in n.transforms]
            if not ts:
                return None
            t = r.choice(ts)
            tk = type(t).__name__
            v = lambda: float(r.choice([0.0, 1.0, -2.0, 0.5, 3.0, 7.25]))
            if tk in ('TranslateTransform', 'ScaleTransform'):
                t.x, t.y, t.z = v(), v(), v()
            elif tk == 'RotateTransform':
                t.angle = float(r.choice([0, 90, 45, -30, 180]))
                t.x, t.y, t.z = r.choice([(1.0, 0.0, 0.0), (0.0, 0.0, 1.0), (0.0, 0.6, 0.8)])
            elif tk == 'MatrixTransform':
                t.matrix[r.randrange(3)][r.randrange(4)] = numpy.float32(v())
            else:
                t.eye = numpy.array([v(), v(), 9.0], dtype=numpy.float32)
                t.interest = numpy.array([v(), v(), -1.0], dtype=numpy.float32)
        elif k == 'nodename' and nodes:
            r.choice(nodes).name = r.choice(['renamed_node', 'nn'])
        else:
            return None
        return 'attr:' + k
    return None
