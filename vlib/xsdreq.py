"""Which children does the shipped schema REQUIRE? Built on the content models translators/xsd_table.py reads from
collada/resources/schema-1.4.1.xml (the same table the Lean model of C04 is generated from): `required_child(parent_ctx, kids, i)`
says whether the child sequence `kids` is in the language of the parent's content model while `kids` without its i-th element is not."""
import re

from translators import xsd_table

_TABLE = {}


def _pat(r):
    k = r[0]
    if k == 'eps':
        return ''
    if k == 'chr':
        return '(?:%s,)' % re.escape(r[1])
    if k == 'star':
        return '(?:%s)*' % _pat(r[1])
    if k == 'seq':
        return ''.join(_pat(p) for p in r[1])
    if k == 'alt':
        return '(?:%s)' % '|'.join(_pat(p) for p in r[1])
    raise ValueError(k)


def table(repo):
    if repo not in _TABLE:
        t = xsd_table.extract(repo)
        _TABLE[repo] = dict((k, re.compile(_pat(v[0]) + r"\Z")) for k, v in t.items() if v[0] is not None)
    return _TABLE[repo]


def required_child(repo, grandparent, parent, kids, i):
    """kids: local names of the parent's children; True iff valid before and invalid after removing kids[i]; None if the context is not in the table"""
    rx = table(repo).get((grandparent, parent))
    if rx is None:
        return None
    before = ''.join(k + ',' for k in kids)
    after = ''.join(k + ',' for j, k in enumerate(kids) if j != i)
    return bool(rx.match(before)) and not rx.match(after)
