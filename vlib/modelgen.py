"""Random document models built through pycollada's PUBLIC constructors (writer's domain, C01/C02/C04/C06).

`build(seed, opts)` is deterministic in (seed, opts); a case is therefore replayed from those two values.
opts (all optional): geoms, prims, lights, cameras, effects, nodes, depth, schema (bool: respect the schema's
value constraints so that the output must validate), ints (bool: small-integer coordinates only).
"""
import datetime
import random

import numpy

F32_SPECIALS = [0.0, 1.0, -1.0, 0.5, 0.1, 0.2, 0.3, 1e-3, 1e-4, 1e-5, 1e-6, 1e-7, 9.999999e-4, 1.0000001, 16777216.0,
                123456.7, 0.001, 999999.9, 1234567.0, 99999990.0, 3.4028235e+30, 1.17549435e-38, 2.0 ** -10, 2.0 ** -20,
                0.007812501, 1.401298464324817e-45, 8388608.5, 0.99999994, 9.5367431640625e-07]


class Gen(object):
    def __init__(self, seed, opts=None):
        self.rng = random.Random('modelgen/%s' % (seed,))
        self.o = dict(geoms=2, prims=3, lights=2, cameras=2, effects=2, nodes=3, depth=3, schema=False, ints=False)
        self.o.update(opts or {})
        self.n = 0

    def uid(self, prefix):
        self.n += 1
        return '%s%d' % (prefix, self.n)

    # ------------------------------------------------------------------ values
    def f32(self):
        r = self.rng
        if self.o['ints']:
            return float(r.randint(-4, 4))
        k = r.random()
        if k < 0.25:
            v = r.choice(F32_SPECIALS) * r.choice([1, -1])
        elif k < 0.5:
            v = float(r.randint(-1000, 1000))
        elif k < 0.75:
            v = r.uniform(-1, 1) * 10 ** r.randint(-8, 8)
        else:
            m = r.choice([2.0, 10.0]) ** r.randint(-25, 28)
            v = m * (1 + r.choice([0, 1, -1, 2, -2, 3]) * 2.0 ** -23)
        v = float(numpy.float32(v))
        if abs(v) >= 1e9 and not numpy.isinf(v):
            v = float(numpy.float32(v / 1e30)) if abs(v) > 1e30 else float(numpy.float32(v / 1e12))
        if v != v or numpy.isinf(v):
            v = 1.0
        return v

    def pyfloat(self):
        r = self.rng
        return r.choice([0.0, 1.0, 0.5, 0.25, 2.0, 10.0, 45.0, 0.1, 0.8, 1000.0, 0.01, r.randint(-50, 50) / 8.0,
                         round(r.uniform(-100, 100), r.randint(0, 6))])

    def color(self, n=None):
        n = n or (4 if self.o['schema'] else self.rng.choice([3, 4, 4, 4]))
        return tuple(self.rng.choice([0.0, 1.0, 0.5, 0.25, 0.8, 0.1, round(self.rng.random(), 3)]) for _ in range(n))

    # ------------------------------------------------------------------ libraries
    def build(self):
        import collada
        from collada import asset
        r = self.rng
        from vlib import prelude
        prelude.touch()         # other objects were made and edited before this document
        doc = collada.Collada()
        self.doc = doc
        contributors = [asset.Contributor(author=r.choice([None, 'me', 'a b']), authoring_tool=r.choice([None, 'tool 1.0']),
                                          comments=r.choice([None, 'c']), copyright=r.choice([None, '(c)']),
                                          source_data=r.choice([None, 'file:///x.max']))
                        for _ in range(r.randint(0, 2))]
        # <unit> carries name and meter together: the model has both or neither
        unit = r.choice([(None, None), ('meter', 1.0), ('inch', 0.0254), ('centimeter', 0.01), ('survey_foot', 0.3048006096), ('au', 149597870700.0)])
        doc.assetInfo = asset.Asset(
            created=datetime.datetime(2001 + r.randint(0, 20), r.randint(1, 12), r.randint(1, 28), r.randint(0, 23), r.randint(0, 59), r.randint(0, 59)),
            modified=datetime.datetime(2022, r.randint(1, 12), r.randint(1, 28), r.randint(0, 23), r.randint(0, 59), r.randint(0, 59)),
            title=r.choice([None, 'title', 'T 2']), subject=r.choice([None, 'subj']), revision=r.choice([None, '1.0']),
            keywords=r.choice([None, 'k1 k2']), unitname=unit[0], unitmeter=unit[1], upaxis=r.choice([None, 'X_UP', 'Y_UP', 'Z_UP']),
            **(dict(contributors=contributors) if contributors else {}))    # optional list arguments are left out when empty
        for _ in range(r.randint(0, 2)):
            doc.images.append(self.image())
        for _ in range(r.randint(0, self.o['effects'])):
            e = self.effect()
            doc.effects.append(e)
        for e in list(doc.effects):
            for _ in range(r.randint(0, 2)):
                from collada import material
                doc.materials.append(material.Material(self.uid('mat'), r.choice(['m', 'matname', 'M_1']), e))
        for _ in range(r.randint(0 if not self.o.get('need_geom') else 1, self.o['geoms'])):
            doc.geometries.append(self.geometry())
        for _ in range(r.randint(0, self.o['lights'])):
            doc.lights.append(self.light())
        for _ in range(r.randint(0, self.o['cameras'])):
            doc.cameras.append(self.camera())
        for _ in range(r.randint(0, 2)):
            doc.nodes.append(self.node(self.o['depth'] - 1, libnodes=list(doc.nodes)))
        for _ in range(r.randint(0 if not self.o['schema'] else 1, 2)):
            doc.scenes.append(self.scene())
        if doc.scenes and r.random() < 0.8:
            doc.scene = r.choice(list(doc.scenes))
        return doc

    def image(self):
        from collada import material
        return material.CImage(self.uid('img'), self.rng.choice(['./tex.png', 'sub/a.jpg', '../b.tga', 'file.png']), self.doc)

    def effect(self):
        from collada import material
        r = self.rng
        params = []
        samplers = []
        if self.doc.images and r.random() < 0.6:
            for _ in range(r.randint(1, 2)):
                img = r.choice(list(self.doc.images))
                surf = material.Surface(self.uid('surf'), img, r.choice([None, 'A8R8G8B8', 'R8G8B8']))
                samp = material.Sampler2D(self.uid('samp'), surf, r.choice([None, 'LINEAR']), r.choice([None, 'LINEAR', 'NEAREST']))
                params.extend([surf, samp])
                samplers.append(samp)
        shading = r.choice(material.Effect.shaders)

        def colormap():
            if samplers and r.random() < 0.4:
                return material.Map(r.choice(samplers), r.choice(['UVSET0', 'TEX0']))
            return self.color()

        def flt():
            if self.o['ints'] or r.random() < 0.5:
                return float(r.choice([0.0, 1.0, 0.5, 20.0, 0.25, 1.5]))
            # scalars are Python floats written in full: long mantissas, tiny and huge magnitudes
            return r.choice([r.uniform(0, 100), round(r.uniform(0, 100), r.randint(5, 9)), r.uniform(0, 1) * 10 ** r.randint(-12, 12), 12.345678, 1e-07, 123456789.125])
        kw = {}
        allowed = SHADER_PARAMS[shading]
        for prop in material.Effect.supported:
            if self.o['schema'] and prop not in allowed:
                kw[prop] = None
                continue
            if r.random() < 0.25:
                kw[prop] = None
            elif prop in ('shininess', 'reflectivity', 'transparency', 'index_of_refraction'):
                kw[prop] = flt()
            else:
                kw[prop] = colormap()
        if kw.get('transparency') is None and r.random() < 0.5:
            kw.pop('transparency', None)
        opaque = r.choice([None, None, material.OPAQUE_MODE.A_ONE, material.OPAQUE_MODE.RGB_ZERO])
        if kw.get('transparent') is None:
            opaque = None   # COLLADA stores the opaque mode on <transparent>; without it there is nothing to write
        bump = material.Map(r.choice(samplers), r.choice(['BUMPUV', 'TEX0'])) if samplers and r.random() < 0.3 else None
        return material.Effect(self.uid('fx'), params, shading, bumpmap=bump, double_sided=r.random() < 0.3, opaque_mode=opaque, **kw)

    def light(self):
        from collada import light
        r = self.rng
        k = r.choice(['dir', 'amb', 'point', 'spot'])
        col = self.color(3 if self.o['schema'] else r.choice([3, 3, 4]))     # loaders and constructors keep an RGBA light colour
        opt = lambda: r.choice([None, self.pyfloat()])
        if k == 'dir':
            return light.DirectionalLight(self.uid('light'), col)
        if k == 'amb':
            return light.AmbientLight(self.uid('light'), col)
        if k == 'point':
            # <zfar> of a point light does not exist in the 1.4.1 schema
            return light.PointLight(self.uid('light'), col, opt(), opt(), opt(), None if self.o['schema'] else opt())
        return light.SpotLight(self.uid('light'), col, opt(), opt(), opt(), opt(), opt())

    def camera(self):
        from collada import camera
        r = self.rng
        combo = r.choice([(1, 0, 0), (0, 1, 0), (1, 0, 1), (0, 1, 1), (1, 1, 0)])
        vals = [self.rng.choice([45.0, 30.0, 1.5, 60.0, 0.75]) if c else None for c in combo]
        zn, zf = r.choice([0.1, 1.0, 0.01]), r.choice([100.0, 1000.0, 50.5])
        if r.random() < 0.5:
            return camera.PerspectiveCamera(self.uid('cam'), zn, zf, xfov=vals[0], yfov=vals[1], aspect_ratio=vals[2])
        return camera.OrthographicCamera(self.uid('cam'), zn, zf, xmag=vals[0], ymag=vals[1], aspect_ratio=vals[2])

    def geometry(self):
        from collada import geometry, source
        r = self.rng
        gid = self.uid('geom')
        nv = r.randint(1, 7)
        # geometry built through the API from ordinary numpy arrays is float64
        dt = numpy.float64 if self.o.get('f64') and r.random() < 0.5 else numpy.float32
        srcs = [source.FloatSource(gid + '-pos', numpy.array([self.f32() for _ in range(3 * nv)], dtype=dt), ('X', 'Y', 'Z'))]
        nn = r.randint(1, 5)
        has_n = r.random() < 0.7
        if has_n:
            srcs.append(source.FloatSource(gid + '-nor', numpy.array([self.f32() for _ in range(3 * nn)], dtype=dt), ('X', 'Y', 'Z')))
        ntex = r.randint(0, 2)
        nt = []
        for t in range(ntex):
            k = r.randint(1, 5)
            nt.append(k)
            srcs.append(source.FloatSource('%s-uv%d' % (gid, t), numpy.array([self.f32() for _ in range(2 * k)], dtype=numpy.float32), ('S', 'T')))
        has_tan = bool(self.o.get('tangents')) and r.random() < 0.5
        if has_tan:
            # per-corner tangent data; the parameter names of such a source are free (the library reads any three as X,Y,Z)
            srcs.append(source.FloatSource(gid + '-tan', numpy.array([self.f32() for _ in range(3 * 4)], dtype=numpy.float32), r.choice([('X', 'Y', 'Z'), ('A', 'B', 'C'), ('U', 'V', 'W')])))
        if self.o.get('names') and r.random() < 0.3:
            # a mesh source need not hold floats: names (labels per vertex, as tools write them), which no primitive uses
            srcs.append(source.NameSource(gid + '-labels', numpy.array(['v%d' % i for i in range(r.randint(1, 4))]), ('LABEL',)))
        if r.random() < 0.4:
            r.shuffle(srcs)      # the position source need not come first
        g = geometry.Geometry(self.doc, gid, r.choice(['g', 'Geo_1', gid]), srcs, double_sided=r.random() < 0.2)
        for _ in range(r.randint(0, self.o['prims'])):
            il = source.InputList()
            layout = []
            off = 0
            il.addInput(off, 'VERTEX', '#' + gid + '-pos')
            layout.append(nv)
            if has_n and r.random() < 0.7:
                off = off + r.choice([0, 1])
                il.addInput(off, 'NORMAL', '#' + gid + '-nor')
                if off == len(layout):
                    layout.append(nn)
                else:
                    layout[off] = min(layout[off], nn)
            descending = r.random() < 0.5      # the set numbers need not follow the order of the inputs
            for t in range(ntex):
                if r.random() < 0.7:
                    off = off + r.choice([0, 1, 1])
                    il.addInput(off, 'TEXCOORD', '#%s-uv%d' % (gid, t), str(ntex - 1 - t) if descending else str(t) if r.random() < 0.8 else None)
                    if off == len(layout):
                        layout.append(nt[t])
                    else:
                        layout[off] = min(layout[off], nt[t])
            if has_tan and r.random() < 0.7:
                off = off + r.choice([0, 1])
                il.addInput(off, r.choice(['TEXTANGENT', 'TEXBINORMAL']), '#' + gid + '-tan', '0')
                if off == len(layout):
                    layout.append(4)
                else:
                    layout[off] = min(layout[off], 4)
            stride = len(layout)
            kind = r.choice(['tri', 'tri', 'line', 'polylist', 'polygons'])
            mat = r.choice([None, 'sym0', 'sym1'])

            def corners(n):
                return [r.randrange(layout[j]) for _ in range(n) for j in range(stride)]
            if kind == 'tri':
                g.primitives.append(g.createTriangleSet(numpy.array(corners(3 * r.randint(0 if not self.o['schema'] else 1, 4)), dtype=numpy.int32), il, mat))
            elif kind == 'line':
                g.primitives.append(g.createLineSet(numpy.array(corners(2 * r.randint(0 if not self.o['schema'] else 1, 4)), dtype=numpy.int32), il, mat))
            elif kind == 'polylist':
                vc = [r.choice([3, 4, 5, 3, 4, 2, 1]) if not self.o['schema'] else r.randint(3, 5) for _ in range(r.randint(1 if self.o['schema'] else 0, 3))]
                g.primitives.append(g.createPolylist(numpy.array(corners(sum(vc)), dtype=numpy.int32), numpy.array(vc, dtype=numpy.int32), il, mat))
            else:
                polys = [numpy.array(corners(r.randint(3, 5)), dtype=numpy.int32) for _ in range(r.randint(1 if self.o['schema'] else 0, 3))]
                g.primitives.append(g.createPolygons(polys, il, mat))
        return g

    def transform(self):
        from collada import scene
        r = self.rng
        k = r.choice(['t', 'r', 's', 'm', 'l'])
        v = lambda: float(r.choice([0.0, 1.0, -1.0, 2.0, 0.5, -3.0, 10.0, r.randint(-9, 9) / 4.0]))
        if k == 't':
            return scene.TranslateTransform(v(), v(), v())
        if k == 's':
            return scene.ScaleTransform(v(), v(), v())
        if k == 'r':
            ax = r.choice([(1.0, 0.0, 0.0), (0.0, 1.0, 0.0), (0.0, 0.0, 1.0), (0.6, 0.8, 0.0), (0.0, -0.6, 0.8)] +
                          ([] if self.o['schema'] or not self.o.get('anyaxis') else [(1.0, 1.0, 0.0), (0.0, 2.0, 0.0), (0.5, 0.0, 0.0)]))
            return scene.RotateTransform(ax[0], ax[1], ax[2], float(r.choice([0, 90, 180, -90, 45, 30, 270, 12.5, 5, 10, 20, 37.5, 150, 33.3, round(r.uniform(-360, 360), 2)])))
        if k == 'm':
            return scene.MatrixTransform(numpy.array([float(r.randint(-3, 3)) for _ in range(12)] + [0.0, 0.0, 0.0, 1.0], dtype=numpy.float32))
        while True:
            eye = numpy.array([v(), v(), v()], dtype=numpy.float32)
            interest = numpy.array([v(), v(), v()], dtype=numpy.float32)
            up = r.choice([(0.0, 1.0, 0.0), (0.0, 0.0, 1.0), (1.0, 0.0, 0.0)])
            d = interest - eye
            if numpy.linalg.norm(d) > 0.1 and numpy.linalg.norm(numpy.cross(d, up)) > 0.1:
                return scene.LookAtTransform(eye, interest, numpy.array(up, dtype=numpy.float32))

    def matnode(self):
        from collada import scene
        r = self.rng
        inputs = [(r.choice(['UVSET0', 'TEX0']), 'TEXCOORD', str(r.randint(0, 1))) for _ in range(r.randint(0, 2))]
        return scene.MaterialNode(r.choice(['sym0', 'sym1', 'sym2']), r.choice(list(self.doc.materials)), inputs)

    def node(self, depth, libnodes=None):
        from collada import scene
        r = self.rng
        libnodes = list(self.doc.nodes) if libnodes is None else libnodes
        transforms = [self.transform() for _ in range(r.randint(0, 3))]
        groups = {k: [] for k in ('cam', 'geom', 'light', 'inode', 'node')}
        for _ in range(r.randint(0, self.o['nodes'])):
            k = r.choice(['cam', 'geom', 'geom', 'light', 'inode', 'node', 'node'])
            if k == 'cam' and self.doc.cameras:
                groups[k].append(scene.CameraNode(r.choice(list(self.doc.cameras))))
            elif k == 'geom' and self.doc.geometries:
                mats = [self.matnode() for _ in range(r.randint(0, 2))] if self.doc.materials else []
                if self.o['schema']:
                    seen = set()
                    mats = [m for m in mats if not (m.symbol in seen or seen.add(m.symbol))]
                g = r.choice(list(self.doc.geometries))
                groups[k].append(scene.GeometryNode(g, mats) if mats else scene.GeometryNode(g))
            elif k == 'light' and self.doc.lights:
                groups[k].append(scene.LightNode(r.choice(list(self.doc.lights))))
            elif k == 'inode' and libnodes:
                groups[k].append(scene.NodeNode(r.choice(libnodes)))
            elif k == 'node' and depth > 0:
                groups[k].append(self.node(depth - 1, libnodes))
        children = groups['cam'] + groups['geom'] + groups['light'] + groups['inode'] + groups['node']
        if not self.o['schema']:
            r.shuffle(children)
        nid = self.uid('node')
        kw = dict(name=r.choice([None, 'n_' + nid, nid]))
        if children:
            kw['children'] = children
        if transforms:
            kw['transforms'] = transforms
        return scene.Node(nid, **kw)

    def scene(self):
        from collada import scene
        r = self.rng
        nodes = [self.node(self.o['depth']) for _ in range(r.randint(1 if self.o['schema'] else 0, 3))]
        # root nodes of a visual scene may instantiate each other: later ones (forward reference in the file) or earlier ones
        for i in range(len(nodes)):
            for j in range(len(nodes)):
                if j > i and r.random() < 0.25:        # i -> j only for j > i keeps the instance graph acyclic
                    kids = nodes[i].children
                    pos = next((k for k, c in enumerate(kids) if type(c).__name__ in ('Node', 'ExtraNode')), len(kids))
                    kids.insert(pos, scene.NodeNode(nodes[j]))
                    nodes[i].xmlnode.insert(len(nodes[i].transforms) + pos, kids[pos].xmlnode)
        if len(nodes) > 1 and r.random() < 0.5:
            nodes.reverse()                            # so that the reference may also point backwards in the file
        if self.o.get('rig') and (self.doc.lights or self.doc.cameras):
            # every light and camera directly under a scaled / sheared top-level node: bound with that node's own matrix
            tf = [scene.ScaleTransform(float(r.choice([2, 3, 0.5])), float(r.choice([3, 0.25, 2])), float(r.choice([0.5, 4, 1])))]
            if r.random() < 0.5:
                tf.append(scene.MatrixTransform(numpy.array([1, 2, 0, 1, 0, 3, 1, -2, 0, 0, 0.5, 4, 0, 0, 0, 1], dtype=numpy.float32)))
            kids = [scene.LightNode(l) for l in self.doc.lights] + [scene.CameraNode(c) for c in self.doc.cameras]
            nodes.insert(r.randint(0, len(nodes)), scene.Node(self.uid('rig'), children=kids, transforms=tf[:r.randint(1, len(tf))]))
        if self.o.get('rig') and self.doc.geometries and r.random() < 0.5:
            # every geometry once more under a node that only shifts it (the bound vertices are the source's plus an offset)
            nodes.append(scene.Node(self.uid('shift'), children=[scene.GeometryNode(g) for g in self.doc.geometries],
                                    transforms=[scene.TranslateTransform(float(r.randint(-3, 3)), 2.0, float(r.randint(0, 5)))]))
        if self.o.get('rig'):
            # one library node that holds geometry, instantiated at several places: the same Node object is visited once per instance
            parts = [n for n in self.doc.nodes if any(type(c).__name__ == 'GeometryNode' for c in n.children)]
            if parts and r.random() < 0.6:
                part = r.choice(parts)
                for k in range(r.randint(2, 3)):
                    nodes.append(scene.Node(self.uid('place'), children=[scene.NodeNode(part)],
                                            transforms=[scene.TranslateTransform(float(5 * k - 5), float(k), float(r.randint(-2, 2)))]))
        return scene.Scene(self.uid('scene'), nodes)


# the parameters the schema gives each shader element ("shader-specific parameters" are the user's to respect)
SHADER_PARAMS = {
    'phong': ['emission', 'ambient', 'diffuse', 'specular', 'shininess', 'reflective', 'reflectivity', 'transparent', 'transparency', 'index_of_refraction'],
    'blinn': ['emission', 'ambient', 'diffuse', 'specular', 'shininess', 'reflective', 'reflectivity', 'transparent', 'transparency', 'index_of_refraction'],
    'lambert': ['emission', 'ambient', 'diffuse', 'reflective', 'reflectivity', 'transparent', 'transparency', 'index_of_refraction'],
    'constant': ['emission', 'reflective', 'reflectivity', 'transparent', 'transparency', 'index_of_refraction'],
}


def build(seed, opts=None):
    return Gen(seed, opts).build()
