"""Other objects were made and edited earlier in this process.

Every property that quantifies over histories of ONE document (or scene, node, instance) holds whatever else the process did
before.  `touch()` is that "whatever else", in the smallest form that matters: one object of each public class is made the way
callers usually make it — without the optional list arguments — and its lists are then edited in place.  The objects are thrown
away.  On an implementation that keeps per-object state per object this has no effect at all; where a list or dict is shared
between objects made this way (a mutable default argument, a class attribute used as instance state) the case that follows sees
it, and sees it in a fresh process too, because the case itself starts with these edits (so its replay is self-contained).
"""
import numpy


def touch():
    done = []

    def step(name, f):
        try:
            f()
            done.append(name)
        except Exception:       # a class that cannot be made this way is not this module's business
            pass
    import collada
    from collada import scene, asset, material, source, geometry

    def nodes():
        n = scene.Node('verif-other-node')
        n.transforms.append(scene.TranslateTransform(1.0, 0.0, 0.0))
        n.children.append(scene.Node('verif-other-kid'))
    step('node', nodes)

    def assets():
        a = asset.Asset()
        a.contributors.append(asset.Contributor(author='verif-other'))
    step('asset', assets)

    def instances():
        doc = collada.Collada()
        fx = material.Effect('verif-other-fx', [], 'phong', diffuse=(0.5, 0.5, 0.5, 1.0))
        mat = material.Material('verif-other-mat', 'm', fx)
        src = source.FloatSource('verif-other-src', numpy.array([0, 0, 0, 1, 0, 0, 0, 1, 0], dtype=numpy.float32), ('X', 'Y', 'Z'))
        g = geometry.Geometry(doc, 'verif-other-geom', 'g', [src])
        il = source.InputList()
        il.addInput(0, 'VERTEX', '#verif-other-src')
        g.primitives.append(g.createTriangleSet(numpy.array([0, 1, 2], dtype=numpy.int32), il, 'sym0'))
        inst = scene.GeometryNode(g)
        inst.materials.append(scene.MaterialNode('sym0', mat, []))
        inst.materials.append(scene.MaterialNode('sa', mat, []))
        sc = scene.Scene('verif-other-scene', [scene.Node('verif-other-root', children=[inst])])
        sc.nodes.append(scene.Node('verif-other-root2'))
        doc.geometries.append(g)
        doc.effects.append(fx)
        doc.materials.append(mat)
        doc.scenes.append(sc)
        fx.params.append(material.Surface('verif-other-surf', material.CImage('verif-other-img', './x.png'), None))
    step('instances', instances)
    return done
