"""Fault injection over a well-formed COLLADA document (C08).

A *site* is an element, an attribute or a whitespace-separated token of a text node of the parsed document,
addressed by its position in document order, so that a (seed, site, kind) triple replays exactly.
Kinds: dangling (reference to an id nobody carries), nohash (reference without '#'), nonnumeric (a token replaced by
letters), emptied (text removed), dropchild (a child element removed), dropattr (an attribute removed),
truncated (document cut in the middle).
"""
import random
import xml.etree.ElementTree as ET

REF_ATTRS = ('url', 'target', 'source')
NAME_REF_ATTRS = ('texture',)          # references by bare name (sid), without '#'
NUMERIC_TAGS = ('float_array', 'p', 'vcount', 'translate', 'rotate', 'scale', 'matrix', 'lookat', 'color', 'float', 'xfov', 'yfov', 'xmag',
                'ymag', 'aspect_ratio', 'znear', 'zfar', 'constant_attenuation', 'linear_attenuation', 'quadratic_attenuation',
                'falloff_angle', 'falloff_exponent', 'v', 'bind_shape_matrix')


def local(el):
    return el.tag.split('}')[-1]


def sites(root):
    """list of (kind, element index, detail) applicable faults"""
    out = []
    els = list(root.iter())
    for i, el in enumerate(els):
        name = local(el)
        for a in el.attrib:
            v = el.get(a)
            if a in REF_ATTRS and v.startswith('#'):
                out.append(('dangling', i, a))
                out.append(('nohash', i, a))
            if a in NAME_REF_ATTRS:
                out.append(('dangling', i, a))
            out.append(('dropattr', i, a))
        if name in NUMERIC_TAGS and el.text and el.text.split():
            ntok = len(el.text.split())
            out.append(('nonnumeric', i, 0))
            if ntok > 1:
                out.append(('nonnumeric', i, ntok - 1))
                out.append(('nonnumeric', i, ntok // 2))
            out.append(('emptied', i, None))
        elif el.text and el.text.strip() and name in ('init_from', 'source', 'format', 'up_axis'):
            out.append(('emptied', i, None))
        for j, ch in enumerate(list(el)):
            if isinstance(ch.tag, str):
                out.append(('dropchild', i, j))
    return out


def apply(data, site):
    """returns the damaged document bytes and the set of top-level object ids (library children) that contain the site"""
    kind, i, detail = site
    if kind == 'truncated':
        cut = max(10, int(len(data) * detail))
        return data[:cut], None
    root = ET.fromstring(data)
    els = list(root.iter())
    el = els[i]
    if kind == 'dangling':
        el.set(detail, 'no_such_name_anywhere' if detail in NAME_REF_ATTRS else '#no_such_id_anywhere')
    elif kind == 'nohash':
        el.set(detail, el.get(detail)[1:])
    elif kind == 'dropattr':
        del el.attrib[detail]
    elif kind == 'nonnumeric':
        toks = el.text.split()
        toks[detail] = 'abc'
        el.text = ' '.join(toks)
    elif kind == 'emptied':
        el.text = None if random.Random(i).random() < 0.5 else '   '
    elif kind == 'dropchild':
        el.remove(list(el)[detail])
    # which library object holds the damaged element?
    parent = {c: p for p in root.iter() for c in p}
    owner = None
    cur = el
    while cur in parent:
        p = parent[cur]
        if local(p).startswith('library_') or p is root:
            owner = cur
            break
        cur = p
    return ET.tostring(root), owner
