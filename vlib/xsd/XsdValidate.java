import javax.xml.XMLConstants;
import javax.xml.transform.stream.StreamSource;
import javax.xml.validation.*;
import org.w3c.dom.ls.*;
import java.io.*;
public class XsdValidate {
  public static void main(String[] a) throws Exception {
    final String xmlxsd = a[1];
    SchemaFactory f = SchemaFactory.newInstance(XMLConstants.W3C_XML_SCHEMA_NS_URI);
    f.setResourceResolver(new LSResourceResolver() {
      public LSInput resolveResource(String type, String ns, String pub, String sys, String base) {
        if (sys != null && sys.endsWith("xml.xsd")) {
          return new LSInput() {
            public Reader getCharacterStream(){return null;} public void setCharacterStream(Reader r){}
            public InputStream getByteStream(){ try { String t = new String(java.nio.file.Files.readAllBytes(java.nio.file.Paths.get(xmlxsd)), "UTF-8"); t = t.replaceFirst("<!DOCTYPE[^>]*>", ""); return new ByteArrayInputStream(t.getBytes("UTF-8")); } catch(Exception e){ return null; } } public void setByteStream(InputStream s){}
            public String getStringData(){return null;} public void setStringData(String s){}
            public String getSystemId(){return sys;} public void setSystemId(String s){}
            public String getPublicId(){return pub;} public void setPublicId(String s){}
            public String getBaseURI(){return base;} public void setBaseURI(String s){}
            public String getEncoding(){return null;} public void setEncoding(String s){}
            public boolean getCertifiedText(){return false;} public void setCertifiedText(boolean b){}
          };
        }
        return null;
      }});
    Schema s = f.newSchema(new StreamSource(new File(a[0])));
    for (int i = 2; i < a.length; i++) {
      Validator v = s.newValidator();
      try { v.validate(new StreamSource(new File(a[i]))); System.out.println("VALID " + a[i]); }
      catch (org.xml.sax.SAXException e) { System.out.println("INVALID " + a[i] + " :: " + e.getMessage()); }
    }
  }
}
