"""Independent XSD processor: the JDK's built-in Xerces validator against collada/resources/schema-1.4.1.xml
(pycollada's own validator needs lxml, which is not installed, so validate_output=True is a no-op here)."""
import os
import shutil
import subprocess
import tempfile

from vlib import core

XSD_DIR = os.path.join(core.VERIF, 'vlib', 'xsd')


def _ensure_class():
    cls = os.path.join(XSD_DIR, 'XsdValidate.class')
    src = os.path.join(XSD_DIR, 'XsdValidate.java')
    if not os.path.exists(cls) or os.path.getmtime(cls) < os.path.getmtime(src):
        r = subprocess.run(['javac', '-d', XSD_DIR, src], capture_output=True, text=True)
        if r.returncode != 0:
            raise core.Infra('javac failed: ' + r.stderr[-500:])


def validate(docs):
    """docs: list of bytes. Returns list of (valid: bool, message)"""
    if not docs:
        return []
    _ensure_class()
    schema = os.path.join(core.REPO, 'collada', 'resources', 'schema-1.4.1.xml')
    xmlxsd = os.path.join(core.REPO, 'collada', 'resources', 'xsd.xml')
    tmp = tempfile.mkdtemp(prefix='xsdval_')
    try:
        paths = []
        for i, d in enumerate(docs):
            p = os.path.join(tmp, '%05d.xml' % i)
            with open(p, 'wb') as f:
                f.write(d)
            paths.append(p)
        out = []
        for k in range(0, len(paths), 400):
            r = subprocess.run(['java', '-Xss8m', '-cp', XSD_DIR, 'XsdValidate', schema, xmlxsd] + paths[k:k + 400],
                               capture_output=True, text=True, timeout=1200)
            if r.returncode != 0:
                raise core.Infra('XsdValidate failed: ' + (r.stderr or r.stdout)[-800:])
            for line in r.stdout.splitlines():
                if line.startswith('VALID '):
                    out.append((True, ''))
                elif line.startswith('INVALID '):
                    out.append((False, line.split(' :: ', 1)[1] if ' :: ' in line else line))
        if len(out) != len(docs):
            raise core.Infra('XsdValidate answered %d of %d documents' % (len(out), len(docs)))
        return out
    finally:
        shutil.rmtree(tmp, ignore_errors=True)
