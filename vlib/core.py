"""Shared machinery of the checks: context, Lean build/audit/driver, findings, evidence.

Every check is `check.py <PID> [--tier quick|thorough]`:
  translators -> lake build -> axiom audit -> props/<pid>.run(ctx) -> findings -> evidence.
Exit codes: 0 property held on everything explored, 1 violation (line `VIOLATION ...`),
2 infrastructure failure / timeout (never a verdict).
"""
import fcntl
import hashlib
import json
import os
import random
import re
import subprocess
import sys
import time

VERIF = os.path.dirname(os.path.dirname(os.path.abspath(__file__)))
LEAN = os.path.join(VERIF, 'lean')
REPO = os.environ.get('VERIF_REPO', '/repo')
ALLOWED_AXIOMS = {'propext', 'Classical.choice', 'Quot.sound'}
FORBIDDEN = re.compile(r'\bsorry\b|\badmit\b|^\s*axiom\s|native_decide|bv_decide|implemented_by|\bunsafe\s|maxHeartbeats\s+0\b', re.M)

TRUSTED_BASE = [
    'Lean 4.33 kernel (leanchecker re-check in the thorough tier)',
    'axioms: subset of {propext, Classical.choice, Quot.sound}; no native_decide, no bv_decide, no sorry, no own axioms',
    'hand-written Lean model tied to /repo by the correspondence run of this check (generators, canonicalisation, line protocol)',
    'CPython, numpy and xml.etree semantics are modelled, not verified',
]


class Infra(Exception):
    """infrastructure failure: exit 2, never a verdict"""


def use_repo():
    """make `import collada` resolve to the working tree under test"""
    if REPO not in sys.path:
        sys.path.insert(0, REPO)
    import collada  # noqa
    got = os.path.dirname(os.path.dirname(os.path.abspath(collada.__file__)))
    if os.path.realpath(got) != os.path.realpath(REPO):
        raise Infra('collada imported from %s, expected %s' % (got, REPO))
    return collada


# ----------------------------------------------------------------------------- Lean

_LEAN_ENV = None


def _lock():
    os.makedirs(os.path.join(VERIF, '.locks'), exist_ok=True)
    f = open(os.path.join(VERIF, '.locks', 'lake.lock'), 'w')
    fcntl.flock(f, fcntl.LOCK_EX)
    return f


def lean_env():
    global _LEAN_ENV
    if _LEAN_ENV is None:
        env = dict(os.environ)
        out = subprocess.run(['lake', 'env', 'printenv', 'LEAN_PATH'], cwd=LEAN, capture_output=True, text=True)
        if out.returncode != 0:
            raise Infra('lake env failed: ' + out.stderr)
        env['LEAN_PATH'] = out.stdout.strip()
        _LEAN_ENV = env
    return _LEAN_ENV


def lake_build(targets, have_lock=False):
    """build the given modules (and their imports). Returns (ok, log, failed_modules)"""
    lk = None if have_lock else _lock()
    try:
        p = subprocess.run(['lake', 'build'] + list(targets), cwd=LEAN, capture_output=True, text=True, timeout=3000)
    finally:
        if lk is not None:
            lk.close()
    log = p.stdout + p.stderr
    failed = re.findall(r'^- (Pyc[\w.]*)', log, re.M)
    return p.returncode == 0, log, failed


def strip_lean_comments(src):
    src = re.sub(r'/-.*?-/', '', src, flags=re.S)
    src = re.sub(r'--.*', '', src)
    return src


def forbidden_tokens():
    """grep the Lean sources (outside comments) for escape hatches"""
    hits = []
    for root, _, files in os.walk(LEAN):
        if '.lake' in root or os.sep + 'Audit' in root:
            continue
        for fn in files:
            if fn.endswith('.lean'):
                path = os.path.join(root, fn)
                src = strip_lean_comments(open(path).read())
                for m in FORBIDDEN.finditer(src):
                    hits.append('%s: %s' % (os.path.relpath(path, LEAN), m.group(0).strip()))
    return hits


AUDIT_TMPL = '''import Lean
import %(mod)s
open Lean Elab Command
run_cmd do
  let env ← getEnv
  let some idx := env.getModuleIdx? `%(mod)s | throwError "module not found"
  for n in env.header.moduleData[idx]!.constNames do
    if n.isInternal || isPrivateName n then continue
    match env.find? n with
    | some (.thmInfo _) =>
      let ax ← Lean.collectAxioms n
      IO.println s!"THM {n} AXIOMS {ax.toList}"
    | _ => pure ()
'''


def audit(pid, mod=None):
    """`#print axioms`-equivalent for every public theorem of Pyc.Props.<pid> (or of module `mod`).
    Returns list of (theorem, [axioms])"""
    mod = mod or 'Pyc.Props.%s' % pid
    d = os.path.join(LEAN, 'Audit')
    os.makedirs(d, exist_ok=True)
    path = os.path.join(d, '%s.lean' % mod.split('.')[-1])
    with open(path, 'w') as f:
        f.write(AUDIT_TMPL % {'mod': mod})
    p = subprocess.run(['lean', path], cwd=LEAN, env=lean_env(), capture_output=True, text=True, timeout=1200)
    if p.returncode != 0:
        return None, p.stdout + p.stderr
    thms = []
    for line in p.stdout.splitlines():
        m = re.match(r'THM (\S+) AXIOMS \[(.*)\]', line)
        if m:
            ax = [a.strip() for a in m.group(2).split(',') if a.strip()]
            thms.append((m.group(1), ax))
    return thms, p.stdout


def leanchecker(mods):
    p = subprocess.run(['leanchecker'] + list(mods), cwd=LEAN, env=lean_env(), capture_output=True, text=True, timeout=3000)
    return p.returncode == 0, (p.stdout + p.stderr)[-2000:]


def run_driver(name, lines, timeout=900):
    """pipe protocol lines through lean/drv/<name>.lean; one answer per line"""
    data = ''.join(l + '\n' for l in lines)
    p = subprocess.run(['lean', '--run', os.path.join('drv', name + '.lean')], cwd=LEAN, env=lean_env(),
                       input=data, capture_output=True, text=True, timeout=timeout)
    if p.returncode != 0:
        raise Infra('driver %s failed: %s' % (name, (p.stdout + p.stderr)[-2000:]))
    out = p.stdout.splitlines()
    if len(out) != len(lines):
        raise Infra('driver %s: %d answers for %d requests' % (name, len(out), len(lines)))
    return out


# ----------------------------------------------------------------------------- context

class Ctx(object):
    def __init__(self, pid, tier, seed):
        self.pid = pid
        self.tier = tier
        self.seed = seed
        self.rng = random.Random('%s/%s' % (pid, seed))
        self.t0 = time.time()
        self.violations = []      # dict(signature, what, replay)
        self.evaluations = 0
        self.nontrivial = set()   # digests of distinct non-trivial cases
        self.samples = []
        self.hist = {}
        self.rule = ''
        self.assumptions = []
        self.notes = {}
        self.lean_ok = True
        self.lean_problem = None  # text naming the theorem / module / correspondence that no longer checks
        self.thorough = tier == 'thorough'

    def n(self, quick, thorough):
        scale = float(os.environ.get('VERIF_SCALE', '1'))
        return max(1, int((thorough if self.thorough else quick) * scale))

    def elapsed(self):
        return time.time() - self.t0

    def count(self, key, k=1):
        self.hist[key] = self.hist.get(key, 0) + k

    def case(self, case, nontrivial=True):
        """register one explored case (any JSON-able value)"""
        self.evaluations += 1
        if nontrivial:
            self.nontrivial.add(hashlib.sha1(json.dumps(case, sort_keys=True, default=str).encode()).hexdigest())
        if len(self.samples) < 5 and (self.evaluations % 37 == 1):
            self.samples.append(case)

    def violation(self, signature, what, replay, found_input=True):
        """signature: stable identifier of the failing construct (matched against known_findings.json);
        replay: JSON-able description sufficient to re-run the case on the real code"""
        self.violations.append(dict(signature=signature, what=what, replay=replay, found_input=found_input))

    def driver(self, name, lines):
        return run_driver(name, lines)


# ----------------------------------------------------------------------------- findings / evidence

def load_findings():
    out = []
    path = os.path.join(VERIF, 'known_findings.json')
    if os.path.exists(path):
        out.extend(json.load(open(path)))
    d = os.path.join(VERIF, 'findings.d')
    if os.path.isdir(d):
        for fn in sorted(os.listdir(d)):
            if fn.endswith('.json'):
                out.extend(json.load(open(os.path.join(d, fn))))
    return out


SKIPS = {}


def note_skip(where, exc=None):
    """a case a check could not evaluate (its own generator or the library raised where the check has no opinion): counted into the evidence
    (histogram key `skipped:<where>:<exception>`), so that silent loss of coverage shows"""
    k = 'skipped:%s:%s' % (where, type(exc).__name__ if exc is not None else '-')
    SKIPS[k] = SKIPS.get(k, 0) + 1


def finish(ctx, level_obligations, checker_cmd):
    """classify violations, print verdict lines, write evidence, return exit code"""
    findings = [f for f in load_findings() if f.get('property') == ctx.pid]
    open_sigs = {f['signature']: f for f in findings if f.get('status') == 'open'}
    known_hit = {}
    fresh = []
    for v in ctx.violations:
        if v['signature'] in open_sigs:
            known_hit.setdefault(v['signature'], v)
        else:
            fresh.append(v)
    for sig, v in sorted(known_hit.items()):
        print('KNOWN-FINDING: property=%s %s — %s' % (ctx.pid, sig, open_sigs[sig].get('what', v['what'])))
    # a broken proof obligation / correspondence is reported on its own only when the search found no failing input
    if any(v['found_input'] for v in fresh):
        sub = [v for v in fresh if not v['found_input']]
        fresh = [v for v in fresh if v['found_input']]
        for v in sub[:3]:
            print('note: also no longer checks (explained by the failing input below): %s' % v['what'][:200])
    rdir = os.path.join(VERIF, 'replays')
    os.makedirs(rdir, exist_ok=True)
    seen = set()
    nviol = 0
    for v in fresh:
        if v['signature'] in seen:
            continue
        seen.add(v['signature'])
        nviol += 1
        name = '%s_%s_%s.json' % (ctx.pid, ctx.seed, hashlib.sha1(v['signature'].encode()).hexdigest()[:10])
        path = os.path.join(rdir, name)
        with open(path, 'w') as f:
            json.dump(dict(property=ctx.pid, signature=v['signature'], what=v['what'], replay=v['replay'],
                           seed=ctx.seed, tier=ctx.tier), f, indent=1, default=str)
        print('VIOLATION property=%s replay=%s%s' % (ctx.pid, path, '' if v['found_input'] else ' no-failing-input-found'))
        print('  ' + v['what'][:600])
    for k, v in SKIPS.items():
        ctx.hist[k] = ctx.hist.get(k, 0) + v
    obligations, discharged = level_obligations
    ev = dict(
        property_id=ctx.pid, tier=ctx.tier, seed=ctx.seed, level='proof',
        coverage=dict(
            obligations=obligations, discharged=discharged, checker_cmd=checker_cmd,
            trusted_base=TRUSTED_BASE + ctx.assumptions,
            evaluations=ctx.evaluations, distinct_nontrivial=len(ctx.nontrivial),
            rule=ctx.rule, samples=ctx.samples or ['(no correspondence cases ran)'],
            histogram=dict(sorted(ctx.hist.items())), notes=ctx.notes,
            known_findings=sorted(known_hit),
        ),
        assumptions=ctx.assumptions, wall_s=round(ctx.elapsed(), 2), violations=nviol,
    )
    # evidence is about /repo itself; a run against another tree (VERIF_REPO: seeded changes, scratch worktrees) leaves it alone
    evdir = os.path.join(VERIF, 'evidence') if os.path.realpath(REPO) == os.path.realpath('/repo') else os.path.join(VERIF, 'replays', 'evidence_other_tree')
    os.makedirs(evdir, exist_ok=True)
    with open(os.path.join(evdir, ctx.pid + '.json'), 'w') as f:
        json.dump(ev, f, indent=1, default=str)
    return 1 if nviol else 0
