"""Independent reading of a COLLADA 1.4.1 document with xml.etree only (never pycollada's loader).

Written from the COLLADA specification plus the normalisations pycollada documents (U,V -> S,T; third
texcoord component dropped; NaN -> 0; colours padded to RGBA; node name defaults to id; aspect ratio dropped
when a camera gives all three parameters; up axis defaults to Y_UP; transparency defaults from the opaque mode).
Produces the same grammar as vlib/snap.py so that the two can be diffed (C05: loaded model vs file,
C06: written file vs model).
"""
import math
import xml.etree.ElementTree as ET

import numpy


class Unreadable(Exception):
    pass


def _ns(root):
    return root.tag.split('}')[0].lstrip('{') if '}' in root.tag else ''


class Reader(object):
    def __init__(self, data):
        self.root = ET.fromstring(data) if isinstance(data, (bytes, str)) else data
        self.ns = _ns(self.root)

    def q(self, name):
        return '{%s}%s' % (self.ns, name) if self.ns else name

    def kids(self, el, name):
        return [c for c in el if c.tag == self.q(name)]

    def kid(self, el, name):
        k = self.kids(el, name)
        return k[0] if k else None

    def path(self, el, *names):
        for n in names:
            if el is None:
                return None
            el = self.kid(el, n)
        return el

    def libs(self, name, item):
        out = []
        for lib in self.kids(self.root, name):
            out.extend(self.kids(lib, item))
        return out

    # ------------------------------------------------------------------ numbers
    @staticmethod
    def f32list(text):
        if text is None:
            return []
        vals = []
        for tok in text.split():
            v = float(tok)
            v = float(numpy.float32(v))
            if v != v:
                v = 0.0
            vals.append(v)
        return vals

    @staticmethod
    def flt(text):
        return float(text)

    # ------------------------------------------------------------------ asset
    def asset(self):
        a = self.kid(self.root, 'asset')
        if a is None:
            return None

        def txt(name, el=None):
            n = self.kid(a if el is None else el, name)
            return None if n is None else n.text
        unit = self.kid(a, 'unit')
        unitname = unitmeter = None
        if unit is not None:
            try:
                unitmeter = float(unit.get('meter'))
                unitname = unit.get('name')
            except Exception:
                unitname = unitmeter = None
        up = txt('up_axis')
        if up not in ('X_UP', 'Y_UP', 'Z_UP'):
            up = 'Y_UP'
        return dict(created=txt('created'), modified=txt('modified'), title=txt('title'), subject=txt('subject'),
                    revision=txt('revision'), keywords=txt('keywords'), unitname=unitname, unitmeter=unitmeter, upaxis=up,
                    contributors=[[txt('author', c), txt('authoring_tool', c), txt('comments', c), txt('copyright', c), txt('source_data', c)]
                                  for c in self.kids(a, 'contributor')])

    # ------------------------------------------------------------------ effects
    def effect(self, e, image_ids):
        prof = self.kid(e, 'profile_COMMON')
        tec = self.kid(prof, 'technique')
        params, scope = [], {}
        for holder in (prof, tec):
            for np_ in self.kids(holder, 'newparam'):
                sid = np_.get('sid')
                surf = self.kid(np_, 'surface')
                samp = self.kid(np_, 'sampler2D')
                if surf is not None:
                    img = self.kid(surf, 'init_from').text
                    fmt = self.kid(surf, 'format')
                    params.append(['surface', sid, [img, img in image_ids], 'A8R8G8B8' if fmt is None else fmt.text])
                    scope[sid] = 'surface'
                elif samp is not None:
                    src = self.kid(samp, 'source').text
                    mn, mg = self.kid(samp, 'minfilter'), self.kid(samp, 'magfilter')
                    params.append(['sampler2D', sid, src, scope.get(src) == 'surface', None if mn is None else mn.text, None if mg is None else mg.text])
                    scope[sid] = 'sampler'
                else:
                    for fl in ('float', 'float2', 'float3', 'float4'):
                        fn = self.kid(np_, fl)
                        if fn is not None and sid and fn.text is not None:
                            scope[sid] = [float(v) for v in fn.text.split()]
                            break
        shading, shad = None, None
        for s in ('phong', 'lambert', 'blinn', 'constant'):
            shad = self.kid(tec, s)
            if shad is not None:
                shading = s
                break
        out = dict(id=e.get('id'), shadingtype=shading, params=params)
        opaque = 'A_ONE'

        def val(pn):
            ch = list(pn)
            v = ch[0]
            name = v.tag.split('}')[-1]
            if name == 'color':
                c = [float(x) for x in v.text.split()]
                while len(c) < 3:
                    c.append(0.0)
                while len(c) < 4:
                    c.append(1.0)
                return ['color'] + c
            if name == 'float':
                return ['float', float(v.text)]
            if name == 'texture':
                return ['map', v.get('texture'), scope.get(v.get('texture')) == 'sampler', v.get('texcoord')]
            if name == 'param':
                r = scope.get(v.get('ref'))
                if isinstance(r, list):
                    if len(r) == 1:
                        return ['float', r[0]]
                    c = list(r)
                    while len(c) < 3:
                        c.append(0.0)
                    while len(c) < 4:
                        c.append(1.0)
                    return ['color'] + c
                return None
            raise Unreadable('shading value ' + name)
        for prop in ('emission', 'ambient', 'diffuse', 'specular', 'shininess', 'reflective', 'reflectivity', 'transparent',
                     'transparency', 'index_of_refraction'):
            pn = self.kid(shad, prop)
            out[prop] = None if pn is None else val(pn)
            if prop == 'transparent' and pn is not None and out[prop] is not None and pn.get('opaque') == 'RGB_ZERO':
                opaque = 'RGB_ZERO'
        defaults = dict(emission=['color', 0.0, 0.0, 0.0, 1.0], ambient=['color', 0.0, 0.0, 0.0, 1.0], diffuse=['color', 0.0, 0.0, 0.0, 1.0],
                        specular=['color', 0.0, 0.0, 0.0, 1.0], shininess=['float', 0.0], reflective=['color', 0.0, 0.0, 0.0, 1.0],
                        reflectivity=['float', 0.0], transparent=['color', 0.0, 0.0, 0.0, 1.0])
        out['opaque_mode'] = opaque
        if out['transparency'] is None:
            out['transparency'] = ['float', 1.0 if opaque == 'A_ONE' else 0.0]
        ds = None
        for ex in e.iter(self.q('extra')):
            for d in ex.iter(self.q('double_sided')):
                ds = d if ds is None else ds
        out['double_sided'] = bool(ds is not None and ds.text is not None and ds.text.strip() == '1')
        bump = None
        for ex in e.iter(self.q('extra')):
            for t in ex.iter(self.q('texture')):
                if bump is None:
                    bump = ['map', t.get('texture'), scope.get(t.get('texture')) == 'sampler', t.get('texcoord')]
        out['bumpmap'] = bump
        return out

    # ------------------------------------------------------------------ geometry
    def source(self, s):
        fa, ia, na = self.kid(s, 'float_array'), self.kid(s, 'IDREF_array'), self.kid(s, 'Name_array')
        comps = [p.get('name') for p in self.kids(self.path(s, 'technique_common', 'accessor'), 'param')]
        if fa is not None:
            data = self.f32list(fa.text)
            if comps == ['U', 'V']:
                comps = ['S', 'T']
            if comps == ['S', 'T', 'P']:
                comps = ['S', 'T']
                data = [v for i, v in enumerate(data) if i % 3 != 2]
            n = len(comps)
            rows = [data[i:i + n] for i in range(0, len(data), n)]
            return dict(kind='FloatSource', id=s.get('id'), components=comps, data=rows)
        arr, kind = (ia, 'IDRefSource') if ia is not None else (na, 'NameSource')
        words = (arr.text or '').split()
        n = max(1, len(comps))
        return dict(kind=kind, id=s.get('id'), components=comps, data=[words[i:i + n] for i in range(0, len(words), n)])

    def primitive(self, p, vertices):
        name = p.tag.split('}')[-1]
        kind = {'triangles': 'TriangleSet', 'tristrips': 'TriangleSet', 'trifans': 'TriangleSet', 'lines': 'LineSet',
                'polylist': 'Polylist', 'polygons': 'Polygons'}[name]
        raw = []
        for i in self.kids(p, 'input'):
            raw.append((int(i.get('offset')), i.get('semantic'), i.get('source'), i.get('set')))
        stride = max(r[0] for r in raw) + 1
        inputs = []
        # COLLADA: the inputs of <vertices> belong to every primitive that uses it through VERTEX; a primitive that lists such a binding
        # itself as well (same offset, semantic, source and set) lists the same input, not another one
        explicit = set((off, sem, src, st) for off, sem, src, st in raw)
        for off, sem, src, st in raw:
            if sem == 'VERTEX' and src[1:] in vertices:
                for vsem, vsrc in vertices[src[1:]]:
                    if vsem != 'POSITION' and (off, vsem, '#' + vsrc, st) in explicit:
                        continue
                    inputs.append([off, 'VERTEX' if vsem == 'POSITION' else vsem, '#' + vsrc, st, vsrc])
            else:
                inputs.append([off, sem, src, st, src[1:]])
        inputs.sort(key=lambda t: (t[0], str(t[1]), str(t[3]), str(t[2])))

        def ints(el):
            return [int(t) for t in (el.text or '').split()]
        ps = self.kids(p, 'p')
        vcounts = None
        if name == 'triangles' or name == 'lines':
            stream = ints(ps[0]) if ps else []
            rows = [stream[i:i + stride] for i in range(0, len(stream), stride)]
        elif name in ('tristrips', 'trifans'):
            rows = []
            for pe in ps:
                st_ = ints(pe)
                v = [st_[i:i + stride] for i in range(0, len(st_), stride)]
                tris = []
                for i in range(len(v) - 2):
                    if name == 'trifans':
                        tris.append((i, [v[0], v[i + 1], v[i + 2]]))
                    elif i % 2 == 0:
                        tris.append((i, [v[i], v[i + 1], v[i + 2]]))
                    else:
                        tris.append((i, [v[i + 1], v[i], v[i + 2]]))
                if name == 'tristrips':   # pycollada lists the even triangles of a strip before the odd ones
                    tris = [t for t in tris if t[0] % 2 == 0] + [t for t in tris if t[0] % 2 == 1]
                for _, t in tris:
                    rows.extend(t)
        elif name == 'polylist':
            vc = self.kid(p, 'vcount')
            vcounts = [int(t) for t in (vc.text or '').split()] if vc is not None else []
            stream = ints(ps[0]) if ps else []
            rows = [stream[i:i + stride] for i in range(0, len(stream), stride)]
        else:
            rows, vcounts = [], []
            for pe in ps:
                st_ = ints(pe)
                v = [st_[i:i + stride] for i in range(0, len(st_), stride)]
                vcounts.append(len(v))
                rows.extend(v)
        per = {'TriangleSet': 3, 'LineSet': 2}.get(kind)

        def sel(off):
            col = [r[off] for r in rows]
            if per:
                return [col[i:i + per] for i in range(0, len(col), per)]
            return col
        n = len(rows) // per if per else len(vcounts)
        empty = len(rows) == 0
        ro = raw_order(inputs, raw, vertices)
        vin = [i for i in ro if i[1] == 'VERTEX']
        nin = [i for i in ro if i[1] == 'NORMAL']
        tin = [i for i in ro if i[1] == 'TEXCOORD']
        out = dict(kind=kind, material=p.get('material'), inputs=inputs, n=n,
                   index=[x for r in rows for x in r],
                   vertex_index=None if not vin else sel(vin[0][0]),
                   normal_index=None if not nin else sel(nin[0][0]),
                   texcoord_indexset=[sel(i[0]) for i in tin])
        if vcounts is not None:
            out['vcounts'] = vcounts
        return out

    def geometry(self, g):
        mesh = self.kid(g, 'mesh')
        sources = [self.source(s) for s in self.kids(mesh, 'source')]
        vertices = {}
        vsnap = []
        for v in self.kids(mesh, 'vertices'):
            ins = [(i.get('semantic'), i.get('source')[1:]) for i in self.kids(v, 'input')]
            vertices[v.get('id')] = ins
            vsnap.append([v.get('id'), sorted([a, b] for a, b in ins)])
        ds = None
        for ex in g.iter(self.q('extra')):
            for d in ex.iter(self.q('double_sided')):
                ds = d if ds is None else ds
        prims = [self.primitive(c, vertices) for c in mesh
                 if c.tag.split('}')[-1] in ('triangles', 'tristrips', 'trifans', 'lines', 'polylist', 'polygons')]
        return dict(id=g.get('id') or '', name=g.get('name') or '', double_sided=bool(ds is not None and (ds.text or '').strip() == '1'),
                    sources=sources, vertices=sorted(vsnap, key=str), primitives=prims)

    # ------------------------------------------------------------------ lights, cameras
    def light(self, l):
        tc = self.kid(l, 'technique_common')
        k = list(tc)[0]
        name = k.tag.split('}')[-1]
        kind = {'directional': 'DirectionalLight', 'ambient': 'AmbientLight', 'point': 'PointLight', 'spot': 'SpotLight'}[name]
        out = dict(kind=kind, id=l.get('id'), color=[float(x) for x in self.kid(k, 'color').text.split()])

        def opt(n):
            e = self.kid(k, n)
            return None if e is None else float(e.text)
        if kind in ('PointLight', 'SpotLight'):
            out.update(constant_att=opt('constant_attenuation'), linear_att=opt('linear_attenuation'), quad_att=opt('quadratic_attenuation'))
        if kind == 'PointLight':
            out['zfar'] = opt('zfar')
        if kind == 'SpotLight':
            out.update(falloff_ang=opt('falloff_angle'), falloff_exp=opt('falloff_exponent'))
        return out

    def camera(self, c):
        tc = self.path(c, 'optics', 'technique_common')
        k = list(tc)[0]
        name = k.tag.split('}')[-1]

        def opt(n):
            e = self.kid(k, n)
            return None if e is None else float(e.text)
        a, b = ('xfov', 'yfov') if name == 'perspective' else ('xmag', 'ymag')
        va, vb, asp = opt(a), opt(b), opt('aspect_ratio')
        if va is not None and vb is not None and asp is not None:
            asp = None
        return {'kind': 'PerspectiveCamera' if name == 'perspective' else 'OrthographicCamera', 'id': c.get('id', ''),
                'znear': opt('znear'), 'zfar': opt('zfar'), 'aspect_ratio': asp, a: va, b: vb}

    # ------------------------------------------------------------------ scene graph
    def transform(self, t):
        name = t.tag.split('}')[-1]
        v = self.f32list(t.text)
        if name == 'translate':
            return ['TranslateTransform'] + v, translate(v)
        if name == 'scale':
            return ['ScaleTransform'] + v, scale(v)
        if name == 'rotate':
            return ['RotateTransform'] + v, rotate(v)
        if name == 'matrix':
            return ['MatrixTransform'] + v, numpy.array(v, dtype=numpy.float32).reshape(4, 4)
        if name == 'lookat':
            return ['LookAtTransform'] + v, lookat(v)
        raise Unreadable(name)

    def matnodes(self, inst, ids):
        out = []
        tc = self.path(inst, 'bind_material', 'technique_common')
        if tc is None:
            return out
        for m in self.kids(tc, 'instance_material'):
            tgt = m.get('target')[1:]
            out.append(dict(symbol=m.get('symbol'), target=[tgt, tgt in ids['materials']],
                            inputs=[[b.get('semantic'), b.get('input_semantic'), b.get('input_set')] for b in self.kids(m, 'bind_vertex_input')]))
        return out

    def node(self, n, ids):
        transforms, children = [], []
        M = numpy.identity(4, dtype=numpy.float32)
        for c in n:
            name = c.tag.split('}')[-1]
            if name in ('translate', 'rotate', 'scale', 'matrix', 'lookat'):
                s, m = self.transform(c)
                transforms.append(s)
                M = numpy.dot(M, m)
            elif name == 'node':
                children.append(self.node(c, ids))
            elif name == 'instance_geometry':
                u = c.get('url')[1:]
                children.append(dict(kind='GeometryNode', geometry=[u, u in ids['geometries']], materials=self.matnodes(c, ids)))
            elif name == 'instance_controller':
                u = c.get('url')[1:]
                children.append(dict(kind='ControllerNode', controller=[u, u in ids['controllers']], materials=self.matnodes(c, ids)))
            elif name == 'instance_camera':
                u = c.get('url')[1:]
                children.append(dict(kind='CameraNode', camera=[u, u in ids['cameras']]))
            elif name == 'instance_light':
                u = c.get('url')[1:]
                children.append(dict(kind='LightNode', light=[u, u in ids['lights']]))
            elif name == 'instance_node':
                u = c.get('url')[1:]
                children.append(dict(kind='NodeNode', node=[u, u in ids['libnodes']]))
            elif name == 'extra':
                children.append(dict(kind='ExtraNode'))
        nid = n.get('id')
        return dict(kind='Node', id=nid, name=n.get('name') if n.get('name') is not None else nid, transforms=transforms,
                    matrix=numpy.asarray(M, dtype=numpy.float64).reshape(-1).tolist(), children=children)

    def animation(self, a, shared):
        for s in self.kids(a, 'source'):
            shared.add(s.get('id'))
        kids = [self.animation(c, shared) for c in self.kids(a, 'animation')]
        return dict(id=a.get('id') or '', name=a.get('name') or '', sources=shared, children=kids)

    # ------------------------------------------------------------------ document
    def read(self):
        ids = dict(
            images=[i.get('id') for i in self.libs('library_images', 'image')],
            effects=[e.get('id') for e in self.libs('library_effects', 'effect')],
            materials=[m.get('id') for m in self.libs('library_materials', 'material')],
            geometries=[g.get('id') or '' for g in self.libs('library_geometries', 'geometry') if self.kid(g, 'mesh') is not None],
            controllers=[c.get('id') for c in self.libs('library_controllers', 'controller')],
            lights=[l.get('id') for l in self.libs('library_lights', 'light')],
            cameras=[c.get('id', '') for c in self.libs('library_cameras', 'camera')],
            nodes=[n.get('id') for n in self.libs('library_nodes', 'node')],
            libnodes=[n.get('id') for n in self.libs('library_nodes', 'node')],
        )
        anims = []
        for a in self.libs('library_animations', 'animation'):
            shared = set()
            anims.append(self.animation(a, shared))

        def fin(a):
            a['sources'] = sorted(a['sources'])
            for c in a['children']:
                fin(c)
        for a in anims:
            fin(a)
        scenes = [dict(id=s.get('id'), nodes=[self.node(n, dict(ids, nodes=ids['nodes'] + [x.get('id') for x in self.kids(s, 'node')])) for n in self.kids(s, 'node')])
                  for s in self.libs('library_visual_scenes', 'visual_scene')]
        ivs = self.path(self.root, 'scene', 'instance_visual_scene')
        scene = None
        if ivs is not None:
            u = ivs.get('url')[1:]
            scene = [u, u in [s['id'] for s in scenes]]
        return dict(
            asset=self.asset(),
            images=[dict(id=i.get('id'), path=self.kid(i, 'init_from').text) for i in self.libs('library_images', 'image')],
            effects=[self.effect(e, ids['images']) for e in self.libs('library_effects', 'effect')],
            materials=[dict(id=m.get('id'), name=m.get('name'), effect=[self.kid(m, 'instance_effect').get('url')[1:],
                                                                       self.kid(m, 'instance_effect').get('url')[1:] in ids['effects']])
                       for m in self.libs('library_materials', 'material')],
            geometries=[self.geometry(g) for g in self.libs('library_geometries', 'geometry') if self.kid(g, 'mesh') is not None],
            animations=anims,
            lights=[self.light(l) for l in self.libs('library_lights', 'light')],
            cameras=[self.camera(c) for c in self.libs('library_cameras', 'camera')],
            nodes=[self.node(n, ids) for n in self.libs('library_nodes', 'node')],
            scenes=scenes, scene=scene,
        )


def raw_order(inputs, raw, vertices):
    """texcoord sets are exposed in the order the inputs are listed in the file (after <vertices> expansion at the end)"""
    out = []
    late = []
    explicit = set((off, sem, src, st) for off, sem, src, st in raw)
    for off, sem, src, st in raw:
        if sem == 'VERTEX' and src[1:] in vertices:
            for vsem, vsrc in vertices[src[1:]]:
                if vsem != 'POSITION' and (off, vsem, '#' + vsrc, st) in explicit:
                    continue
                late.append([off, 'VERTEX' if vsem == 'POSITION' else vsem, '#' + vsrc, st, vsrc])
        else:
            out.append([off, sem, src, st, src[1:]])
    return out + late


def translate(v):
    m = numpy.identity(4, dtype=numpy.float32)
    m[:3, 3] = v
    return m


def scale(v):
    m = numpy.identity(4, dtype=numpy.float32)
    m[0, 0], m[1, 1], m[2, 2] = v
    return m


def rotate(v):
    x, y, z, ang = [numpy.float32(t) for t in v]
    a = ang * numpy.pi / 180.0
    c, s = numpy.cos(a), numpy.sin(a)
    t = 1 - c
    return numpy.array([[t * x * x + c, t * x * y - s * z, t * x * z + s * y, 0],
                        [t * x * y + s * z, t * y * y + c, t * y * z - s * x, 0],
                        [t * x * z - s * y, t * y * z + s * x, t * z * z + c, 0],
                        [0, 0, 0, 1]], dtype=numpy.float32)


def lookat(v):
    """column-vector convention: origin -> eye, -Z -> interest"""
    eye, interest, up = [numpy.array(v[i:i + 3], dtype=numpy.float64) for i in (0, 3, 6)]
    f = eye - interest
    f = f / numpy.linalg.norm(f)
    s = numpy.cross(up, f)
    s = s / numpy.linalg.norm(s)
    u = numpy.cross(f, s)
    m = numpy.identity(4, dtype=numpy.float32)
    m[:3, 0], m[:3, 1], m[:3, 2], m[:3, 3] = s, u, f, eye
    return m


def read(data):
    return Reader(data).read()
