"""COLLADA document generator that is independent of pycollada's writer (C05, C07, C08, C15).

Builds an element tree directly from the COLLADA 1.4.1 grammar, covering constructs pycollada never writes:
tristrips / trifans / several <p>, inputs in arbitrary order with shared and gapped offsets, several texcoord sets,
NORMAL / TEXCOORD inside <vertices>, U,V and S,T,P accessors, NaN tokens, number-format and whitespace variants,
instance_node (forward, repeated, nested), <param ref>, newparams inside <technique>, cameras with all three
parameters, foreign-namespace extras, unmodelled libraries.  `generate(seed, opts)` is deterministic.
Options: ns (namespace URI), perm (permute top-level libraries), controllers (bool), anim (bool).
"""
import random
import xml.etree.ElementTree as ET

NS141 = 'http://www.collada.org/2005/11/COLLADASchema'
NS15 = 'http://www.collada.org/2008/03/COLLADASchema'


class Doc(object):
    def __init__(self, seed, opts=None):
        self.r = random.Random('docgen/%s' % (seed,))
        self.o = dict(ns=NS141, perm=False, anim=True, extras=True)
        self.o.update(opts or {})
        self.ns = self.o['ns']
        self.n = 0
        self.ids = {}

    def q(self, name):
        return '{%s}%s' % (self.ns, name)

    def el(self, tagname_, text=None, **attrs):
        e = ET.Element(self.q(tagname_), dict((k.rstrip('_'), str(v)) for k, v in attrs.items() if v is not None))
        if text is not None:
            e.text = text
        return e

    def sub(self, parent, tagname_, text=None, **attrs):
        e = self.el(tagname_, text, **attrs)
        parent.append(e)
        return e

    def uid(self, p):
        self.n += 1
        return '%s%d' % (p, self.n)

    # ------------------------------------------------------------------ number formatting
    def fnum(self, v):
        r = self.r
        k = r.random()
        if v == int(v) and abs(v) < 1e6 and k < 0.4:
            return str(int(v))
        if k < 0.55:
            return '%.9g' % v
        if k < 0.7:
            return '%e' % v if abs(v) < 1e20 else repr(v)
        if k < 0.8 and v >= 0 and not repr(v).startswith('-'):     # (-0.0 >= 0)
            return '+' + repr(v)
        return repr(v)

    def sep(self):
        return self.r.choice([' ', ' ', '  ', '\n', '\t', ' \n '])

    def floats(self, vals):
        s = self.r.choice(['', ' ', '\n   ']) + self.sep().join(self.fnum(v) for v in vals) + self.r.choice(['', ' ', '\n'])
        return s

    def ints(self, vals):
        return self.r.choice(['', ' ', '\n']) + self.sep().join(str(int(v)) for v in vals) + self.r.choice(['', ' '])

    def val(self):
        r = self.r
        return r.choice([0.0, 1.0, -1.0, 0.5, 2.0, 0.25, -3.5, 10.0, 1e-3, 123.456, float(r.randint(-20, 20)), round(r.uniform(-5, 5), 3)])

    # ------------------------------------------------------------------ libraries
    def asset(self):
        r = self.r
        a = self.el('asset')
        for _ in range(r.randint(0, 2)):
            c = self.sub(a, 'contributor')
            for nm in ('author', 'authoring_tool', 'comments', 'copyright', 'source_data'):
                if r.random() < 0.5:
                    self.sub(c, nm, r.choice(['x', 'some text', 'A B']))
        self.sub(a, 'created', '20%02d-0%d-1%dT0%d:1%d:2%d' % (r.randint(0, 20), r.randint(1, 9), r.randint(0, 9), r.randint(0, 9), r.randint(0, 9), r.randint(0, 9)))
        if r.random() < 0.5:
            self.sub(a, 'keywords', 'k1 k2')
        self.sub(a, 'modified', '2020-01-0%dT00:00:0%d' % (r.randint(1, 9), r.randint(0, 9)))
        if r.random() < 0.4:
            self.sub(a, 'revision', '2.1')
        if r.random() < 0.4:
            self.sub(a, 'subject', 'subj')
        if r.random() < 0.5:
            self.sub(a, 'title', 'The Title')
        if r.random() < 0.6:
            self.sub(a, 'unit', name=r.choice(['meter', 'inch']), meter=r.choice(['1', '0.0254', '1.0']))
        if r.random() < 0.7:
            self.sub(a, 'up_axis', r.choice(['X_UP', 'Y_UP', 'Z_UP']))
        return a

    def images(self):
        lib = self.el('library_images')
        for _ in range(self.r.randint(0, 3)):
            i = self.sub(lib, 'image', id=self.uid('img'), name=self.r.choice([None, 'n']))
            self.sub(i, 'init_from', self.r.choice(['./a.png', 'tex/b.jpg', '../c.tga']))
            self.ids.setdefault('images', []).append(i.get('id'))
        return lib

    def effects(self):
        r = self.r
        lib = self.el('library_effects')
        for _ in range(r.randint(0, 3)):
            e = self.sub(lib, 'effect', id=self.uid('fx'))
            prof = self.sub(e, 'profile_COMMON')
            tec = self.el('technique', sid='common')
            samplers, floats = [], []
            for _ in range(r.randint(0, 2) if self.ids.get('images') else 0):
                holder = prof if r.random() < 0.8 else tec
                sid = self.uid('surf')
                np_ = self.sub(holder, 'newparam', sid=sid)
                s = self.sub(np_, 'surface', type='2D')
                self.sub(s, 'init_from', r.choice(self.ids['images']))
                if r.random() < 0.6:
                    self.sub(s, 'format', r.choice(['A8R8G8B8', 'R8G8B8']))
                sid2 = self.uid('samp')
                # (the sampler may sit in the technique while its surface is a parameter of the profile)
                np2 = self.sub(holder if r.random() < 0.8 else tec, 'newparam', sid=sid2)
                s2 = self.sub(np2, 'sampler2D')
                self.sub(s2, 'source', sid)
                if r.random() < 0.5:
                    self.sub(s2, 'minfilter', 'LINEAR')
                if r.random() < 0.5:
                    self.sub(s2, 'magfilter', r.choice(['LINEAR', 'NEAREST']))
                samplers.append(sid2)
            if r.random() < 0.4:
                sid = self.uid('fparam')
                np_ = self.sub(prof, 'newparam', sid=sid)
                k = r.choice([1, 3, 4])
                self.sub(np_, {1: 'float', 3: 'float3', 4: 'float4'}[k], ' '.join(self.fnum(r.choice([0.0, 0.5, 1.0])) for _ in range(k)))
                floats.append((sid, k))
            prof.append(tec)
            shading = r.choice(['phong', 'lambert', 'blinn', 'constant'])
            sh = self.sub(tec, shading)
            allowed = {'phong': 10, 'blinn': 10, 'lambert': None, 'constant': None}
            props = ['emission', 'ambient', 'diffuse', 'specular', 'shininess', 'reflective', 'reflectivity', 'transparent', 'transparency', 'index_of_refraction']
            if shading == 'lambert':
                props = [p for p in props if p not in ('specular', 'shininess')]
            if shading == 'constant':
                props = [p for p in props if p not in ('ambient', 'diffuse', 'specular', 'shininess')]
            for p in props:
                if r.random() < 0.35:
                    continue
                pn = self.sub(sh, p)
                isf = p in ('shininess', 'reflectivity', 'transparency', 'index_of_refraction')
                k = r.random()
                fl = [f for f in floats if (f[1] == 1) == isf]
                if k < 0.15 and fl:
                    self.sub(pn, 'param', ref=r.choice(fl)[0])
                elif k < 0.2 and not self.o.get('schema'):
                    # a parameter reference that names no float/colour parameter (a sampler of the effect, or nothing): the property has no value
                    self.sub(pn, 'param', ref=r.choice(samplers + ['nowhere']))
                elif isf:
                    self.sub(pn, 'float', self.fnum(r.choice([0.0, 1.0, 0.5, 20.0])))
                elif k < 0.45 and samplers:
                    self.sub(pn, 'texture', texture=r.choice(samplers), texcoord=r.choice(['UVSET0', 'TEX']))
                else:
                    # (a colour of one or two components is padded like one of three: missing channels 0, alpha 1)
                    n = r.choice([3, 4, 4] if self.o.get('schema') else [1, 2, 3, 3, 4, 4])
                    self.sub(pn, 'color', self.floats([r.choice([0.0, 1.0, 0.5, 0.25]) for _ in range(n)]))
                if p == 'transparent' and r.random() < 0.5:
                    pn.set('opaque', r.choice(['A_ONE', 'RGB_ZERO']))
            if samplers and r.random() < 0.3:
                # a bump map, where exporters put it: in an <extra> of the technique
                ex = self.sub(tec, 'extra')
                t = self.sub(ex, 'technique', profile='FCOLLADA')
                self.sub(self.sub(t, 'bump'), 'texture', texture=r.choice(samplers), texcoord='BUMPUV')
            if r.random() < 0.3:
                ex = self.sub(prof, 'extra')
                t = self.sub(ex, 'technique', profile='GOOGLEEARTH')
                self.sub(t, 'double_sided', r.choice(['0', '1']))
            self.ids.setdefault('effects', []).append(e.get('id'))
        return lib

    def materials(self):
        lib = self.el('library_materials')
        for fx in self.ids.get('effects', []):
            for _ in range(self.r.randint(0, 2)):
                m = self.sub(lib, 'material', id=self.uid('mat'), name=self.r.choice([None, 'mname']))
                self.sub(m, 'instance_effect', url='#' + fx)
                self.ids.setdefault('materials', []).append(m.get('id'))
        return lib

    def source(self, mesh, sid, comps, nrows, kind='float'):
        r = self.r
        s = self.sub(mesh, 'source', id=sid)
        n = nrows * len(comps)
        vals = [self.val() for _ in range(n)]
        text = self.floats(vals)
        if n and r.random() < 0.15:
            toks = text.split()
            toks[r.randrange(len(toks))] = r.choice(['NaN', 'nan', 'INF', '-INF', 'inf'])
            text = ' '.join(toks)
        self.sub(s, 'float_array', text, id=sid + '-array', count=n)
        tc = self.sub(s, 'technique_common')
        acc = self.sub(tc, 'accessor', source='#' + sid + '-array', count=nrows, stride=len(comps))
        for c in comps:
            self.sub(acc, 'param', name=c, type='float')
        return s

    def geometry(self):
        r = self.r
        gid = self.uid('geom')
        g = self.el('geometry', id=gid, name=r.choice([None, 'gn']))
        mesh = self.sub(g, 'mesh')
        nv = r.randint(1, 6)
        self.source(mesh, gid + '-pos', ['X', 'Y', 'Z'], nv)
        have = {}
        if r.random() < 0.8:
            have['NORMAL'] = (gid + '-nor', r.randint(1, 5))
            self.source(mesh, gid + '-nor', ['X', 'Y', 'Z'], have['NORMAL'][1])
        texs = []
        for t in range(r.randint(0, 3)):
            comps = r.choice([['S', 'T'], ['S', 'T'], ['U', 'V'], ['S', 'T', 'P']])
            k = r.randint(1, 5)
            self.source(mesh, '%s-uv%d' % (gid, t), comps, k)
            texs.append(('%s-uv%d' % (gid, t), k))
        if r.random() < 0.3:
            # a source no input uses, with parameter names that LOOK like the ones the loader normalises (U,V -> S,T; S,T,P -> S,T)
            self.source(mesh, gid + '-aux', r.choice([['U', 'V', 'W'], ['S', 'T', 'Q'], ['U', 'V', 'W', 'Q'], ['S', 'T', 'P', 'Q'], ['V', 'U'], ['A']]), r.randint(1, 4))
        vid = gid + '-vtx'
        v = self.sub(mesh, 'vertices', id=vid)
        self.sub(v, 'input', semantic='POSITION', source='#' + gid + '-pos')
        vmin = nv
        vert_extra = []
        if 'NORMAL' in have and r.random() < 0.3:
            self.sub(v, 'input', semantic='NORMAL', source='#' + have['NORMAL'][0])
            vmin = min(vmin, have['NORMAL'][1])
            vert_extra.append('NORMAL')
        if texs and r.random() < 0.2:
            self.sub(v, 'input', semantic='TEXCOORD', source='#' + texs[0][0])
            vmin = min(vmin, texs[0][1])
            vert_extra.append('TEXCOORD')
        for _ in range(r.randint(0, 4)):
            kind = r.choice(['triangles', 'triangles', 'tristrips', 'trifans', 'lines', 'polylist', 'polygons'])
            # inputs: (semantic, source, limit)
            ins = [('VERTEX', vid, vmin)]
            if 'NORMAL' in have and 'NORMAL' not in vert_extra and r.random() < 0.7:
                ins.append(('NORMAL', have['NORMAL'][0], have['NORMAL'][1]))
            for i, (tid, k) in enumerate(texs):
                if r.random() < 0.7:
                    ins.append(('TEXCOORD', tid, k))
            # offsets: shared, distinct, gapped
            offs, cur = [], 0
            for i in range(len(ins)):
                offs.append(cur)
                cur += r.choice([0, 1, 1, 1, 2])
            r.shuffle(offs)           # the VERTEX input need not be at offset 0
            stride = max(offs) + 1
            limit = [None] * stride
            for (sem, src, lim), o in zip(ins, offs):
                limit[o] = lim if limit[o] is None else min(limit[o], lim)
            order = list(range(len(ins)))
            r.shuffle(order)
            p = self.sub(mesh, kind, material=r.choice([None, 'sym0', 'sym1']))
            setno = 0
            for i in order:
                sem, src, lim = ins[i]
                st = None
                if sem == 'TEXCOORD':
                    st = setno if r.random() < 0.8 else None
                    setno += 1
                self.sub(p, 'input', semantic=sem, source='#' + src, offset=offs[i], set_=st)

            def corner():
                return [r.randrange(l) if l else r.randint(0, 3) for l in limit]

            def stream(n):
                return [x for _ in range(n) for x in corner()]
            if kind == 'triangles':
                n = r.randint(0, 4)
                p.set('count', str(n))
                self.sub(p, 'p', self.ints(stream(3 * n)) if n or r.random() < 0.5 else '   ')
            elif kind == 'lines':
                n = r.randint(0, 4)
                p.set('count', str(n))
                self.sub(p, 'p', self.ints(stream(2 * n)) if n or r.random() < 0.5 else '')
            elif kind in ('tristrips', 'trifans'):
                np_ = r.randint(1, 3)
                p.set('count', str(np_))
                for _ in range(np_):
                    self.sub(p, 'p', self.ints(stream(r.choice([0, 1, 2, 3, 4, 5, 6, 7]))))
            elif kind == 'polylist':
                vc = [r.choice([3, 4, 5, 3, 0, 1, 2]) for _ in range(r.randint(0, 4))]
                p.set('count', str(len(vc)))
                self.sub(p, 'vcount', self.ints(vc))
                self.sub(p, 'p', self.ints(stream(sum(vc))))
            else:
                np_ = r.randint(1, 3)
                p.set('count', str(np_))
                for _ in range(np_):
                    self.sub(p, 'p', self.ints(stream(r.choice([3, 4, 5, 3, 6]))))
        if r.random() < 0.2:
            ex = self.sub(g, 'extra')
            t = self.sub(ex, 'technique', profile='MAX3D')
            self.sub(t, 'double_sided', r.choice(['0', '1']))
        self.ids.setdefault('geometries', []).append(gid)
        return g

    def geometries(self):
        lib = self.el('library_geometries')
        for _ in range(self.r.randint(0, 3)):
            lib.append(self.geometry())
        if self.r.random() < 0.2:
            g = self.sub(lib, 'geometry', id=self.uid('spline'))
            self.sub(g, 'spline')         # unsupported geometry kinds are skipped by the loader
        return lib

    def lights(self):
        r = self.r
        lib = self.el('library_lights')
        for _ in range(r.randint(0, 3)):
            l = self.sub(lib, 'light', id=self.uid('light'), name=r.choice([None, 'ln']))
            tc = self.sub(l, 'technique_common')
            k = r.choice(['directional', 'ambient', 'point', 'spot'])
            e = self.sub(tc, k)
            self.sub(e, 'color', self.floats([r.choice([0.0, 1.0, 0.5]) for _ in range(3)]))
            if k in ('point', 'spot'):
                for nm in ('constant_attenuation', 'linear_attenuation', 'quadratic_attenuation'):
                    if r.random() < 0.5:
                        self.sub(e, nm, self.fnum(r.choice([0.0, 1.0, 0.5])))
            if k == 'point' and r.random() < 0.4:
                self.sub(e, 'zfar', self.fnum(50.0))
            if k == 'spot':
                if r.random() < 0.5:
                    self.sub(e, 'falloff_angle', self.fnum(45.0))
                if r.random() < 0.5:
                    self.sub(e, 'falloff_exponent', self.fnum(1.0))
            self.ids.setdefault('lights', []).append(l.get('id'))
        return lib

    def cameras(self):
        r = self.r
        lib = self.el('library_cameras')
        for _ in range(r.randint(0, 3)):
            c = self.sub(lib, 'camera', id=self.uid('cam'))
            o = self.sub(c, 'optics')
            tc = self.sub(o, 'technique_common')
            persp = r.random() < 0.5
            e = self.sub(tc, 'perspective' if persp else 'orthographic')
            a, b = ('xfov', 'yfov') if persp else ('xmag', 'ymag')
            combo = r.choice([(1, 0, 0), (0, 1, 0), (1, 0, 1), (0, 1, 1), (1, 1, 0), (1, 1, 1)])
            if combo[0]:
                self.sub(e, a, self.fnum(r.choice([30.0, 45.0, 2.5])))
            if combo[1]:
                self.sub(e, b, self.fnum(r.choice([30.0, 60.0, 1.5])))
            if combo[2]:
                self.sub(e, 'aspect_ratio', self.fnum(r.choice([1.0, 1.5, 1.333])))
            self.sub(e, 'znear', self.fnum(r.choice([0.1, 1.0])))
            self.sub(e, 'zfar', self.fnum(r.choice([100.0, 1000.0])))
            self.ids.setdefault('cameras', []).append(c.get('id'))
        return lib

    def transform(self):
        r = self.r
        k = r.choice(['translate', 'rotate', 'scale', 'matrix', 'lookat'])
        v = lambda: float(r.choice([0, 1, -1, 2, 0.5, -3, 10, r.randint(-8, 8) / 4.0]))
        if k in ('translate', 'scale'):
            return self.el(k, self.floats([v(), v(), v()]))
        if k == 'rotate':
            ax = r.choice([(1, 0, 0), (0, 1, 0), (0, 0, 1), (0.6, 0.8, 0)])
            return self.el(k, self.floats(list(ax) + [float(r.choice([0, 90, 180, -90, 45, 30]))]))
        if k == 'matrix':
            return self.el(k, self.floats([float(r.randint(-3, 3)) for _ in range(12)] + [0.0, 0.0, 0.0, 1.0]))
        while True:
            eye = [v(), v(), v()]
            it = [v(), v(), v()]
            up = list(r.choice([(0, 1, 0), (0, 0, 1), (1, 0, 0)]))
            d = [a - b for a, b in zip(it, eye)]
            cr = [d[1] * up[2] - d[2] * up[1], d[2] * up[0] - d[0] * up[2], d[0] * up[1] - d[1] * up[0]]
            if sum(x * x for x in d) > 0.1 and sum(x * x for x in cr) > 0.1:
                return self.el('lookat', self.floats(eye + it + [float(x) for x in up]))

    def bind_material(self, inst):
        r = self.r
        if not self.ids.get('materials') or r.random() < 0.4:
            return
        bm = self.sub(inst, 'bind_material')
        tc = self.sub(bm, 'technique_common')
        for _ in range(r.randint(1, 3)):
            im = self.sub(tc, 'instance_material', symbol=r.choice(['sym0', 'sym1', 'sym2']), target='#' + r.choice(self.ids['materials']))
            for _ in range(r.randint(0, 2)):
                self.sub(im, 'bind_vertex_input', semantic=r.choice(['UVSET0', 'TEX']), input_semantic='TEXCOORD', input_set=r.choice([None, '0', '1']))

    def node(self, depth, targets):
        r = self.r
        nid = self.uid('node') if r.random() < 0.9 else None
        n = self.el('node', id=nid, name=r.choice([None, None, 'nm']))
        if r.random() < 0.15:
            n.append(self.asset())       # a node may carry asset information of its own (imported sub-assets do)
        for _ in range(r.randint(0, 3)):
            n.append(self.transform())
        for _ in range(r.randint(0, 4)):
            k = r.choice(['geom', 'geom', 'light', 'cam', 'inode', 'node', 'node', 'extra'])
            if k == 'geom' and self.ids.get('geometries'):
                i = self.sub(n, 'instance_geometry', url='#' + r.choice(self.ids['geometries']))
                self.bind_material(i)
            elif k == 'light' and self.ids.get('lights'):
                self.sub(n, 'instance_light', url='#' + r.choice(self.ids['lights']))
            elif k == 'cam' and self.ids.get('cameras'):
                self.sub(n, 'instance_camera', url='#' + r.choice(self.ids['cameras']))
            elif k == 'inode' and targets:
                self.sub(n, 'instance_node', url='#' + r.choice(targets))
            elif k == 'node' and depth > 0:
                n.append(self.node(depth - 1, targets))
            elif k == 'extra' and self.o['extras']:
                ex = self.sub(n, 'extra')
                t = self.sub(ex, 'technique', profile='X')
                f = ET.SubElement(t, '{urn:foreign}thing', {'a': '1'})
                f.text = 'payload'
        return n

    def library_nodes(self):
        r = self.r
        lib = self.el('library_nodes')
        k = r.randint(0, 4)
        idsn = [self.uid('lnode') for _ in range(k)]
        order = list(range(k))
        # node i may only instantiate nodes with a LARGER index (acyclic); document order is shuffled, so
        # references are forward, backward and chained
        nodes = []
        for i in range(k):
            n = self.node(1, idsn[i + 1:])
            n.set('id', idsn[i])
            nodes.append(n)
        r.shuffle(order)
        for i in order:
            lib.append(nodes[i])
        self.ids['nodes'] = idsn
        return lib

    def scenes(self):
        r = self.r
        lib = self.el('library_visual_scenes')
        for _ in range(r.randint(1, 2)):
            s = self.sub(lib, 'visual_scene', id=self.uid('scene'))
            chain = r.random() < 0.3
            k = r.randint(3, 4) if chain else r.randint(0, 3)
            rootids = [self.uid('root') for _ in range(k)]
            roots = []
            for i in range(k):
                n = self.node(2, self.ids.get('nodes', []) + rootids[i + 1:])
                n.set('id', rootids[i])
                if chain and i + 1 < k:
                    # a chain of references through the top-level nodes: each instantiates the next one
                    n.insert(len([c for c in n if c.tag.split('}')[1] in ('asset', 'translate', 'rotate', 'scale', 'matrix', 'lookat', 'skew')]),
                             self.el('instance_node', url='#' + rootids[i + 1]))
                roots.append(n)
            order = list(range(k))
            if not chain or r.random() < 0.5:       # (a chain left in document order refers forward at every hop)
                r.shuffle(order)
            for i in order:
                s.append(roots[i])
            self.ids.setdefault('scenes', []).append(s.get('id'))
        return lib

    def animations(self):
        r = self.r
        lib = self.el('library_animations')

        def anim(depth):
            a = self.el('animation', id=self.uid('anim'), name=r.choice([None, 'an']))
            for _ in range(r.randint(0, 2)):
                sid = self.uid('asrc')
                self.source(a, sid, ['TIME'], r.randint(1, 3))
            if depth and r.random() < 0.5:
                a.append(anim(depth - 1))
            return a
        for _ in range(r.randint(0, 2)):
            lib.append(anim(2))
        return lib

    def build(self):
        r = self.r
        root = ET.Element(self.q('COLLADA'), {'version': '1.4.1'})
        a = self.asset()               # required by the schema
        if not self.o.get('noasset'):
            root.append(a)
        libs = [self.images(), self.effects(), self.materials(), self.geometries(), self.lights(), self.cameras(),
                self.library_nodes(), self.scenes()]
        if self.o['anim']:
            libs.append(self.animations())
        if r.random() < 0.3:
            pm = self.el('library_physics_materials')
            self.sub(pm, 'physics_material', id=self.uid('pm'))
            libs.append(pm)
        libs = [l for l in libs if len(l) or r.random() < 0.5]
        if r.random() < 0.2 and not self.o.get('schema'):
            # several library elements of one kind that hold nothing the loader keeps
            kind = r.choice(['library_controllers', 'library_force_fields'] + [l.tag.split('}')[1] for l in libs if not len(l)])
            if not any(l.tag.split('}')[1] == kind and len(l) for l in libs):
                for _ in range(r.randint(2, 3)):
                    libs.append(self.el(kind))
        # the schema allows any number of library elements of one kind: split some
        for l in list(libs):
            if len(l) >= 2 and r.random() < 0.15:
                second = ET.Element(l.tag)
                for ch in list(l)[len(l) // 2:]:
                    l.remove(ch)
                    second.append(ch)
                libs.insert(libs.index(l) + 1 + (r.randrange(len(libs)) if self.o['perm'] else 0), second)
        if self.o['perm']:
            r.shuffle(libs)
        for l in libs:
            root.append(l)
        if self.ids.get('scenes') and r.random() < 0.85:
            sc = self.sub(root, 'scene')
            self.sub(sc, 'instance_visual_scene', url='#' + r.choice(self.ids['scenes']))
        if self.o['extras'] and r.random() < 0.3:
            ex = self.sub(root, 'extra')
            self.sub(ex, 'technique', profile='TOP')
        return root


def generate(seed, opts=None):
    """returns document bytes. The tree is built under the 1.4.1 URI (serialised as the default namespace, which
    collada registers at import) or under a scratch URI (serialised with an ns0: prefix) and the URI is then replaced
    textually by the requested one - no global ElementTree state is touched."""
    opts = dict(opts or {})
    target = opts.get('ns', NS141)
    internal = 'urn:x-docgen-scratch' if opts.get('prefixed') else NS141
    d = Doc(seed, dict(opts, ns=internal))
    root = d.build()
    data = ET.tostring(root, encoding='utf-8')
    return data.replace(internal.encode(), target.encode())
