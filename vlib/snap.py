"""Canonical public snapshot of a collada.Collada document model (what the properties observe).

Everything is rendered to plain JSON-able python values: floats as python floats (float32 values
convert exactly), numpy arrays as nested lists, references as the id of the referenced object
plus an identity flag (`same`: the referenced object IS the library object carrying that id).
Nothing here calls save()/write(); only public attributes are read.
"""
import numpy


def _f(x):
    if x is None:
        return None
    if isinstance(x, (numpy.floating, float, int, numpy.integer)):
        return float(x)
    return x


def _arr(a):
    if a is None:
        return None
    return numpy.asarray(a).tolist()


def _norm7(a):
    """the values the writer emits ('%.7g') read back as float32"""
    flat = numpy.asarray(a, dtype=numpy.float64).reshape(-1).tolist()
    out = numpy.array([float('%.7g' % v) for v in flat], dtype=numpy.float32)
    return out.reshape(numpy.asarray(a).shape).tolist()


def _ref(obj, lib):
    """reference to a library object: [id, identity-ok]"""
    if obj is None:
        return None
    oid = getattr(obj, 'id', None)
    same = lib is not None and any(x is obj for x in list.__iter__(lib))
    return [oid, bool(same)]


def snap_asset(a):
    if a is None:
        return None

    def d(x):
        return None if x is None else (x.isoformat() if hasattr(x, 'isoformat') else str(x))
    return dict(created=d(a.created), modified=d(a.modified), title=a.title, subject=a.subject, revision=a.revision,
                keywords=a.keywords, unitname=a.unitname, unitmeter=_f(a.unitmeter), upaxis=a.upaxis,
                contributors=[[c.author, c.authoring_tool, c.comments, c.copyright, c.source_data] for c in a.contributors])


def snap_source(s, norm7=False):
    kind = type(s).__name__
    data = s.data
    if isinstance(data, numpy.ndarray) and data.ndim == 1 and len(s.components):
        data = data.reshape(-1, len(s.components))      # assigned in the unshaped form the constructor takes
    if kind == 'FloatSource':
        data = _norm7(data) if norm7 else _arr(data)
    else:
        data = _arr(data)
    return dict(kind=kind, id=s.id, components=list(s.components), data=data)


def snap_prim(p):
    kind = type(p).__name__
    inputs = []
    for sem, tupes in p.sources.items():
        for t in tupes:
            inputs.append([int(t[0]), t[1], t[2], None if t[3] is None else str(t[3]), getattr(t[4], 'id', None)])
    inputs.sort(key=lambda t: (t[0], str(t[1]), str(t[3]), str(t[2])))
    out = dict(kind=kind, material=p.material, inputs=inputs, n=len(p))
    idx = p.index
    out['index'] = None if idx is None else numpy.asarray(idx).reshape(-1).tolist()
    out['vertex_index'] = _arr(p.vertex_index)
    out['normal_index'] = _arr(p.normal_index)
    out['texcoord_indexset'] = [_arr(t) for t in p.texcoord_indexset]
    if hasattr(p, 'vcounts'):
        out['vcounts'] = _arr(p.vcounts)
    return out


def snap_geometry(g, norm7=False):
    sources, vertices = [], []
    for key, s in g.sourceById.items():
        if isinstance(s, dict):
            vertices.append([key, sorted([sem, getattr(src, 'id', None)] for sem, src in s.items())])
        else:
            if key != s.id:
                vertices.append([key, 'alias:' + str(s.id)])
            else:
                sources.append(snap_source(s, norm7))
    return dict(id=g.id, name=g.name, double_sided=bool(g.double_sided), sources=sources, vertices=sorted(vertices, key=str),
                primitives=[snap_prim(p) for p in g.primitives])


def snap_effect(e, doc):
    from collada import material
    params = []
    for p in e.params:
        if isinstance(p, material.Surface):
            params.append(['surface', p.id, _ref(p.image, doc.images), p.format])
        elif isinstance(p, material.Sampler2D):
            params.append(['sampler2D', p.id, p.surface.id, p.surface in e.params, p.minfilter, p.magfilter])
        else:
            params.append(['other', repr(type(p))])

    def val(v):
        if v is None:
            return None
        if isinstance(v, material.Map):
            return ['map', v.sampler.id, v.sampler in e.params, v.texcoord]
        if isinstance(v, (tuple, list)):
            return ['color'] + [float(x) for x in v]
        if isinstance(v, (int, float, numpy.floating, numpy.integer)):
            return ['float', float(v)]
        return ['not-a-value', type(v).__name__, getattr(v, 'id', None)]      # whatever else the loader put there
    out = dict(id=e.id, shadingtype=e.shadingtype, double_sided=bool(e.double_sided), opaque_mode=e.opaque_mode,
               params=params, bumpmap=val(e.bumpmap))
    for prop in e.supported:
        out[prop] = val(getattr(e, prop))
    return out


def snap_light(l):
    kind = type(l).__name__
    out = dict(kind=kind, id=l.id, color=[float(x) for x in l.color])
    for a in ('constant_att', 'linear_att', 'quad_att', 'zfar', 'falloff_ang', 'falloff_exp'):
        if hasattr(l, a):
            out[a] = _f(getattr(l, a))
    return out


def snap_camera(c):
    kind = type(c).__name__
    out = dict(kind=kind, id=c.id, znear=_f(c.znear), zfar=_f(c.zfar), aspect_ratio=_f(c.aspect_ratio))
    for a in ('xfov', 'yfov', 'xmag', 'ymag'):
        if hasattr(c, a):
            out[a] = _f(getattr(c, a))
    return out


def _f32(x):
    return None if x is None else float(numpy.float32(x))


def snap_transform(t):
    """parameters as float32 (the loader parses them as float32; seven digits are what the file carries)"""
    kind = type(t).__name__
    _f = _f32
    if kind == 'TranslateTransform' or kind == 'ScaleTransform':
        return [kind, _f(t.x), _f(t.y), _f(t.z)]
    if kind == 'RotateTransform':
        return [kind, _f(t.x), _f(t.y), _f(t.z), _f(t.angle)]
    if kind == 'MatrixTransform':
        return [kind] + numpy.asarray(t.matrix, dtype=numpy.float32).reshape(-1).astype(numpy.float64).tolist()
    if kind == 'LookAtTransform':
        return [kind] + [_f32(x) for x in list(t.eye) + list(t.interest) + list(t.upvector)]
    return [kind]


def _transform_matrix(t):
    """the matrix the transform's CURRENT parameters imply (t.matrix is only refreshed by save())"""
    from collada import scene
    kind = type(t).__name__
    if kind == 'TranslateTransform':
        return scene.TranslateTransform(t.x, t.y, t.z).matrix
    if kind == 'ScaleTransform':
        return scene.ScaleTransform(t.x, t.y, t.z).matrix
    if kind == 'RotateTransform':
        return scene.RotateTransform(t.x, t.y, t.z, t.angle).matrix
    if kind == 'LookAtTransform':
        return scene.LookAtTransform(t.eye, t.interest, t.upvector).matrix
    return t.matrix


def snap_matnode(m, doc):
    return dict(symbol=m.symbol, target=_ref(m.target, doc.materials),
                inputs=[[i[0], i[1], None if i[2] is None else str(i[2])] for i in m.inputs])


def snap_node(n, doc, depth=0):
    from collada import scene
    kind = type(n).__name__
    if depth > 60:
        return dict(kind='too-deep')
    if isinstance(n, scene.NodeNode):
        return dict(kind='NodeNode', node=_ref(n.node, doc.nodes))
    if isinstance(n, scene.Node):
        if DERIVE_MATRIX:
            # the matrix the transform list implies (Node.matrix itself is only refreshed by save())
            m = numpy.identity(4, dtype=numpy.float32)
            for t in n.transforms:
                m = numpy.dot(m, _transform_matrix(t))
        else:
            m = n.matrix
        return dict(kind='Node', id=n.id, name=(n.id if n.name is None else n.name), transforms=[snap_transform(t) for t in n.transforms],
                    matrix=numpy.asarray(m, dtype=numpy.float64).reshape(-1).tolist(),
                    children=[snap_node(c, doc, depth + 1) for c in n.children])
    if isinstance(n, scene.GeometryNode):
        return dict(kind=kind, geometry=_ref(n.geometry, doc.geometries), materials=[snap_matnode(m, doc) for m in n.materials])
    if isinstance(n, scene.ControllerNode):
        return dict(kind=kind, controller=_ref(n.controller, doc.controllers), materials=[snap_matnode(m, doc) for m in n.materials])
    if isinstance(n, scene.CameraNode):
        return dict(kind=kind, camera=_ref(n.camera, doc.cameras))
    if isinstance(n, scene.LightNode):
        return dict(kind=kind, light=_ref(n.light, doc.lights))
    if isinstance(n, scene.ExtraNode):
        return dict(kind=kind)
    return dict(kind=kind)


def snap_controller(c, doc):
    from collada import controller
    if isinstance(c, controller.Skin):
        return dict(kind='Skin', id=c.id, geometry=_ref(c.geometry, doc.geometries),
                    bind_shape_matrix=_arr(c.bind_shape_matrix),
                    joints=_arr(c.weight_joints.data) if hasattr(c, 'weight_joints') else None,
                    nverts=len(c.index) if hasattr(c, 'index') else None)
    if isinstance(c, controller.Morph):
        return dict(kind='Morph', id=c.id, geometry=_ref(c.source_geometry, doc.geometries),
                    targets=[[_ref(t, doc.geometries), _f(w)] for t, w in c.target_list])
    return dict(kind=type(c).__name__, id=getattr(c, 'id', None))


def snap_animation(a):
    return dict(id=a.id, name=a.name, sources=sorted(k for k in a.sourceById), children=[snap_animation(c) for c in a.children])


DERIVE_MATRIX = False


def snapshot(doc, norm7=False, errors=True, derive_matrix=False):
    global DERIVE_MATRIX
    DERIVE_MATRIX = derive_matrix
    out = dict(
        asset=snap_asset(doc.assetInfo),
        images=[dict(id=i.id, path=i.path) for i in doc.images],
        effects=[snap_effect(e, doc) for e in doc.effects],
        materials=[dict(id=m.id, name=m.name, effect=_ref(m.effect, doc.effects)) for m in doc.materials],
        geometries=[snap_geometry(g, norm7) for g in doc.geometries],
        controllers=[snap_controller(c, doc) for c in doc.controllers],
        animations=[snap_animation(a) for a in doc.animations],
        lights=[snap_light(l) for l in doc.lights],
        cameras=[snap_camera(c) for c in doc.cameras],
        nodes=[snap_node(n, doc) for n in doc.nodes],
        scenes=[dict(id=s.id, nodes=[snap_node(n, doc) for n in s.nodes]) for s in doc.scenes],
        scene=_ref(doc.scene, doc.scenes),
    )
    if errors:
        out['errors'] = [type(e).__name__ for e in doc.errors]
    return out


EXACT = [False]


def diff_exact(a, b, limit=8):
    """diff without the tolerance for derived matrices: for states that must be bit-identical (a save of an unedited model)"""
    EXACT[0] = True
    try:
        return diff(a, b, limit=limit)
    finally:
        EXACT[0] = False


def diff(a, b, path='', out=None, limit=8):
    """first few paths at which two snapshots differ"""
    if out is None:
        out = []
    if len(out) >= limit:
        return out
    if type(a) != type(b) and not (isinstance(a, (int, float)) and isinstance(b, (int, float))):
        out.append('%s: %r != %r' % (path, _short(a), _short(b)))
    elif isinstance(a, dict):
        for k in sorted(set(a) | set(b), key=str):
            if k not in a or k not in b:
                out.append('%s.%s: %s' % (path, k, 'missing on the left' if k not in a else 'missing on the right'))
            else:
                diff(a[k], b[k], '%s.%s' % (path, k), out, limit)
    elif isinstance(a, list):
        if len(a) != len(b):
            out.append('%s: length %d != %d (%s | %s)' % (path, len(a), len(b), _short(a), _short(b)))
        elif path.endswith('.matrix') and not EXACT[0] and a and all(isinstance(v, (int, float)) for v in a + b):
            # a derived node matrix: a float32 product of float32-rounded parameters; an entry may be the small difference of large
            # terms, so the rounding is judged against the size of the matrix, not of the entry
            finite = [abs(v) for v in a + b if v == v and abs(v) != float('inf')]
            scale = max(finite) if finite else 0.0
            for i, (x, y) in enumerate(zip(a, b)):
                same = x == y or (x != x and y != y) or abs(x - y) <= 4e-6 * (1.0 + scale) or abs(x - y) <= 2e-5 * (1.0 + abs(x) + abs(y))
                if not same and len(out) < limit:
                    out.append('%s[%d]: %r != %r' % (path, i, _short(x), _short(y)))
        else:
            for i, (x, y) in enumerate(zip(a, b)):
                diff(x, y, '%s[%d]' % (path, i), out, limit)
    else:
        same = a == b or (isinstance(a, float) and isinstance(b, float) and a != a and b != b)
        if not same and not EXACT[0] and '.matrix[' in path and isinstance(a, (int, float)) and isinstance(b, (int, float)):
            # derived node matrices: float32 products of float32-rounded parameters
            same = abs(a - b) <= 2e-5 * (1.0 + abs(a) + abs(b))
        if not same:
            out.append('%s: %r != %r' % (path, _short(a), _short(b)))
    return out


def _short(x):
    s = repr(x)
    return s if len(s) < 120 else s[:117] + '...'
