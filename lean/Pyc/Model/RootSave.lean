/-
The children of `<COLLADA>` through `Collada.save()`, by element name: the asset element is put first, each managed library element is
created, kept (once) or removed according to whether its list holds objects, `<scene>` is created in front of the top-level extras when
there is a default scene.  Everything else (unmanaged libraries, extras, a second `<asset>`) stays where it is.
Core Lean only (driver: lean/drv/C03c.lean).
-/
namespace Pyc.RootSave

/-- number of children named `y` -/
def cnt (y : String) : List String → Nat
  | [] => 0
  | k :: ks => (if k = y then 1 else 0) + cnt y ks

/-- Python's `list.insert(n, x)` -/
def insertAt : Nat → String → List String → List String
  | 0, x, l => x :: l
  | _ + 1, x, [] => [x]
  | n + 1, x, k :: ks => k :: insertAt n x ks

/-- every element named `name` goes -/
def dropAll (name : String) : List String → List String
  | [] => []
  | k :: ks => if k = name then dropAll name ks else k :: dropAll name ks

/-- the first element named `name` stays, the later ones go -/
def keepFirst (name : String) : List String → List String
  | [] => []
  | k :: ks => if k = name then k :: dropAll name ks else k :: keepFirst name ks

def eraseFirst (name : String) : List String → List String
  | [] => []
  | k :: ks => if k = name then ks else k :: eraseFirst name ks

/-- `for i, node in enumerate(root): if node.tag == name: loc = i + 1` -/
def afterLastAux (name : String) : List String → Nat → Nat → Nat
  | [], _, acc => acc
  | k :: ks, i, acc => afterLastAux name ks (i + 1) (if k = name then i + 1 else acc)

/-- index after the LAST child named `name` (0 when there is none) -/
def afterLast (name : String) (l : List String) : Nat := afterLastAux name l 0 0

/-- `self.assetInfo.save(); remove the first <asset>; insert the asset element at 0` -/
def assetStep (kids : List String) : List String := "asset" :: eraseFirst "asset" kids

/-- one round of the library loop of `Collada.save` for the library element `name` -/
def saveLib (nonEmpty : String → Bool) (loc : Nat) (kids : List String) (name : String) : List String :=
  if cnt name kids = 0 then (if nonEmpty name then insertAt loc name kids else kids)
  else if nonEmpty name then keepFirst name kids
  else dropAll name kids

def firstIdx (name : String) : List String → Nat
  | [] => 0
  | k :: ks => if k = name then 0 else firstIdx name ks + 1

/-- `<scene>` is created in front of the first top-level `<extra>` (at the end when there is none) when the document has a default scene -/
def sceneStep (hasScene : Bool) (kids : List String) : List String :=
  if cnt "scene" kids = 0 ∧ hasScene then insertAt (firstIdx "extra" kids) "scene" kids else kids

/-- the children of `<COLLADA>` after `Collada.save()`, by element name -/
def saveRoot (libs : List String) (nonEmpty : String → Bool) (hasScene : Bool) (kids : List String) : List String :=
  let k1 := assetStep kids
  sceneStep hasScene (libs.foldl (saveLib nonEmpty (afterLast "asset" k1)) k1)

/-- the library loop as it would be if the further elements of one kind were only looked for when the library is kept
    (a seeded change, C01m): an emptied library loses ONE of its elements per save -/
def saveLibLate (nonEmpty : String → Bool) (loc : Nat) (kids : List String) (name : String) : List String :=
  if cnt name kids = 0 then (if nonEmpty name then insertAt loc name kids else kids)
  else if nonEmpty name then keepFirst name kids
  else eraseFirst name kids

def saveRootLate (libs : List String) (nonEmpty : String → Bool) (hasScene : Bool) (kids : List String) : List String :=
  let k1 := assetStep kids
  sceneStep hasScene (libs.foldl (saveLibLate nonEmpty (afterLast "asset" k1)) k1)

end Pyc.RootSave
