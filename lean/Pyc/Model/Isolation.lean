/-
C20 — documents are isolated from one another.

Two layers.

1. A generic scheduler.  The system state is `docs : Nat → D` (one slot per document id) plus
   process-wide globals `G` (module dicts, class attributes, ElementTree's namespace map).
   An operation of the *frame type* `FrameOp D O = D → D × O` receives the state of ONE document
   and nothing else: no `G`, no other slot.  `run σ s` executes a schedule `σ` (any interleaving,
   at operation granularity, of any number of operations on any set of documents).
   A deliberately *leaky* variant (`LeakyOp`, `runL`) lets an operation read and write `G` —
   that is what a module-level `tag` reassigned by `load`, or a shared `maskedErrors` default,
   looks like — so that the negative theorem in Props/C20.lean can exhibit a failing schedule.

2. The per-document state machine of pycollada that the C20 correspondence drives
   (`DocState`, `Op`, `apply`), mirroring collada/__init__.py:
     Collada.__init__    errors = [], ten empty libraries, tag = default, maskedErrors = ignore,
                         then tag = tagger(namespace of the root element), then the library
                         loaders in the order of `loadOrder`; each loader finds only elements
                         whose tag carries the document's namespace; a failing item is appended
                         to `errors` and re-raised unless an entry of the mask is a superclass
                         (`handleError`); an XML parse error is raised outright.
     ignoreErrors(*cs)   appends to maskedErrors
     library edits       append an object / remove the object carrying an id
     write(sink)         the root element keeps the namespace it was loaded with
     queries             len / triangleset() / scene.objects(...) change nothing that is modelled
   A raised constructor leaves the caller's variable as it was: the slot is unchanged.
   Tied to the source by props/c20.py (real per-document observables of interleaved runs vs
   this machine's projection, module-state monitor, object-graph disjointness, solo runs).
-/
namespace Pyc.Iso

/-! ## 1. generic scheduler -/

structure Sys (D G : Type) where
  docs : Nat → D
  globals : G

/-- the frame type: one document in, the same document and an output out -/
abbrev FrameOp (D O : Type) := D → D × O

/-- one schedule entry: which document, which operation -/
structure Ev (D O : Type) where
  doc : Nat
  op : FrameOp D O

def setDoc {D : Type} (f : Nat → D) (i : Nat) (d : D) : Nat → D :=
  fun j => if j = i then d else f j

def stepSys {D G O : Type} (s : Sys D G) (e : Ev D O) : Sys D G × O :=
  let r := e.op (s.docs e.doc)
  ({ s with docs := setDoc s.docs e.doc r.1 }, r.2)

/-- run a schedule; the trace records (document, output) in execution order -/
def run {D G O : Type} : List (Ev D O) → Sys D G → Sys D G × List (Nat × O)
  | [], s => (s, [])
  | e :: σ, s =>
    let r := stepSys s e
    let rest := run σ r.1
    (rest.1, (e.doc, r.2) :: rest.2)

/-- handling one document alone -/
def runSolo {D O : Type} : List (FrameOp D O) → D → D × List O
  | [], d => (d, [])
  | f :: fs, d =>
    let r := f d
    let rest := runSolo fs r.1
    (rest.1, r.2 :: rest.2)

/-- the operations a schedule applies to document `i`, in order -/
def opsOf {D O : Type} (i : Nat) (σ : List (Ev D O)) : List (FrameOp D O) :=
  (σ.filter (fun e => e.doc = i)).map (·.op)

/-- the outputs a trace shows for document `i`, in order -/
def outsOf {O : Type} (i : Nat) (tr : List (Nat × O)) : List O :=
  (tr.filter (fun p => p.1 = i)).map (·.2)

/-- what an observer of document `i` sees of a run: its final state and its outputs -/
def proj {D G O : Type} (i : Nat) (r : Sys D G × List (Nat × O)) : D × List O :=
  (r.1.docs i, outsOf i r.2)

/-! ### leaky variant: operations that see the globals -/

abbrev LeakyOp (D G O : Type) := G → D → G × D × O

structure LEv (D G O : Type) where
  doc : Nat
  op : LeakyOp D G O

def stepL {D G O : Type} (s : Sys D G) (e : LEv D G O) : Sys D G × O :=
  let r := e.op s.globals (s.docs e.doc)
  ({ docs := setDoc s.docs e.doc r.2.1, globals := r.1 }, r.2.2)

def runL {D G O : Type} : List (LEv D G O) → Sys D G → Sys D G × List (Nat × O)
  | [], s => (s, [])
  | e :: σ, s =>
    let r := stepL s e
    let rest := runL σ r.1
    (rest.1, (e.doc, r.2) :: rest.2)

/-- handling one document alone in a fresh process: globals start at `g` and are threaded
    through this document's operations only -/
def runSoloL {D G O : Type} : List (LeakyOp D G O) → G → D → D × List O
  | [], _, d => (d, [])
  | f :: fs, g, d =>
    let r := f g d
    let rest := runSoloL fs r.1 r.2.1
    (rest.1, r.2.2 :: rest.2)

def opsOfL {D G O : Type} (i : Nat) (σ : List (LEv D G O)) : List (LeakyOp D G O) :=
  (σ.filter (fun e => e.doc = i)).map (·.op)

/-- a frame operation seen as a (non-)leaky one: ignores and preserves the globals -/
def liftOp {D G O : Type} (f : FrameOp D O) : LeakyOp D G O :=
  fun g d => (g, (f d).1, (f d).2)

def liftEv {D G O : Type} (e : Ev D O) : LEv D G O := ⟨e.doc, liftOp e.op⟩

/-! ## 2. the pycollada document machine -/

/-- the DaeError hierarchy of collada/common.py: five direct subclasses of DaeError -/
inductive ErrClass
  | daeError | incomplete | brokenRef | malformed | unsupported | saveValidation
deriving DecidableEq, Repr, Inhabited

/-- the ten id-indexed libraries of a Collada object -/
inductive Lib
  | images | effects | materials | animations | geometries | controllers | lights | cameras
  | nodes | scenes
deriving DecidableEq, Repr, Inhabited

/-- order of the `_load*` calls in `Collada.__init__` -/
def loadOrder : List Lib :=
  [.images, .effects, .materials, .animations, .geometries, .controllers, .lights, .cameras,
   .nodes, .scenes]

def defaultNs : String := "http://www.collada.org/2005/11/COLLADASchema"

/-- one child of a library element in the file: `ens` is the namespace its tag carries,
    `fault` the DaeError subclass its loader raises (none = loads fine) -/
structure Item where
  lib : Lib
  id : String
  ens : String
  fault : Option ErrClass
  /-- the loader reports the fault through handleError and, when that returns, keeps the item (an input of unknown semantic) -/
  soft : Bool := false
deriving DecidableEq, Repr

structure DocState where
  /-- a Collada object exists in this slot -/
  live : Bool
  /-- namespace the document's `tag` function applies -/
  ns : String
  /-- `maskedErrors`, by class -/
  mask : List ErrClass
  /-- `errors`, by class, in the order recorded -/
  errors : List ErrClass
  /-- library contents in insertion order (per-library view: `idsOf`) -/
  ids : List (Lib × String)
deriving DecidableEq, Repr

def DocState.empty : DocState := ⟨false, "", [], [], []⟩

instance : Inhabited DocState := ⟨DocState.empty⟩

def idsOf (d : DocState) (l : Lib) : List String :=
  (d.ids.filter (fun p => p.1 = l)).map (·.2)

/-- `any(isinstance(error, mask) for mask in self.maskedErrors)` -/
def masked (mask : List ErrClass) (e : ErrClass) : Bool :=
  mask.any (fun m => m == .daeError || m == e)

inductive Out
  | ok
  | loaded
  | fail (e : ErrClass)
  | nodoc
  | dup
  | missing
  | saved (ns : String)
deriving DecidableEq, Repr

inductive Op
  /-- `Collada()` -/
  | new
  /-- `Collada(bytes, ignore=mask)`: root namespace, parse failure class, mask, library children -/
  | load (ns : String) (fatal : Option ErrClass) (mask : List ErrClass) (items : List Item)
  /-- `doc.ignoreErrors(*cs)` -/
  | setIgnore (cs : List ErrClass)
  /-- append a freshly constructed object with this id unless the id is present -/
  | add (lib : Lib) (id : String)
  /-- remove the object carrying this id -/
  | remove (lib : Lib) (id : String)
  /-- `doc.write(sink)` -/
  | save
  /-- read-only public queries (len, triangleset(), scene.objects(...)): no modelled state changes -/
  | query
  /-- `doc.handleError(e)` inside an `except` block (what `CImage.data` and the loaders do): always records, re-raises unless masked -/
  | handle (e : ErrClass)
  /-- `doc.ignoreErrors(None)` -/
  | clearIgnore
deriving DecidableEq, Repr

/-- one library loader: the children in document order whose tag is in the document's
    namespace; `handleError` records every failure and re-raises the unmasked ones -/
def loadLib (ns : String) (mask : List ErrClass) :
    List Item → List (Lib × String) × List ErrClass →
    Except ErrClass (List (Lib × String) × List ErrClass)
  | [], acc => .ok acc
  | it :: rest, (ids, errs) =>
    if it.ens ≠ ns then loadLib ns mask rest (ids, errs)
    else match it.fault with
      | none => loadLib ns mask rest (ids ++ [(it.lib, it.id)], errs)
      | some e =>
        if masked mask e then
          loadLib ns mask rest (if it.soft then ids ++ [(it.lib, it.id)] else ids, errs ++ [e])
        else .error e

/-- the loaders in `loadOrder`, each over its own library's children -/
def loadLibs (ns : String) (mask : List ErrClass) (items : List Item) :
    List Lib → List (Lib × String) × List ErrClass →
    Except ErrClass (List (Lib × String) × List ErrClass)
  | [], acc => .ok acc
  | l :: ls, acc =>
    match loadLib ns mask (items.filter (fun it => it.lib = l)) acc with
    | .ok acc' => loadLibs ns mask items ls acc'
    | .error e => .error e

def eraseFirst (l : Lib) (id : String) : List (Lib × String) → List (Lib × String)
  | [] => []
  | p :: t => if p = (l, id) then t else p :: eraseFirst l id t

/-- the operations have the frame type: `DocState → DocState × Out` -/
def apply : Op → FrameOp DocState Out
  | .new, _ => (⟨true, defaultNs, [], [], []⟩, .ok)
  | .load ns fatal mask items, d =>
    match fatal with
    | some e => (d, .fail e)
    | none =>
      match loadLibs ns mask items loadOrder ([], []) with
      | .ok (ids, errs) => (⟨true, ns, mask, errs, ids⟩, .loaded)
      | .error e => (d, .fail e)
  | .setIgnore cs, d =>
    if d.live then ({ d with mask := d.mask ++ cs }, .ok) else (d, .nodoc)
  | .add l id, d =>
    if !d.live then (d, .nodoc)
    else if (l, id) ∈ d.ids then (d, .dup)
    else ({ d with ids := d.ids ++ [(l, id)] }, .ok)
  | .remove l id, d =>
    if !d.live then (d, .nodoc)
    else if (l, id) ∈ d.ids then ({ d with ids := eraseFirst l id d.ids }, .ok)
    else (d, .missing)
  | .save, d =>
    if d.live then (d, .saved d.ns) else (d, .nodoc)
  | .query, d =>
    if d.live then (d, .ok) else (d, .nodoc)
  | .handle e, d =>
    if !d.live then (d, .nodoc)
    else ({ d with errors := d.errors ++ [e] }, if masked d.mask e then .ok else .fail e)
  | .clearIgnore, d =>
    if d.live then ({ d with mask := [] }, .ok) else (d, .nodoc)

/-- a concrete schedule: (document, operation) pairs -/
abbrev Sched := List (Nat × Op)

def toEv (p : Nat × Op) : Ev DocState Out := ⟨p.1, apply p.2⟩

/-- process globals of the real system that no operation may touch -/
structure Globals where
  /-- namespace a module-level `tag` would apply -/
  tagNs : String
  /-- a mask list shared between documents (class-level / default-argument list) -/
  sharedMask : List ErrClass
deriving DecidableEq, Repr

def Globals.init : Globals := ⟨defaultNs, []⟩

def initSys : Sys DocState Globals := ⟨fun _ => DocState.empty, Globals.init⟩

def runDocs (σ : Sched) (s : Sys DocState Globals) : Sys DocState Globals × List (Nat × Out) :=
  run (σ.map toEv) s

def soloDoc (i : Nat) (σ : Sched) (d : DocState) : DocState × List Out :=
  runSolo (opsOf i (σ.map toEv)) d

/-! ### the leaky document machine (what a leak looks like)

`load` stores the root namespace in the module-level `tag` (`tagNs`) and looks its library
elements up through it; `save` writes through the module-level `tag`; `ignoreErrors` appends to
a list shared by all documents and `handleError` consults that shared list too. -/
def applyLeaky : Op → LeakyOp DocState Globals Out
  | .load ns fatal mask items, g, d =>
    match fatal with
    | some e => (g, d, .fail e)
    | none =>
      let g' := { g with tagNs := ns }
      match loadLibs g'.tagNs (mask ++ g.sharedMask) items loadOrder ([], []) with
      | .ok (ids, errs) => (g', ⟨true, ns, mask, errs, ids⟩, .loaded)
      | .error e => (g', d, .fail e)
  | .setIgnore cs, g, d =>
    if d.live then ({ g with sharedMask := g.sharedMask ++ cs }, { d with mask := d.mask ++ cs }, .ok)
    else (g, d, .nodoc)
  | .save, g, d =>
    if d.live then (g, d, .saved g.tagNs) else (g, d, .nodoc)
  | op, g, d => (g, (apply op d).1, (apply op d).2)

def toLEv (p : Nat × Op) : LEv DocState Globals Out := ⟨p.1, applyLeaky p.2⟩

def runDocsL (σ : Sched) (s : Sys DocState Globals) : Sys DocState Globals × List (Nat × Out) :=
  runL (σ.map toLEv) s

def soloDocL (i : Nat) (σ : Sched) (g : Globals) (d : DocState) : DocState × List Out :=
  runSoloL (opsOfL i (σ.map toLEv)) g d

end Pyc.Iso
