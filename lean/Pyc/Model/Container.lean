/-
Model of how `collada.Collada.__init__` finds the document and its auxiliary files
(collada/__init__.py, "source kind detection", "member selection", the four `getFileData`
resolvers) and of `CImage.getData` (collada/material.py).

Everything here is lexical: names and paths are Python `str` values (`List Char`), byte strings
are represented by an identity (`Blob`), the zip archive is its ordered name list with contents,
the disk is the set of regular files keyed by the (normalised) path the code would open.
`posixpath.dirname/join/normpath` follow CPython's algorithms step by step.  `zipfile`, `open`,
`os.path.exists` and the XML loader itself are the runtime (modelled, not verified).
Tied to the source by the C16 correspondence check (props/c16.py ↔ drv/C16.lean).
-/
namespace Pyc.Container

/-- a Python `str` used as member name or path -/
abbrev Name := List Char
/-- identity of a byte string (document bytes, image bytes) -/
abbrev Blob := Nat

def sep : Char := '/'
def dot : Name := ['.']
def dotdot : Name := ['.', '.']

/-! ### the `str` methods the code uses -/

/-- `s.upper()` (ASCII) -/
def upper (s : Name) : Name := s.map Char.toUpper
/-- `s.endswith(suf)` -/
def endsWith (s suf : Name) : Bool := suf.isSuffixOf s
/-- `s.startswith(pre)` -/
def startsWith (s pre : Name) : Bool := pre.isPrefixOf s
/-- `pat in s` -/
def hasInfix (pat : Name) : Name → Bool
  | [] => pat.isEmpty
  | c :: t => pat.isPrefixOf (c :: t) || hasInfix pat t

/-- `name.upper().endswith('.DAE')` -/
def isDae (n : Name) : Bool := endsWith (upper n) ".DAE".toList
/-- `"MACOSX" in name` -/
def isDecoy (n : Name) : Bool := hasInfix "MACOSX".toList n

/-! ### member selection (`collada/__init__.py`, the `if self.zfile:` block) -/

inductive Err
  | incomplete   -- DaeIncompleteError
  | brokenRef    -- DaeBrokenRefError
deriving DecidableEq, Repr

/-- first loop: `daefiles` in `namelist()` order -/
def daefiles (names : List Name) : List Name := names.filter isDae

/-- body of the second loop; `cur` is `self.filename` (`''` = nothing chosen yet) -/
def pickStep (cur name : Name) : Name :=
  if cur.isEmpty then name
  else if isDecoy cur then name
  else cur

def pickLoop (cands : List Name) : Name := cands.foldl pickStep []

/-- `self.filename` after the block: `zip_filename` if given, else what the loops leave -/
def chosen (names : List Name) (zipFilename : Option Name) : Name :=
  match zipFilename with
  | some z => z
  | none => pickLoop (daefiles names)

/-- the member that will be read, or `DaeIncompleteError`
    (`if not self.filename or self.filename not in self.zfile.namelist(): raise`) -/
def selectMember (names : List Name) (zipFilename : Option Name) : Except Err Name :=
  if (chosen names zipFilename).isEmpty || !(names.contains (chosen names zipFilename)) then .error .incomplete
  else .ok (chosen names zipFilename)

/-! ### `posixpath` -/

/-- `s.rstrip('/')` -/
def rstripSep (s : Name) : Name := (s.reverse.dropWhile (· == sep)).reverse

/-- `posixpath.dirname`: `head = p[:p.rfind('/')+1]`, trailing slashes removed unless `head`
    consists of slashes only -/
def dirname (p : Name) : Name :=
  let head := (p.reverse.dropWhile (· != sep)).reverse
  if head.isEmpty || head.all (· == sep) then head else rstripSep head

/-- `posixpath.join(a, b)` -/
def join (a b : Name) : Name :=
  if startsWith b [sep] then b
  else if a.isEmpty || endsWith a [sep] then a ++ b
  else a ++ sep :: b

/-- `s.split('/')` -/
def split : Name → List Name
  | [] => [[]]
  | c :: t =>
    if c = sep then [] :: split t
    else match split t with
      | h :: r => (c :: h) :: r
      | [] => [[c]]

/-- `'/'.join(comps)` -/
def joinSep : List Name → Name
  | [] => []
  | [a] => a
  | a :: b :: r => a ++ sep :: joinSep (b :: r)

/-- one round of the `for comp in comps` loop of `posixpath.normpath`
    (`initial` = the path starts with a slash) -/
def normStep (initial : Bool) (acc : List Name) (comp : Name) : List Name :=
  if comp.isEmpty || comp == dot then acc
  else if comp != dotdot || (!initial && acc.isEmpty) || acc.getLast? == some dotdot then acc ++ [comp]
  else acc.dropLast

def normComps (initial : Bool) (comps : List Name) : List Name := comps.foldl (normStep initial) []

/-- `posixpath.normpath` -/
def normpath (path : Name) : Name :=
  if path.isEmpty then dot
  else
    let slashes : Nat :=
      if startsWith path [sep] then
        (if startsWith path [sep, sep] && !startsWith path [sep, sep, sep] then 2 else 1)
      else 0
    let p := List.replicate slashes sep ++ joinSep (normComps (slashes != 0) (split path))
    if p.isEmpty then dot else p

/-- the path an auxiliary file name is looked up under:
    `normpath(join(dirname(self.filename), fname))` (zip and disk resolver alike) -/
def auxPath (filename fname : Name) : Name := normpath (join (dirname filename) fname)

/-! ### containers -/

/-- a zip archive: entries in `namelist()` order -/
structure Archive where
  entries : List (Name × Blob)
deriving Repr

def Archive.names (a : Archive) : List Name := a.entries.map (·.1)

/-- `zfile.read(name)`: the last entry of that name (`NameToInfo`) -/
def Archive.read (a : Archive) (n : Name) : Option Blob :=
  ((a.entries.filter (fun e => e.1 == n)).getLast?).map (·.2)

/-- what was passed as `filename` -/
inductive Origin
  | path (p : Name)   -- `str`/`bytes`: opened and read
  | fileobj           -- anything else: `.read()`
deriving Repr

/-- what the bytes read from it are -/
inductive Payload
  | doc (b : Blob)       -- `ZipFile(...)` failed: the bytes are the document
  | zip (a : Archive)
deriving Repr

structure Source where
  origin : Origin
  payload : Payload
deriving Repr

/-- the function installed as `self.getFileData` -/
inductive Resolver
  | null                               -- `_nullGetFile`
  | disk (filename : Name)             -- `_getFileFromDisk`
  | zip (a : Archive) (member : Name)  -- `_getFileFromZip`
  | loader                             -- `_wrappedFileLoader(aux_file_loader)`
deriving Repr

structure Opened where
  filename : Option Name   -- `Collada.filename`
  data : Blob              -- the bytes handed to the XML parser
  resolver : Resolver
deriving Repr

/-- lines 166-204: read the source, probe for zip, select the member, install the resolver
    (in the order of the assignments: disk/none, then zip, then the user's loader) -/
def openSource (s : Source) (zipFilename : Option Name) (hasLoader : Bool) : Except Err Opened :=
  let (fn0, r0) := match s.origin with
    | .path p => (some p, Resolver.disk p)
    | .fileobj => (none, Resolver.null)
  match s.payload with
  | .zip a =>
    match selectMember a.names zipFilename with
    | .error e => .error e
    | .ok m =>
      match a.read m with
      | none => .error .incomplete   -- unreachable: `selectMember` returns listed names (`read_of_mem`)
      | some d => .ok ⟨some m, d, if hasLoader then .loader else .zip a m⟩
  | .doc b => .ok ⟨fn0, b, if hasLoader then .loader else r0⟩

/-- the document bytes a source stands for -/
def extract (s : Source) (zipFilename : Option Name) : Except Err Blob :=
  (openSource s zipFilename false).map (·.data)

/-- loading = parsing the extracted bytes; `loadBytes` is the XML loader (images are lazy, so it
    does not see the resolver) -/
def loadFrom {M : Type} (loadBytes : Blob → M) (s : Source) (zipFilename : Option Name)
    (hasLoader : Bool) : Except Err M :=
  (openSource s zipFilename hasLoader).map (fun o => loadBytes o.data)

/-! ### auxiliary files -/

/-- the disk as `os.path.isfile`/`open` see it: the regular files by absolute normalised path, and
    the working directory relative paths are resolved against (lexically: no symlinks) -/
structure Disk where
  cwd : Name
  files : List (Name × Blob)
deriving Repr

def Disk.file (fs : Disk) (p : Name) : Option Blob :=
  let q := if startsWith p [sep] then p else normpath (join fs.cwd p)
  (fs.files.find? (fun e => e.1 == q)).map (·.2)

/-- `self.getFileData(fname)` -/
def getFileData (fs : Disk) (loader : Name → Option Blob) (r : Resolver) (fname : Name) : Except Err Blob :=
  match r with
  | .null => .error .brokenRef
  | .loader =>
    match loader fname with
    | some b => .ok b
    | none => .error .brokenRef
  | .zip a member =>
    let p := auxPath member fname
    if a.names.contains p then
      (match a.read p with
       | some b => .ok b
       | none => .error .brokenRef)   -- unreachable (`read_of_mem`)
    else .error .brokenRef
  | .disk filename =>
    match fs.file (auxPath filename fname) with
    | some b => .ok b
    | none => .error .brokenRef

/-- classes that may stand in `ignore=[...]` -/
inductive Cls
  | daeError | incomplete | brokenRef | malformed | unsupported
deriving DecidableEq, Repr

def Err.cls : Err → Cls
  | .incomplete => .incomplete
  | .brokenRef => .brokenRef

/-- `any(isinstance(error, mask) for mask in self.maskedErrors)` -/
def masked (mask : List Cls) (e : Err) : Bool := mask.any (fun c => c == .daeError || c == e.cls)

/-- outcome of the first `image.data` access -/
inductive Access
  | data (b : Blob)    -- the bytes
  | raised (e : Err)   -- `handleError` re-raised
  | empty              -- the error was masked: `''`
deriving DecidableEq, Repr

/-- `CImage.getData` on a fresh image: result and what was appended to `Collada.errors` -/
def imageData (mask : List Cls) (r : Except Err Blob) : Access × List Err :=
  match r with
  | .ok b => (.data b, [])
  | .error e => (if masked mask e then .empty else .raised e, [e])

end Pyc.Container
