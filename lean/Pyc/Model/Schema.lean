/-
Schema validity of what the writer emits (C04).  Content models come from the generated table
(Pyc/Generated/SchemaTable.lean, translated from the shipped XSD on every run); `valid` checks an
element tree against them; the `emit*` functions describe, by child element names, what pycollada's
constructors and save() produce for each element kind as a function of the model.
-/
import Pyc.Generated.SchemaTable

namespace Pyc.Schema
open Pyc.Generated.SchemaTable

/-- an element reduced to what the content models see -/
inductive XTree where
  | node (name : String) (attrs : List String) (kids : List XTree)
deriving Repr, Inhabited

def XTree.name : XTree → String | .node n _ _ => n

mutual
  /-- every element's children match its content model and its required attributes are present -/
  def valid (parent : String) : XTree → Bool
    | .node name attrs kids =>
      (match cm parent name with
        | some re => re.rmatch (kids.map XTree.name)
        | none => true)
      && (required parent name).all (fun a => attrs.contains a)
      && validList name kids
  def validList (parent : String) : List XTree → Bool
    | [] => true
    | k :: ks => valid parent k && validList parent ks
end

/-- do these child names match the content model of `name` inside `parent`? (none: the context is not in the table) -/
def kidsOk (parent name : String) (kids : List String) : Option Bool :=
  (cm parent name).map (fun re => re.rmatch kids)

/-- the schema REQUIRES the i-th child: the children match the content model, and no longer do without it -/
def requiredChild (parent name : String) (kids : List String) (i : Nat) : Option Bool :=
  (cm parent name).map (fun re => re.rmatch kids && !re.rmatch (kids.eraseIdx i))

/-! ### what the writer emits, by child names -/

/-- `<mesh>`: sources (in sourceById order), `<vertices>`, primitives (list order), kept extras -/
def emitMesh (nsrc : Nat) (prims : List String) (nextra : Nat) : List String :=
  List.replicate nsrc "source" ++ ["vertices"] ++ prims ++ List.replicate nextra "extra"

/-- `<node>`: transforms in list order, then children in list order -/
def emitNode (transforms children : List String) : List String := transforms ++ children

/-- `<source>`: the array, then the accessor -/
def emitSource (arrayKind : String) : List String := [arrayKind, "technique_common"]

/-- a primitive: inputs, then (`<vcount>`), then `<p>` elements -/
def emitPrim (ninputs : Nat) (vcount : Bool) (np : Nat) : List String :=
  List.replicate ninputs "input" ++ (if vcount then ["vcount"] else []) ++ List.replicate np "p"

/-- a library / `<visual_scene>`: one child per object -/
def emitLibrary (item : String) (n : Nat) : List String := List.replicate n item

/-- `<COLLADA>`: `<asset>`, the libraries present, `<scene>`, kept top-level extras -/
def emitRoot (libs : List String) (scene : Bool) (nextra : Nat) : List String :=
  ["asset"] ++ libs ++ (if scene then ["scene"] else []) ++ List.replicate nextra "extra"

/-- a shader element: one child per supported property that has a value, in `Effect.supported` order -/
def emitShader (supported : List String) (hasValue : String → Bool) : List String :=
  supported.flatMap (fun p => if hasValue p then [p] else [])

/-- `<point>` / `<spot>` etc.: colour, then the optional values that are set, in schema order -/
def emitLight (optional : List String) (isSet : String → Bool) : List String :=
  "color" :: optional.flatMap (fun p => if isSet p then [p] else [])

end Pyc.Schema

namespace Pyc.Schema

/-- `<asset>` as Asset._recreateXmlNode builds it: contributors, created, (keywords), modified,
    (revision), (subject), (title), (unit), up_axis -/
def emitAsset (ncontrib : Nat) (kw rev subj title unit : Bool) : List String :=
  List.replicate ncontrib "contributor" ++ ["created"] ++ (if kw then ["keywords"] else []) ++ ["modified"]
  ++ (if rev then ["revision"] else []) ++ (if subj then ["subject"] else []) ++ (if title then ["title"] else [])
  ++ (if unit then ["unit"] else []) ++ ["up_axis"]

/-- `<contributor>`: the fields that are set, in schema order (where save() inserts a newly set one) -/
def emitContributor (s : String → Bool) : List String :=
  ["author", "authoring_tool", "comments", "copyright", "source_data"].flatMap (fun p => if s p then [p] else [])

/-- `<perspective>` / `<orthographic>` as Camera._recreateXmlNode builds it: x, y, aspect_ratio (those given), znear, zfar -/
def emitCamera (xname yname : String) (x y aspect : Bool) : List String :=
  (if x then [xname] else []) ++ (if y then [yname] else []) ++ (if aspect then ["aspect_ratio"] else []) ++ ["znear", "zfar"]

/-- `<scene>`: the default scene instance when there is one -/
def emitSceneElem (hasScene : Bool) : List String := if hasScene then ["instance_visual_scene"] else []

/-! ### Effect.save and the `<technique>` of profile_COMMON -/

def shaderTags : List String := ["constant", "lambert", "phong", "blinn"]

/-- children of `<technique>` after Effect.save with shading type `s`: the `<newparam>` elements go to the profile, the
    shader elements of the other types are removed (the first of each), and when there is no `<s>` element yet a new one
    is inserted in front of the first `<extra>` (at the end when there is none) -/
def saveTechnique (kids : List String) (s : String) : List String :=
  let k1 := kids.filter (· != "newparam")
  let k2 := (shaderTags.filter (· != s)).foldl (fun acc t => acc.erase t) k1
  if k2.contains s then k2
  else
    let i := k2.findIdx (· == "extra")
    k2.take i ++ [s] ++ k2.drop i

/-- … as it was before /repo 51e06da: the new shader element appended at the end -/
def saveTechniqueAppend (kids : List String) (s : String) : List String :=
  let k1 := kids.filter (· != "newparam")
  let k2 := (shaderTags.filter (· != s)).foldl (fun acc t => acc.erase t) k1
  if k2.contains s then k2 else k2 ++ [s]

/-- the children of a schema-valid `<technique>`: (asset), images and newparams, the shader, extras -/
def techKids (a : Bool) (mids : List String) (old : String) (n : Nat) : List String :=
  (if a then ["asset"] else []) ++ mids ++ old :: List.replicate n "extra"


end Pyc.Schema
