/-
Read-only queries and their hidden state (C17).  A query may fill a cache (Polylist.triangleset and
BoundPolylist.triangleset keep their result, CImage keeps its data) but must not touch the data the
model and the saved XML are made of.  The memo machine below is that pattern; `Leaky` is the defect
pattern (a query that writes to the data), kept so that the negative is on record.
-/
namespace Pyc.Query

/-- a model object with memoised queries: data, and one optional cached answer per query key -/
structure Memo (D K V : Type) where
  data : D
  cache : List (K × V)

variable {D K V : Type} [DecidableEq K]

def cached (c : List (K × V)) (k : K) : Option V := (c.find? (fun e => e.1 == k)).map (·.2)

/-- `if self._cache is None: self._cache = compute(...)`; `return self._cache` -/
def query (compute : D → K → V) (s : Memo D K V) (k : K) : Memo D K V × V :=
  match cached s.cache k with
  | some v => (s, v)
  | none => let v := compute s.data k; ({ s with cache := (k, v) :: s.cache }, v)

/-- a history of queries: final state and the answers, in order -/
def run (compute : D → K → V) : Memo D K V → List K → Memo D K V × List V
  | s, [] => (s, [])
  | s, k :: ks =>
    let r := query compute s k
    let rest := run compute r.1 ks
    (rest.1, r.2 :: rest.2)

/-- every cached answer is the one a fresh computation gives -/
def Consistent (compute : D → K → V) (s : Memo D K V) : Prop :=
  ∀ k v, cached s.cache k = some v → v = compute s.data k

/-! the defect pattern: a "query" that also writes to the data it reads -/
def leakyQuery (compute : D → K → V) (touch : D → K → D) (s : Memo D K V) (k : K) : Memo D K V × V :=
  let v := compute s.data k
  ({ data := touch s.data k, cache := s.cache }, v)

/-! ### the concrete instance the driver runs: a polylist and its triangulation count -/

/-- number of triangles `Polylist.triangleset()` produces: Σ max(n−2, 0) -/
def triCount (vcounts : List Nat) (_ : Unit) : Nat := (vcounts.map (fun n => n - 2)).sum

/-! ### bound primitives own their transformed arrays: a heap of arrays, addresses are positions -/

abbrev Heap := List (List Int)

def readArr (h : Heap) (a : Nat) : List Int := h.getD a []
def writeArr (h : Heap) (a i : Nat) (v : Int) : Heap := h.set a ((readArr h a).set i v)

/-- `numpy.asarray(ts._vertex * M[:3,:3]) + matrix[:3,3]`: a NEW array is allocated for the bound primitive -/
def bindFresh (h : Heap) (a : Nat) (f : Int → Int) : Heap × Nat := (h ++ [(readArr h a).map f], h.length)

/-- the defect pattern: the bound primitive shares the unbound array -/
def bindAlias (h : Heap) (a : Nat) (_ : Int → Int) : Heap × Nat := (h, a)

end Pyc.Query
