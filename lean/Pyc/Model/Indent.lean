/-
`collada.xmlutil.indent` (the pretty printer `writeXML` runs over the whole tree before every serialisation when lxml is absent):
whitespace-only text and tails are rewritten to newline + indentation, everything else is left alone (C03: unmodelled content
survives; writing twice gives the same bytes).
-/
namespace Pyc.Indent

/-- an element reduced to what indent() reads and writes; `lbl` stands for tag and attributes -/
inductive X where
  | node (lbl : Nat) (text tail : String) (kids : List X)
deriving Repr, Inhabited

def X.tail : X → String | .node _ _ t _ => t
def X.setTail (s : String) : X → X | .node l t _ k => .node l t s k

/-- Python: `not s or not s.strip()` -/
def blank (s : String) : Bool := s.toList.all Char.isWhitespace

/-- `"\n" + level * "  "` -/
def ind (level : Nat) : String := String.ofList ('\n' :: List.replicate (2 * level) ' ')

/-- `if not x or not x.strip(): x = v` -/
def fill (v s : String) : String := if blank s then v else s

/-- the last child of the loop gets the parent's closing indentation when its tail is (still) blank -/
def closeLast (v : String) : List X → List X
  | [] => []
  | [k] => [k.setTail (fill v k.tail)]
  | k :: ks => k :: closeLast v ks

mutual
  def indent (level : Nat) : X → X
    | .node l text tail [] => .node l text (if level ≠ 0 then fill (ind level) tail else tail) []
    | .node l text tail (k :: ks) =>
      .node l (fill (ind (level + 1)) text) (fill (ind level) tail) (closeLast (ind level) (indentList (level + 1) (k :: ks)))
  def indentList (level : Nat) : List X → List X
    | [] => []
    | k :: ks => indent level k :: indentList level ks
end

mutual
  /-- all text and tails in document order -/
  def strings : X → List String
    | .node _ text tail kids => text :: stringsL kids ++ [tail]
  def stringsL : List X → List String
    | [] => []
    | k :: ks => strings k ++ stringsL ks
end

mutual
  /-- the tree with every whitespace-only text/tail emptied: what indent() must not change -/
  def content : X → X
    | .node l text tail kids => .node l (if blank text then "" else text) (if blank tail then "" else tail) (contentL kids)
  def contentL : List X → List X
    | [] => []
    | k :: ks => content k :: contentL ks
end

end Pyc.Indent
