/-
Index-stream operations of the primitive loaders (C11): triangle strips, triangle fans, the
per-<p> loop of `TriangleSet.load`, the fan triangulation of `Polylist.triangleset()`, the
per-polygon fan of `Polygon.triangles()` and the vcounts of `Polygons`.

Everything is polymorphic in the row type: a *row* is the whole index tuple of one corner
(one entry per input offset), so whatever is proved for `List α` holds for every index content.
The definitions mirror the numpy code step by step (same slices, same order of steps); an
operation that numpy refuses (ragged operands, reshape of a stream that is not a whole number
of rows, fancy index out of range) is `none`.

Modelled, not verified: numpy slicing `a[i:j:2]`, `numpy.array([...])` of equally long
operands, `repeat`, `cumsum`, boolean-mask selection, fancy indexing, `reshape`.
-/
namespace Pyc.IndexOps

/-- a triangle: three corners -/
abbrev Tri (α : Type) := α × α × α

def mapTri {α β : Type} (f : α → β) (t : Tri α) : Tri β := (f t.1, f t.2.1, f t.2.2)

/-- `f` on every element, failing as a whole when one element fails (a vectorised numpy
    operation raises as a whole) -/
def traverse {α β : Type} (f : α → Option β) : List α → Option (List β)
  | [] => some []
  | a :: t =>
    match f a, traverse f t with
    | some b, some bs => some (b :: bs)
    | _, _ => none

/-- fancy indexing `a[idx]` with non-negative positions: any position out of range is an IndexError -/
def gather {α : Type} (xs : List α) (idx : List Nat) : Option (List α) := traverse (fun i => xs[i]?) idx

/-- three lookups; `none` as soon as one of them is out of range -/
def tri? {α : Type} (xs : List α) (a b c : Nat) : Option (Tri α) :=
  match xs[a]?, xs[b]?, xs[c]? with
  | some x, some y, some z => some (x, y, z)
  | _, _, _ => none

/-! ### slices -/

/-- `a[0::2]` -/
def evens {α : Type} : List α → List α
  | [] => []
  | [a] => [a]
  | a :: _ :: t => a :: evens t

/-- numpy `a[start:stop:2]` with both bounds already resolved to positions: a negative bound
    `-d` on an array of length `n` resolves to `n - d` clamped at 0, i.e. `Nat` subtraction;
    an omitted stop is `n`; a stop beyond the end is clamped by `take`. -/
def slice2 {α : Type} (xs : List α) (start stop : Nat) : List α := evens ((xs.take stop).drop start)

def zip3 {α : Type} : List α → List α → List α → List (Tri α)
  | a :: as, b :: bs, c :: cs => (a, b, c) :: zip3 as bs cs
  | _, _, _ => []

/-- `numpy.array([as, bs, cs]).swapaxes(0, 1)` / `numpy.concatenate((as, bs, cs), 1)` /
    `numpy.dstack`: operands of different lengths are a ValueError -/
def zip3? {α : Type} (as bs cs : List α) : Option (List (Tri α)) :=
  if as.length = bs.length ∧ bs.length = cs.length then some (zip3 as bs cs) else none

/-- `numpy.dstack((a, b, c))` of three gathered operands; a failed gather fails the whole -/
def dstack3 {α : Type} (a b c : Option (List α)) : Option (List (Tri α)) :=
  match a, b, c with
  | some a, some b, some c => zip3? a b c
  | _, _, _ => none

/-! ### strips and fans (`_extendFromStrip`, `_extendFromFan`) -/

/-- `cw_ = numpy.array([index[0:-2:2], index[1:-1:2], index[2::2]])` -/
def stripEven {α : Type} (xs : List α) : Option (List (Tri α)) :=
  let n := xs.length
  zip3? (slice2 xs 0 (n - 2)) (slice2 xs 1 (n - 1)) (slice2 xs 2 n)

/-- `ccw = numpy.array([index[2:-1:2], index[1:-2:2], index[3::2]])` -/
def stripOdd {α : Type} (xs : List α) : Option (List (Tri α)) :=
  let n := xs.length
  zip3? (slice2 xs 2 (n - 1)) (slice2 xs 1 (n - 2)) (slice2 xs 3 n)

/-- `_extendFromStrip`: the even-numbered triangles are appended first, then the odd-numbered -/
def strip {α : Type} (xs : List α) : Option (List (Tri α)) :=
  match stripEven xs, stripOdd xs with
  | some e, some o => some (e ++ o)
  | _, _ => none

/-- `_extendFromFan`:
    `concatenate((repeat(index[:1], max(len(index) - 2, 0), 0), index[1:-1], index[2:]), 1)` -/
def fan {α : Type} (xs : List α) : Option (List (Tri α)) :=
  let n := xs.length
  zip3? ((xs.take 1).flatMap (List.replicate (n - 2))) ((xs.take (n - 1)).drop 1) (xs.drop 2)

/-! ### the reference readings the theorems compare with -/

/-- a strip read in strip order: a window of three slides along the run, every second
    triangle has its first two corners exchanged -/
def stripOrder {α : Type} : Bool → List α → List (Tri α)
  | _, [] => []
  | odd, a :: l =>
    match l with
    | b :: c :: _ => (if odd then (b, a, c) else (a, b, c)) :: stripOrder (!odd) l
    | _ => []

/-- triangle `i` of a strip -/
def stripTri? {α : Type} (xs : List α) (i : Nat) : Option (Tri α) :=
  if i % 2 = 0 then tri? xs i (i + 1) (i + 2) else tri? xs (i + 1) i (i + 2)

def fanFrom {α : Type} (a : α) : List α → List (Tri α)
  | [] => []
  | b :: l =>
    match l with
    | c :: _ => (a, b, c) :: fanFrom a l
    | [] => []

/-- a fan around the first element -/
def fanSpec {α : Type} : List α → List (Tri α)
  | [] => []
  | a :: l => fanFrom a l

/-- the rows of a primitive cut into consecutive polygons of the given corner counts -/
def splitPolys {α : Type} : List α → List Nat → List (List α)
  | _, [] => []
  | rows, c :: cs => rows.take c :: splitPolys (rows.drop c) cs

/-! ### `TriangleSet.load` for `<tristrips>` / `<trifans>` -/

def rowsGo {β : Type} (k : Nat) : Nat → List β → List (List β)
  | 0, _ => []
  | m + 1, xs => xs.take k :: rowsGo k m (xs.drop k)

/-- `index.reshape((-1, k))`: the flat stream of one `<p>` cut into rows of `k = max_offset + 1`
    entries; a stream that is not a whole number of rows is a ValueError -/
def chunk {β : Type} (k : Nat) (xs : List β) : Option (List (List β)) :=
  if k = 0 then none
  else if xs.length % k = 0 then some (rowsGo k (xs.length / k) xs) else none

inductive Kind where
  | strip | fan
  deriving DecidableEq, Repr

def extend {α : Type} : Kind → List α → Option (List (Tri α))
  | .strip => strip
  | .fan => fan

/-- one `<p>`: reshape into rows, expand -/
def loadP {β : Type} (kind : Kind) (k : Nat) (p : List β) : Option (List (Tri (List β))) :=
  match chunk k p with
  | some rows => extend kind rows
  | none => none

inductive LoadErr where
  | incomplete   -- DaeIncompleteError: no <p> at all
  | malformed    -- DaeMalformedError: anything numpy refused inside the loop
  deriving DecidableEq, Repr

/-- the `for indexnode in indexnodes` loop and `numpy.concatenate(indexlist)` -/
def loadTris {β : Type} (kind : Kind) (k : Nat) (ps : List (List β)) : Except LoadErr (List (Tri (List β))) :=
  if ps.isEmpty then .error .incomplete
  else
    match traverse (loadP kind k) ps with
    | some parts => .ok parts.flatten
    | none => .error .malformed

/-! ### `Polylist` -/

def cumsumFrom : Nat → List Nat → List Nat
  | _, [] => []
  | acc, c :: t => (acc + c) :: cumsumFrom (acc + c) t

/-- `polyends = numpy.cumsum(vcounts)` -/
def polyends (vc : List Nat) : List Nat := cumsumFrom 0 vc

/-- `polystarts = polyends - vcounts` -/
def polystarts (vc : List Nat) : List Nat := List.zipWith (· - ·) (polyends vc) vc

/-- `numpy.repeat(vals, counts)` (both of the same length here) -/
def repeatBy {β : Type} : List β → List Nat → List β
  | v :: vs, c :: cs => List.replicate c v ++ repeatBy vs cs
  | _, _ => []

/-- `Polylist.__getitem__`: polygon `i` is the slice `[polystarts[i]:polyends[i]]` of the rows -/
def polygonsOf {α : Type} (rows : List α) (vc : List Nat) : List (List α) :=
  (List.zip (polystarts vc) (polyends vc)).map (fun se => (rows.take se.2).drop se.1)

/-- `Polylist.triangleset()` (selector as repaired by `fix:` on branch fix/c11):
```
indexselector = numpy.arange(nvertices) + 2 < numpy.repeat(polyends, vcounts)
indexselector = numpy.arange(nvertices)[indexselector]
firstpolyindex = numpy.arange(nvertices) - numpy.repeat(polyends - vcounts, vcounts)
firstpolyindex = firstpolyindex[indexselector]
if len(index) > 0:
    triindex = dstack((index[indexselector - firstpolyindex], index[indexselector + 1], index[indexselector + 2]))
else: triindex = []
```
-/
def triangulate {α : Type} (rows : List α) (vc : List Nat) : Option (List (Tri α)) :=
  let nv := if rows.isEmpty then 0 else vc.sum
  let corner := List.range nv
  let pend := repeatBy (polyends vc) vc
  let pstart := repeatBy (polystarts vc) vc
  if pend.length ≠ nv then none        -- operands of `<` / `-` could not be broadcast together
  else
    let sel := ((corner.zip pend).filter (fun qe => decide (qe.1 + 2 < qe.2))).map (·.1)
    let off := List.zipWith (· - ·) corner pstart
    match gather off sel with
    | none => none
    | some offsel =>
      if rows.isEmpty then some []
      else
        dstack3 (gather rows (List.zipWith (· - ·) sel offsel)) (gather rows (sel.map (· + 1)))
          (gather rows (sel.map (· + 2)))

/-- `Polygon.triangles()`: `for i in range(npts - 2): (x[0], x[i + 1], x[i + 2])` -/
def polygonTriangles {α : Type} (xs : List α) : Option (List (Tri α)) :=
  traverse (fun i => tri? xs 0 (i + 1) (i + 2)) (List.range (xs.length - 2))

/-- all polygons of the primitive, each triangulated on its own -/
def perPolygon {α : Type} (rows : List α) (vc : List Nat) : Option (List (List (Tri α))) :=
  traverse polygonTriangles (polygonsOf rows vc)

/-! ### `Polygons` -/

/-- `vcounts[i] = len(poly) / (max_offset + 1)` stored into an int32 array (truncation) -/
def polygonsVcounts {β : Type} (k : Nat) (ps : List (List β)) : List Nat := ps.map (fun p => p.length / k)

/-- `indices = numpy.concatenate(polygons)`, later `index.shape = (-1, nindices)` -/
def polygonsRows {β : Type} (k : Nat) (ps : List (List β)) : Option (List (List β)) := chunk k ps.flatten

/-- selecting one input's column out of every corner (`index[:, :, offset]`) -/
def column {β : Type} (j : Nat) (row : List β) : Option β := row[j]?

end Pyc.IndexOps
