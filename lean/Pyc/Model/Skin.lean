/-
Model of skin / morph controller decoding and binding:
  collada/controller.py  Skin.load + Skin.__init__ (input discovery, bind shape, joint/matrix
                         pairing, <vertex_weights> partition by vcount, offset columns, range checks),
                         Morph.load (target/weight zip), BoundSkin.__init__ (matrix composition)
  collada/scene.py       Node.objects / ControllerNode.objects (path matrix handed to `bind`)
The functions follow the statement order and the slicing of the Python code (after the fix/c19
repairs: exact <v> length, no negative counts, lower index bounds, ragged matrix source,
index maxima defaulting to -1).  Tied to the source by props/c19.py through drv/C19.lean.
Self-contained on purpose: no other Model file is imported.
-/
namespace Pyc.Skin

inductive Err | malformed | brokenRef | incomplete
deriving DecidableEq, Repr

/-! ### `<vertex_weights>`: partition of the `<v>` stream -/

/-- `self.nindices = max(self.offsets) + 1` with `offsets = [joint offset, weight offset]` -/
def nindices (jo wo : Nat) : Nat := max jo wo + 1

/-- `this_set.shape = (ct, nindices)`: `ct` consecutive rows of `nind` entries -/
def rows (nind : Nat) : Nat → List Int → List (List Int)
  | 0, _ => []
  | ct + 1, s => s.take nind :: rows nind ct (s.drop nind)

/-- the loop `for ct in vcounts: this_set = index[nind*at : nind*(at+ct)]; …; at += ct` -/
def groupsFrom (nind : Nat) (stream : List Int) : Nat → List Nat → List (List (List Int))
  | _, [] => []
  | at_, ct :: rest =>
      rows nind ct ((stream.drop (nind * at_)).take (nind * ct)) :: groupsFrom nind stream (at_ + ct) rest

def natCounts (vcounts : List Int) : List Nat := vcounts.map Int.toNat

/-- `Skin.__init__`: reject negative counts and any `<v>` length other than
    `nindices * sum(vcount)`, then cut the stream into one group of index tuples per vertex -/
def partition (vcounts stream : List Int) (nind : Nat) : Except Err (List (List (List Int))) :=
  if vcounts.any (fun c => decide (c < 0)) then .error .malformed
  else if stream.length ≠ nind * (natCounts vcounts).sum then .error .malformed
  else .ok (groupsFrom nind stream 0 (natCounts vcounts))

/-- `influence[:, off]` for one group; a row too short for the offset is the
    `except BaseException → DaeMalformedError('Corrupted joint or weight index')` branch -/
def column (off : Nat) : List (List Int) → Except Err (List Int)
  | [] => .ok []
  | row :: rest =>
    match row[off]?, column off rest with
    | some x, .ok xs => .ok (x :: xs)
    | _, _ => .error .malformed

/-- `[influence[:, off] for influence in self.index]` -/
def columns (off : Nat) : List (List (List Int)) → Except Err (List (List Int))
  | [] => .ok []
  | g :: rest =>
    match column off g, columns off rest with
    | .ok c, .ok cs => .ok (c :: cs)
    | _, _ => .error .malformed

/-! ### index range checks -/

def maxList : List Int → Option Int
  | [] => none
  | x :: xs => some (match maxList xs with | none => x | some m => max x m)

def minList : List Int → Option Int
  | [] => none
  | x :: xs => some (match minList xs with | none => x | some m => min x m)

/-- `max([numpy.max(g) for g in index if len(g) > 0], default=-1)`: the largest index used by any
    vertex, -1 when no vertex has an influence -/
def maxIndex (groups : List (List Int)) : Int := (maxList groups.flatten).getD (-1)

/-- `min([...], default=0)` -/
def minIndex (groups : List (List Int)) : Int := (minList groups.flatten).getD 0

/-- lower bounds (`min_joint_index < -1 or min_weight_index < 0`), then
    `checkSource(weight_joints, ('JOINT',), max_joint_index)` and
    `checkSource(weights, ('WEIGHT',), max_weight_index)`: `len(source) <= maxindex` is Malformed.
    A joint index of -1 is legal (COLLADA: it refers to the bind shape). -/
def checkRange (nJoints nWeights : Nat) (ji wi : List (List Int)) : Except Err Unit :=
  if minIndex ji < -1 ∨ minIndex wi < 0 then .error .malformed
  else if (nJoints : Int) ≤ maxIndex ji then .error .malformed
  else if (nWeights : Int) ≤ maxIndex wi then .error .malformed
  else .ok ()

/-! ### joint names ↦ inverse bind matrices -/

/-- `joint_matrices.shape = (-1, 4, 4)`; `len(names) != len(matrices)` is Malformed; then
    `zip(joint_names, joint_matrices)` -/
def pairJoints (names : List String) (mats : List Int) : Except Err (List (String × List Int)) :=
  if mats.length % 16 ≠ 0 then .error .malformed
  else if names.length ≠ mats.length / 16 then .error .malformed
  else .ok (names.zip (rows 16 (mats.length / 16) mats))

/-- `d[k] = v` on a Python dict kept as an association list with unique keys in insertion order -/
def dictSet {α : Type} : List (String × α) → String → α → List (String × α)
  | [], k, v => [(k, v)]
  | (k', v') :: t, k, v => if k' = k then (k', v) :: t else (k', v') :: dictSet t k v

def dictGet {α : Type} : List (String × α) → String → Option α
  | [], _ => none
  | (k', v') :: t, k => if k' = k then some v' else dictGet t k

/-- `self.joint_matrices = {}; for n, m in zip(...): self.joint_matrices[n] = m` -/
def dictOf {α : Type} (ps : List (String × α)) : List (String × α) :=
  ps.foldl (fun d p => dictSet d p.1 p.2) []

/-! ### 4x4 integer matrices (`numpy.dot` on 4x4 arrays) -/

structure Mat where
  f : Fin 4 → Fin 4 → Int

instance : One Mat := ⟨⟨fun i j => if i = j then 1 else 0⟩⟩
instance : Mul Mat := ⟨fun a b => ⟨fun i j => a.f i 0 * b.f 0 j + a.f i 1 * b.f 1 j + a.f i 2 * b.f 2 j + a.f i 3 * b.f 3 j⟩⟩

/-- row-major reading of 16 values (`shape = (4, 4)`) -/
def Mat.ofList (l : List Int) : Mat := ⟨fun i j => l.getD (4 * i.val + j.val) 0⟩
def Mat.toList (m : Mat) : List Int :=
  (List.finRange 4).flatMap (fun i => (List.finRange 4).map (fun j => m.f i j))

/-- `<bind_shape_matrix>`: identity when the element is absent, otherwise exactly 16 values -/
def bindShape : Option (List Int) → Except Err Mat
  | none => .ok 1
  | some l => if l.length ≠ 16 then .error .malformed else .ok (Mat.ofList l)

/-! ### reference to a geometry of the library (ids in library order) -/

def findGeom (geoms : List String) (id : String) : Option Nat :=
  if geoms.idxOf id < geoms.length then some (geoms.idxOf id) else none

/-! ### the whole skin -/

structure SkinIn where
  geoms : List String          -- ids of `collada.geometries`
  source : String              -- `<skin source="#…">` without the `#`
  bind : Option (List Int)     -- `<bind_shape_matrix>` values, `none` when absent
  names : List String          -- `<joints>` JOINT source
  mats : List Int              -- `<joints>` INV_BIND_MATRIX source values
  nWeightJoints : Nat          -- length of the `<vertex_weights>` JOINT source
  nWeights : Nat               -- length of the `<vertex_weights>` WEIGHT source
  jo : Nat                     -- offset of the JOINT input
  wo : Nat                     -- offset of the WEIGHT input
  vcounts : List Int
  stream : List Int            -- `<v>`

structure SkinOut where
  geom : Nat
  bind : Mat
  joints : List (String × List Int)       -- pairs in source order
  index : List (List (List Int))          -- `skin[i]`
  jointIndex : List (List Int)
  weightIndex : List (List Int)

/-- `Skin.load` followed by `Skin.__init__`, in the order in which the code raises -/
def decodeSkin (x : SkinIn) : Except Err SkinOut :=
  match findGeom x.geoms x.source with
  | none => .error .brokenRef
  | some g =>
  match bindShape x.bind with
  | .error e => .error e
  | .ok b =>
  match pairJoints x.names x.mats with
  | .error e => .error e
  | .ok js =>
  match partition x.vcounts x.stream (nindices x.jo x.wo) with
  | .error e => .error e
  | .ok idx =>
  match columns x.jo idx with
  | .error e => .error e
  | .ok ji =>
  match columns x.wo idx with
  | .error e => .error e
  | .ok wi =>
  match checkRange x.nWeightJoints x.nWeights ji wi with
  | .error e => .error e
  | .ok () => .ok ⟨g, b, js, idx, ji, wi⟩

/-! ### morph -/

/-- `for target, weight in zip(...)`: the first target that is no geometry id aborts the load -/
def resolveTargets (geoms : List String) : List (String × Int) → Option (List (Nat × Int))
  | [] => some []
  | (t, w) :: rest =>
    match findGeom geoms t, resolveTargets geoms rest with
    | some g, some l => some ((g, w) :: l)
    | _, _ => none

/-- `Morph.load`: base geometry, method (absent = NORMALIZED), equal lengths, zip in order -/
def decodeMorph (geoms : List String) (source : String) (method : Option String)
    (targets : List String) (weights : List Int) : Except Err (Nat × List (Nat × Int)) :=
  match findGeom geoms source with
  | none => .error .brokenRef
  | some b =>
    if ¬ (method.getD "NORMALIZED" = "NORMALIZED" ∨ method.getD "NORMALIZED" = "RELATIVE") then .error .malformed
    else if targets.length ≠ weights.length then .error .malformed
    else match resolveTargets geoms (targets.zip weights) with
      | none => .error .brokenRef
      | some l => .ok (b, l)

/-! ### binding through a scene (any type with a product and a unit) -/

/-- a scene node tree as far as controllers are concerned: `<node>` with its own matrix and
    children, and `<instance_controller>` naming a controller -/
inductive SNode (M : Type) where
  | node (m : M) (children : List (SNode M))
  | inst (ctrl : Nat)

/-- `M = numpy.dot(matrix, self.matrix) if matrix is not None else self.matrix` -/
def accMul {M : Type} [Mul M] : Option M → M → M
  | none, m => m
  | some a, m => a * m

/-- `if matrix is None: matrix = numpy.identity(4)` -/
def accGet {M : Type} [One M] : Option M → M
  | none => 1
  | some a => a

mutual
/-- `Node.objects('controller', matrix)` / `ControllerNode.objects('controller', matrix)`:
    the (matrix, controller) pairs handed to `controller.bind`, in traversal order -/
def SNode.objects {M : Type} [Mul M] [One M] : SNode M → Option M → List (M × Nat)
  | .node m cs, acc => SNode.objectsList cs (some (accMul acc m))
  | .inst c, acc => [(accGet acc, c)]
def SNode.objectsList {M : Type} [Mul M] [One M] : List (SNode M) → Option M → List (M × Nat)
  | [], _ => []
  | c :: cs, acc => c.objects acc ++ SNode.objectsList cs acc
end

/-- `Scene.objects('controller')`: every top-level node is entered with `matrix = None` -/
def sceneObjects {M : Type} [Mul M] [One M] (nodes : List (SNode M)) : List (M × Nat) :=
  SNode.objectsList nodes none

/-- `BoundSkin.__init__`: `skin.geometry.bind(numpy.dot(matrix, skin.bind_shape_matrix), …)` -/
def boundMatrix {M : Type} [Mul M] (matrix bind : M) : M := matrix * bind

/-- bound skins of a scene: matrix of the bound source geometry and the skin it belongs to -/
def sceneBoundSkins {M : Type} [Mul M] [One M] (bind : Nat → M) (nodes : List (SNode M)) : List (M × Nat) :=
  (sceneObjects nodes).map (fun p => (boundMatrix p.1 (bind p.2), p.2))

mutual
/-- specification side: the node matrices from the root down to each `<instance_controller>` -/
def SNode.paths {M : Type} : SNode M → List (List M × Nat)
  | .node m cs => (SNode.pathsList cs).map (fun p => (m :: p.1, p.2))
  | .inst c => [([], c)]
def SNode.pathsList {M : Type} : List (SNode M) → List (List M × Nat)
  | [] => []
  | c :: cs => c.paths ++ SNode.pathsList cs
end

end Pyc.Skin
