/-
Model of `collada.util.IndexedList` (collada/util.py): a Python list with a parallel
dict `_index` from the `id` attribute to an element.  Every mutator changes the list first
and then the dict (`_delindex` for what left the list, `_addindex` for what entered it).
Tied to the source by the C14 correspondence check (props/c14.py drives this file through
drv/C14.lean and the real class on the same operation sequences).
-/
import Pyc.Basic.PyList

namespace Pyc.IL
open Pyc.PyList

/-- a library object: `uid` stands for Python object identity, `id` for its `id` attribute -/
structure Obj where
  uid : Nat
  id : String
deriving DecidableEq, Repr, Inhabited

/-- the dict `_index` as an association list (first binding wins; `set` keeps one binding per key) -/
abbrev Index := List (String × Obj)

def Index.get : Index → String → Option Obj
  | [], _ => none
  | (k', v) :: t, k => if k' = k then some v else Index.get t k

def Index.erase : Index → String → Index
  | [], _ => []
  | (k', v) :: t, k => if k' = k then Index.erase t k else (k', v) :: Index.erase t k

def Index.set (ix : Index) (k : String) (v : Obj) : Index := (k, v) :: ix.erase k

structure State where
  items : List Obj
  index : Index
deriving Repr

/-- `_addindex(obj)` -/
def addIndex (ix : Index) (o : Obj) : Index := ix.set o.id o

/-- `_delindex(obj)`, called after the list changed to `items`: forget `o` unless another
    element of the list (searched from the end) still carries the key -/
def delIndex (items : List Obj) (ix : Index) (o : Obj) : Index :=
  if ix.get o.id = some o then
    match items.reverse.find? (fun x => x.id == o.id) with
    | some y => ix.set o.id y
    | none => ix.erase o.id
  else ix

/-- the index bookkeeping every mutator ends with -/
def finalize (items : List Obj) (removed added : List Obj) (ix : Index) : Index :=
  added.foldl addIndex (removed.foldl (delIndex items) ix)

inductive Err | indexError | keyError | valueError
deriving DecidableEq, Repr

/-- argument forms accepted where a position is expected -/
inductive Arg
  | pos (i : Int)
  | key (k : String)
deriving Repr

inductive Op
  | append (o : Obj)
  | extend (os : List Obj)
  | iadd (os : List Obj)
  | insert (a : Arg) (o : Obj)
  | setitem (a : Arg) (o : Obj)
  | setslice (a b : Option Int) (os : List Obj)
  | delitem (a : Arg)
  | delslice (a b : Option Int)
  | pop (a : Option Arg)
  | removeObj (o : Obj)
  | removeKey (k : String)
  | clear
  | imul (n : Nat)
  | replace (os : List Obj)
deriving Repr

inductive Out
  | done
  | val (o : Obj)
  | fail (e : Err)
deriving DecidableEq, Repr

/-- `IndexedList(items, ('id',))` — also what assigning a list to a library attribute does -/
def mk (os : List Obj) : State := ⟨os, os.foldl addIndex []⟩

/-- `_position` for a key: `list.index(self, self._index[key])` -/
def keyPos (s : State) (k : String) : Except Err Nat :=
  match s.index.get k with
  | none => .error .keyError
  | some o => if s.items.idxOf o < s.items.length then .ok (s.items.idxOf o) else .error .valueError

/-- `_position` where an existing element is required (`[]`, `del`, `pop`) -/
def elemPos (s : State) : Arg → Except Err Nat
  | .pos i => match normIdx s.items.length i with
      | some k => .ok k
      | none => .error .indexError
  | .key k => keyPos s k

/-- `_position` for `insert` (integers clamp like `list.insert`) -/
def insPos (s : State) : Arg → Except Err Nat
  | .pos i => .ok (clampIdx s.items.length i)
  | .key k => keyPos s k

def removeAt (s : State) (k : Nat) : State :=
  let items' := s.items.eraseIdx k
  ⟨items', finalize items' (s.items[k]?.toList) [] s.index⟩

def step (s : State) : Op → State × Out
  | .append o => (⟨s.items ++ [o], finalize (s.items ++ [o]) [] [o] s.index⟩, .done)
  | .extend os => (⟨s.items ++ os, finalize (s.items ++ os) [] os s.index⟩, .done)
  | .iadd os => (⟨s.items ++ os, finalize (s.items ++ os) [] os s.index⟩, .done)
  | .insert a o =>
      match insPos s a with
      | .error e => (s, .fail e)
      | .ok k =>
        let items' := s.items.take k ++ o :: s.items.drop k
        (⟨items', finalize items' [] [o] s.index⟩, .done)
  | .setitem a o =>
      match elemPos s a with
      | .error e => (s, .fail e)
      | .ok k =>
        let items' := s.items.set k o
        (⟨items', finalize items' (s.items[k]?.toList) [o] s.index⟩, .done)
  | .setslice a b os =>
      let (lo, hi) := sliceBounds s.items.length a b
      let items' := s.items.take lo ++ os ++ s.items.drop hi
      (⟨items', finalize items' ((s.items.take hi).drop lo) os s.index⟩, .done)
  | .delitem a =>
      match elemPos s a with
      | .error e => (s, .fail e)
      | .ok k => (removeAt s k, .done)
  | .delslice a b =>
      let (lo, hi) := sliceBounds s.items.length a b
      let items' := s.items.take lo ++ s.items.drop hi
      (⟨items', finalize items' ((s.items.take hi).drop lo) [] s.index⟩, .done)
  | .pop a =>
      match elemPos s (a.getD (.pos (-1))) with
      | .error e => (s, .fail e)
      | .ok k => match s.items[k]? with
        | some o => (removeAt s k, .val o)
        | none => (s, .fail .indexError)
  | .removeObj o =>
      if o ∈ s.items then (removeAt s (s.items.idxOf o), .done) else (s, .fail .valueError)
  | .removeKey k =>
      match s.index.get k with
      | none => (s, .fail .valueError)
      | some o => if o ∈ s.items then (removeAt s (s.items.idxOf o), .done) else (s, .fail .valueError)
  | .clear => (⟨[], []⟩, .done)
  | .imul n =>
      if n = 0 then (⟨[], []⟩, .done)
      else (⟨(List.replicate n s.items).flatten, s.index⟩, .done)
  | .replace os => (mk os, .done)

/-- queries: `L[key]`/`L.get(key)`, and `key in L` -/
def lookup (s : State) (k : String) : Option Obj := s.index.get k
def containsKey (s : State) (k : String) : Bool := (s.index.get k).isSome

def run (s : State) (ops : List Op) : State := ops.foldl (fun s op => (step s op).1) s

end Pyc.IL
