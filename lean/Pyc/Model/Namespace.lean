/-
Namespace handling of the loader (C15).  The loader takes the namespace from the root element and
recognises an element by comparing its tag with `collada.tag(name)` = (root namespace, name).
What such a loader can see of a document is its *view*: every element labelled either as
"COLLADA element with this local name" or as "foreign element".  Any function of the view is
independent of the namespace URI; a loader that compares with a hard-wired URI is not.
-/
namespace Pyc.Ns

inductive Xml where
  | node (ns name : String) (attrs : List (String × String)) (text : String) (kids : List Xml)
deriving Repr, Inhabited

def Xml.ns : Xml → String | .node ns _ _ _ _ => ns

/-- what a per-document tagger can distinguish -/
inductive View where
  | own (name : String) (attrs : List (String × String)) (text : String) (kids : List View)
  | foreign (ns name : String) (attrs : List (String × String)) (text : String) (kids : List View)
deriving Repr, Inhabited

mutual
  def view (root : String) : Xml → View
    | .node ns name attrs text kids =>
      if ns = root then .own name attrs text (viewList root kids)
      else .foreign ns name attrs text (viewList root kids)
  def viewList (root : String) : List Xml → List View
    | [] => []
    | x :: xs => view root x :: viewList root xs
end

mutual
  /-- the same document under another URI for the COLLADA namespace -/
  def renameNs (a b : String) : Xml → Xml
    | .node ns name attrs text kids => .node (if ns = a then b else ns) name attrs text (renameList a b kids)
  def renameList (a b : String) : List Xml → List Xml
    | [] => []
    | x :: xs => renameNs a b x :: renameList a b xs
end

mutual
  def occurs (b : String) : Xml → Bool
    | .node ns _ _ _ kids => ns == b || occursList b kids
  def occursList (b : String) : List Xml → Bool
    | [] => false
    | x :: xs => occurs b x || occursList b xs
end

/-- the loader as it is meant: namespace from the root tag, then any function of the view -/
def loadWith {α : Type} (f : View → α) (x : Xml) : α := f (view x.ns x)

/-- a loader with a hard-wired namespace somewhere (the defect pattern: module-level `tag`) -/
def loadHardwired {α : Type} (dflt : String) (f : View → α) (x : Xml) : α := f (view dflt x)

/-- example loader used by the driver: ids of the <geometry> children of the <library_geometries>
    children of the root, and the number of foreign elements below the root -/
def geometryIds : View → List String
  | .own _ _ _ kids => kids.flatMap (fun k => match k with
      | .own "library_geometries" _ _ gs => gs.filterMap (fun g => match g with
          | .own "geometry" attrs _ _ => (attrs.find? (fun a => a.1 == "id")).map (·.2)
          | _ => none)
      | _ => [])
  | .foreign .. => []

/-- `Collada.save` of a document whose namespace is not the default one: foreign content that already is in the
    default namespace is parked in a private namespace, the document is moved into the default namespace, the
    namespace-unaware `core` save runs, and both moves are undone -/
def saveNs (dflt parked : String) (core : Xml → Xml) (x : Xml) : Xml :=
  if x.ns = dflt then core x
  else renameNs parked dflt (renameNs dflt x.ns (core (renameNs x.ns dflt (renameNs dflt parked x))))

/-- the earlier repair, without parking -/
def saveNsNoPark (dflt : String) (core : Xml → Xml) (x : Xml) : Xml :=
  if x.ns = dflt then core x else renameNs dflt x.ns (core (renameNs x.ns dflt x))

mutual
  /-- namespaces of all elements in document order -/
  def nsList : Xml → List String
    | .node ns _ _ _ kids => ns :: nsListL kids
  def nsListL : List Xml → List String
    | [] => []
    | x :: xs => nsList x ++ nsListL xs
end

end Pyc.Ns
