/-
Model of the transform classes of `collada/scene.py` (makeRotationMatrix, Translate/Rotate/
Scale/Matrix/LookAtTransform constructors and loaders, the matrix accumulation of
`Node.__init__` / `Node.save`, `Node.load`'s collection of transform children).

Numbers are elements of any carrier with `+ * - neg 0 1` (the proofs instantiate a commutative
ring, the driver `Rat`, the examples `Int`).  What a ring cannot express enters as a parameter:
  * `c s`   — cosine and sine of `angle·π/180` (the constructor converts degrees to radians and
              calls `numpy.cos` / `numpy.sin`);
  * `rf rs` — the reciprocals of the two square roots `toUnitVec` divides by in the lookat
              constructor (`rf = 1/‖eye − interest‖`, `rs = 1/‖front × up‖`).
Matrices are stored by rows, exactly as `numpy` indexes `matrix[i, j]`; `apply` is the
column-vector convention `M·v` the library uses everywhere else (`Node.objects` multiplies
parent · child, primitives are bound with `M · (x, y, z, 1)`).

The lookat constructor is modelled AFTER the repairs on branch fix/c13 (axes and eye written
into columns, up re-orthogonalised as `front × side`).

Tied to the source by the C13 correspondence check (props/c13.py ↔ drv/C13.lean).
-/
import Pyc.Basic.PyList

namespace Pyc.Tf
open Pyc.PyList

structure V3 (R : Type) where
  x : R
  y : R
  z : R
deriving DecidableEq, Repr

structure V4 (R : Type) where
  x : R
  y : R
  z : R
  w : R
deriving DecidableEq, Repr

/-- 4x4 matrix by rows: `r1.w` is numpy's `matrix[1, 3]` -/
structure M4 (R : Type) where
  r0 : V4 R
  r1 : V4 R
  r2 : V4 R
  r3 : V4 R
deriving DecidableEq, Repr

inductive Err | malformed
deriving DecidableEq, Repr

section Algebra
variable {R : Type} [Add R] [Mul R] [Sub R] [Neg R] [OfNat R 0] [OfNat R 1]

def V3.dot (a b : V3 R) : R := a.x * b.x + a.y * b.y + a.z * b.z
/-- `numpy.cross` for two 3-vectors -/
def V3.cross (a b : V3 R) : V3 R :=
  ⟨a.y * b.z - a.z * b.y, a.z * b.x - a.x * b.z, a.x * b.y - a.y * b.x⟩
def V3.add (a b : V3 R) : V3 R := ⟨a.x + b.x, a.y + b.y, a.z + b.z⟩
def V3.sub (a b : V3 R) : V3 R := ⟨a.x - b.x, a.y - b.y, a.z - b.z⟩
def V3.smul (k : R) (a : V3 R) : V3 R := ⟨k * a.x, k * a.y, k * a.z⟩
def V3.neg (a : V3 R) : V3 R := ⟨-a.x, -a.y, -a.z⟩

def V4.dot (a b : V4 R) : R := a.x * b.x + a.y * b.y + a.z * b.z + a.w * b.w
/-- a point `(v, 1)` or a direction `(v, 0)` in homogeneous coordinates -/
def V4.ofV3 (v : V3 R) (w : R) : V4 R := ⟨v.x, v.y, v.z, w⟩
def V4.xyz (v : V4 R) : V3 R := ⟨v.x, v.y, v.z⟩

/-- `numpy.identity(4)` -/
def M4.one : M4 R := ⟨⟨1, 0, 0, 0⟩, ⟨0, 1, 0, 0⟩, ⟨0, 0, 1, 0⟩, ⟨0, 0, 0, 1⟩⟩

def M4.c0 (m : M4 R) : V4 R := ⟨m.r0.x, m.r1.x, m.r2.x, m.r3.x⟩
def M4.c1 (m : M4 R) : V4 R := ⟨m.r0.y, m.r1.y, m.r2.y, m.r3.y⟩
def M4.c2 (m : M4 R) : V4 R := ⟨m.r0.z, m.r1.z, m.r2.z, m.r3.z⟩
def M4.c3 (m : M4 R) : V4 R := ⟨m.r0.w, m.r1.w, m.r2.w, m.r3.w⟩

def M4.transpose (m : M4 R) : M4 R := ⟨m.c0, m.c1, m.c2, m.c3⟩

/-- column-vector convention: `M · v` -/
def M4.apply (m : M4 R) (v : V4 R) : V4 R := ⟨m.r0.dot v, m.r1.dot v, m.r2.dot v, m.r3.dot v⟩

/-- `numpy.dot(a, b)` for two 4x4 arrays: entry `(i, j)` is row `i` of `a` times column `j` of `b` -/
def M4.mul (a b : M4 R) : M4 R :=
  ⟨⟨a.r0.dot b.c0, a.r0.dot b.c1, a.r0.dot b.c2, a.r0.dot b.c3⟩,
   ⟨a.r1.dot b.c0, a.r1.dot b.c1, a.r1.dot b.c2, a.r1.dot b.c3⟩,
   ⟨a.r2.dot b.c0, a.r2.dot b.c1, a.r2.dot b.c2, a.r2.dot b.c3⟩,
   ⟨a.r3.dot b.c0, a.r3.dot b.c1, a.r3.dot b.c2, a.r3.dot b.c3⟩⟩

/-- determinant of the upper-left 3x3 block (the linear part of an affine matrix) -/
def M4.det3 (m : M4 R) : R :=
  m.r0.x * (m.r1.y * m.r2.z - m.r1.z * m.r2.y)
  - m.r0.y * (m.r1.x * m.r2.z - m.r1.z * m.r2.x)
  + m.r0.z * (m.r1.x * m.r2.y - m.r1.y * m.r2.x)

/-- row-major flattening, `matrix.flat` -/
def M4.toList (m : M4 R) : List R :=
  [m.r0.x, m.r0.y, m.r0.z, m.r0.w, m.r1.x, m.r1.y, m.r1.z, m.r1.w,
   m.r2.x, m.r2.y, m.r2.z, m.r2.w, m.r3.x, m.r3.y, m.r3.z, m.r3.w]

/-! ### the five constructors -/

/-- `TranslateTransform.__init__`: identity, then `matrix[:3, 3] = [x, y, z]` -/
def translate (x y z : R) : M4 R := ⟨⟨1, 0, 0, x⟩, ⟨0, 1, 0, y⟩, ⟨0, 0, 1, z⟩, ⟨0, 0, 0, 1⟩⟩

/-- `ScaleTransform.__init__`: identity, then the three diagonal entries -/
def scale (x y z : R) : M4 R := ⟨⟨x, 0, 0, 0⟩, ⟨0, y, 0, 0⟩, ⟨0, 0, z, 0⟩, ⟨0, 0, 0, 1⟩⟩

/-- `makeRotationMatrix(x, y, z, angle)` with `c = cos angle`, `s = sin angle`, `t = 1 - c` -/
def rotate (x y z c s : R) : M4 R :=
  let t := 1 - c
  ⟨⟨t * x * x + c, t * x * y - s * z, t * x * z + s * y, 0⟩,
   ⟨t * x * y + s * z, t * y * y + c, t * y * z - s * x, 0⟩,
   ⟨t * x * z - s * y, t * y * z + s * x, t * z * z + c, 0⟩,
   ⟨0, 0, 0, 1⟩⟩

/-- `MatrixTransform.__init__`: sixteen numbers, `matrix.shape = (4, 4)` (C order = row-major);
    any other length is `DaeMalformedError` -/
def ofList : List R → Except Err (M4 R)
  | [a0, a1, a2, a3, a4, a5, a6, a7, a8, a9, a10, a11, a12, a13, a14, a15] =>
    .ok ⟨⟨a0, a1, a2, a3⟩, ⟨a4, a5, a6, a7⟩, ⟨a8, a9, a10, a11⟩, ⟨a12, a13, a14, a15⟩⟩
  | _ => .error .malformed

/-- the three axes the lookat constructor computes, in the order of the code:
    `front = toUnitVec(eye - interest)`, `side = -toUnitVec(cross(front, up))`,
    `up' = cross(front, side)` -/
def lookFront (eye interest : V3 R) (rf : R) : V3 R := V3.smul rf (V3.sub eye interest)
def lookSide (eye interest up : V3 R) (rf rs : R) : V3 R :=
  V3.neg (V3.smul rs (V3.cross (lookFront eye interest rf) up))
def lookUp (eye interest up : V3 R) (rf rs : R) : V3 R :=
  V3.cross (lookFront eye interest rf) (lookSide eye interest up rf rs)

/-- `LookAtTransform.__init__` on three 3-vectors: side, up', front and eye become COLUMNS
    0..3 of the identity (`matrix[0:3, k] = …`) -/
def lookat (eye interest up : V3 R) (rf rs : R) : M4 R :=
  let f := lookFront eye interest rf
  let s := lookSide eye interest up rf rs
  let u := lookUp eye interest up rf rs
  ⟨⟨s.x, u.x, f.x, eye.x⟩, ⟨s.y, u.y, f.y, eye.y⟩, ⟨s.z, u.z, f.z, eye.z⟩, ⟨0, 0, 0, 1⟩⟩

def v3OfList : List R → Option (V3 R)
  | [a, b, c] => some ⟨a, b, c⟩
  | _ => none

/-- a constructor call of the public API (argument lists where the code takes arrays) -/
inductive Ctor (R : Type) where
  | translate (x y z : R)
  | rotate (x y z c s : R)
  | scale (x y z : R)
  | matrix (m : List R)
  | lookat (eye interest up : List R) (rf rs : R)
deriving Repr

/-- the `.matrix` attribute the constructor leaves behind, or the error it raises -/
def Ctor.build : Ctor R → Except Err (M4 R)
  | .translate x y z => .ok (Tf.translate x y z)
  | .rotate x y z c s => .ok (Tf.rotate x y z c s)
  | .scale x y z => .ok (Tf.scale x y z)
  | .matrix m => ofList m
  | .lookat eye interest up rf rs =>
    -- `if len(eye) != 3 or len(interest) != 3 or len(upvector) != 3: raise DaeMalformedError`
    match v3OfList eye, v3OfList interest, v3OfList up with
    | some e, some i, some u => .ok (Tf.lookat e i u rf rs)
    | _, _, _ => .error .malformed

/-- a transform element of a file: the floats of its text plus the non-ring parameters -/
inductive Elem (R : Type) where
  | translate (fl : List R)
  | rotate (fl : List R) (c s : R)
  | scale (fl : List R)
  | matrix (fl : List R)
  | lookat (fl : List R) (rf rs : R)
deriving Repr

/-- the `load` static methods: count check, then the constructor call with slices of `floats` -/
def Elem.toCtor : Elem R → Except Err (Ctor R)
  | .translate fl => match fl with
    | [x, y, z] => .ok (.translate x y z)
    | _ => .error .malformed
  | .rotate fl c s => match fl with
    | [x, y, z, _angle] => .ok (.rotate x y z c s)
    | _ => .error .malformed
  | .scale fl => match fl with
    | [x, y, z] => .ok (.scale x y z)
    | _ => .error .malformed
  | .matrix fl => .ok (.matrix fl)
  | .lookat fl rf rs =>
    if fl.length ≠ 9 then .error .malformed
    else .ok (.lookat (fl.take 3) ((fl.drop 3).take 3) ((fl.drop 6).take 3) rf rs)

def Elem.load (e : Elem R) : Except Err (M4 R) :=
  match e.toCtor with
  | .ok c => c.build
  | .error err => .error err

/-! ### a node's matrix -/

/-- `matrix = identity; for t in transforms: matrix = numpy.dot(matrix, t.matrix)` -/
def prod (ts : List (M4 R)) : M4 R := ts.foldl M4.mul M4.one

/-- the part of a `Node` C13 speaks about: the `.matrix` of every transform in `transforms`,
    and the cached `matrix` attribute -/
structure Node (R : Type) where
  transforms : List (M4 R)
  matrix : M4 R
deriving Repr

/-- `Node.__init__` -/
def Node.new (ts : List (M4 R)) : Node R := ⟨ts, prod ts⟩

/-- a child element of `<node>`: a transform, or anything else (`<node>`, `<instance_*>`, `<extra>` …) -/
inductive Child (R : Type) where
  | tf (e : Elem R)
  | other
deriving Repr

/-- the loop of `Node.load` over the child elements (no error is ignored: the first
    malformed transform aborts the load) -/
def collect : List (Child R) → List (M4 R) → Except Err (List (M4 R))
  | [], acc => .ok acc
  | .other :: rest, acc => collect rest acc
  | .tf e :: rest, acc =>
    match e.load with
    | .ok m => collect rest (acc ++ [m])
    | .error err => .error err

/-- `Node.load`: transforms in document order, then `Node(id, children, transforms, …)` -/
def Node.load (children : List (Child R)) : Except Err (Node R) :=
  match collect children [] with
  | .ok ts => .ok (Node.new ts)
  | .error err => .error err

/-- `Node.save`, as far as the matrix is concerned: recompute from the current list -/
def Node.save (n : Node R) : Node R := { n with matrix := prod n.transforms }

end Algebra

/-! ### edits of `node.transforms` (a plain Python list) and `save` -/

/-- the list operations a caller can perform on `node.transforms`; `α` is the element type -/
inductive Edit (α : Type) where
  | append (t : α)
  | insert (i : Int) (t : α)
  | pop (i : Option Int)
  | delitem (i : Int)
  | setitem (i : Int) (t : α)
  | swap (i j : Int)
  | reverse
  | clear
  | extend (ts : List α)
  | assign (ts : List α)
deriving Repr

/-- what the edit does to the list (`none` = `IndexError`, list unchanged) -/
def editList {α : Type} (l : List α) : Edit α → Option (List α)
  | .append t => some (l ++ [t])
  | .insert i t => let k := clampIdx l.length i; some (l.take k ++ t :: l.drop k)
  | .pop none => if l.isEmpty then none else some l.dropLast
  | .pop (some i) => (normIdx l.length i).map l.eraseIdx
  | .delitem i => (normIdx l.length i).map l.eraseIdx
  | .setitem i t => (normIdx l.length i).map (fun k => l.set k t)
  | .swap i j =>
    -- `l[i], l[j] = l[j], l[i]`
    match normIdx l.length i, normIdx l.length j with
    | some a, some b =>
      match l[a]?, l[b]? with
      | some x, some y => some ((l.set a y).set b x)
      | _, _ => none
    | _, _ => none
  | .reverse => some l.reverse
  | .clear => some []
  | .extend ts => some (l ++ ts)
  | .assign ts => some ts

inductive Out | done | indexError
deriving DecidableEq, Repr

/-- one step of a node's history: an edit of the transform list (the cached matrix is not
    touched: "This will only be updated after calling save"), or `save()` -/
inductive Op (R : Type) where
  | edit (e : Edit (M4 R))
  | save
deriving Repr

section History
variable {R : Type} [Add R] [Mul R] [OfNat R 0] [OfNat R 1]

def Node.step (n : Node R) : Op R → Node R × Out
  | .edit e =>
    match editList n.transforms e with
    | some l => ({ n with transforms := l }, .done)
    | none => (n, .indexError)
  | .save => (n.save, .done)

def Node.run (n : Node R) (ops : List (Op R)) : Node R := ops.foldl (fun s op => (s.step op).1) n

end History

end Pyc.Tf
