/-
Numbers in files (C01): what FloatSource.save writes ('%.7g' of a float32 value) and what the loader
reads back (decimal text to float32).  Both are roundings to the nearest point of a set; the model
states them as decidable relations on exact rationals, so that no floating point enters Lean:
  `isNearestDec7 x a` — a has at most 7 significant decimal digits and no such decimal is nearer to x;
  `isNearestBin24 a b` — b is a binary24 (float32) value and no float32 value is nearer to a.
Modelled, not verified: that libc/numpy implement exactly these relations (checked by correspondence).
-/
namespace Pyc.NumText

def absR (q : Rat) : Rat := if q < 0 then -q else q

/-- 10^e as a rational, e any integer -/
def pow10 (e : Int) : Rat := if 0 ≤ e then ((10 : Rat) ^ e.toNat) else 1 / ((10 : Rat) ^ (-e).toNat)
def pow2 (e : Int) : Rat := if 0 ≤ e then ((2 : Rat) ^ e.toNat) else 1 / ((2 : Rat) ^ (-e).toNat)

/-- ⌊log2⌋ estimate of a positive rational (exact up to ±1) -/
def log2Est (q : Rat) : Int := (Int.ofNat (Nat.log2 (absR q).num.natAbs)) - (Int.ofNat (Nat.log2 (absR q).den))

/-- decade exponent: the e with 10^e ≤ |q| < 10^(e+1) (q ≠ 0). The candidates come from a log2
    estimate; the answer is whichever candidate satisfies the defining inequality. -/
def decade (q : Rat) : Option Int :=
  let a := absR q
  let e0 : Int := (log2Est q) * 30103 / 100000
  [e0 - 2, e0 - 1, e0, e0 + 1, e0 + 2].findSome? (fun e =>
    if pow10 e ≤ a ∧ a < pow10 (e + 1) then some e else none)

/-- binade exponent: the e with 2^e ≤ |q| < 2^(e+1) (q ≠ 0) -/
def binade (q : Rat) : Option Int :=
  let a := absR q
  let e0 := log2Est q
  [e0 - 1, e0, e0 + 1].findSome? (fun e =>
    if pow2 e ≤ a ∧ a < pow2 (e + 1) then some e else none)

/-- spacing of 7-significant-digit decimals in the decade of a -/
def step10 (a : Rat) : Option Rat := (decade a).map (fun e => pow10 (e - 6))

/-- a is a decimal with at most 7 significant digits -/
def isDec7 (a : Rat) : Bool :=
  if a = 0 then true else
  match step10 a with
  | some d => (a / d).den = 1
  | none => false

/-- a is a float32 value (normal or subnormal), magnitude below 2^128 -/
def isBin24 (b : Rat) : Bool :=
  if b = 0 then true else
  match binade b with
  | some e =>
    let ulp := pow2 ((if e < -126 then -126 else e) - 23)
    (b / ulp).den = 1 ∧ e < 128
  | none => false

/-- the neighbours of a in the 7-digit decimals: below a power of ten the spacing shrinks tenfold -/
def dec7Neighbours (a : Rat) : Option (Rat × Rat) :=
  match decade a with
  | some e =>
    let d := pow10 (e - 6)
    let lowStep := if absR a = pow10 e then d / 10 else d
    if 0 < a then some (a - lowStep, a + d) else some (a - d, a + lowStep)
  | none => none

/-- `'%.7g' % x` is `a` (as numbers): a is a 7-digit decimal and neither neighbour is nearer;
    on a tie the digit string with the even last digit wins -/
def isNearestDec7 (x a : Rat) : Bool :=
  if x = 0 then a = 0 else
  isDec7 a &&
  match dec7Neighbours a, step10 a with
  | some (lo, hi), some d =>
    let evenLast := ((a / d).num % 2 = 0)
    (absR (x - a) < absR (x - lo) || (absR (x - a) = absR (x - lo) && evenLast)) &&
    (absR (x - a) < absR (x - hi) || (absR (x - a) = absR (x - hi) && evenLast))
  | _, _ => false

/-- `numpy.float32(a)` is `b`: b is a float32 value and neither neighbouring float32 value is nearer
    (ties to the even mantissa) -/
def isNearestBin24 (a b : Rat) : Bool :=
  if a = 0 then b = 0 else
  if b = 0 then absR a ≤ pow2 (-150) else
  isBin24 b &&
  match binade b with
  | some e =>
    let ulp := pow2 ((if e < -126 then -126 else e) - 23)
    let lowStep := if absR b = pow2 e ∧ e > -126 then ulp / 2 else ulp
    let lo := if 0 < b then b - lowStep else b - ulp
    let hi := if 0 < b then b + ulp else b + lowStep
    let evenM := ((b / ulp).num % 2 = 0)
    (absR (a - b) < absR (a - lo) || (absR (a - b) = absR (a - lo) && evenM)) &&
    (absR (a - b) < absR (a - hi) || (absR (a - b) = absR (a - hi) && evenM))
  | none => false

end Pyc.NumText

namespace Pyc.NumText

/-- the 7-digit decimals just below and just above a positive rational (equal to it when it is one) -/
def dec7Below (q : Rat) : Rat :=
  match step10 q with
  | some d => ((q / d).floor : Rat) * d
  | none => 0
def dec7Above (q : Rat) : Rat :=
  match step10 q with
  | some d => ((q / d).ceil : Rat) * d
  | none => 0

/-- `'%.7g' % q` as a number, for positive q: nearest 7-digit decimal, ties to the even digit -/
def nearestDec7 (q : Rat) : Rat :=
  match step10 q with
  | some d =>
    let m := q / d
    let fl := m.floor
    let fr := m - fl
    let pick : Int := if fr < 1/2 then fl else if 1/2 < fr then fl + 1 else (if fl % 2 = 0 then fl else fl + 1)
    (pick : Rat) * d
  | none => 0

/-- What has to hold at a power of two b (where float32 spacing changes) for the loaded value to be
    reproduced by write+load: either the decimal written for b reads back as b, or no 7-digit decimal
    reads as b at all (then b never occurs in a reloaded model). -/
def pow2Stable (b : Rat) : Bool :=
  isNearestBin24 (nearestDec7 b) b ||
  (!(isNearestBin24 (dec7Below b) b) && !(isNearestBin24 (dec7Above b) b))

end Pyc.NumText
