/-
Model of normal and texture-tangent generation in collada/triangleset.py, as the code does it
AFTER the `fix:` commits of branch fix/c18 (accumulation with `numpy.add.at`):

* `Triangle.__init__` without normals:   `toUnitVec(cross(toUnitVec(v2-v0), toUnitVec(v0-v1)))`
* `TriangleSet.generateNormals` / `BoundTriangleSet.generateNormals`:
      n = cross(v1-v0, v2-v0); normalize_v3(n)
      add.at(norms, idx[:,0], n); add.at(norms, idx[:,1], n); add.at(norms, idx[:,2], n)
      normalize_v3(norms); _normal = norms; _normal_index = _vertex_index
* `TriangleSet.generateTexTangentsAndBinormals`: per-triangle s direction, the same three
  column-wise accumulations, then per corner  normalize_v3(tan - norm * dot_v3(norm, tan)).

`sqrt` and the float division are not modelled: `nz` (normalisation) is a parameter.
Numbers are elements of any type with the needed operations (the driver uses `Rat`).
`scatterAssign` models what the unrepaired code did (`a[idx] += b` with a fancy index is
buffered by numpy: gather from the old array, add, assign back, last write wins).
Core Lean only.  Tied to the source by props/c18.py through lean/drv/C18.lean.
-/
namespace Pyc.Normals

structure V3 (α : Type) where
  x : α
  y : α
  z : α
deriving DecidableEq, Repr

structure V2 (α : Type) where
  s : α
  t : α
deriving DecidableEq, Repr

/-- one row of an index array of shape (ntriangles, 3) -/
structure Tri where
  a : Nat
  b : Nat
  c : Nat
deriving DecidableEq, Repr

namespace V3
variable {α : Type}

instance [Add α] : Add (V3 α) := ⟨fun a b => ⟨a.x + b.x, a.y + b.y, a.z + b.z⟩⟩
instance [Sub α] : Sub (V3 α) := ⟨fun a b => ⟨a.x - b.x, a.y - b.y, a.z - b.z⟩⟩
instance [Zero α] : Zero (V3 α) := ⟨⟨0, 0, 0⟩⟩

def smul [Mul α] (k : α) (a : V3 α) : V3 α := ⟨k * a.x, k * a.y, k * a.z⟩

/-- `dot_v3` (util.py) — the third product is written with its operands swapped there too -/
def dot [Add α] [Mul α] (a b : V3 α) : α := a.x * b.x + a.y * b.y + b.z * a.z

/-- `numpy.cross` -/
def cross [Sub α] [Mul α] (a b : V3 α) : V3 α :=
  ⟨a.y * b.z - a.z * b.y, a.z * b.x - a.x * b.z, a.x * b.y - a.y * b.x⟩

end V3
open V3

/-! ### scatter accumulation -/

section scatter
variable {β : Type}

/-- `acc[i] += x` for one index (an out-of-range index is an IndexError in numpy; callers check
    the range first, see `lookupTri`) -/
def addAt [Add β] (acc : List β) (i : Nat) (x : β) : List β := acc.modify i (· + x)

/-- `numpy.add.at(acc, idx, vals)`: unbuffered, one `+=` per position of `idx`, in order -/
def scatterAdd [Add β] (acc : List β) (idx : List Nat) (vals : List β) : List β :=
  (idx.zip vals).foldl (fun a p => addAt a p.1 p.2) acc

/-- `acc[idx] += vals` with a fancy index (the pinned tree): `tmp = acc[idx] + vals` is computed
    from the OLD array, then `acc[idx] = tmp` assigns position by position — for a repeated index
    only the last contribution survives -/
def scatterAssign [Add β] (acc : List β) (idx : List Nat) (vals : List β) : List β :=
  (idx.zip vals).foldl (fun a p => match acc[p.1]? with
    | some old => a.set p.1 (old + p.2)
    | none => a) acc

/-- the three column-wise accumulations into a zero array of `nverts` rows -/
def accumulate [Add β] [Zero β] (nverts : Nat) (tris : List Tri) (ns : List β) : List β :=
  scatterAdd (scatterAdd (scatterAdd (List.replicate nverts 0)
    (tris.map (·.a)) ns) (tris.map (·.b)) ns) (tris.map (·.c)) ns

/-- the same with the buffered `+=` (defect of the pinned tree) -/
def accumulateAssign [Add β] [Zero β] (nverts : Nat) (tris : List Tri) (ns : List β) : List β :=
  scatterAssign (scatterAssign (scatterAssign (List.replicate nverts 0)
    (tris.map (·.a)) ns) (tris.map (·.b)) ns) (tris.map (·.c)) ns

/-- all (vertex, contribution) pairs: one per (triangle, corner) -/
def corners (tris : List Tri) (ns : List β) : List (Nat × β) :=
  (tris.zip ns).flatMap (fun p => [(p.1.a, p.2), (p.1.b, p.2), (p.1.c, p.2)])

/-- Σ over all (t,k) with `tri t k = v` of `n t` -/
def incident [Add β] [Zero β] (v : Nat) (tris : List Tri) (ns : List β) : β :=
  (((corners tris ns).filter (fun p => p.1 == v)).map (·.2)).sum

end scatter

/-! ### face normals -/

section geometry
variable {α : Type}

/-- `array[index_row]`: the three rows a triangle refers to; `none` = IndexError -/
def lookupTri {γ : Type} (V : List γ) (t : Tri) : Option (γ × γ × γ) := do
  let p0 ← V[t.a]?
  let p1 ← V[t.b]?
  let p2 ← V[t.c]?
  some (p0, p1, p2)

/-- `numpy.cross(tris[:,1] - tris[:,0], tris[:,2] - tris[:,0])` -/
def faceCross [Sub α] [Mul α] (p : V3 α × V3 α × V3 α) : V3 α :=
  cross (p.2.1 - p.1) (p.2.2 - p.1)

/-- the implicit normal of a `Triangle` built without normals:
    vec1 = v0 - v1, vec2 = v2 - v0, toUnitVec(cross(toUnitVec(vec2), toUnitVec(vec1))) -/
def triNormal [Sub α] [Mul α] (nz : V3 α → V3 α) (v0 v1 v2 : V3 α) : V3 α :=
  nz (cross (nz (v2 - v0)) (nz (v0 - v1)))

structure Generated (α : Type) where
  normal : List (V3 α)
  normalIndex : List Tri
deriving DecidableEq, Repr

/-- the unit face normals `n` of `generateNormals`; `none` when an index is out of range -/
def faceNormals [Sub α] [Mul α] (nz : V3 α → V3 α) (V : List (V3 α)) (tris : List Tri) :
    Option (List (V3 α)) :=
  (tris.mapM (lookupTri V)).map (fun ps => ps.map (fun p => nz (faceCross p)))

/-- `generateNormals` (bound and unbound are the same code over `_vertex`, `_vertex_index`) -/
def generateNormals [Add α] [Sub α] [Mul α] [Zero α] (nz : V3 α → V3 α) (V : List (V3 α))
    (tris : List Tri) : Option (Generated α) :=
  (faceNormals nz V tris).map (fun ns => ⟨(accumulate V.length tris ns).map nz, tris⟩)

/-- what the pinned tree computed -/
def generateNormalsAssign [Add α] [Sub α] [Mul α] [Zero α] (nz : V3 α → V3 α) (V : List (V3 α))
    (tris : List Tri) : Option (Generated α) :=
  (faceNormals nz V tris).map (fun ns => ⟨(accumulateAssign V.length tris ns).map nz, tris⟩)

/-! ### texture tangents -/

/-- Gram-Schmidt step of the code: `tan - norm * dot_v3(norm, tan)` -/
def gsResidual [Add α] [Sub α] [Mul α] (n t : V3 α) : V3 α := t - smul (dot n t) n

/-- division-free direction of the same step for a normal known only up to scale:
    `(S·S) t − (S·t) S` -/
def gsDir [Add α] [Sub α] [Mul α] (S t : V3 α) : V3 α := smul (dot S S) t - smul (dot S t) S

/-- the s direction of one triangle (`sdir`), `none` when the UV area is zero (the code divides
    by it). Edges are v1-v0 and v2-v1, UV deltas likewise. -/
def sdirOf [Sub α] [Mul α] [Div α] [Zero α] [OfNat α 1] [DecidableEq α]
    (p : V3 α × V3 α × V3 α) (q : V2 α × V2 α × V2 α) : Option (V3 α) :=
  let e1 := p.2.1 - p.1
  let e2 := p.2.2 - p.2.1
  let s1 := q.2.1.s - q.1.s
  let s2 := q.2.2.s - q.2.1.s
  let t1 := q.2.1.t - q.1.t
  let t2 := q.2.2.t - q.2.1.t
  let den := s1 * t2 - s2 * t1
  if den = 0 then none
  else
    let r := 1 / den
    some ⟨(t2 * e1.x - t1 * e2.x) * r, (t2 * e1.y - t1 * e2.y) * r, (t2 * e1.z - t1 * e2.z) * r⟩

/-- `sdir` for every triangle; `none` for an index out of range or a zero UV area -/
def sdirs [Sub α] [Mul α] [Div α] [Zero α] [OfNat α 1] [DecidableEq α]
    (V : List (V3 α)) (tris : List Tri) (UV : List (V2 α)) (uvtris : List Tri) :
    Option (List (V3 α)) := do
  let ps ← tris.mapM (lookupTri V)
  let qs ← uvtris.mapM (lookupTri UV)
  (ps.zip qs).mapM (fun pq => sdirOf pq.1 pq.2)

/-- the accumulated s directions per vertex (`tans1`) -/
def tangentSums [Add α] [Sub α] [Mul α] [Div α] [Zero α] [OfNat α 1] [DecidableEq α]
    (V : List (V3 α)) (tris : List Tri) (UV : List (V2 α)) (uvtris : List Tri) :
    Option (List (V3 α)) :=
  (sdirs V tris UV uvtris).map (accumulate V.length tris)

/-- apply `f normal_at_corner tans1_at_corner` to the three corners of every triangle
    (`norm = _normal[_normal_index]`, `tan1 = tans1[_vertex_index]`) -/
def perCorner {γ : Type} (f : V3 α → V3 α → γ) (N : List (V3 α)) (ntris : List Tri)
    (T : List (V3 α)) (tris : List Tri) : Option (List (γ × γ × γ)) := do
  let ns ← ntris.mapM (lookupTri N)
  let ts ← tris.mapM (lookupTri T)
  some ((ns.zip ts).map (fun nt =>
    (f nt.1.1 nt.2.1, f nt.1.2.1 nt.2.2.1, f nt.1.2.2 nt.2.2.2)))

/-- `generateTexTangentsAndBinormals`, tangent part: one tangent per corner, indexed
    `arange(3*ntriangles).reshape(ntriangles, 3)` -/
def generateTangents [Add α] [Sub α] [Mul α] [Div α] [Zero α] [OfNat α 1] [DecidableEq α]
    (nz : V3 α → V3 α) (V : List (V3 α)) (tris : List Tri) (UV : List (V2 α)) (uvtris : List Tri)
    (N : List (V3 α)) (ntris : List Tri) : Option (List (V3 α × V3 α × V3 α)) := do
  let T ← tangentSums V tris UV uvtris
  perCorner (fun n t => nz (gsResidual n t)) N ntris T tris

/-- exact directions of the tangents for normals known up to a positive scale (`Ndir`) -/
def tangentDirs [Add α] [Sub α] [Mul α] [Div α] [Zero α] [OfNat α 1] [DecidableEq α]
    (V : List (V3 α)) (tris : List Tri) (UV : List (V2 α)) (uvtris : List Tri)
    (Ndir : List (V3 α)) (ntris : List Tri) : Option (List (V3 α × V3 α × V3 α)) := do
  let T ← tangentSums V tris UV uvtris
  perCorner gsDir Ndir ntris T tris

end geometry

/-! ### an exact normalisation over `Rat` for the driver -/

/-- integer square root test -/
def natSqrt? (n : Nat) : Option Nat :=
  let r := n.sqrt
  if r * r = n then some r else none

/-- `some (sqrt q)` when `q ≥ 0` is the square of a rational -/
def ratSqrt? (q : Rat) : Option Rat :=
  if q.num < 0 then none
  else match natSqrt? q.num.toNat, natSqrt? q.den with
    | some a, some b => some (mkRat a b)
    | _, _ => none

/-- `normalize_v3` / `toUnitVec` where the length is rational: `v / |v|`, and `v` when `|v| = 0`
    (`lens[lens == 0] = 1`). When the length is irrational the vector is returned unchanged
    (a positive multiple of the true result, flagged by `isUnitOrZero`). -/
def unitQ (v : V3 Rat) : V3 Rat :=
  match ratSqrt? (dot v v) with
  | some l => if l = 0 then v else ⟨v.x / l, v.y / l, v.z / l⟩
  | none => v

def isUnitOrZero (v : V3 Rat) : Bool := dot v v == 1 || dot v v == 0

end Pyc.Normals
