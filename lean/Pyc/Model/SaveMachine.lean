/-
Model of Collada.save / Collada.write as a machine over the reconciled elements ("sites": the nine
library elements in the order of the generated table, then everything below them), the destination
file system and a sink that may fail.  The statement order of write() and save() is NOT assumed:
it is read from the source on every run (Pyc/Generated/WriteOrder.lean).
-/
import Pyc.Model.Sync
import Pyc.Generated.WriteOrder

namespace Pyc.SaveM
open Pyc.Sync Pyc.Generated.WriteOrder

variable {α : Type} [DecidableEq α]

/-- an element whose children save() reconciles -/
structure Site (α : Type) where
  managed : α → Bool
  before : Option α
  kids : List α

def saveSite (s : Site α) (w : List α) : Site α :=
  { s with kids := syncChildren s.managed w s.kids s.before }

/-- one `save()` over all sites: `ws` is what the in-memory model currently wants at each site -/
def saveAll : List (Site α) → List (List α) → List (Site α)
  | s :: ss, w :: ws => saveSite s w :: saveAll ss ws
  | ss, [] => ss
  | [], _ :: _ => []

/-- `n` saves in a row -/
def saveN (ws : List (List α)) : Nat → List (Site α) → List (Site α)
  | 0, ss => ss
  | n + 1, ss => saveAll (saveN ws n ss) ws

/-- a save that raised after `k` sites had been reconciled (e.g. a camera with an invalid
    parameter combination in the k-th library) -/
def savePrefix (k : Nat) (ss : List (Site α)) (ws : List (List α)) : List (Site α) :=
  saveAll (ss.take k) (ws.take k) ++ ss.drop k

/-- destination files -/
abbrev FS := List (String × List Nat)
def fsGet : FS → String → Option (List Nat)
  | [], _ => none
  | (p, b) :: t, q => if p = q then some b else fsGet t q
def fsSet (fs : FS) (p : String) (b : List Nat) : FS := (p, b) :: fs.filter (fun e => e.1 != p)

structure World (α : Type) where
  sites : List (Site α)
  fs : FS

/-- `write(path)`: the steps in SOURCE order; `failAt = some k` means save() raises after it has
    reconciled k sites (0: the default-scene check, which the generated table shows to come first;
    k > 0: a camera with an invalid parameter combination in a later library);
    `sinkFail = some k` means the destination accepts k bytes and then raises. The Bool is "raised". -/
def execWrite (steps : List WStep) (failAt : Option Nat) (ws : List (List α)) (path : String)
    (ser : List (Site α) → List Nat) (sinkFail : Option Nat) (w : World α) : World α × Bool :=
  steps.foldl (fun (acc : World α × Bool) st =>
    if acc.2 then acc else
    match st with
    | .save =>
      match failAt with
      | none => ({ acc.1 with sites := saveAll acc.1.sites ws }, false)
      | some k => ({ acc.1 with sites := savePrefix k acc.1.sites ws }, true)
    | .openDest => ({ acc.1 with fs := fsSet acc.1.fs path [] }, false)
    | .serialise =>
      match sinkFail with
      | none => ({ acc.1 with fs := fsSet acc.1.fs path (ser acc.1.sites) }, false)
      | some k => ({ acc.1 with fs := fsSet acc.1.fs path ((ser acc.1.sites).take k) }, true)) (w, false)

def write (failAt : Option Nat) (ws : List (List α)) (path : String) (ser : List (Site α) → List Nat)
    (sinkFail : Option Nat) (w : World α) : World α × Bool :=
  execWrite writeSteps failAt ws path ser sinkFail w

end Pyc.SaveM
