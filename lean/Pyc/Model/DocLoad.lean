/-
Document-level loading of the libraries that refer to each other by id (C08, containment clause):
images ← effects ← materials, geometries ← controllers, lights, cameras, loaded library by library in
the order of Collada.__init__ (Pyc/Generated/LoadOrder.lean), every item through handleError.
An item loads iff its own element is undamaged and every object it refers to was loaded.
(Nodes and scenes resolve instance_node with a retry loop and contain faults per child; they are
modelled in Pyc/Model/Refs.lean and checked by the C07/C08 oracles.)
-/
import Pyc.Model.Errors

namespace Pyc.DocLoad
open Pyc.Err

/-- a library object reduced to what decides whether it loads -/
structure Entry where
  id : String
  damaged : Option String            -- the DaeError subclass its own element raises, if any
  early : Bool := true               -- the damage is met before the loader looks the references up
  refs : List (String × String)      -- (library, id) it must find
deriving Repr, DecidableEq

structure Lib where
  name : String
  items : List Entry
deriving Repr

/-- the (library, id) pairs loaded so far -/
abbrev Env := List (String × String)

def loadItem (env : Env) (it : Entry) : Except String String :=
  match it.damaged with
  | some e => if it.early || it.refs.all (fun r => env.contains r) then .error e else .error "DaeBrokenRefError"
  | none => if it.refs.all (fun r => env.contains r) then .ok it.id else .error "DaeBrokenRefError"

structure DState where
  env : Env
  errors : List String
deriving Repr

/-- one library: items in document order, each through handleError; `.error` = the load aborts -/
def loadLib (mask : List String) (name : String) : DState → List Entry → Except (String × DState) DState
  | s, [] => .ok s
  | s, it :: rest =>
    match loadItem s.env it with
    | .ok id => loadLib mask name { s with env := s.env ++ [(name, id)] } rest
    | .error e =>
      let s' := { s with errors := s.errors ++ [e] }
      if masked mask e then loadLib mask name s' rest else .error (e, s')

def loadDoc (mask : List String) : DState → List Lib → Except (String × DState) DState
  | s, [] => .ok s
  | s, l :: rest =>
    match loadLib mask l.name s l.items with
    | .ok s' => loadDoc mask s' rest
    | .error r => .error r

end Pyc.DocLoad
