/-
Models of the value-level writers used by save():
* `correctVal`    — collada.util._correctValInNode (optional child element holding one value),
* `redirect`      — the VERTEX-input redirection of Geometry.save and its inverse reading,
* `emitProps`     — the shader parameter emission loop of Effect.save.
Children are (tag, payload) pairs; element identity does not matter for these functions.
-/
namespace Pyc.Emit

/-! ### _correctValInNode -/

abbrev Kids (β : Type) := List (String × β)

/-- `outernode.find(tag)`: payload of the first child with that tag -/
def find {β : Type} : Kids β → String → Option β
  | [], _ => none
  | (t, v) :: r, k => if t = k then some v else find r k

/-- `outernode.remove(innernode)` for the first child with that tag -/
def removeFirst {β : Type} : Kids β → String → Kids β
  | [], _ => []
  | (t, v) :: r, k => if t = k then r else (t, v) :: removeFirst r k

/-- `innernode.text = str(value)` on the first child with that tag -/
def setFirst {β : Type} : Kids β → String → β → Kids β
  | [], _, _ => []
  | (t, v) :: r, k, x => if t = k then (t, x) :: r else (t, v) :: setFirst r k x

/-- position of a new child: in front of the first existing child whose tag is in `later`, else at the end -/
def insertBefore {β : Type} (later : List String) : Kids β → String × β → Kids β
  | [], e => [e]
  | (t, v) :: r, e => if later.contains t then e :: (t, v) :: r else (t, v) :: insertBefore later r e

/-- `_correctValInNode(outernode, tagname, value, order)`; `later` = the tags that follow `tagname` in `order`
    (empty when no order is given: the new child is appended) -/
def correctVal {β : Type} (kids : Kids β) (k : String) (value : Option β) (later : List String := []) : Kids β :=
  match find kids k, value with
  | some _, none => removeFirst kids k
  | some _, some x => setFirst kids k x
  | none, some x => insertBefore later kids (k, x)
  | none, none => kids

/-! ### VERTEX redirection in Geometry.save -/

structure Input where
  semantic : String
  source : String      -- id without '#'
deriving DecidableEq, Repr

/-- every VERTEX input that reads the source `<vertices>` points at is pointed at `<vertices>` -/
def redirect (vertId vertRef : String) (ins : List Input) : List Input :=
  ins.map (fun i => if i.source = vertRef ∧ i.semantic = "VERTEX" then { i with source := vertId } else i)

/-- how a reader resolves a primitive input: a VERTEX input naming `<vertices>` means its POSITION source -/
def resolve (vertId vertRef : String) (ins : List Input) : List Input :=
  ins.map (fun i => if i.source = vertId ∧ i.semantic = "VERTEX" then { i with source := vertRef } else i)

/-! ### shader parameter emission in Effect.save (existing shader node) -/

/-- `propnode = shadnode.find(prop); if propnode is not None: shadnode.remove(propnode)` -/
def dropTag {β : Type} (kids : Kids β) (k : String) : Kids β :=
  match find kids k with
  | some _ => removeFirst kids k
  | none => kids

/-- one round of the loop: drop the property's node if present, append a new one if it has a value -/
def emitStep {β : Type} (value : String → Option β) (ks : Kids β) (p : String) : Kids β :=
  match value p with
  | some v => dropTag ks p ++ [(p, v)]
  | none => dropTag ks p

/-- `for prop in self.supported: ...` on an existing shader node -/
def emitProps {β : Type} (supported : List String) (value : String → Option β) (kids : Kids β) : Kids β :=
  supported.foldl (emitStep value) kids

/-! ### attributes -/

/-- `collada.util._setAttribute(node, name, value)`: a value the model does not have (None) removes the attribute, any other value
    replaces it in place or is appended (ElementTree keeps attributes in insertion order) -/
def setAttr (attrs : List (String × String)) (name : String) : Option String → List (String × String)
  | none => attrs.filter (fun p => p.1 != name)
  | some x =>
    if attrs.any (fun p => p.1 == name) then attrs.map (fun p => if p.1 == name then (name, x) else p)
    else attrs ++ [(name, x)]

/-- `node.get(name)` -/
def getAttr (attrs : List (String × String)) (name : String) : Option String :=
  (attrs.find? (fun p => p.1 == name)).map (·.2)

end Pyc.Emit
