/-
Model of `collada.util._syncChildren` (collada/util.py), the child reconciliation every `save()`
ends with (Collada.save per library, Node.save, Scene.save, GeometryNode.save, MaterialNode.save,
Geometry.save for sources and primitives, Effect.save for params), and of the save recursion
over the object tree that is built from it.  Elements are compared by identity in Python
(`Element` has no `__eq__`); here an element is any value of a type with decidable equality
(the drivers use a uid).
-/
namespace Pyc.Sync

variable {α : Type} [DecidableEq α]

/-- `managed(child) or child in wanted` -/
def isM (managed : α → Bool) (wanted : List α) (c : α) : Bool := managed c || wanted.contains c

/-- the children that stay where they are -/
def kept (managed : α → Bool) (wanted old : List α) : List α :=
  old.filter (fun c => !isM managed wanted c)

/-- where the block of wanted elements goes, counted in kept children -/
def pos (managed : α → Bool) (wanted old : List α) (before : Option α) : Nat :=
  match old.findIdx? (isM managed wanted) with
  | some i => i
  | none => match before with
    | some b => (kept managed wanted old).idxOf b
    | none => (kept managed wanted old).length

/-- `_syncChildren(parent, wanted, managed, before)`: the new child list of `parent` -/
def syncChildren (managed : α → Bool) (wanted old : List α) (before : Option α) : List α :=
  let k := kept managed wanted old
  let p := pos managed wanted old before
  k.take p ++ wanted ++ k.drop p

/-! ### the save recursion: every object owns its element and rebuilds its children from the
    (already saved) elements of its current child objects; all children managed -/

/-- an XML element reduced to what the reconciliation touches -/
inductive X where
  | mk (label : Nat) (kids : List X)
deriving Repr, Inhabited

mutual
  def X.decEq : (a b : X) → Decidable (a = b)
    | .mk l1 k1, .mk l2 k2 =>
      if h : l1 = l2 then
        match X.decEqList k1 k2 with
        | isTrue hk => isTrue (by rw [h, hk])
        | isFalse hk => isFalse (by intro e; cases e; exact hk rfl)
      else isFalse (by intro e; cases e; exact h rfl)
  def X.decEqList : (a b : List X) → Decidable (a = b)
    | [], [] => isTrue rfl
    | [], _ :: _ => isFalse (by intro e; cases e)
    | _ :: _, [] => isFalse (by intro e; cases e)
    | x :: xs, y :: ys =>
      match X.decEq x y, X.decEqList xs ys with
      | isTrue h1, isTrue h2 => isTrue (by rw [h1, h2])
      | isFalse h1, _ => isFalse (by intro e; cases e; exact h1 rfl)
      | _, isFalse h2 => isFalse (by intro e; cases e; exact h2 rfl)
end
instance : DecidableEq X := X.decEq

def X.label : X → Nat | .mk l _ => l
def X.kids : X → List X | .mk _ k => k

/-- a model object: its label (tag/id), the child list it currently holds, and the children its
    element had after the previous load/save (`oldKids`, arbitrary: any edit history) -/
inductive O where
  | mk (label : Nat) (oldKids : List X) (kids : List O)
deriving Inhabited

mutual
  /-- what an independent reader expects to find: the element tree of the current model -/
  def render : O → X
    | .mk l _ ks => .mk l (renderList ks)
  def renderList : List O → List X
    | [] => []
    | o :: os => render o :: renderList os
end

mutual
  /-- `save()` bottom-up: children first, then reconcile the own element's children -/
  def save : O → X
    | .mk l old ks => .mk l (syncChildren (fun _ => true) (saveList ks) old none)
  def saveList : List O → List X
    | [] => []
    | o :: os => save o :: saveList os
end

end Pyc.Sync
