/-
Model of the repair branch of `Effect.load` (collada/material.py) for shading properties whose
`<texture texture="…">` names an IMAGE instead of a sampler parameter (`DaeMissingSampler2D`):
the loader makes up a surface `<image>-surface` and a sampler `<image>`, appends both to the
effect's parameter list, REGISTERS both in the effect's scope and retries the property, so that a
later property naming the same image finds the sampler already there.
Object identity is a uid taken from a counter.  Parameter ids are kept apart by construction
(`PId.samp im` / `PId.surf im`); the code keeps them apart by extending the made-up surface id
until it names neither a parameter in scope nor an image (/repo 8c85b3b — before that, images
`a` and `a-surface` gave two parameters one id; DESIGN.md §4).
Tied to the source by the C07 correspondence check (`direct` lines of drv/C07.lean).
-/
namespace Pyc.DirectTex

inductive PId
  | samp (im : String)
  | surf (im : String)
deriving DecidableEq, Repr

/-- the effect's scope (`localscope`): parameter id ↦ object -/
abbrev Scope := List (PId × Nat)

def Scope.get : Scope → PId → Option Nat
  | [], _ => none
  | (k', v) :: t, k => if k' = k then some v else Scope.get t k

structure St where
  scope : Scope
  params : List (PId × Nat)            -- `effect.params`, in order
  next : Nat                            -- uid of the next object made
  maps : List (String × String × Nat)   -- shading property ↦ (image named, uid of its map's sampler)
deriving Repr

def init : St := ⟨[], [], 0, []⟩

/-- one property whose texture names image `im` — what the code does -/
def step (s : St) (p : String × String) : St :=
  match s.scope.get (.samp p.2) with
  | some u => { s with maps := s.maps ++ [(p.1, p.2, u)] }
  | none =>
    { scope := (.samp p.2, s.next + 1) :: (.surf p.2, s.next) :: s.scope
      params := s.params ++ [(.surf p.2, s.next), (.samp p.2, s.next + 1)]
      next := s.next + 2
      maps := s.maps ++ [(p.1, p.2, s.next + 1)] }

/-- the plausible "do not pollute the scope" variant: the made-up pair is handed to the retry only -/
def stepThrowaway (s : St) (p : String × String) : St :=
  match s.scope.get (.samp p.2) with
  | some u => { s with maps := s.maps ++ [(p.1, p.2, u)] }
  | none =>
    { scope := s.scope
      params := s.params ++ [(.surf p.2, s.next), (.samp p.2, s.next + 1)]
      next := s.next + 2
      maps := s.maps ++ [(p.1, p.2, s.next + 1)] }

def run (ps : List (String × String)) : St := ps.foldl step init
def runThrowaway (ps : List (String × String)) : St := ps.foldl stepThrowaway init

end Pyc.DirectTex
