/-
Model of primitive construction and its validation in pycollada:

* `FloatSource.__init__` / `FloatSource.load`            (collada/source.py)  → `floatSource`, `loadSource`
* `Primitive._getInputsFromList`                          (collada/primitive.py) → `expandVertex`, `resolve`
* `TriangleSet.__init__`, `LineSet.__init__`, `Polylist.__init__`, `Polygons.__init__`
  (collada/triangleset.py, lineset.py, polylist.py, polygons.py)               → `build`
* `checkSource`                                           (collada/util.py)    → `checkSource`
* the `<p>` / `<vcount>` parser of the four loaders (`util.parseUIntArray`)     → `parseOk`

`construct` strings them together the way `Geometry.create*` (spec.loaded = false) and
`Geometry.load` (spec.loaded = true) do.  numpy arrays are a flat buffer plus a shape; nothing
is reordered by a reshape.  Every place where Python would raise something that is not a
`DaeError` (`max()` of nothing, `sources['VERTEX'][0]` of an empty list, an offset past the
row) is an explicit `.raw` result, so that "never a raw exception" is a theorem and not an
artefact of a totalised definition.

Tied to the source by the C09 correspondence check (props/c09.py ↔ drv/C09.lean).
Self-contained on purpose (IndexOps.lean / ItemAccess.lean belong to other properties).
-/
namespace Pyc.Validate

/-- outcome classes of a failed construction / load -/
inductive DaeErr where
  | malformed            -- DaeMalformedError
  | incomplete           -- DaeIncompleteError
  | brokenRef            -- DaeBrokenRefError
  | raw (cls : String)   -- any Python exception that is not a DaeError
deriving DecidableEq, Repr

inductive Kind where
  | triangles | lines | polylist | polygons
deriving DecidableEq, Repr

/-- `InputList.semantics` -/
inductive Sem where
  | vertex | normal | texcoord | texbinormal | textangent | color | tangent | binormal
deriving DecidableEq, Repr

/-- semantic of an `<input>` inside `<vertices>` -/
inductive VSem where
  | position | other (s : Sem)
deriving DecidableEq, Repr

def VSem.toSem : VSem → Sem
  | .position => .vertex
  | .other s => s

/-! ### sources -/

/-- what a source is made from: number of values in the float array, accessor param names -/
structure SrcSpec where
  rawLen : Nat
  names : List String
deriving Repr

/-- a constructed `FloatSource`: `data.shape = (rows, len(components))` -/
structure Src where
  rows : Nat
  comps : List String
deriving DecidableEq, Repr

/-- `FloatSource.__init__(id, data, components)` -/
def floatSource (rawLen : Nat) (comps : List String) : Except DaeErr Src :=
  if comps.length = 0 then .error (.raw "ZeroDivisionError")
  else if rawLen % comps.length ≠ 0 then .error .malformed
  else .ok ⟨rawLen / comps.length, comps⟩

/-- `FloatSource.load`: U,V is renamed to S,T; the third column of S,T,P is deleted -/
def loadSource (rawLen : Nat) (names : List String) : Except DaeErr Src :=
  if names = [] then .error .incomplete
  else if names = ["U", "V"] then floatSource rawLen ["S", "T"]
  else if names = ["S", "T", "P"] then
    if rawLen % 3 ≠ 0 then .error .malformed else floatSource (rawLen / 3 * 2) ["S", "T"]
  else floatSource rawLen names

def buildSource (loaded : Bool) (s : SrcSpec) : Except DaeErr Src :=
  if loaded then loadSource s.rawLen s.names else floatSource s.rawLen s.names

/-- the stride the data length of a source must be a multiple of -/
def SrcSpec.stride (loaded : Bool) (s : SrcSpec) : Nat :=
  if loaded ∧ s.names = ["S", "T", "P"] then 3 else s.names.length

/-- sequential evaluation, first failure wins (a Python loop that raises) -/
def allOk {ε α β : Type} (f : α → Except ε β) : List α → Except ε (List β)
  | [] => .ok []
  | a :: as =>
    match f a with
    | .error e => .error e
    | .ok b =>
      match allOk f as with
      | .error e => .error e
      | .ok bs => .ok (b :: bs)

/-! ### input table -/

inductive Ref where
  | src (i : Nat)   -- `#<id of the i-th source>`
  | verts           -- `#<id of the <vertices> element>` (a dict in the local scope)
  | bad             -- a text that is no reference: shorter than two characters or without the leading `#`
                    --   (and whose tail names nothing in the local scope: `x` + an id is read like `#` + that id by the first half)
deriving DecidableEq, Repr

/-- an `<input>` of the primitive / an `InputList` entry -/
structure RawInput where
  offset : Nat
  sem : Sem
  ref : Ref
deriving Repr

/-- an entry `(offset, semantic, '#id', set, source)` of the per-semantic table -/
structure Input where
  offset : Nat
  sem : Sem
  src : Src
deriving Repr

/-- first half of `_getInputsFromList`: a VERTEX input that refers to `<vertices>` is replaced
    by one input per entry of that dict (POSITION becomes VERTEX), appended AFTER the inputs
    that stay; every input referring to the dict is dropped, whatever its semantic -/
def expandVertex (verts : List (VSem × Nat)) (inputs : List RawInput) : List RawInput :=
  inputs.filter (fun i => i.ref ≠ .verts) ++
    inputs.flatMap (fun i =>
      if i.sem = .vertex ∧ i.ref = .verts then
        verts.map (fun vs => ⟨i.offset, vs.1.toSem, .src vs.2⟩)
      else [])

/-- second half: look the source up in the local scope -/
def resolve (srcs : List Src) (i : RawInput) : Except DaeErr Input :=
  match i.ref with
  | .bad => .error .malformed          -- "Incorrect source id": tested before the look-up
  | .verts => .error .brokenRef
  | .src k =>
    match srcs[k]? with
    | none => .error .brokenRef
    | some s => .ok ⟨i.offset, i.sem, s⟩

/-- `sources[SEM]`: the inputs of one semantic in table order -/
def sel (s : Sem) (t : List Input) : List Input := t.filter (fun i => i.sem = s)

/-! ### arrays -/

/-- `numpy.max` / builtin `max`: fails on nothing -/
def maxOf : List Nat → Option Nat
  | [] => none
  | x :: xs => some (xs.foldl max x)

/-- `index.reshape(-1, n)`: the rows ("corners") of the interleaved stream -/
def corners (n : Nat) (xs : List Nat) : List (List Nat) :=
  (List.range (xs.length / n)).map (fun r => (xs.drop (r * n)).take n)

/-- `index[..., o]` -/
def column (n o : Nat) (xs : List Nat) : Except DaeErr (List Nat) :=
  allOk (fun c : List Nat =>
    match c[o]? with
    | some e => .ok e
    | none => .error (.raw "IndexError")) (corners n xs)

/-- component names a semantic requires -/
def want : Sem → List String
  | .texcoord => ["S", "T"]
  | _ => ["X", "Y", "Z"]

/-- `checkSource(source, components, maxindex)`; returns the source with the component names
    it has afterwards (they are overwritten when only the arity matches) -/
def checkSource (src : Src) (comps : List String) (maxindex : Nat) : Except DaeErr Src :=
  if src.rows ≤ maxindex then .error .malformed
  else
    let src' : Src := if src.comps.length = comps.length then { src with comps := comps } else src
    if src'.comps ≠ comps then .error .malformed else .ok src'

/-- corners per item: the middle axis of `index.shape = (-1, k, nindices)` -/
def itemWidth : Kind → Nat
  | .triangles => 3
  | .lines => 2
  | _ => 1

/-- shape of `index[:, :, o]` (triangles, lines) resp. `index[:, o]` (polylist, polygons) -/
def viewShape (kind : Kind) (n len : Nat) : List Nat :=
  match kind with
  | .triangles => [len / (3 * n), 3]
  | .lines => [len / (2 * n), 2]
  | _ => [len / n]

/-- an index array together with the source array it selects from -/
structure View where
  flat : List Nat        -- buffer of the index view, row-major
  shape : List Nat
  src : Src              -- `data` of the source: shape (rows, len comps)
  offset : Nat           -- ghost: the column it was taken from
deriving Repr

/-- one `_x_index = index[..., offset]; max; checkSource` block -/
def viewOf (kind : Kind) (n : Nat) (xs : List Nat) (i : Input) : Except DaeErr View :=
  match column n i.offset xs with
  | .error e => .error e
  | .ok col =>
    match maxOf col with
    | none => .error (.raw "ValueError")
    | some m =>
      match checkSource i.src (want i.sem) m with
      | .error e => .error e
      | .ok s => .ok { flat := col, shape := viewShape kind n xs.length, src := s, offset := i.offset }

/-- the zero-row view of an empty primitive: `index[..., offset]` of an array of shape (0, k, n),
    next to the unchecked source -/
def emptyView (kind : Kind) (n : Nat) (i : Input) : View :=
  { flat := [], shape := viewShape kind n 0, src := i.src, offset := i.offset }

/-- what an accepted primitive exposes (`None` / `()` for what is absent) -/
structure PrimViews where
  stride : Nat                 -- nindices
  vcounts : List Nat           -- polylist / polygons
  vertex : Option View         -- vertex, vertex_index
  normal : Option View
  texcoord : List View         -- texcoordset[i], texcoord_indexset[i]
  textangent : List View
  texbinormal : List View
deriving Repr

def PrimViews.all (pv : PrimViews) : List View :=
  pv.vertex.toList ++ pv.normal.toList ++ pv.texcoord ++ pv.textangent ++ pv.texbinormal

/-- the constructors `TriangleSet` / `LineSet` / `Polylist` / `Polygons` on a resolved table -/
def build (kind : Kind) (t : List Input) (vcounts : List Nat) (polys : List (List Nat)) :
    Except DaeErr PrimViews :=
  -- LineSet: `if not sources.get('VERTEX')`; the other three test `'VERTEX' not in sources`,
  -- which the table (it always has all eight keys) never satisfies
  if kind = .lines ∧ sel .vertex t = [] then .error .incomplete
  else
    match maxOf (t.map (·.offset)) with
    | none => .error (.raw "ValueError")
    | some maxOffset =>
      let n := maxOffset + 1
      -- Polygons.__init__: vcounts[i] = len(poly) / nindices (truncated), indices = concatenate
      let xs := polys.flatten
      let vc := if kind = .polygons then polys.map (fun p => p.length / n) else vcounts
      if xs.length % (itemWidth kind * n) ≠ 0 then .error .malformed
      else if (kind = .polylist ∨ kind = .polygons) ∧ vc.sum ≠ xs.length / n then .error .malformed
      else if xs = [] then
        -- empty index: vertex / normal / texcoord views exist with zero rows and NOTHING is checked
        -- (collada/tests test_collada_empty_triangles loads such a primitive over a source of
        -- another format); the tangent and binormal blocks are skipped altogether
        match sel .vertex t with
        | [] => .error (.raw "IndexError")
        | vi :: _ =>
          .ok { stride := n, vcounts := vc, vertex := some (emptyView kind n vi),
                normal := (sel .normal t).head?.map (emptyView kind n),
                texcoord := (sel .texcoord t).map (emptyView kind n),
                textangent := [], texbinormal := [] }
      else
        match sel .vertex t with
        | [] => .error (.raw "IndexError")
        | vi :: _ =>
          match viewOf kind n xs vi with
          | .error e => .error e
          | .ok vv =>
            match allOk (viewOf kind n xs) (sel .normal t).head?.toList with
            | .error e => .error e
            | .ok nv =>
              match allOk (viewOf kind n xs) (sel .texcoord t) with
              | .error e => .error e
              | .ok tv =>
                match allOk (viewOf kind n xs) (sel .textangent t) with
                | .error e => .error e
                | .ok av =>
                  match allOk (viewOf kind n xs) (sel .texbinormal t) with
                  | .error e => .error e
                  | .ok bv =>
                    .ok { stride := n, vcounts := vc, vertex := some vv, normal := nv.head?,
                          texcoord := tv, textangent := av, texbinormal := bv }

/-! ### the whole request -/

structure PrimSpec where
  kind : Kind
  loaded : Bool                   -- Geometry.load from XML (true) or Geometry.create* (false)
  sources : List SrcSpec
  verts : List (VSem × Nat)       -- the `<vertices>` dict (loaded documents only)
  inputs : List RawInput
  vcounts : List Nat              -- polylist only
  polys : List (List Nat)         -- polygons: one list per `<p>`; the other kinds: one stream
deriving Repr

def stream (spec : PrimSpec) : List Nat := spec.polys.flatten

/-- largest value `util.parseUIntArray` lets through -/
def int32Max : Nat := 2147483647

def parseOk (xs : List Nat) : Bool := xs.all (fun v => v ≤ int32Max)

def sourcesOf (spec : PrimSpec) : Except DaeErr (List Src) :=
  allOk (buildSource spec.loaded) spec.sources

def tableFrom (spec : PrimSpec) (srcs : List Src) : Except DaeErr (List Input) :=
  allOk (resolve srcs) (expandVertex spec.verts spec.inputs)

/-- sources, then the input table -/
def tableOf (spec : PrimSpec) : Except DaeErr (List Input) :=
  match sourcesOf spec with
  | .error e => .error e
  | .ok srcs => tableFrom spec srcs

/-- text that is parsed BEFORE the inputs are resolved (`Polygons.load`: the `<p>` lists,
    `Polylist.load`: `<vcount>`) -/
def parsedEarly (spec : PrimSpec) : Bool :=
  !spec.loaded ||
    ((spec.kind != .polygons || parseOk (stream spec)) && (spec.kind != .polylist || parseOk spec.vcounts))

/-- text parsed AFTER the inputs are resolved (`<p>` of triangles, lines, polylist) -/
def parsedLate (spec : PrimSpec) : Bool :=
  !spec.loaded || spec.kind == .polygons || parseOk (stream spec)

def construct (spec : PrimSpec) : Except DaeErr PrimViews :=
  match sourcesOf spec with
  | .error e => .error e
  | .ok srcs =>
    if ¬ parsedEarly spec then .error .malformed
    else
      match tableFrom spec srcs with
      | .error e => .error e
      | .ok t =>
        if ¬ parsedLate spec then .error .malformed
        else build spec.kind t spec.vcounts spec.polys

/-- `source[index]` (numpy fancy indexing): IndexError on an entry past the source -/
def select (v : View) : Except DaeErr (List Nat) :=
  allOk (fun e => if e < v.src.rows then .ok e else .error (.raw "IndexError")) v.flat

end Pyc.Validate
