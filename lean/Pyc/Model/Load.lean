/-
The reading kernels of the loader (C05): how an index stream is cut into per-input index arrays,
how a VERTEX input naming <vertices> is expanded (Primitive._getInputsFromList), and the
documented normalisations as explicit named functions.  Everything else an independent reader
does is table lookup; it is covered by the reader oracle (vlib/xmlread.py), not modelled here.
-/
namespace Pyc.Load

/-- column `o` of a stream read in rows of `n` entries: `index.reshape(-1, n)[:, o]` -/
def column (n o : Nat) (xs : List Nat) : List Nat :=
  (List.range (xs.length / n)).map (fun r => xs.getD (r * n + o) 0)

/-- `reshape(-1, k)`: consecutive groups of k (k corners per triangle / line) -/
def groups (k : Nat) (xs : List Nat) : List (List Nat) :=
  (List.range (xs.length / k)).map (fun i => (List.range k).map (fun j => xs.getD (i * k + j) 0))

/-- the index array a triangle set / line set exposes for an input at `offset` -/
def indexArray (perShape stride offset : Nat) (stream : List Nat) : List (List Nat) :=
  groups perShape (column stride offset stream)

/-- a primitive input as the file gives it -/
structure RawInput where
  offset : Nat
  semantic : String
  source : String        -- without '#'
  set : Option String
deriving DecidableEq, Repr

/-- `Primitive._getInputsFromList`, first half: inputs that name a <vertices> element are removed;
    for a VERTEX input each input of that <vertices> is appended (POSITION becomes VERTEX) with the
    VERTEX input's offset and set. `verts` maps a <vertices> id to its (semantic, source) list. -/
def namesVertices (verts : List (String × List (String × String))) (i : RawInput) : Bool :=
  (verts.find? (fun v => v.1 == i.source)).isSome

/-- what a VERTEX input contributes when it names a <vertices> element -/
def expandOne (verts : List (String × List (String × String))) (i : RawInput) : List RawInput :=
  if i.semantic == "VERTEX" then
    match verts.find? (fun v => v.1 == i.source) with
    | some v => v.2.map (fun sv => ⟨i.offset, if sv.1 == "POSITION" then "VERTEX" else sv.1, sv.2, i.set⟩)
    | none => []
  else []

def expandInputs (verts : List (String × List (String × String))) (ins : List RawInput) : List RawInput :=
  let kept := ins.filter (fun i => !namesVertices verts i)
  -- a binding of <vertices> that the primitive also lists itself is the same input, not a second one
  kept ++ (ins.flatMap (expandOne verts)).filter (fun d => !kept.contains d)

/-! ### documented normalisations -/

/-- U,V read as S,T; a third texcoord component (S,T,P) dropped -/
def normComponents (comps : List String) : List String :=
  if comps = ["U", "V"] then ["S", "T"] else if comps = ["S", "T", "P"] then ["S", "T"] else comps

/-- data of an S,T,P source: every third value dropped -/
def dropThird : List α → List α
  | a :: b :: _ :: t => a :: b :: dropThird t
  | l => l

/-- colours padded to RGBA: missing components 0, alpha 1 -/
def padRGBA (c : List Int) (zero one : Int) : List Int :=
  if c.length ≥ 4 then c else
  let c3 := c ++ List.replicate (3 - c.length) zero
  c3 ++ [one]

/-- a node's name defaults to its id -/
def nodeName (id name : Option String) : Option String := match name with | some n => some n | none => id

/-- aspect ratio dropped when a camera gives all three parameters -/
def cameraAspect (x y aspect : Option α) : Option α :=
  match x, y, aspect with
  | some _, some _, some _ => none
  | _, _, a => a

end Pyc.Load
