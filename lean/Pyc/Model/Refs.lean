/-
Reference resolution (C07): the retry loop that loads <library_nodes> (Collada._loadNodes) and the root
nodes of a <visual_scene> (Scene.load) when instance_node targets are defined later, id lookup in a
library, and the url a save writes for a reference.
-/
namespace Pyc.Refs

/-- a <node> of a library reduced to its id and the ids its instance_node descendants refer to -/
structure NodeDef where
  id : String
  refs : List String
deriving DecidableEq, Repr

/-- loadNode succeeds iff every instance_node target is already loaded (otherwise DaeInstanceNotLoadedError) -/
def canLoad (loaded : List String) (n : NodeDef) : Bool := n.refs.all (fun r => loaded.contains r)

/-- one pass over the nodes still waiting, in order; a node loaded early in the pass is visible to
    the later ones; the others are kept, in order, for the next pass -/
def pass (loaded : List String) : List NodeDef → List String × List NodeDef
  | [] => (loaded, [])
  | n :: ns =>
    if canLoad loaded n then pass (loaded ++ [n.id]) ns
    else ((pass loaded ns).1, n :: (pass loaded ns).2)

/-- `while len(tried_loading) > 0 and succeeded:` — stops when a pass loads nothing -/
def retry : Nat → List String → List NodeDef → List String × List NodeDef
  | 0, l, p => (l, p)
  | f + 1, l, p =>
    let r := pass l p
    if r.2.length = p.length then r else retry f r.1 r.2

/-- ids in the order they got loaded, and the nodes that end in DaeBrokenRefError -/
def loadNodes (defs : List NodeDef) : List String × List NodeDef := retry (defs.length + 1) [] defs

/-- the library after the loop: loaded nodes, back in document order -/
def library (defs : List NodeDef) : List String :=
  (defs.filter (fun n => (loadNodes defs).1.contains n.id)).map (·.id)

/-! ### lookup and written references -/

structure Obj where
  uid : Nat
  id : String
deriving DecidableEq, Repr

/-- `library.get(id)` -/
def lookup (lib : List Obj) (id : String) : Option Obj := lib.find? (fun o => o.id == id)

/-- a reference attribute as the loader classifies it: `#id`, or text without the leading '#' -/
inductive Url where
  | hash (id : String)
  | bare (text : String)
deriving DecidableEq, Repr

inductive Resolved where
  | obj (o : Obj)
  | brokenRef       -- DaeBrokenRefError: no object carries the id
  | malformed       -- DaeMalformedError: the reference does not start with '#'
deriving DecidableEq, Repr

/-- how every instance / material / effect loader resolves its url -/
def resolveUrl (lib : List Obj) : Url → Resolved
  | .hash id => match lookup lib id with
    | some o => .obj o
    | none => .brokenRef
  | .bare _ => .malformed

/-- what save() writes for a reference to `o`: always from the object's current id -/
def writeUrl (o : Obj) : Url := .hash o.id

end Pyc.Refs
