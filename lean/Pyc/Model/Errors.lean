/-
Error handling of the loader (C08): the exception taxonomy (read from the source), `handleError`
(record, then re-raise unless a masked class is a superclass), and a library loader as a fold over
its items in which every per-item DaeError goes through handleError.
-/
import Pyc.Generated.ErrClasses

namespace Pyc.Err
open Pyc.Generated.ErrClasses

/-- `issubclass(c, d)` over the generated single-inheritance table (fuel = table size) -/
def isSub : Nat → String → String → Bool
  | 0, c, d => c == d
  | f + 1, c, d =>
    c == d ||
    match classes.find? (fun r => r.1 == c) with
    | some r => isSub f r.2 d
    | none => false

def subclass (c d : String) : Bool := isSub classes.length c d

/-- `any(isinstance(error, mask) for mask in maskedErrors)` -/
def masked (mask : List String) (e : String) : Bool := mask.any (fun m => subclass e m)

/-- loader state: objects loaded so far (in order) and errors recorded so far (in order) -/
structure St (α : Type) where
  loaded : List α
  errors : List String
deriving Repr

/-- one library item: its load either yields an object or raises a DaeError subclass -/
abbrev Item (α : Type) := Except String α

/-- `try: X = load(item) except DaeError as ex: self.handleError(ex) else: lib.append(X)`;
    `.error e` = the exception propagates out of the constructor -/
def step {α : Type} (mask : List String) (s : St α) (it : Item α) : Except (String × St α) (St α) :=
  match it with
  | .ok x => .ok { s with loaded := s.loaded ++ [x] }
  | .error e =>
    let s' := { s with errors := s.errors ++ [e] }
    if masked mask e then .ok s' else .error (e, s')

def loadAll {α : Type} (mask : List String) : St α → List (Item α) → Except (String × St α) (St α)
  | s, [] => .ok s
  | s, it :: rest =>
    match step mask s it with
    | .ok s' => loadAll mask s' rest
    | .error r => .error r

/-- `ignoreErrors(*args)`: None clears the mask, anything else is appended -/
def ignoreErrors (mask : List String) (args : List (Option String)) : List String :=
  if args = [none] then [] else mask ++ args.filterMap id

/-! ### dependencies between library objects -/

/-- an item of a later library: damaged itself, or depending on ids of earlier libraries -/
structure Dep where
  id : String
  damaged : Option String      -- the error class its own damage raises
  deps : List String
deriving Repr

/-- loading it against the ids that made it into the earlier libraries -/
def loadDep (env : List String) (d : Dep) : Item String :=
  match d.damaged with
  | some e => .error e
  | none => if d.deps.all (fun r => env.contains r) then .ok d.id else .error "DaeBrokenRefError"

end Pyc.Err
