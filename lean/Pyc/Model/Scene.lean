/-
Model of scene traversal and binding (property C12).

Mirrors collada/scene.py `Scene.objects`, `Node.objects`, `NodeNode.objects`,
`GeometryNode/ControllerNode/LightNode/CameraNode.objects`, and the bound-object constructors
`BoundTriangleSet/BoundPolylist/BoundLineSet.__init__` (triangleset.py, polylist.py, lineset.py),
`BoundPointLight/BoundSpotLight/BoundDirectionalLight` (light.py), `Bound*Camera` (camera.py) and
`BoundSkin.__init__` (controller.py).

The traversal is generic in the matrix type `M` (only `*` and `1` are used, exactly like the code
uses `numpy.dot` and `numpy.identity`); binding is generic in the scalar type `R`.
Core Lean only.

What is NOT modelled: float rounding (the correspondence uses integer matrices whose products are
exact in float32), texture-coordinate sets (passed through untouched by the code), cyclic
`instance_node` graphs (an inductive tree cannot be cyclic; the code recurses forever on them).
-/
namespace Pyc.Scene

/-! ## Traversal -/

/-- the `tipo` argument of `objects` -/
inductive Kind where
  | geometry | light | camera | controller
  deriving DecidableEq, Repr, Inhabited

/-- A scene-graph node.
* `node m cs`  — `collada.scene.Node` with `matrix = m` and `children = cs`
* `inst k p`   — `GeometryNode` / `LightNode` / `CameraNode` / `ControllerNode` with payload `p`
* `ref t`      — `NodeNode` (`<instance_node>`) whose `.node` is the shared node `t`
  (sharing = the same subtree occurring under several `ref`s) -/
inductive SNode (M : Type) (P : Type) where
  | node (m : M) (children : List (SNode M P))
  | inst (k : Kind) (p : P)
  | ref (target : SNode M P)

variable {M P : Type}

section traversal
variable [Mul M] [One M]

mutual
  /-- `x.objects(tipo, matrix)`; `acc = none` is `matrix=None`.
  * `Node.objects`: `M = dot(matrix, self.matrix) if matrix is not None else self.matrix`, then the
    children in order, each with `M`.
  * `XNode.objects`: yields one bound object iff `tipo` matches, with
    `matrix` or the identity when `matrix is None`.
  * `NodeNode.objects`: `self.node.objects(tipo, matrix)` — the caller's matrix, unchanged. -/
  def objects (kind : Kind) : Option M → SNode M P → List (M × P)
    | acc, .node m cs =>
        objectsList kind (some (match acc with | some a => a * m | none => m)) cs
    | acc, .inst k p =>
        if k = kind then [((match acc with | some a => a | none => 1), p)] else []
    | acc, .ref t => objects kind acc t
  /-- `for node in children: for obj in node.objects(tipo, M): yield obj` -/
  def objectsList (kind : Kind) : Option M → List (SNode M P) → List (M × P)
    | _, [] => []
    | acc, c :: cs => objects kind acc c ++ objectsList kind acc cs
end

/-- `Scene.objects(tipo)`: every root with `matrix = None`, in order -/
def sceneObjects (kind : Kind) (roots : List (SNode M P)) : List (M × P) :=
  objectsList kind none roots

/-! ### Specification: root-to-instance paths -/

mutual
  /-- all paths from `n` down to an instance of kind `kind`, in document (depth-first, left to
  right) order, each with the list of node matrices met on the way (outermost first). A `ref`
  contributes no matrix of its own; a subtree shared by several `ref`s is walked once per `ref`. -/
  def paths (kind : Kind) : SNode M P → List (List M × P)
    | .node m cs => (pathsList kind cs).map (fun mp => (m :: mp.1, mp.2))
    | .inst k p => if k = kind then [([], p)] else []
    | .ref t => paths kind t
  def pathsList (kind : Kind) : List (SNode M P) → List (List M × P)
    | [] => []
    | c :: cs => paths kind c ++ pathsList kind cs
end

mutual
  /-- number of instance paths of kind `kind` below `n` (shared subtrees counted once per use) -/
  def countInst (kind : Kind) : SNode M P → Nat
    | .node _ cs => countInstList kind cs
    | .inst k _ => if k = kind then 1 else 0
    | .ref t => countInst kind t
  def countInstList (kind : Kind) : List (SNode M P) → Nat
    | [] => 0
    | c :: cs => countInst kind c + countInstList kind cs
end

/-- a second, relational description of the same paths (not a traversal): "there is a path from `n` down to an instance `p` of kind `kind`
whose node matrices are `ms`" -/
inductive Reach (kind : Kind) : SNode M P → List M → P → Prop
  | inst (p : P) : Reach kind (.inst kind p) [] p
  | ref {t : SNode M P} {ms : List M} {p : P} : Reach kind t ms p → Reach kind (.ref t) ms p
  | node {m : M} {cs : List (SNode M P)} {c : SNode M P} {ms : List M} {p : P} :
      c ∈ cs → Reach kind c ms p → Reach kind (.node m cs) (m :: ms) p

/-- `((a * m₁) * m₂) * …` — the order in which the code multiplies -/
def prodFrom (a : M) : List M → M
  | [] => a
  | m :: ms => prodFrom (a * m) ms

/-- matrix of a path as the code computes it: the root's own matrix (not `1 * m`), then
left-associated products; the identity for an instance that sits directly in `Scene.nodes` -/
def pathProd : List M → M
  | [] => 1
  | m :: ms => prodFrom m ms

end traversal

/-- the monoid laws (what 4x4 matrices over a commutative ring satisfy) -/
class LawfulMonoid (M : Type) [Mul M] [One M] : Prop where
  mul_assoc : ∀ a b c : M, a * b * c = a * (b * c)
  one_mul : ∀ a : M, 1 * a = a
  mul_one : ∀ a : M, a * 1 = a

/-! ## Matrices and vectors -/

structure V3 (R : Type) where
  x : R
  y : R
  z : R
  deriving DecidableEq, Repr, Inhabited

structure V4 (R : Type) where
  x : R
  y : R
  z : R
  w : R
  deriving DecidableEq, Repr

/-- 3x3 matrix, `aij` = row i, column j -/
structure Mat3 (R : Type) where
  a00 : R
  a01 : R
  a02 : R
  a10 : R
  a11 : R
  a12 : R
  a20 : R
  a21 : R
  a22 : R
  deriving DecidableEq, Repr

/-- 4x4 matrix, `aij` = row i, column j (numpy `matrix[i, j]`) -/
structure Mat4 (R : Type) where
  a00 : R
  a01 : R
  a02 : R
  a03 : R
  a10 : R
  a11 : R
  a12 : R
  a13 : R
  a20 : R
  a21 : R
  a22 : R
  a23 : R
  a30 : R
  a31 : R
  a32 : R
  a33 : R
  deriving DecidableEq, Repr, Inhabited

section algebra
variable {R : Type} [Add R] [Mul R] [Neg R] [OfNat R 0] [OfNat R 1]

namespace V3
def add (u v : V3 R) : V3 R := ⟨u.x + v.x, u.y + v.y, u.z + v.z⟩
def neg (u : V3 R) : V3 R := ⟨-u.x, -u.y, -u.z⟩
instance : Add (V3 R) := ⟨add⟩
instance : Neg (V3 R) := ⟨neg⟩
end V3

namespace Mat4

/-- `numpy.dot(a, b)` -/
def mul (a b : Mat4 R) : Mat4 R where
  a00 := a.a00 * b.a00 + a.a01 * b.a10 + a.a02 * b.a20 + a.a03 * b.a30
  a01 := a.a00 * b.a01 + a.a01 * b.a11 + a.a02 * b.a21 + a.a03 * b.a31
  a02 := a.a00 * b.a02 + a.a01 * b.a12 + a.a02 * b.a22 + a.a03 * b.a32
  a03 := a.a00 * b.a03 + a.a01 * b.a13 + a.a02 * b.a23 + a.a03 * b.a33
  a10 := a.a10 * b.a00 + a.a11 * b.a10 + a.a12 * b.a20 + a.a13 * b.a30
  a11 := a.a10 * b.a01 + a.a11 * b.a11 + a.a12 * b.a21 + a.a13 * b.a31
  a12 := a.a10 * b.a02 + a.a11 * b.a12 + a.a12 * b.a22 + a.a13 * b.a32
  a13 := a.a10 * b.a03 + a.a11 * b.a13 + a.a12 * b.a23 + a.a13 * b.a33
  a20 := a.a20 * b.a00 + a.a21 * b.a10 + a.a22 * b.a20 + a.a23 * b.a30
  a21 := a.a20 * b.a01 + a.a21 * b.a11 + a.a22 * b.a21 + a.a23 * b.a31
  a22 := a.a20 * b.a02 + a.a21 * b.a12 + a.a22 * b.a22 + a.a23 * b.a32
  a23 := a.a20 * b.a03 + a.a21 * b.a13 + a.a22 * b.a23 + a.a23 * b.a33
  a30 := a.a30 * b.a00 + a.a31 * b.a10 + a.a32 * b.a20 + a.a33 * b.a30
  a31 := a.a30 * b.a01 + a.a31 * b.a11 + a.a32 * b.a21 + a.a33 * b.a31
  a32 := a.a30 * b.a02 + a.a31 * b.a12 + a.a32 * b.a22 + a.a33 * b.a32
  a33 := a.a30 * b.a03 + a.a31 * b.a13 + a.a32 * b.a23 + a.a33 * b.a33

/-- `numpy.identity(4)` -/
def one : Mat4 R :=
  ⟨1, 0, 0, 0,  0, 1, 0, 0,  0, 0, 1, 0,  0, 0, 0, 1⟩

instance : Mul (Mat4 R) := ⟨mul⟩
instance : One (Mat4 R) := ⟨one⟩

/-- `numpy.asmatrix(matrix).transpose()` -/
def transpose (a : Mat4 R) : Mat4 R :=
  ⟨a.a00, a.a10, a.a20, a.a30,
   a.a01, a.a11, a.a21, a.a31,
   a.a02, a.a12, a.a22, a.a32,
   a.a03, a.a13, a.a23, a.a33⟩

/-- `m[:3, :3]` -/
def rot3 (a : Mat4 R) : Mat3 R :=
  ⟨a.a00, a.a01, a.a02,  a.a10, a.a11, a.a12,  a.a20, a.a21, a.a22⟩

/-- `m[:3, 3]` -/
def trans (a : Mat4 R) : V3 R := ⟨a.a03, a.a13, a.a23⟩
/-- `m[:3, 2]` -/
def col2 (a : Mat4 R) : V3 R := ⟨a.a02, a.a12, a.a22⟩
/-- `m[:3, 1]` -/
def col1 (a : Mat4 R) : V3 R := ⟨a.a01, a.a11, a.a21⟩

/-- the homogeneous action `M · (x, y, z, w)ᵀ` (specification side) -/
def mulVec (a : Mat4 R) (v : V4 R) : V4 R :=
  ⟨a.a00 * v.x + a.a01 * v.y + a.a02 * v.z + a.a03 * v.w,
   a.a10 * v.x + a.a11 * v.y + a.a12 * v.z + a.a13 * v.w,
   a.a20 * v.x + a.a21 * v.y + a.a22 * v.z + a.a23 * v.w,
   a.a30 * v.x + a.a31 * v.y + a.a32 * v.z + a.a33 * v.w⟩

/-- last row is `0 0 0 1` (every matrix a COLLADA transform stack produces) -/
def Affine (a : Mat4 R) : Prop := a.a30 = 0 ∧ a.a31 = 0 ∧ a.a32 = 0 ∧ a.a33 = 1

end Mat4

namespace Mat3
/-- row vector times matrix: `numpy` `v * A` for a `(1,3)` row `v` -/
def vecMul (v : V3 R) (a : Mat3 R) : V3 R :=
  ⟨v.x * a.a00 + v.y * a.a10 + v.z * a.a20,
   v.x * a.a01 + v.y * a.a11 + v.z * a.a21,
   v.x * a.a02 + v.y * a.a12 + v.z * a.a22⟩
/-- matrix times column vector: `numpy.dot(A, v)` -/
def mulVec (a : Mat3 R) (v : V3 R) : V3 R :=
  ⟨a.a00 * v.x + a.a01 * v.y + a.a02 * v.z,
   a.a10 * v.x + a.a11 * v.y + a.a12 * v.z,
   a.a20 * v.x + a.a21 * v.y + a.a22 * v.z⟩
end Mat3

def V4.xyz (v : V4 R) : V3 R := ⟨v.x, v.y, v.z⟩
/-- a point in homogeneous coordinates -/
def V3.point (v : V3 R) : V4 R := ⟨v.x, v.y, v.z, 1⟩
/-- a direction in homogeneous coordinates -/
def V3.dir (v : V3 R) : V4 R := ⟨v.x, v.y, v.z, 0⟩

/-! ## Binding -/

/-- one row of `numpy.asarray(ts._vertex * M[:3, :3]) + matrix[:3, 3]`
with `M = numpy.asmatrix(matrix).transpose()` -/
def bindVertex (m : Mat4 R) (v : V3 R) : V3 R :=
  Mat3.vecMul v (Mat4.rot3 (Mat4.transpose m)) + Mat4.trans m

/-- one row of `numpy.asarray(ts._normal * M[:3, :3])` — no translation, no renormalisation -/
def bindNormal (m : Mat4 R) (n : V3 R) : V3 R :=
  Mat3.vecMul n (Mat4.rot3 (Mat4.transpose m))

/-! ### materials -/

/-- a Python dict with keys `Option String` (a primitive's `material` may be `None`), in
insertion order -/
abbrev Table (V : Type) := List (Option String × V)

/-- `d[k] = v` : replace the value of an existing key, else append -/
def Table.set {V : Type} : Table V → Option String → V → Table V
  | [], k, v => [(k, v)]
  | (k', v') :: t, k, v => if k' = k then (k', v) :: t else (k', v') :: Table.set t k v

/-- `d.get(k)` -/
def Table.get {V : Type} : Table V → Option String → Option V
  | [], _ => none
  | (k', v') :: t, k => if k' = k then some v' else Table.get t k

/-- `for mat in self.materials: materialnodesbysymbol[mat.symbol] = mat`
(a binding is (symbol, target material)) -/
def buildTable {V : Type} (binds : List (String × V)) : Table V :=
  binds.foldl (fun t b => t.set (some b.1) b.2) []

/-- `matnode = materialnodebysymbol.get(ts.material); material = matnode.target if matnode else None` -/
def materialOf {V : Type} (binds : List (String × V)) (sym : Option String) : Option V :=
  (buildTable binds).get sym

/-! ### primitives and geometries -/

/-- what binding reads of a primitive: material symbol, vertex / normal source data, index -/
structure Prim (R : Type) where
  sym : Option String
  vertex : Option (List (V3 R))
  normal : Option (List (V3 R))
  index : List Int

structure BoundPrim (R : Type) where
  material : Option Nat
  vertex : Option (List (V3 R))
  normal : Option (List (V3 R))
  index : List Int

/-- `BoundTriangleSet/BoundPolylist/BoundPolygons/BoundLineSet.__init__` (all four do the same) -/
def bindPrim (m : Mat4 R) (binds : List (String × Nat)) (p : Prim R) : BoundPrim R where
  material := materialOf binds p.sym
  vertex := p.vertex.map (List.map (bindVertex m))
  normal := p.normal.map (List.map (bindNormal m))
  index := p.index

/-- `BoundGeometry.primitives()` -/
def bindGeometry (m : Mat4 R) (binds : List (String × Nat)) (g : List (Prim R)) : List (BoundPrim R) :=
  g.map (bindPrim m binds)

/-- `BoundSkin.__init__`: `skin.geometry.bind(numpy.dot(matrix, skin.bind_shape_matrix), mats)` -/
def bindSkin (m bsm : Mat4 R) (binds : List (String × Nat)) (g : List (Prim R)) : List (BoundPrim R) :=
  bindGeometry (m * bsm) binds g

/-! ### lights and cameras -/

inductive LightKind where
  | point | spot | directional | ambient
  deriving DecidableEq, Repr

/-- the pose attributes a bound light / camera carries (`none` = attribute not present) -/
structure Pose (R : Type) where
  position : Option (V3 R)
  direction : Option (V3 R)
  up : Option (V3 R)

/-- `BoundPointLight` : `dot(matrix[:3,:3], plight.position) + matrix[:3,3]` with
`plight.position = (0,0,0)`; `BoundSpotLight` : `matrix[:3,3]`, `-matrix[:3,2]`, `matrix[:3,1]`;
`BoundDirectionalLight` : `dot(matrix[:3,:3], dlight.direction)` with `dlight.direction = (0,0,-1)`;
`BoundAmbientLight` : nothing -/
def bindLight (k : LightKind) (m : Mat4 R) : Pose R :=
  match k with
  | .point => ⟨some (Mat3.mulVec (Mat4.rot3 m) ⟨0, 0, 0⟩ + Mat4.trans m), none, none⟩
  | .spot => ⟨some (Mat4.trans m), some (-(Mat4.col2 m)), some (Mat4.col1 m)⟩
  | .directional => ⟨none, some (Mat3.mulVec (Mat4.rot3 m) ⟨0, 0, -1⟩), none⟩
  | .ambient => ⟨none, none, none⟩

/-- `BoundPerspectiveCamera` / `BoundOrthographicCamera` -/
def bindCamera (m : Mat4 R) : Pose R :=
  ⟨some (Mat4.trans m), some (-(Mat4.col2 m)), some (Mat4.col1 m)⟩

end algebra

end Pyc.Scene
