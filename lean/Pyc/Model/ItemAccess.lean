/-
Model of item access, `len`, iteration and `shapes()` of pycollada primitives
(collada/triangleset.py, collada/lineset.py, collada/polylist.py, collada/polygons.py,
bound and unbound), written the way the code does it:

* the constructor reshapes the interleaved `<p>` stream (`index.shape = (-1, 3, nindices)`,
  `(-1, 2, nindices)` or `(-1, nindices)`), slices one index view per input by its offset and
  checks the largest index against the source (`checkSource`); views exist for an empty index too;
* `prim[i]` indexes every view with the Python/numpy position `i` (negative wraps once, outside
  `-n ≤ i < n` is `IndexError`) and gathers `vertex[vertex_index[i]]`, …; a polylist first reads
  `polyindex[i] = (polystarts[i], polyends[i])` (cumulative vcounts) and slices the flat views;
* the classes define `__getitem__` and `__len__` but no `__iter__`, so `list(prim)` /
  `for x in prim` use Python's legacy protocol: `__getitem__(0)`, `(1)`, … until `IndexError`;
* `bound.shapes()` / `triangles()` / `lines()` / `polygons()` are `for i in range(n): yield self[i]`;
* binding transforms the vertex and normal source arrays, looks the material symbol up in the
  material map and shares every index view with the unbound primitive.

`none` stands for `IndexError` (item access) or for a rejected construction.
Tied to the source by the C10 correspondence check (props/c10.py, drv/C10.lean).
-/
import Pyc.Basic.PyList

namespace Pyc.ItemAccess
open Pyc.PyList

/-! ### Python / numpy primitives used by the code (modelled, exercised by the correspondence) -/

/-- `xs[i]` on the first axis of a list / numpy array -/
def pyGet {β : Type} (xs : List β) (i : Int) : Option β :=
  match normIdx xs.length i with
  | some k => xs[k]?
  | none => none

/-- apply a partial function to every element, fail if one application fails -/
def traverse {β γ : Type} (f : β → Option γ) : List β → Option (List γ)
  | [] => some []
  | x :: xs =>
    match f x, traverse f xs with
    | some y, some ys => some (y :: ys)
    | _, _ => none

/-- numpy fancy indexing `data[idx]` with an index array of non-negative entries:
    any entry outside the array is an `IndexError` -/
def gather {α : Type} (data : List α) (idx : List Nat) : Option (List α) :=
  traverse (fun j => data[j]?) idx

/-- `xs[a:b]` for non-negative bounds (bounds beyond the end are clamped) -/
def slice {β : Type} (xs : List β) (a b : Nat) : List β := (xs.take b).drop a

/-- running sum, `numpy.cumsum` -/
def cumsumFrom (acc : Nat) : List Nat → List Nat
  | [] => []
  | c :: cs => (acc + c) :: cumsumFrom (acc + c) cs

def cumsum (cs : List Nat) : List Nat := cumsumFrom 0 cs

/-- the legacy iteration protocol: call `get k`, `get (k+1)`, … and stop at the first
    `IndexError`.  Python has no bound on the number of calls; `fuel` makes the function total and
    the flag says whether the loop really ended with `IndexError` (true) or ran out of fuel. -/
def iterateFuel {β : Type} (get : Nat → Option β) : Nat → Nat → List β × Bool
  | 0, _ => ([], false)
  | fuel + 1, k =>
    match get k with
    | none => ([], true)
    | some x => let r := iterateFuel get fuel (k + 1); (x :: r.1, r.2)

/-- `numpy.reshape(-1, k)`: rows of exactly `k` entries, rejected when the length is not a multiple -/
def chunksAux {β : Type} (k : Nat) : Nat → List β → Option (List (List β))
  | _, [] => some []
  | 0, _ :: _ => none
  | fuel + 1, x :: xs =>
    if k = 0 ∨ (x :: xs).length < k then none
    else (chunksAux k fuel ((x :: xs).drop k)).map (fun r => (x :: xs).take k :: r)

def chunks {β : Type} (k : Nat) (xs : List β) : Option (List (List β)) := chunksAux k xs.length xs

/-! ### Items and array views -/

/-- what a `Triangle` / `Line` / `Polygon` carries.  (`Line` has no `normal_indices` and
    `texcoord_indices` attributes; the driver does not print them for lines.) -/
structure Item (α μ : Type) where
  indices : List Nat
  vertices : List α
  normalIndices : Option (List Nat)
  normals : Option (List α)
  texcoordIndices : List (List Nat)
  texcoords : List (List α)
  material : μ
deriving Repr, DecidableEq

/-- the array views of a primitive: `vertex`, `vertex_index`, `normal`, `normal_index`,
    `texcoordset`, `texcoord_indexset`.  `V` is the shape of one index view
    (rows for triangle and line sets, a flat per-corner list for polylists).
    An absent NORMAL input is `none` (Python `None`), absent TEXCOORD inputs are `[]` (`()`). -/
structure Views (V α : Type) where
  vertex : List α
  vertexIndex : V
  normal : Option (List α × V)
  texcoords : List (List α × V)
deriving Repr

/-- every (source array, index view) pair of the primitive -/
def Views.inputs {V α : Type} (w : Views V α) : List (List α × V) :=
  (w.vertex, w.vertexIndex) :: (w.normal.toList ++ w.texcoords)

/-- one input of `__getitem__`: `idx = sel view i` (the index entries of item `i`) and
    `data[idx]`; used for the vertex input, the normal input when there is one, and in the loop
    `for j, uvindex in enumerate(self._texcoord_indexset)` -/
def texItem {V α : Type} (sel : V → Int → Option (List Nat)) (i : Int) (t : List α × V) :
    Option (List Nat × List α) :=
  match sel t.2 i with
  | none => none
  | some ti =>
    match gather t.1 ti with
    | none => none
    | some tv => some (ti, tv)

/-- `__getitem__` of all six classes; `sel view i` is the class-specific way of reading the index
    entries of item `i` out of one view (`view[i]` or `view[polystarts[i]:polyends[i]]`).
    Vertex, then normal (`None, None` when the primitive has no normal array), then every texcoord
    set; an `IndexError` in any of them is the result. -/
def getItemWith {V α μ : Type} (sel : V → Int → Option (List Nat)) (w : Views V α) (mat : μ)
    (i : Int) : Option (Item α μ) :=
  match texItem sel i (w.vertex, w.vertexIndex),
        (match w.normal with
         | none => some none
         | some nd => (texItem sel i nd).map some),
        traverse (texItem sel i) w.texcoords with
  | some v, some n, some ts =>
    some { indices := v.1, vertices := v.2,
           normalIndices := n.map (·.1), normals := n.map (·.2),
           texcoordIndices := ts.map (·.1), texcoords := ts.map (·.2),
           material := mat }
  | _, _, _ => none

/-- `list(prim)`: the legacy protocol over `__getitem__`, with `n + 1` calls allowed
    (`Props.C10.iterate_fuel_independent`: any larger allowance gives the same list and the
    loop ends by `IndexError`) -/
def iterateWith {β : Type} (get : Int → Option β) (n : Nat) : List β :=
  (iterateFuel (fun k => get (k : Int)) (n + 1) 0).1

/-- `for i in range(n): yield self[i]`, consumed completely; an exception in `self[i]` propagates -/
def shapesWith {β : Type} (get : Int → Option β) (n : Nat) : Option (List β) :=
  traverse (fun k => get ((k : Nat) : Int)) (List.range n)

/-! ### Triangle sets and line sets -/

/-- TriangleSet / LineSet / BoundTriangleSet / BoundLineSet.
    `index` is `self.index` with shape (N, arity, nindices). -/
structure FixedSet (α μ : Type) where
  index : List (List (List Nat))
  views : Views (List (List Nat)) α
  material : μ
deriving Repr

namespace FixedSet
variable {α μ : Type}

/-- `__len__`: `len(self.index)` -/
def len (p : FixedSet α μ) : Nat := p.index.length

def getItem (p : FixedSet α μ) (i : Int) : Option (Item α μ) :=
  getItemWith pyGet p.views p.material i

def iterate (p : FixedSet α μ) : List (Item α μ) := iterateWith p.getItem p.len

/-- `triangles()` / `lines()` / `shapes()`; `ntriangles` / `nlines` is `len(self.index)` -/
def shapes (p : FixedSet α μ) : Option (List (Item α μ)) := shapesWith p.getItem p.len

end FixedSet

/-- one `<input>`: offset into the corner tuple and the source array -/
structure Input (α : Type) where
  offset : Nat
  data : List α
deriving Repr

/-- `self.index[:, :, offset]` -/
def rowView (index : List (List (List Nat))) (off : Nat) : Option (List (List Nat)) :=
  traverse (fun row => traverse (fun (corner : List Nat) => corner[off]?) row) index

/-- `checkSource`: the largest index must be inside the source (no check for an empty index) -/
def inSource {α : Type} (data : List α) (idx : List Nat) : Bool := idx.all (fun j => j < data.length)

/-- view of one input of a fixed-arity primitive, with the range check of the constructor -/
def rowInput {α : Type} (index : List (List (List Nat))) (inp : Input α) :
    Option (List α × List (List Nat)) :=
  match rowView index inp.offset with
  | none => none
  | some v => if inSource inp.data v.flatten then some (inp.data, v) else none

/-- the constructor of TriangleSet (`arity = 3`) and LineSet (`arity = 2`) -/
def mkFixed {α μ : Type} (arity stride : Nat) (stream : List Nat) (vertex : Input α)
    (normal : Option (Input α)) (tex : List (Input α)) (material : μ) : Option (FixedSet α μ) :=
  match chunks stride stream with
  | none => none
  | some corners =>
    match chunks arity corners with
    | none => none
    | some index =>
      match rowInput index vertex, (match normal with
                                    | none => some none
                                    | some n => (rowInput index n).map some),
            traverse (rowInput index) tex with
      | some v, some n, some ts =>
        some { index := index,
               views := { vertex := v.1, vertexIndex := v.2, normal := n, texcoords := ts },
               material := material }
      | _, _, _ => none

/-! ### Polylists and polygons -/

/-- Polylist / Polygons / BoundPolylist / BoundPolygons.  The index views are flat: one entry per corner. -/
structure PolySet (α μ : Type) where
  vcounts : List Nat
  polyindex : List (Nat × Nat)
  views : Views (List Nat) α
  material : μ
deriving Repr

/-- `polyends = numpy.cumsum(vcounts)` -/
def polyends (vcounts : List Nat) : List Nat := cumsum vcounts

/-- `polystarts = polyends - vcounts` (elementwise) -/
def polystarts (vcounts : List Nat) : List Nat :=
  List.zipWith (fun e c => e - c) (polyends vcounts) vcounts

/-- `polyindex = numpy.dstack((polystarts, polyends))[0]` -/
def mkPolyindex (vcounts : List Nat) : List (Nat × Nat) :=
  List.zip (polystarts vcounts) (polyends vcounts)

/-- `view[polyrange[0]:polyrange[1]]` with `polyrange = self.polyindex[i]` -/
def polySel (polyindex : List (Nat × Nat)) (view : List Nat) (i : Int) : Option (List Nat) :=
  (pyGet polyindex i).map (fun r => slice view r.1 r.2)

namespace PolySet
variable {α μ : Type}

/-- `__len__`: `self.npolygons = len(self.vcounts)` -/
def len (p : PolySet α μ) : Nat := p.vcounts.length

def getItem (p : PolySet α μ) (i : Int) : Option (Item α μ) :=
  getItemWith (polySel p.polyindex) p.views p.material i

def iterate (p : PolySet α μ) : List (Item α μ) := iterateWith p.getItem p.len

/-- `polygons()` / `shapes()` -/
def shapes (p : PolySet α μ) : Option (List (Item α μ)) := shapesWith p.getItem p.len

end PolySet

/-- `self.index[:, offset]` -/
def flatView (corners : List (List Nat)) (off : Nat) : Option (List Nat) :=
  traverse (fun (corner : List Nat) => corner[off]?) corners

def flatInput {α : Type} (corners : List (List Nat)) (inp : Input α) : Option (List α × List Nat) :=
  match flatView corners inp.offset with
  | none => none
  | some v => if inSource inp.data v then some (inp.data, v) else none

/-- the constructor of Polylist -/
def mkPoly {α μ : Type} (stride : Nat) (stream : List Nat) (vcounts : List Nat) (vertex : Input α)
    (normal : Option (Input α)) (tex : List (Input α)) (material : μ) : Option (PolySet α μ) :=
  match chunks stride stream with
  | none => none
  | some corners =>
    match flatInput corners vertex, (match normal with
                                     | none => some none
                                     | some n => (flatInput corners n).map some),
          traverse (flatInput corners) tex with
    | some v, some n, some ts =>
      some { vcounts := vcounts, polyindex := mkPolyindex vcounts,
             views := { vertex := v.1, vertexIndex := v.2, normal := n, texcoords := ts },
             material := material }
    | _, _, _ => none

/-- the constructor of Polygons: one index array per `<p>`; `vcounts[i] = len(poly) / (max_offset + 1)`,
    the stream is the concatenation -/
def mkPolygons {α μ : Type} (stride : Nat) (polys : List (List Nat)) (vertex : Input α)
    (normal : Option (Input α)) (tex : List (Input α)) (material : μ) : Option (PolySet α μ) :=
  mkPoly stride polys.flatten (polys.map (fun p => p.length / stride)) vertex normal tex material

/-! ### Binding -/

/-- `materialnodebysymbol`: the dict `GeometryNode.objects` fills by assigning the material nodes
    in order (a later node with the same symbol replaces an earlier one); `.get(symbol)` -/
def matLookup {τ : Type} (nodes : List (String × τ)) (symbol : Option String) : Option τ :=
  match symbol with
  | none => none
  | some s => (nodes.reverse.find? (fun n => n.1 == s)).map (·.2)

/-- bound views: `vertex * M[:3,:3] + matrix[:3,3]` (`f`), `normal * M[:3,:3]` (`g`); the texcoord
    arrays and every index view are shared with the unbound primitive -/
def Views.bind {V α : Type} (f g : α → α) (w : Views V α) : Views V α :=
  { vertex := w.vertex.map f, vertexIndex := w.vertexIndex,
    normal := w.normal.map (fun n => (n.1.map g, n.2)), texcoords := w.texcoords }

def FixedSet.bind {α μ ν : Type} (f g : α → α) (look : μ → ν) (p : FixedSet α μ) : FixedSet α ν :=
  { index := p.index, views := p.views.bind f g, material := look p.material }

def PolySet.bind {α μ ν : Type} (f g : α → α) (look : μ → ν) (p : PolySet α μ) : PolySet α ν :=
  { vcounts := p.vcounts, polyindex := p.polyindex, views := p.views.bind f g,
    material := look p.material }

/-- the item an unbound item turns into under binding -/
def Item.bind {α μ ν : Type} (f g : α → α) (m : ν) (it : Item α μ) : Item α ν :=
  { indices := it.indices, vertices := it.vertices.map f,
    normalIndices := it.normalIndices, normals := it.normals.map (·.map g),
    texcoordIndices := it.texcoordIndices, texcoords := it.texcoords, material := m }

/-! ### Integer instance used by the driver: rows are integer vectors, matrices 4×4 row-major -/

abbrev Vec := List Int
abbrev Mat := List (List Int)

def dot (a b : Vec) : Int := (List.zipWith (· * ·) a b).foldl (· + ·) 0

/-- `v * M.T[:3,:3] + matrix[:3,3]`: component `c` is `Σ_r matrix[c][r] * v[r] + matrix[c][3]` -/
def applyPoint (m : Mat) (v : Vec) : Vec :=
  (m.take 3).map (fun row => dot (row.take 3) v + (row.drop 3).headD 0)

/-- `n * M.T[:3,:3]` -/
def applyDir (m : Mat) (v : Vec) : Vec := (m.take 3).map (fun row => dot (row.take 3) v)

end Pyc.ItemAccess
