/- C04, continued: the remaining element kinds the writer emits (same method as Pyc/Props/C04.lean). -/
import Pyc.Proofs.Schema

namespace Pyc.Props.C04
open Pyc.Schema Pyc.Generated.SchemaTable RegularExpression

private theorem optChar' (p : String) (b : Bool) : (if b then [p] else []) ∈ (1 + char p).matches' := by
  cases b
  · exact mem_opt_nil
  · exact mem_opt_some (mem_char p)

/-- a library with n+1 objects (an empty library element is removed by save()) -/
theorem emit_library_valid (n : Nat) :
    cm_COLLADA_library_geometries.rmatch (emitLibrary "geometry" (n + 1)) = true ∧
    cm_COLLADA_library_controllers.rmatch (emitLibrary "controller" (n + 1)) = true ∧
    cm_COLLADA_library_lights.rmatch (emitLibrary "light" (n + 1)) = true ∧
    cm_COLLADA_library_cameras.rmatch (emitLibrary "camera" (n + 1)) = true ∧
    cm_COLLADA_library_images.rmatch (emitLibrary "image" (n + 1)) = true ∧
    cm_COLLADA_library_effects.rmatch (emitLibrary "effect" (n + 1)) = true ∧
    cm_COLLADA_library_materials.rmatch (emitLibrary "material" (n + 1)) = true ∧
    cm_COLLADA_library_nodes.rmatch (emitLibrary "node" (n + 1)) = true ∧
    cm_COLLADA_library_visual_scenes.rmatch (emitLibrary "visual_scene" (n + 1)) = true := by
  have key : ∀ (item : String), List.replicate (n + 1) item
      ∈ ((1 + char "asset") * char item * star (char item) * star (char "extra")).matches' := by
    intro item
    have := mem_mul (mem_mul (mem_mul (mem_opt_nil (P := char "asset")) (mem_char item)) (mem_star_replicate item n))
      (mem_star_replicate "extra" 0)
    simpa [List.replicate_succ] using this
  refine ⟨?_, ?_, ?_, ?_, ?_, ?_, ?_, ?_, ?_⟩ <;> apply rmatch_of_mem <;> simp only [emitLibrary] <;> apply key

/-- `<asset>`, for every number of contributors and every choice of optional fields -/
theorem emit_asset_valid (nc : Nat) (kw rev subj title unit : Bool) :
    cm_COLLADA_asset.rmatch (emitAsset nc kw rev subj title unit) = true := by
  apply rmatch_of_mem
  have := mem_mul (mem_mul (mem_mul (mem_mul (mem_mul (mem_mul (mem_mul (mem_mul
    (mem_star_replicate "contributor" nc) (mem_char "created")) (optChar' "keywords" kw)) (mem_char "modified"))
    (optChar' "revision" rev)) (optChar' "subject" subj)) (optChar' "title" title)) (optChar' "unit" unit))
    (mem_opt_some (mem_char "up_axis"))
  simpa [emitAsset, cm_COLLADA_asset, List.append_assoc] using this

/-- `<contributor>`: any subset of its fields, in schema order -/
theorem emit_contributor_valid (s : String → Bool) : cm_asset_contributor.rmatch (emitContributor s) = true := by
  apply rmatch_of_mem
  have := mem_mul (mem_mul (mem_mul (mem_mul (optChar' "author" (s "author")) (optChar' "authoring_tool" (s "authoring_tool")))
    (optChar' "comments" (s "comments"))) (optChar' "copyright" (s "copyright"))) (optChar' "source_data" (s "source_data"))
  have e : emitContributor s = (if s "author" then ["author"] else []) ++ (if s "authoring_tool" then ["authoring_tool"] else [])
      ++ (if s "comments" then ["comments"] else []) ++ (if s "copyright" then ["copyright"] else [])
      ++ (if s "source_data" then ["source_data"] else []) := by
    simp [emitContributor, List.flatMap_cons, List.append_assoc]
  rw [e]; exact this

/-- cameras: exactly the five parameter combinations `_checkValidParams` admits are the ones the schema admits -/
theorem emit_camera_valid (x y a : Bool)
    (hok : (x = true ∧ y = false) ∨ (x = false ∧ y = true) ∨ (x = true ∧ y = true ∧ a = false)) :
    cm_technique_common_perspective.rmatch (emitCamera "xfov" "yfov" x y a) = true ∧
    cm_technique_common_orthographic.rmatch (emitCamera "xmag" "ymag" x y a) = true := by
  constructor <;> (cases x <;> cases y <;> cases a <;> first | decide | (exfalso; simp at hok))

/-- … and the combination save() rejects (all three given) is indeed not schema-valid -/
theorem camera_all_three_invalid :
    cm_technique_common_perspective.rmatch (emitCamera "xfov" "yfov" true true true) = false := by decide

/-- `<scene>`; `<source>/<technique_common>`; `<vertices>` with n+1 inputs; `<accessor>` with any number of params;
    `<instance_geometry>` with or without `<bind_material>`; `<bind_material>`; `<instance_material>` with any
    number of vertex input bindings; `<optics>`; `<light>`, `<camera>`, `<material>`, `<image>`, `<geometry>` -/
theorem emit_small_elements_valid (n : Nat) (b : Bool) :
    cm_COLLADA_scene.rmatch (emitSceneElem b) = true ∧
    cm_source_technique_common.rmatch ["accessor"] = true ∧
    cm_mesh_vertices.rmatch (List.replicate (n + 1) "input") = true ∧
    cm_technique_common_accessor.rmatch (List.replicate n "param") = true ∧
    cm_node_instance_geometry.rmatch (if b then ["bind_material"] else []) = true ∧
    cm_instance_geometry_bind_material.rmatch ["technique_common"] = true ∧
    cm_technique_common_instance_material.rmatch (List.replicate n "bind_vertex_input") = true ∧
    cm_camera_optics.rmatch ["technique_common"] = true ∧
    cm_library_lights_light.rmatch ["technique_common"] = true ∧
    cm_library_cameras_camera.rmatch ["optics"] = true ∧
    cm_library_materials_material.rmatch ["instance_effect"] = true ∧
    cm_library_images_image.rmatch ["init_from"] = true ∧
    cm_library_geometries_geometry.rmatch (["mesh"] ++ (if b then ["extra"] else [])) = true := by
  refine ⟨?_, by decide, ?_, ?_, ?_, by decide, ?_, by decide, by decide, by decide, by decide, by decide, ?_⟩
  · cases b <;> decide
  · apply rmatch_of_mem
    have := mem_mul (mem_mul (mem_char "input") (mem_star_replicate "input" n)) (mem_star_replicate "extra" 0)
    simpa [cm_mesh_vertices, List.replicate_succ] using this
  · apply rmatch_of_mem
    simpa [cm_technique_common_accessor] using mem_star_replicate "param" n
  · cases b <;> decide
  · apply rmatch_of_mem
    have := mem_mul (mem_mul (mem_star_replicate "bind" 0) (mem_star_replicate "bind_vertex_input" n)) (mem_star_replicate "extra" 0)
    simpa [cm_technique_common_instance_material] using this
  · cases b <;> decide

/-- `<profile_COMMON>`: the params (newparam elements, any number), `<technique>`, kept extras;
    `<technique>`: the shader element -/
theorem emit_profile_valid (nparams nextra : Nat) (shader : String) (hs : shader ∈ ["constant", "lambert", "phong", "blinn"]) :
    cm_effect_profile_COMMON.rmatch (List.replicate nparams "newparam" ++ ["technique"] ++ List.replicate nextra "extra") = true ∧
    cm_profile_COMMON_technique.rmatch [shader] = true ∧
    cm_library_effects_effect.rmatch ["profile_COMMON"] = true := by
  refine ⟨?_, ?_, by decide⟩
  · apply rmatch_of_mem
    have hp : List.replicate nparams "newparam" ∈ (star (char "image" + char "newparam")).matches' :=
      mem_star_of_forall _ (fun a ha => by rw [List.eq_of_mem_replicate ha]; exact mem_add_right (mem_char _))
    have := mem_mul (mem_mul (mem_mul (mem_opt_nil (P := char "asset")) hp) (mem_char "technique")) (mem_star_replicate "extra" nextra)
    simpa [cm_effect_profile_COMMON, List.append_assoc] using this
  · simp only [List.mem_cons, List.mem_nil_iff, or_false] at hs
    rcases hs with rfl | rfl | rfl | rfl <;> decide

end Pyc.Props.C04
