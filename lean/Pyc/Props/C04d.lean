/- C04, second half: "all redundant bookkeeping agrees with the data" — counts and strides of sources, vcount and index totals of
   primitives — from the model of the validating constructors (Pyc/Model/Validate.lean, C09.accept_sound).  Tie: the recount of every
   written document in props/c04.py (array count, accessor count × stride, primitive count, Σ vcount, tokens in <p>). -/
import Pyc.Props.C09

namespace Pyc.Props.C04
open Pyc.Validate

/-! ### the redundant bookkeeping of a written document (second half of C04) -/

/-- what `FloatSource.save` writes next to the data: the `count` of the array, the `count` and the `stride` of the accessor -/
structure SourceBook where
  arrayCount : Nat
  accessorCount : Nat
  stride : Nat
deriving Repr, DecidableEq

/-- `rawlen = len(data.flat)`, `acclen = len(data rows)`, `stride = len(components)` -/
def sourceBook (rawLen ncomp : Nat) : SourceBook := ⟨rawLen, rawLen / ncomp, ncomp⟩

/-- for every source the constructor / loader accepts (a positive number of components that divides the data) the accessor
    describes exactly the array: count × stride = array count -/
theorem source_bookkeeping (rawLen ncomp : Nat) (hd : rawLen % ncomp = 0) :
    (sourceBook rawLen ncomp).accessorCount * (sourceBook rawLen ncomp).stride = (sourceBook rawLen ncomp).arrayCount := by
  simp only [sourceBook]
  exact Nat.div_mul_cancel (Nat.dvd_of_mod_eq_zero hd)

/-- for every polylist / polygons the constructors accept, the vertex counts account for the whole index stream:
    Σ vcount × (number of offsets) = number of index tokens written into `<p>` -/
theorem polylist_bookkeeping (spec : PrimSpec) (pv : PrimViews) (h : construct spec = .ok pv)
    (hk : spec.kind = .polylist ∨ spec.kind = .polygons) :
    pv.vcounts.sum * pv.stride = (stream spec).length := by
  obtain ⟨_, _, h3, h4, _⟩ := Pyc.Props.C09.accept_sound spec pv h
  rw [h4 hk]
  exact h3.symm

/-- … and for every primitive kind the stream consists of whole corners -/
theorem stream_whole_corners (spec : PrimSpec) (pv : PrimViews) (h : construct spec = .ok pv) :
    (stream spec).length % pv.stride = 0 := by
  obtain ⟨_, _, h3, _, _⟩ := Pyc.Props.C09.accept_sound spec pv h
  rw [h3]
  exact Nat.mul_mod_left _ _

example : (sourceBook 12 3).accessorCount = 4 ∧ 12 % 3 = 0 := by decide

end Pyc.Props.C04
