/-
C17 — Queries are pure and repeatable.
-/
import Pyc.Model.Query

namespace Pyc.Props.C17
open Pyc.Query

variable {D K V : Type} [DecidableEq K]

theorem consistent_init (compute : D → K → V) (d : D) : Consistent compute ⟨d, []⟩ := by
  intro k v h; simp [cached] at h

/-- a query never changes the data, keeps the cache consistent, and answers what a fresh computation
    on the data answers — whether or not the answer was cached -/
theorem query_spec (compute : D → K → V) (s : Memo D K V) (k : K) (h : Consistent compute s) :
    (query compute s k).1.data = s.data ∧ Consistent compute (query compute s k).1 ∧
    (query compute s k).2 = compute s.data k := by
  unfold query
  cases hc : cached s.cache k with
  | some v => exact ⟨rfl, h, h k v hc⟩
  | none =>
    refine ⟨rfl, ?_, rfl⟩
    intro k' v' h'
    simp only [cached, List.find?_cons] at h'
    by_cases e : k = k'
    · subst e; simp at h'; exact h'.symm
    · have : (k == k') = false := by simpa using e
      simp only [this] at h'
      exact h k' v' h'

/-- repeating a query returns an equal result -/
theorem query_repeat (compute : D → K → V) (s : Memo D K V) (k : K) (h : Consistent compute s) :
    (query compute (query compute s k).1 k).2 = (query compute s k).2 := by
  obtain ⟨h1, h2, h3⟩ := query_spec compute s k h
  obtain ⟨_, _, h3'⟩ := query_spec compute _ k h2
  rw [h3', h3, h1]

/-- all sequences of queries, in any order and multiplicity: the data (hence the public model and
    whatever a save would write from it) is unchanged and every answer is the fresh answer, so no
    answer depends on what was asked before -/
theorem history_pure (compute : D → K → V) : ∀ (ks : List K) (s : Memo D K V), Consistent compute s →
    (run compute s ks).1.data = s.data ∧ Consistent compute (run compute s ks).1 ∧
    (run compute s ks).2 = ks.map (compute s.data)
  | [], s, h => ⟨rfl, h, rfl⟩
  | k :: ks, s, h => by
    obtain ⟨h1, h2, h3⟩ := query_spec compute s k h
    obtain ⟨i1, i2, i3⟩ := history_pure compute ks (query compute s k).1 h2
    simp only [run]
    refine ⟨by rw [i1, h1], i2, ?_⟩
    rw [i3, h3, h1]
    rfl

/-- no answer depends on what was asked before it, on how often, or in which order: the same key asked
    at any position of any two histories (from any two consistent cache states over the same data)
    gets the same answer -/
theorem answers_history_independent (compute : D → K → V) (ks ks' : List K) (s s' : Memo D K V)
    (h : Consistent compute s) (h' : Consistent compute s') (hd : s.data = s'.data) (i j : Nat) (k : K)
    (hi : ks[i]? = some k) (hj : ks'[j]? = some k) :
    (run compute s ks).2[i]? = (run compute s' ks').2[j]? := by
  rw [(history_pure compute ks s h).2.2, (history_pure compute ks' s' h').2.2, hd]
  simp [List.getElem?_map, hi, hj]

/-- and a permuted history gets the permuted answers -/
theorem answers_perm (compute : D → K → V) (ks ks' : List K) (s : Memo D K V)
    (h : Consistent compute s) (hp : ks.Perm ks') :
    ((run compute s ks).2).Perm (run compute s ks').2 := by
  rw [(history_pure compute ks s h).2.2, (history_pure compute ks' s h).2.2]
  exact hp.map _

/-- interleaving with saves: a save is a function of the data only (C02/C03), so after any history of
    queries it writes what it would have written before -/
theorem save_after_queries {X : Type} (save : D → X) (compute : D → K → V) (ks : List K) (s : Memo D K V)
    (h : Consistent compute s) : save (run compute s ks).1.data = save s.data := by
  rw [(history_pure compute ks s h).1]

/-- the defect pattern is really different: a query that writes to its data changes later answers -/
theorem leaky_not_pure : ∃ (s : Memo (List Nat) Unit Nat),
    (leakyQuery triCount (fun d _ => d ++ [3]) (leakyQuery triCount (fun d _ => d ++ [3]) s ()).1 ()).2
      ≠ (leakyQuery triCount (fun d _ => d ++ [3]) s ()).2 :=
  ⟨⟨[4], []⟩, by decide⟩

/-- bound primitives own their arrays: whatever is written into the bound array (any position, any
    value, any number of times) the unbound geometry's array is unchanged -/
theorem bound_owns_arrays (h : Heap) (a : Nat) (f : Int → Int) (i : Nat) (v : Int) (ha : a < h.length) :
    readArr (writeArr (bindFresh h a f).1 (bindFresh h a f).2 i v) a = readArr h a := by
  have hne : a ≠ h.length := Nat.ne_of_lt ha
  simp only [bindFresh, writeArr, readArr, List.getD_eq_getElem?_getD]
  rw [List.getElem?_set_ne (fun e => hne e.symm)]
  rw [List.getElem?_append_left ha]

/-- and the bound array starts as the transformed copy -/
theorem bound_is_transformed (h : Heap) (a : Nat) (f : Int → Int) :
    readArr (bindFresh h a f).1 (bindFresh h a f).2 = (readArr h a).map f := by
  simp [bindFresh, readArr]

/-- sharing the array instead would let a write through: the negative -/
theorem alias_leaks : ∃ (h : Heap) (a i : Nat) (v : Int),
    readArr (writeArr (bindAlias h a id).1 (bindAlias h a id).2 i v) a ≠ readArr h a :=
  ⟨[[1, 2, 3]], 0, 1, 9, by decide⟩

/-! ### non-vacuity -/
example : (run triCount (⟨[3, 4, 5, 2], []⟩ : Memo (List Nat) Unit Nat) [(), (), ()]).2 = [6, 6, 6] := by decide
example : (run triCount (⟨[3, 4, 5, 2], []⟩ : Memo (List Nat) Unit Nat) [(), ()]).1.cache = [((), 6)] := by decide

end Pyc.Props.C17
