/- C04, continued: Effect.save and the `<technique>` element when the shading type of a loaded effect is changed
   (the place of the new shader element was wrong before /repo 51e06da: found by the C04 check, see DESIGN §4). -/
import Pyc.Proofs.Schema
import Pyc.Props.C02
import Pyc.Props.C04
import Pyc.Generated.SyncCalls

namespace Pyc.Props.C04
open Pyc.Schema Pyc.Generated.SchemaTable RegularExpression

theorem mem_shaderTags {t : String} : t ∈ shaderTags ↔ t = "constant" ∨ t = "lambert" ∨ t = "phong" ∨ t = "blinn" := by
  simp [shaderTags]

theorem save_technique_shape_aux (A mids E : List String) (hA : ∀ x ∈ A, x = "asset")
    (hm : ∀ m ∈ mids, m = "image" ∨ m = "newparam") (hEmem : ∀ x ∈ E, x = "extra")
    (old s : String) (ho : old ∈ shaderTags) (hs : s ∈ shaderTags) :
    saveTechnique (A ++ mids ++ old :: E) s = A ++ mids.filter (· != "newparam") ++ s :: E := by
  obtain ⟨P, hPdef⟩ : ∃ P, P = A ++ mids.filter (· != "newparam") := ⟨_, rfl⟩
  have hold : old ≠ "newparam" := by
    rcases mem_shaderTags.1 ho with h | h | h | h <;> (rw [h]; decide)
  have hk1 : (A ++ mids ++ old :: E).filter (· != "newparam") = P ++ old :: E := by
    have hE' : E.filter (· != "newparam") = E := by
      apply List.filter_eq_self.2
      intro x hx
      rw [hEmem x hx]; decide
    have hA' : A.filter (· != "newparam") = A := by
      apply List.filter_eq_self.2
      intro x hx
      rw [hA x hx]; decide
    simp only [List.filter_append, List.filter_cons, hA', hE', hPdef]
    simp [hold]
  have hPmem : ∀ x ∈ P, x = "asset" ∨ x = "image" := by
    intro x hx
    simp only [hPdef, List.mem_append, List.mem_filter] at hx
    rcases hx with hx | ⟨hx, hne⟩
    · exact Or.inl (hA x hx)
    · rcases hm x hx with h | h
      · exact Or.inr h
      · simp [h] at hne
  have notP : ∀ t ∈ shaderTags, t ∉ P := by
    intro t ht htP
    rcases hPmem t htP with h | h <;> (rw [h] at ht; revert ht; decide)
  have notE : ∀ t ∈ shaderTags, t ∉ E := by
    intro t ht htE
    rw [hEmem t htE] at ht; revert ht; decide
  have hts : ∀ t ∈ shaderTags.filter (· != s), t ∈ shaderTags := fun t ht => (List.mem_filter.1 ht).1
  have hk2 := foldl_erase_one P E old (shaderTags.filter (· != s))
    (fun t ht => notP t (hts t ht)) (fun t ht => notE t (hts t ht))
  have hmem : old ∈ shaderTags.filter (· != s) ↔ old ≠ s := by
    simp [List.mem_filter, ho]
  unfold saveTechnique
  simp only [hk1, hk2, hmem, ← hPdef]
  by_cases hos : old = s
  · subst hos
    simp
  · have hns : (P ++ E).contains s = false := by
      simp only [List.contains_eq_mem, List.mem_append, decide_eq_false_iff_not, not_or]
      exact ⟨notP s hs, notE s hs⟩
    have hidx : (P ++ E).findIdx (· == "extra") = P.length := by
      apply findIdx_after_prefix
      · intro x hx
        rcases hPmem x hx with h | h <;> (rw [h]; decide)
      · intro x hx
        rw [hEmem x hx]; decide
    simp only [hos, ne_eq, not_false_eq_true, if_true, hns, hidx]
    simp

theorem save_technique_shape (a : Bool) (mids : List String) (hm : ∀ m ∈ mids, m = "image" ∨ m = "newparam")
    (old s : String) (ho : old ∈ shaderTags) (hs : s ∈ shaderTags) (n : Nat) :
    saveTechnique (techKids a mids old n) s =
      (if a then ["asset"] else []) ++ mids.filter (· != "newparam") ++ s :: List.replicate n "extra" := by
  unfold techKids
  apply save_technique_shape_aux _ _ _ _ hm _ old s ho hs
  · intro x hx
    cases a <;> simp at hx
    exact hx
  · exact fun x hx => List.eq_of_mem_replicate hx

/-- C04, Effect.save: whatever shading type the effect is given, the `<technique>` of a schema-valid effect is
    schema-valid after save() — the new shader element stands where the schema wants it, before the `<extra>` elements -/
theorem save_technique_valid (a : Bool) (mids : List String) (hm : ∀ m ∈ mids, m = "image" ∨ m = "newparam")
    (old s : String) (ho : old ∈ shaderTags) (hs : s ∈ shaderTags) (n : Nat) :
    cm_profile_COMMON_technique.rmatch (saveTechnique (techKids a mids old n) s) = true := by
  rw [save_technique_shape a mids hm old s ho hs n]
  apply rmatch_of_mem
  have hA : (if a then ["asset"] else []) ∈ (1 + char "asset").matches' := by
    cases a
    · exact mem_opt_nil
    · exact mem_opt_some (mem_char _)
  have hM : mids.filter (· != "newparam") ∈ (star (char "image" + char "newparam")).matches' := by
    apply mem_star_of_forall
    intro x hx
    rcases hm x (List.mem_filter.1 hx).1 with h | h
    · rw [h]; exact mem_add_left (mem_char _)
    · rw [h]; exact mem_add_right (mem_char _)
  have hS : [s] ∈ (char "constant" + char "lambert" + char "phong" + char "blinn").matches' := by
    rcases mem_shaderTags.1 hs with h | h | h | h <;> rw [h]
    · exact mem_add_left (mem_add_left (mem_add_left (mem_char _)))
    · exact mem_add_left (mem_add_left (mem_add_right (mem_char _)))
    · exact mem_add_left (mem_add_right (mem_char _))
    · exact mem_add_right (mem_char _)
  have := mem_mul (mem_mul (mem_mul hA hM) hS) (mem_star_replicate "extra" n)
  simpa [cm_profile_COMMON_technique, List.append_assoc] using this

/-- the input side is not vacuous: such a technique is itself schema-valid … -/
example : cm_profile_COMMON_technique.rmatch (techKids true ["newparam", "image"] "phong" 2) = true := by decide
/-- … and appending the new shader element (what save() did before 51e06da) is not: -/
theorem append_after_extra_invalid :
    cm_profile_COMMON_technique.rmatch (saveTechniqueAppend (techKids false [] "phong" 1) "lambert") = false := by decide


/-! ### `<instance_material>` through MaterialNode.save (C02.sync_block read at the level of element names) -/

section
open Pyc.Sync
variable {α : Type} [DecidableEq α]

/-- `MaterialNode.save`: `_syncChildren(instance_material, inputs, bind_vertex_input, before=<first extra>)`.  Whatever the
    edit history of the input list, the children of a schema-valid `<instance_material>` (`bind*`, `bind_vertex_input*`,
    `extra*`) are schema-valid after the save: the new bindings stand where the old ones stood, in front of the extras. -/
theorem instance_material_valid (name : α → String) (wanted B I E : List α)
    (hB : ∀ c ∈ B, name c = "bind") (hI : ∀ c ∈ I, name c = "bind_vertex_input") (hE : ∀ c ∈ E, name c = "extra")
    (hW : ∀ c ∈ wanted, name c = "bind_vertex_input") :
    cm_technique_common_instance_material.rmatch
      ((syncChildren (fun c => name c == "bind_vertex_input") wanted (B ++ I ++ E) E.head?).map name) = true := by
  have notW : ∀ c, name c ≠ "bind_vertex_input" → c ∉ wanted := fun c hc hm => hc (hW c hm)
  have hsync := Pyc.Props.C02.sync_block (fun c => name c == "bind_vertex_input") wanted B I E
    (fun c hc => by
      have := notW c (by rw [hB c hc]; decide)
      simp [isM, hB c hc, this])
    (fun c hc => by simp [isM, hI c hc])
    (fun c hc => by
      have := notW c (by rw [hE c hc]; decide)
      simp [isM, hE c hc, this])
    (fun e he hmem => by
      have h1 : name e = "extra" := hE e (by cases E with
        | nil => simp at he
        | cons x xs => simp at he; subst he; simp)
      have h2 := hB e hmem
      rw [h1] at h2; revert h2; decide)
  rw [hsync]
  apply rmatch_of_mem
  have mB : B.map name ∈ (star (char "bind")).matches' :=
    mem_star_of_forall _ (fun a ha => by
      obtain ⟨c, hc, rfl⟩ := List.mem_map.1 ha
      rw [hB c hc]; exact mem_char _)
  have mW : wanted.map name ∈ (star (char "bind_vertex_input")).matches' :=
    mem_star_of_forall _ (fun a ha => by
      obtain ⟨c, hc, rfl⟩ := List.mem_map.1 ha
      rw [hW c hc]; exact mem_char _)
  have mE : E.map name ∈ (star (char "extra")).matches' :=
    mem_star_of_forall _ (fun a ha => by
      obtain ⟨c, hc, rfl⟩ := List.mem_map.1 ha
      rw [hE c hc]; exact mem_char _)
  have := mem_mul (mem_mul mB mW) mE
  simpa [cm_technique_common_instance_material, List.map_append, List.append_assoc] using this


/-! ### `<mesh>` through Geometry.save: two reconciliations -/

/-- `Geometry.save` ends with two reconciliations of `<mesh>`: the sources in front of `<vertices>`, then the primitives in
    front of the first `<extra>`.  For a loaded mesh `S ++ [v] ++ P ++ X` (sources, vertices, primitives, extras) and ANY current
    source and primitive lists `S'`, `P'` (any edit history) the children come out as `S' ++ [v] ++ P' ++ X`. -/
theorem mesh_children_after_save (name : α → String) (S S' P P' X : List α) (v : α)
    (hS : ∀ c ∈ S, name c = "source") (hS' : ∀ c ∈ S', name c = "source") (hv : name v = "vertices")
    (hP : ∀ c ∈ P, name c ∉ ["source", "vertices", "extra"]) (hP' : ∀ c ∈ P', name c ∉ ["source", "vertices", "extra"])
    (hX : ∀ c ∈ X, name c = "extra") :
    syncChildren (fun c => !(["source", "vertices", "extra"].contains (name c))) P'
      (syncChildren (fun c => name c == "source") S' (S ++ [v] ++ P ++ X) (some v)) X.head?
      = S' ++ [v] ++ P' ++ X := by
  have nS' : ∀ c, name c ≠ "source" → c ∉ S' := fun c hc hm => hc (hS' c hm)
  have nP' : ∀ c, name c ∈ ["source", "vertices", "extra"] → c ∉ P' := fun c hc hm => hP' c hm hc
  -- first reconciliation: B = [], I = S, E = v :: P ++ X
  have h1 : syncChildren (fun c => name c == "source") S' (S ++ [v] ++ P ++ X) (some v) = S' ++ ([v] ++ P ++ X) := by
    have := Pyc.Props.C02.sync_block (fun c => name c == "source") S' [] S ([v] ++ P ++ X)
      (by simp) (fun c hc => by simp [isM, hS c hc])
      (fun c hc => by
        have hne : name c ≠ "source" := by
          simp only [List.mem_append, List.mem_singleton] at hc
          rcases hc with (rfl | hc) | hc
          · rw [hv]; decide
          · intro h; exact hP c hc (by simp [h])
          · rw [hX c hc]; decide
        have := nS' c hne
        simp [isM, hne, this])
      (by simp)
    simpa [List.append_assoc] using this
  rw [h1]
  -- second one: B = S' ++ [v], I = P, E = X
  have h2 := Pyc.Props.C02.sync_block (fun c => !(["source", "vertices", "extra"].contains (name c))) P' (S' ++ [v]) P X
    (fun c hc => by
      have hin : name c ∈ ["source", "vertices", "extra"] := by
        simp only [List.mem_append, List.mem_singleton] at hc
        rcases hc with hc | rfl
        · simp [hS' c hc]
        · simp [hv]
      have := nP' c hin
      simp [isM, hin, this])
    (fun c hc => by
      have := hP c hc
      simp [isM, this])
    (fun c hc => by
      have hin : name c ∈ ["source", "vertices", "extra"] := by simp [hX c hc]
      have := nP' c hin
      simp [isM, hin, this])
    (fun e he hmem => by
      have hex : name e = "extra" := hX e (by cases X with
        | nil => simp at he
        | cons x xs => simp at he; subst he; simp)
      simp only [List.mem_append, List.mem_singleton] at hmem
      rcases hmem with hm | hm
      · have := hS' e hm; rw [hex] at this; revert this; decide
      · rw [hm, hv] at hex; revert hex; decide)
  simpa [List.append_assoc] using h2

/-- … so a mesh that keeps at least one source is schema-valid after the save, whatever was added, removed, replaced or reordered -/
theorem mesh_valid_after_save (name : α → String) (S S' P P' X : List α) (v : α)
    (hS : ∀ c ∈ S, name c = "source") (hS' : ∀ c ∈ S', name c = "source") (hv : name v = "vertices")
    (hP : ∀ c ∈ P, name c ∉ ["source", "vertices", "extra"]) (hP' : ∀ c ∈ P', name c ∈ primitiveTags)
    (hX : ∀ c ∈ X, name c = "extra") (hne : S' ≠ []) :
    cm_geometry_mesh.rmatch
      ((syncChildren (fun c => !(["source", "vertices", "extra"].contains (name c))) P'
        (syncChildren (fun c => name c == "source") S' (S ++ [v] ++ P ++ X) (some v)) X.head?).map name) = true := by
  have hP'' : ∀ c ∈ P', name c ∉ ["source", "vertices", "extra"] := by
    intro c hc hin
    have := hP' c hc
    simp only [primitiveTags, List.mem_cons, List.mem_nil_iff, or_false] at this hin
    rcases this with h | h | h | h | h | h | h <;> rw [h] at hin <;> simp at hin
  rw [mesh_children_after_save name S S' P P' X v hS hS' hv hP hP'' hX]
  have e : (S' ++ [v] ++ P' ++ X).map name = emitMesh S'.length (P'.map name) X.length := by
    simp only [emitMesh, List.map_append, List.map_cons, List.map_nil, hv]
    congr 1
    · congr 1
      congr 1
      exact List.eq_replicate_iff.2 ⟨by simp, fun b hb => by obtain ⟨c, hc, rfl⟩ := List.mem_map.1 hb; exact hS' c hc⟩
    · exact List.eq_replicate_iff.2 ⟨by simp, fun b hb => by obtain ⟨c, hc, rfl⟩ := List.mem_map.1 hb; exact hX c hc⟩
  rw [e]
  exact emit_mesh_valid S'.length (P'.map name) X.length (List.length_pos_of_ne_nil hne)
    (fun p hp => by obtain ⟨c, hc, rfl⟩ := List.mem_map.1 hp; exact hP' c hc)

/-! ### `<profile_COMMON>` through Effect.save: the parameters among the images, in front of the technique -/

/-- `Effect.save`: `_syncChildren(profile_COMMON, params, newparam, before=<technique>)`.  For a schema-valid profile — an optional asset,
    images and newparams in any order, the technique, extras — and ANY current parameter list the children are schema-valid after the save. -/
theorem profile_valid_after_save (name : α → String) (wanted A M X : List α) (t : α)
    (hA : A = [] ∨ ∃ a, A = [a] ∧ name a = "asset") (hM : ∀ c ∈ M, name c = "image" ∨ name c = "newparam")
    (ht : name t = "technique") (hX : ∀ c ∈ X, name c = "extra") (hW : ∀ c ∈ wanted, name c = "newparam") :
    cm_effect_profile_COMMON.rmatch
      ((syncChildren (fun c => name c == "newparam") wanted (A ++ M ++ [t] ++ X) (some t)).map name) = true := by
  have notW : ∀ c, name c ≠ "newparam" → c ∉ wanted := fun c hc hm => hc (hW c hm)
  have hAn : ∀ c ∈ A, name c = "asset" := by
    intro c hc
    rcases hA with rfl | ⟨a, rfl, ha⟩
    · cases hc
    · simp at hc; rw [hc]; exact ha
  have mA : ∀ c ∈ A, isM (fun c => name c == "newparam") wanted c = false := by
    intro c hc
    have := notW c (by rw [hAn c hc]; decide)
    simp [isM, hAn c hc, this]
  have mT : ∀ c ∈ [t] ++ X, isM (fun c => name c == "newparam") wanted c = false := by
    intro c hc
    have hn : name c ≠ "newparam" := by
      simp only [List.singleton_append, List.mem_cons] at hc
      rcases hc with rfl | hc
      · rw [ht]; decide
      · rw [hX c hc]; decide
    have := notW c hn
    simp [isM, hn, this]
  -- kept children
  obtain ⟨imgs, himgs⟩ : ∃ imgs, imgs = M.filter (fun c => !isM (fun c => name c == "newparam") wanted c) := ⟨_, rfl⟩
  have hk : kept (fun c => name c == "newparam") wanted (A ++ M ++ [t] ++ X) = (A ++ imgs) ++ ([t] ++ X) := by
    unfold kept
    simp only [List.append_assoc, List.filter_append]
    rw [Pyc.Sync.filter_all (l := A) (fun c hc => by simp [mA c hc])]
    rw [← himgs]
    have : ([t] ++ X).filter (fun c => !isM (fun c => name c == "newparam") wanted c) = [t] ++ X :=
      Pyc.Sync.filter_all (fun c hc => by simp [mT c hc])
    simp only [List.filter_append] at this
    rw [this]
  have himg : ∀ c ∈ imgs, name c = "image" := by
    intro c hc
    rw [himgs, List.mem_filter] at hc
    rcases hM c hc.1 with h | h
    · exact h
    · simp [isM, h] at hc
  -- position of the block
  obtain ⟨p, hp, hlo, hhi⟩ : ∃ p, pos (fun c => name c == "newparam") wanted (A ++ M ++ [t] ++ X) (some t) = p ∧ A.length ≤ p ∧ p ≤ A.length + imgs.length := by
    refine ⟨_, rfl, ?_, ?_⟩ <;>
    · unfold pos
      have e1 : (A ++ M ++ [t] ++ X).findIdx? (isM (fun c => name c == "newparam") wanted)
          = (M.findIdx? (isM (fun c => name c == "newparam") wanted)).map (· + A.length) := by
        rw [show A ++ M ++ [t] ++ X = A ++ (M ++ ([t] ++ X)) by simp [List.append_assoc]]
        rw [Pyc.Sync.findIdx?_prefix _ mA, Pyc.Sync.findIdx?_none_suffix _ M _ mT]
      rw [e1]
      cases hf : M.findIdx? (isM (fun c => name c == "newparam") wanted) with
      | some i =>
        have := Pyc.Sync.findIdx?_le_filter_not _ M i hf
        simp only [Option.map_some]
        rw [← himgs] at this
        omega
      | none =>
        simp only [Option.map_none]
        rw [hk]
        have hnone : ∀ c ∈ M, isM (fun c => name c == "newparam") wanted c = false := by
          intro c hc
          have := (List.findIdx?_eq_none_iff.1 hf) c hc
          simpa using this
        have hti : t ∉ A ++ imgs := by
          intro hm
          rcases List.mem_append.1 hm with h | h
          · have := hAn t h; rw [ht] at this; revert this; decide
          · have := himg t h; rw [ht] at this; revert this; decide
        rw [List.idxOf_append, if_neg hti]
        simp
  unfold syncChildren
  simp only [hk, hp]
  have hple : p ≤ (A ++ imgs).length := by simp; omega
  rw [List.take_append_of_le_length hple, List.drop_append_of_le_length hple]
  have hAp : A.length ≤ p := hlo
  rw [List.take_append, List.drop_append]
  rw [List.take_of_length_le hAp, List.drop_eq_nil_of_le hAp]
  -- the word
  apply rmatch_of_mem
  have mAs : A.map name ∈ (1 + char "asset").matches' := by
    rcases hA with rfl | ⟨a, rfl, ha⟩
    · exact mem_opt_nil
    · simp only [List.map_cons, List.map_nil, ha]; exact mem_opt_some (mem_char _)
  have mMid : ((imgs.take (p - A.length)) ++ wanted ++ (imgs.drop (p - A.length))).map name
      ∈ (star (char "image" + char "newparam")).matches' := by
    apply mem_star_of_forall
    intro a ha
    obtain ⟨c, hc, rfl⟩ := List.mem_map.1 ha
    simp only [List.mem_append] at hc
    rcases hc with (hc | hc) | hc
    · rw [himg c (List.mem_of_mem_take hc)]; exact mem_add_left (mem_char _)
    · rw [hW c hc]; exact mem_add_right (mem_char _)
    · rw [himg c (List.mem_of_mem_drop hc)]; exact mem_add_left (mem_char _)
  have mX : X.map name ∈ (star (char "extra")).matches' :=
    mem_star_of_forall _ (fun a ha => by
      obtain ⟨c, hc, rfl⟩ := List.mem_map.1 ha
      rw [hX c hc]; exact mem_char _)
  have := mem_mul (mem_mul (mem_mul mAs mMid) (mem_char "technique")) mX
  simpa [cm_effect_profile_COMMON, List.map_append, List.append_assoc, ht] using this
end

section
open Pyc.Sync

/-! non-vacuity of the three "after save" theorems: labelled elements that meet their hypotheses (tests, not theorems) -/

/-- 1-9 `bind`, 20-29 and 60-69 `bind_vertex_input`, 40-49 `extra`, 70 `vertices`, 71-79 `source`, 80-89 `triangles`, 90 `technique`, 91-95 `image`, 96-99 `newparam` -/
def exName (n : Nat) : String :=
  if n < 10 then "bind" else if n < 30 then "bind_vertex_input" else if n < 50 then "extra" else if n < 70 then "bind_vertex_input"
  else if n = 70 then "vertices" else if n < 80 then "source" else if n < 90 then "triangles" else if n = 90 then "technique"
  else if n < 96 then "image" else "newparam"

example : (syncChildren (fun c => exName c == "bind_vertex_input") [60, 61, 62] ([1] ++ [20, 21] ++ [40, 41]) [40, 41].head?).map exName
    = ["bind", "bind_vertex_input", "bind_vertex_input", "bind_vertex_input", "extra", "extra"] := by decide

example : cm_technique_common_instance_material.rmatch
    ((syncChildren (fun c => exName c == "bind_vertex_input") [60] ([1] ++ [] ++ [40]) [40].head?).map exName) = true :=
  instance_material_valid exName [60] [1] [] [40] (by decide) (by decide) (by decide) (by decide)

example : cm_geometry_mesh.rmatch
    ((syncChildren (fun c => !(["source", "vertices", "extra"].contains (exName c))) [81, 80]
      (syncChildren (fun c => exName c == "source") [72, 71] ([71] ++ [70] ++ [80] ++ [40]) (some 70)) [40].head?).map exName) = true :=
  mesh_valid_after_save exName [71] [72, 71] [80] [81, 80] [40] 70 (by decide) (by decide) (by decide) (by decide) (by decide) (by decide) (by decide)

example : cm_effect_profile_COMMON.rmatch
    ((syncChildren (fun c => exName c == "newparam") [97, 99] ([] ++ [91, 96, 92, 97] ++ [90] ++ [40]) (some 90)).map exName) = true :=
  profile_valid_after_save exName [97, 99] [] [91, 96, 92, 97] [40] 90 (Or.inl rfl) (by decide) (by decide) (by decide) (by decide)

end

/-! ### the arguments of the `_syncChildren` calls, from the source

`translators/sync_calls.py` reads every call of `_syncChildren` in the save methods (which tags it manages, in front of which child a new
block goes).  `calls_in_source` pins the five calls the theorems above are about to what the source says today; a change of one of them
(another `managed`, another `before`, the call replaced by something else) breaks it, and with it this module. -/

open Pyc.Generated.SyncCalls Pyc.Sync in
section
variable {α : Type} [DecidableEq α]

/-- the `managed` argument of a call, as a predicate on elements -/
def managedPred (m : Managed) (name : α → String) : α → Bool :=
  match m with
  | .all => fun _ => true
  | .only ts => fun c => ts.contains (name c)
  | .allBut ts => fun c => !(ts.contains (name c))

/-- `parent.find(tag(t))`: the first child with that tag -/
def firstNamed (t : Option String) (name : α → String) (l : List α) : Option α :=
  match t with
  | none => none
  | some t => l.find? (fun c => name c == t)

/-- the calls the theorems of this file are about, as they stand in the source (regenerated on every run) -/
theorem calls_in_source :
    (⟨"scene.MaterialNode.save#0", "self.xmlnode", .only ["bind_vertex_input"], some "extra"⟩ : Call) ∈ calls ∧
    (⟨"geometry.Geometry.save#0", "meshnode", .only ["source"], some "vertices"⟩ : Call) ∈ calls ∧
    (⟨"geometry.Geometry.save#1", "meshnode", .allBut ["source", "vertices", "extra"], some "extra"⟩ : Call) ∈ calls ∧
    (⟨"material.Effect.save#0", "tecnode", .only ["newparam"], none⟩ : Call) ∈ calls ∧
    (⟨"material.Effect.save#1", "profilenode", .only ["newparam"], some "technique"⟩ : Call) ∈ calls := by decide

theorem firstNamed_block (t : String) (name : α → String) (B E : List α)
    (hB : ∀ c ∈ B, name c ≠ t) (hE : ∀ c ∈ E, name c = t) :
    firstNamed (some t) name (B ++ E) = E.head? := by
  unfold firstNamed
  simp only
  induction B with
  | nil =>
    cases E with
    | nil => rfl
    | cons e E => simp [List.find?_cons, hE e (by simp)]
  | cons b B ih =>
    have hb : (name b == t) = false := by simpa using hB b (by simp)
    simp only [List.cons_append, List.find?_cons, hb]
    exact ih (fun c hc => hB c (by simp [hc]))

/-- `instance_material_valid` with the arguments of the call taken from the source: whatever call the table lists for
    `MaterialNode.save`, if it is the one the table lists today the saved `<instance_material>` is schema-valid -/
theorem instance_material_valid_src (c : Call) (hc : c ∈ calls) (hs : c.site = "scene.MaterialNode.save#0")
    (name : α → String) (wanted B I E : List α)
    (hB : ∀ x ∈ B, name x = "bind") (hI : ∀ x ∈ I, name x = "bind_vertex_input") (hE : ∀ x ∈ E, name x = "extra")
    (hW : ∀ x ∈ wanted, name x = "bind_vertex_input") :
    cm_technique_common_instance_material.rmatch
      ((syncChildren (managedPred c.managed name) wanted (B ++ I ++ E) (firstNamed c.before name (B ++ I ++ E))).map name) = true := by
  have hcall : c = ⟨"scene.MaterialNode.save#0", "self.xmlnode", .only ["bind_vertex_input"], some "extra"⟩ := by
    simp only [calls, List.mem_cons, List.mem_nil_iff, or_false] at hc
    rcases hc with h | h | h | h | h | h | h | h | h | h <;> subst h <;> first | rfl | (exfalso; revert hs; decide)
  subst hcall
  have hm : managedPred (Managed.only ["bind_vertex_input"]) name = fun x => name x == "bind_vertex_input" := by
    funext x; simp [managedPred, List.contains_cons]
    constructor <;> intro h <;> exact h.symm
  have hb : firstNamed (some "extra") name (B ++ I ++ E) = E.head? :=
    firstNamed_block "extra" name (B ++ I) E
      (fun x hx => by
        rcases List.mem_append.1 hx with h | h
        · rw [hB x h]; decide
        · rw [hI x h]; decide) hE
  simp only [hm, hb]
  exact instance_material_valid name wanted B I E hB hI hE hW

theorem call_of_site (c : Call) (hc : c ∈ calls) (d : Call) (hd : d ∈ calls) (hs : c.site = d.site) : c = d := by
  simp only [calls, List.mem_cons, List.mem_nil_iff, or_false] at hc hd
  rcases hc with h | h | h | h | h | h | h | h | h | h <;> subst h <;>
    rcases hd with h | h | h | h | h | h | h | h | h | h <;> subst h <;> first | rfl | (exfalso; revert hs; decide)

theorem managedPred_only1 (t : String) (name : α → String) :
    managedPred (Managed.only [t]) name = fun x => name x == t := by
  funext x
  simp only [managedPred, List.contains_cons, List.contains_nil, Bool.or_false]

/-- `profile_valid_after_save` with the arguments of the call taken from the source -/
theorem profile_valid_after_save_src (c : Call) (hc : c ∈ calls) (hs : c.site = "material.Effect.save#1")
    (name : α → String) (wanted A M X : List α) (t : α)
    (hA : A = [] ∨ ∃ a, A = [a] ∧ name a = "asset") (hM : ∀ x ∈ M, name x = "image" ∨ name x = "newparam")
    (ht : name t = "technique") (hX : ∀ x ∈ X, name x = "extra") (hW : ∀ x ∈ wanted, name x = "newparam") :
    cm_effect_profile_COMMON.rmatch
      ((syncChildren (managedPred c.managed name) wanted (A ++ M ++ [t] ++ X) (firstNamed c.before name (A ++ M ++ [t] ++ X))).map name) = true := by
  have hcall := call_of_site c hc _ calls_in_source.2.2.2.2 hs
  subst hcall
  have hb : firstNamed (some "technique") name (A ++ M ++ [t] ++ X) = some t := by
    have := firstNamed_block "technique" name (A ++ M) ([t])
      (fun x hx => by
        rcases List.mem_append.1 hx with h | h
        · rcases hA with rfl | ⟨a, rfl, ha⟩
          · cases h
          · simp at h; rw [h, ha]; decide
        · rcases hM x h with h' | h' <;> (rw [h']; decide))
      (fun x hx => by simp at hx; rw [hx]; exact ht)
    unfold firstNamed at this ⊢
    simp only at this ⊢
    rw [List.find?_append, this]
    simp
  simp only [managedPred_only1, hb]
  exact profile_valid_after_save name wanted A M X t hA hM ht hX hW

/-- `mesh_valid_after_save` with the arguments of both calls taken from the source -/
theorem mesh_valid_after_save_src (c0 c1 : Call) (h0 : c0 ∈ calls) (h1 : c1 ∈ calls)
    (hs0 : c0.site = "geometry.Geometry.save#0") (hs1 : c1.site = "geometry.Geometry.save#1")
    (name : α → String) (S S' P P' X : List α) (v : α)
    (hS : ∀ x ∈ S, name x = "source") (hS' : ∀ x ∈ S', name x = "source") (hv : name v = "vertices")
    (hP : ∀ x ∈ P, name x ∉ ["source", "vertices", "extra"]) (hP' : ∀ x ∈ P', name x ∈ primitiveTags)
    (hX : ∀ x ∈ X, name x = "extra") (hne : S' ≠ []) :
    let m1 := syncChildren (managedPred c0.managed name) S' (S ++ [v] ++ P ++ X) (firstNamed c0.before name (S ++ [v] ++ P ++ X))
    cm_geometry_mesh.rmatch ((syncChildren (managedPred c1.managed name) P' m1 (firstNamed c1.before name m1)).map name) = true := by
  have e0 := call_of_site c0 h0 _ calls_in_source.2.1 hs0
  have e1 := call_of_site c1 h1 _ calls_in_source.2.2.1 hs1
  subst e0; subst e1
  have hb0 : firstNamed (some "vertices") name (S ++ [v] ++ P ++ X) = some v := by
    have := firstNamed_block "vertices" name S [v] (fun x hx => by rw [hS x hx]; decide) (fun x hx => by simp at hx; rw [hx]; exact hv)
    unfold firstNamed at this ⊢
    simp only at this ⊢
    rw [List.append_assoc, List.append_assoc, List.find?_append]
    rw [List.find?_append] at this
    cases hf : S.find? (fun c => name c == "vertices") with
    | some y => rw [hf] at this; simp at this; simp [hf, this]
    | none => simp [hv]
  have hP'' : ∀ x ∈ P', name x ∉ ["source", "vertices", "extra"] := by
    intro x hx hin
    have := hP' x hx
    simp only [primitiveTags, List.mem_cons, List.mem_nil_iff, or_false] at this hin
    rcases this with h | h | h | h | h | h | h <;> rw [h] at hin <;> simp at hin
  intro m1
  have hm1 : m1 = S' ++ ([v] ++ P ++ X) := by
    have h := mesh_children_after_save name S S' P [] X v hS hS' hv hP (by simp) hX
    -- the first reconciliation alone
    show syncChildren (managedPred (Managed.only ["source"]) name) S' (S ++ [v] ++ P ++ X) (firstNamed (some "vertices") name (S ++ [v] ++ P ++ X)) = _
    rw [managedPred_only1, hb0]
    have := Pyc.Props.C02.sync_block (fun c => name c == "source") S' [] S ([v] ++ P ++ X)
      (by simp) (fun c hc => by simp [isM, hS c hc])
      (fun c hc => by
        have hne' : name c ≠ "source" := by
          simp only [List.mem_append, List.mem_singleton] at hc
          rcases hc with (rfl | hc) | hc
          · rw [hv]; decide
          · intro h'; exact hP c hc (by simp [h'])
          · rw [hX c hc]; decide
        have : c ∉ S' := fun hm => hne' (hS' c hm)
        simp [isM, hne', this])
      (by simp)
    simpa [List.append_assoc] using this
  have hb1 : firstNamed (some "extra") name m1 = X.head? := by
    rw [hm1]
    have := firstNamed_block "extra" name (S' ++ [v] ++ P) X
      (fun x hx => by
        simp only [List.mem_append, List.mem_singleton] at hx
        rcases hx with (hx | rfl) | hx
        · rw [hS' x hx]; decide
        · rw [hv]; decide
        · intro h'; exact hP x hx (by simp [h']))
      hX
    simpa [List.append_assoc] using this
  have hmp : managedPred (Managed.allBut ["source", "vertices", "extra"]) name
      = fun c => !(["source", "vertices", "extra"].contains (name c)) := rfl
  rw [hb1, hmp]
  have hfin := mesh_valid_after_save name S S' P P' X v hS hS' hv hP hP' hX hne
  have hm1' : m1 = syncChildren (fun c => name c == "source") S' (S ++ [v] ++ P ++ X) (some v) := by
    show syncChildren (managedPred (Managed.only ["source"]) name) S' (S ++ [v] ++ P ++ X) (firstNamed (some "vertices") name (S ++ [v] ++ P ++ X)) = _
    rw [managedPred_only1, hb0]
  rw [hm1']
  exact hfin

/-- the four calls that manage every child of their parent: the library loop of `Collada.save`, `Node.save`, `GeometryNode.save`
    (the `<technique_common>` of `<bind_material>`) and `Scene.save` -/
def allManagedSites : List String :=
  ["__init__.Collada._save#0", "scene.Node.save#0", "scene.GeometryNode.save#0", "scene.Scene.save#0"]

theorem all_managed_in_source : ∀ c ∈ calls, c.site ∈ allManagedSites → c.managed = .all ∧ c.before = none := by decide

theorem all_managed_sites_present : ∀ s ∈ allManagedSites, ∃ c ∈ calls, c.site = s := by decide

/-- … for those parents the children after a save are exactly the current objects' elements, in list order, whatever was there before -/
theorem all_managed_replace (c : Call) (hc : c ∈ calls) (hs : c.site ∈ allManagedSites) (name : α → String) (wanted old : List α) :
    syncChildren (managedPred c.managed name) wanted old (firstNamed c.before name old) = wanted := by
  obtain ⟨hm, hb⟩ := all_managed_in_source c hc hs
  rw [hm, hb]
  exact Pyc.Props.C02.sync_all wanted old none
end

end Pyc.Props.C04
