/- C04, continued: Effect.save and the `<technique>` element when the shading type of a loaded effect is changed
   (the place of the new shader element was wrong before /repo 51e06da: found by the C04 check, see DESIGN §4). -/
import Pyc.Proofs.Schema
import Pyc.Props.C02

namespace Pyc.Props.C04
open Pyc.Schema Pyc.Generated.SchemaTable RegularExpression

theorem mem_shaderTags {t : String} : t ∈ shaderTags ↔ t = "constant" ∨ t = "lambert" ∨ t = "phong" ∨ t = "blinn" := by
  simp [shaderTags]

theorem save_technique_shape_aux (A mids E : List String) (hA : ∀ x ∈ A, x = "asset")
    (hm : ∀ m ∈ mids, m = "image" ∨ m = "newparam") (hEmem : ∀ x ∈ E, x = "extra")
    (old s : String) (ho : old ∈ shaderTags) (hs : s ∈ shaderTags) :
    saveTechnique (A ++ mids ++ old :: E) s = A ++ mids.filter (· != "newparam") ++ s :: E := by
  obtain ⟨P, hPdef⟩ : ∃ P, P = A ++ mids.filter (· != "newparam") := ⟨_, rfl⟩
  have hold : old ≠ "newparam" := by
    rcases mem_shaderTags.1 ho with h | h | h | h <;> (rw [h]; decide)
  have hk1 : (A ++ mids ++ old :: E).filter (· != "newparam") = P ++ old :: E := by
    have hE' : E.filter (· != "newparam") = E := by
      apply List.filter_eq_self.2
      intro x hx
      rw [hEmem x hx]; decide
    have hA' : A.filter (· != "newparam") = A := by
      apply List.filter_eq_self.2
      intro x hx
      rw [hA x hx]; decide
    simp only [List.filter_append, List.filter_cons, hA', hE', hPdef]
    simp [hold]
  have hPmem : ∀ x ∈ P, x = "asset" ∨ x = "image" := by
    intro x hx
    simp only [hPdef, List.mem_append, List.mem_filter] at hx
    rcases hx with hx | ⟨hx, hne⟩
    · exact Or.inl (hA x hx)
    · rcases hm x hx with h | h
      · exact Or.inr h
      · simp [h] at hne
  have notP : ∀ t ∈ shaderTags, t ∉ P := by
    intro t ht htP
    rcases hPmem t htP with h | h <;> (rw [h] at ht; revert ht; decide)
  have notE : ∀ t ∈ shaderTags, t ∉ E := by
    intro t ht htE
    rw [hEmem t htE] at ht; revert ht; decide
  have hts : ∀ t ∈ shaderTags.filter (· != s), t ∈ shaderTags := fun t ht => (List.mem_filter.1 ht).1
  have hk2 := foldl_erase_one P E old (shaderTags.filter (· != s))
    (fun t ht => notP t (hts t ht)) (fun t ht => notE t (hts t ht))
  have hmem : old ∈ shaderTags.filter (· != s) ↔ old ≠ s := by
    simp [List.mem_filter, ho]
  unfold saveTechnique
  simp only [hk1, hk2, hmem, ← hPdef]
  by_cases hos : old = s
  · subst hos
    simp
  · have hns : (P ++ E).contains s = false := by
      simp only [List.contains_eq_mem, List.mem_append, decide_eq_false_iff_not, not_or]
      exact ⟨notP s hs, notE s hs⟩
    have hidx : (P ++ E).findIdx (· == "extra") = P.length := by
      apply findIdx_after_prefix
      · intro x hx
        rcases hPmem x hx with h | h <;> (rw [h]; decide)
      · intro x hx
        rw [hEmem x hx]; decide
    simp only [hos, ne_eq, not_false_eq_true, if_true, hns, hidx]
    simp

theorem save_technique_shape (a : Bool) (mids : List String) (hm : ∀ m ∈ mids, m = "image" ∨ m = "newparam")
    (old s : String) (ho : old ∈ shaderTags) (hs : s ∈ shaderTags) (n : Nat) :
    saveTechnique (techKids a mids old n) s =
      (if a then ["asset"] else []) ++ mids.filter (· != "newparam") ++ s :: List.replicate n "extra" := by
  unfold techKids
  apply save_technique_shape_aux _ _ _ _ hm _ old s ho hs
  · intro x hx
    cases a <;> simp at hx
    exact hx
  · exact fun x hx => List.eq_of_mem_replicate hx

/-- C04, Effect.save: whatever shading type the effect is given, the `<technique>` of a schema-valid effect is
    schema-valid after save() — the new shader element stands where the schema wants it, before the `<extra>` elements -/
theorem save_technique_valid (a : Bool) (mids : List String) (hm : ∀ m ∈ mids, m = "image" ∨ m = "newparam")
    (old s : String) (ho : old ∈ shaderTags) (hs : s ∈ shaderTags) (n : Nat) :
    cm_profile_COMMON_technique.rmatch (saveTechnique (techKids a mids old n) s) = true := by
  rw [save_technique_shape a mids hm old s ho hs n]
  apply rmatch_of_mem
  have hA : (if a then ["asset"] else []) ∈ (1 + char "asset").matches' := by
    cases a
    · exact mem_opt_nil
    · exact mem_opt_some (mem_char _)
  have hM : mids.filter (· != "newparam") ∈ (star (char "image" + char "newparam")).matches' := by
    apply mem_star_of_forall
    intro x hx
    rcases hm x (List.mem_filter.1 hx).1 with h | h
    · rw [h]; exact mem_add_left (mem_char _)
    · rw [h]; exact mem_add_right (mem_char _)
  have hS : [s] ∈ (char "constant" + char "lambert" + char "phong" + char "blinn").matches' := by
    rcases mem_shaderTags.1 hs with h | h | h | h <;> rw [h]
    · exact mem_add_left (mem_add_left (mem_add_left (mem_char _)))
    · exact mem_add_left (mem_add_left (mem_add_right (mem_char _)))
    · exact mem_add_left (mem_add_right (mem_char _))
    · exact mem_add_right (mem_char _)
  have := mem_mul (mem_mul (mem_mul hA hM) hS) (mem_star_replicate "extra" n)
  simpa [cm_profile_COMMON_technique, List.append_assoc] using this

/-- the input side is not vacuous: such a technique is itself schema-valid … -/
example : cm_profile_COMMON_technique.rmatch (techKids true ["newparam", "image"] "phong" 2) = true := by decide
/-- … and appending the new shader element (what save() did before 51e06da) is not: -/
theorem append_after_extra_invalid :
    cm_profile_COMMON_technique.rmatch (saveTechniqueAppend (techKids false [] "phong" 1) "lambert") = false := by decide


/-! ### `<instance_material>` through MaterialNode.save (C02.sync_block read at the level of element names) -/

section
open Pyc.Sync
variable {α : Type} [DecidableEq α]

/-- `MaterialNode.save`: `_syncChildren(instance_material, inputs, bind_vertex_input, before=<first extra>)`.  Whatever the
    edit history of the input list, the children of a schema-valid `<instance_material>` (`bind*`, `bind_vertex_input*`,
    `extra*`) are schema-valid after the save: the new bindings stand where the old ones stood, in front of the extras. -/
theorem instance_material_valid (name : α → String) (wanted B I E : List α)
    (hB : ∀ c ∈ B, name c = "bind") (hI : ∀ c ∈ I, name c = "bind_vertex_input") (hE : ∀ c ∈ E, name c = "extra")
    (hW : ∀ c ∈ wanted, name c = "bind_vertex_input") :
    cm_technique_common_instance_material.rmatch
      ((syncChildren (fun c => name c == "bind_vertex_input") wanted (B ++ I ++ E) E.head?).map name) = true := by
  have notW : ∀ c, name c ≠ "bind_vertex_input" → c ∉ wanted := fun c hc hm => hc (hW c hm)
  have hsync := Pyc.Props.C02.sync_block (fun c => name c == "bind_vertex_input") wanted B I E
    (fun c hc => by
      have := notW c (by rw [hB c hc]; decide)
      simp [isM, hB c hc, this])
    (fun c hc => by simp [isM, hI c hc])
    (fun c hc => by
      have := notW c (by rw [hE c hc]; decide)
      simp [isM, hE c hc, this])
    (fun e he hmem => by
      have h1 : name e = "extra" := hE e (by cases E with
        | nil => simp at he
        | cons x xs => simp at he; subst he; simp)
      have h2 := hB e hmem
      rw [h1] at h2; revert h2; decide)
  rw [hsync]
  apply rmatch_of_mem
  have mB : B.map name ∈ (star (char "bind")).matches' :=
    mem_star_of_forall _ (fun a ha => by
      obtain ⟨c, hc, rfl⟩ := List.mem_map.1 ha
      rw [hB c hc]; exact mem_char _)
  have mW : wanted.map name ∈ (star (char "bind_vertex_input")).matches' :=
    mem_star_of_forall _ (fun a ha => by
      obtain ⟨c, hc, rfl⟩ := List.mem_map.1 ha
      rw [hW c hc]; exact mem_char _)
  have mE : E.map name ∈ (star (char "extra")).matches' :=
    mem_star_of_forall _ (fun a ha => by
      obtain ⟨c, hc, rfl⟩ := List.mem_map.1 ha
      rw [hE c hc]; exact mem_char _)
  have := mem_mul (mem_mul mB mW) mE
  simpa [cm_technique_common_instance_material, List.map_append, List.append_assoc] using this

end

end Pyc.Props.C04
