/-
C07 — References resolve to the right object, on load and on save.
Model: Pyc/Model/Refs.lean; helper lemmas: Pyc/Proofs/Refs.lean; load order and cross-library
look-ups: Pyc/Generated/LoadOrder.lean (regenerated from the AST on every run).
-/
import Pyc.Proofs.Refs
import Pyc.Proofs.DirectTex
import Pyc.Generated.LoadOrder

namespace Pyc.Props.C07
open Pyc.Refs

/-- an id whose node can be loaded at all: some definition carries it and all its instance_node
    targets can be loaded (well-founded: no reference cycle) — independent of any order -/
inductive LoadableId (defs : List NodeDef) : String → Prop where
  | mk (n : NodeDef) (hn : n ∈ defs) (h : ∀ r ∈ n.refs, LoadableId defs r) : LoadableId defs n.id

private theorem inv_init (defs : List NodeDef) : Inv defs [] defs :=
  ⟨closed_nil defs, fun _ h => h, fun _ h => Or.inr h, fun x h => by simp at h⟩

private theorem final (defs : List NodeDef) :
    Inv defs (loadNodes defs).1 (loadNodes defs).2 ∧
    ∀ n ∈ (loadNodes defs).2, canLoad (loadNodes defs).1 n = false :=
  retry_spec defs (defs.length + 1) [] defs (inv_init defs) (by omega)

/-- every node the loop loads has all its instance_node targets loaded, and they were loaded
    before it (so the object handed to NodeNode is the finished library node) -/
theorem retry_sound (defs : List NodeDef) (a b : List String) (id : String)
    (h : (loadNodes defs).1 = a ++ id :: b) : ∃ n ∈ defs, n.id = id ∧ ∀ r ∈ n.refs, r ∈ a :=
  (final defs).1.closed a b id h

/-- the loop never loops: it ends after at most one pass per waiting node, and what is left
    (reported as DaeBrokenRefError) really cannot be loaded: some target is not loaded -/
theorem retry_stuck (defs : List NodeDef) : ∀ n ∈ (loadNodes defs).2,
    ∃ r ∈ n.refs, r ∉ (loadNodes defs).1 := by
  intro n hn
  have := (final defs).2 n hn
  simp only [canLoad, List.all_eq_false] at this
  obtain ⟨r, hr, h⟩ := this
  exact ⟨r, hr, by simpa using h⟩

private theorem closed_loadable (defs : List NodeDef) (l : List String) (hc : Closed defs l) :
    ∀ (k : Nat) (a c : List String), a.length = k → l = a ++ c → ∀ id ∈ a, LoadableId defs id := by
  intro k
  induction k with
  | zero =>
    intro a c ha _ id hid
    have : a = [] := List.eq_nil_of_length_eq_zero ha
    subst this
    simp at hid
  | succ k ih =>
    intro a c ha hl id hid
    rcases List.eq_nil_or_concat a with e | ⟨a', x, e⟩
    · subst e; simp at ha
    · subst e
      have hlen : a'.length = k := by simpa [List.concat_eq_append] using ha
      have hl' : l = a' ++ x :: c := by simpa [List.concat_eq_append] using hl
      have hid' : id ∈ a' ∨ id = x := by simpa [List.concat_eq_append] using hid
      rcases hid' with h | h
      · exact ih a' (x :: c) hlen hl' id h
      · subst h
        obtain ⟨n, hn, e, hr⟩ := hc a' c id hl'
        rw [← e]
        exact LoadableId.mk n hn (fun r hr' => ih a' (id :: c) hlen hl' r (hr r hr'))

/-- exactly the loadable ids get loaded: every resolved reference chain is finite (soundness) … -/
theorem loaded_iff_loadable (defs : List NodeDef) (id : String) :
    id ∈ (loadNodes defs).1 ↔ LoadableId defs id := by
  constructor
  · intro h
    exact closed_loadable defs _ (final defs).1.closed _ (loadNodes defs).1 [] rfl (by simp) id h
  · intro h
    induction h with
    | mk n hn _ ih =>
      rcases (final defs).1.part n hn with h1 | h1
      · exact h1
      · have hf := (final defs).2 n h1
        have ht : canLoad (loadNodes defs).1 n = true := by
          simp only [canLoad, List.all_eq_true]
          intro r hr
          simpa using ih r hr
        rw [ht] at hf
        cases hf

/-- … hence the set of loaded nodes does not depend on the definition order -/
theorem retry_perm (defs defs' : List NodeDef) (hp : ∀ n, n ∈ defs ↔ n ∈ defs') (id : String) :
    id ∈ (loadNodes defs).1 ↔ id ∈ (loadNodes defs').1 := by
  rw [loaded_iff_loadable, loaded_iff_loadable]
  have key : ∀ (d d' : List NodeDef), (∀ n, n ∈ d → n ∈ d') → ∀ i, LoadableId d i → LoadableId d' i := by
    intro d d' h i hi
    induction hi with
    | mk n hn _ ih => exact LoadableId.mk n (h n hn) ih
  exact ⟨key defs defs' (fun n => (hp n).mp) id, key defs' defs (fun n => (hp n).mpr) id⟩

/-- a node that instantiates itself is never loaded (the loop terminates with an error instead) -/
theorem self_reference_not_loaded (defs : List NodeDef) (n : NodeDef) (hself : n.id ∈ n.refs)
    (huniq : ∀ m ∈ defs, m.id = n.id → m = n) : n.id ∉ (loadNodes defs).1 := by
  rw [loaded_iff_loadable]
  intro h
  have key : ∀ i, LoadableId defs i → i = n.id → False := by
    intro i hi
    induction hi with
    | mk m hm _ ih =>
      intro e
      have := huniq m hm e
      subst this
      exact ih m.id hself rfl
  exact key _ h rfl

/-- two nodes that instantiate each other are never loaded -/
theorem mutual_reference_not_loaded (defs : List NodeDef) (a b : NodeDef)
    (hab : b.id ∈ a.refs) (hba : a.id ∈ b.refs)
    (ha : ∀ m ∈ defs, m.id = a.id → m = a) (hb : ∀ m ∈ defs, m.id = b.id → m = b) :
    a.id ∉ (loadNodes defs).1 ∧ b.id ∉ (loadNodes defs).1 := by
  have key : ∀ i, LoadableId defs i → (i = a.id ∨ i = b.id) → False := by
    intro i hi
    induction hi with
    | mk m hm _ ih =>
      intro e
      rcases e with e | e
      · have := ha m hm e; subst this; exact ih b.id hab (Or.inr rfl)
      · have := hb m hm e; subst this; exact ih a.id hba (Or.inl rfl)
  constructor
  · rw [loaded_iff_loadable]; intro h; exact key _ h (Or.inl rfl)
  · rw [loaded_iff_loadable]; intro h; exact key _ h (Or.inr rfl)

/-- resolution is a function of the id: wherever an id is referenced, the same object results -/
theorem same_object (lib : List Obj) (u : Url) (o o' : Obj)
    (h : resolveUrl lib u = .obj o) (h' : resolveUrl lib u = .obj o') : o = o' := by
  rw [h] at h'; cases h'; rfl

/-- what a reference resolves to is a library object carrying exactly that id — never another one -/
theorem resolved_is_the_carrier (lib : List Obj) (id : String) (o : Obj)
    (h : resolveUrl lib (.hash id) = .obj o) : o ∈ lib ∧ o.id = id := by
  simp only [resolveUrl, lookup] at h
  cases hf : lib.find? (fun o => o.id == id) with
  | none => simp [hf] at h
  | some x =>
    simp [hf] at h
    subst h
    exact ⟨List.mem_of_find?_eq_some hf, by simpa using List.find?_some hf⟩

/-- a dangling reference is a broken-reference error; a reference without '#' is malformed -/
theorem dangling_is_error (lib : List Obj) (id : String) (h : ∀ o ∈ lib, o.id ≠ id) :
    resolveUrl lib (.hash id) = .brokenRef ∧ ∀ t, resolveUrl lib (.bare t) = .malformed := by
  constructor
  · have : lib.find? (fun o => o.id == id) = none := by
      rw [List.find?_eq_none]; intro o ho; simpa using h o ho
    simp [resolveUrl, lookup, this]
  · intro t; rfl

/-- on save a reference is written from the referenced object's CURRENT id, so for every rename
    history it resolves, inside the written document, to that same object (ids being unique) -/
theorem written_refs_resolve (lib : List Obj) (o : Obj) (ho : o ∈ lib)
    (huniq : ∀ o' ∈ lib, o'.id = o.id → o' = o) : resolveUrl lib (writeUrl o) = .obj o := by
  simp only [writeUrl, resolveUrl, lookup]
  cases hf : lib.find? (fun x => x.id == o.id) with
  | none =>
    rw [List.find?_eq_none] at hf
    have := hf o ho
    simp at this
  | some x =>
    have hx := List.mem_of_find?_eq_some hf
    have hid : x.id = o.id := by simpa using List.find?_some hf
    rw [huniq x hx hid]

open Pyc.Generated.LoadOrder in
/-- every cross-library look-up a loader makes targets a library that was loaded earlier, in the fixed
    order of Collada.__init__ — whatever the order of the libraries in the document
    (`nodes` referring to `nodes` is the retry loop above) -/
theorem deps_precede : deps.all (fun d => decide (order.idxOf d.2 < order.idxOf d.1)) = true := by decide

/-! ### textures that name an image directly (the repair branch of `Effect.load`, Pyc/Model/DirectTex.lean) -/

open Pyc.DirectTex in
/-- whatever properties name whatever images in whatever order: two properties naming one image hold
    the identical made-up sampler -/
theorem direct_one_sampler_per_image (ps : List (String × String)) (k₁ k₂ im : String) (u₁ u₂ : Nat)
    (h₁ : (k₁, im, u₁) ∈ (run ps).maps) (h₂ : (k₂, im, u₂) ∈ (run ps).maps) : u₁ = u₂ := by
  have i := inv_run ps
  have a := i.maps_scope k₁ im u₁ h₁
  have b := i.maps_scope k₂ im u₂ h₂
  rw [a] at b; exact Option.some.inj b

open Pyc.DirectTex in
/-- the same from any state in which scope and parameter list agree (an effect that already holds
    parameters, or the loop resumed after any prefix of the properties): maps made earlier and maps made
    later that name one image hold one sampler, and ids stay unique -/
theorem direct_one_sampler_from_any_state (s : St) (hs : Inv s) (ps : List (String × String))
    (k₁ k₂ im : String) (u₁ u₂ : Nat)
    (h₁ : (k₁, im, u₁) ∈ (ps.foldl step s).maps) (h₂ : (k₂, im, u₂) ∈ (ps.foldl step s).maps) :
    u₁ = u₂ ∧ ((ps.foldl step s).params.map (·.1)).Nodup := by
  have i := inv_foldl ps s hs
  have a := i.maps_scope k₁ im u₁ h₁
  have b := i.maps_scope k₂ im u₂ h₂
  rw [a] at b; exact ⟨Option.some.inj b, i.nodup⟩

open Pyc.DirectTex in
/-- … that sampler is THE parameter of the effect carrying the id, and no id is carried by two parameters -/
theorem direct_sampler_is_the_param (ps : List (String × String)) :
    ((run ps).params.map (·.1)).Nodup ∧
    (∀ k im u, (k, im, u) ∈ (run ps).maps → (PId.samp im, u) ∈ (run ps).params) ∧
    (∀ id u u', (id, u) ∈ (run ps).params → (id, u') ∈ (run ps).params → u = u') := by
  have i := inv_run ps
  refine ⟨i.nodup, fun k im u h => i.scope_param _ _ (i.maps_scope k im u h), ?_⟩
  intro id u u' h h'
  have a := i.param_scope id u h
  have b := i.param_scope id u' h'
  rw [a] at b; exact Option.some.inj b

open Pyc.DirectTex in
/-- parameters are made up for exactly the images named — a surface and a sampler each — and for nothing else -/
theorem direct_params_exactly_named (ps : List (String × String)) (k : PId) :
    k ∈ (run ps).params.map (·.1) ↔ ∃ p ∈ ps, k = .samp p.2 ∨ k = .surf p.2 :=
  ids_run ps k

open Pyc.DirectTex in
/-- every property gets a map: the number of maps is the number of properties, in order -/
theorem direct_every_property_mapped (ps : List (String × String)) :
    (run ps).maps.map (fun m => (m.1, m.2.1)) = ps := by
  have : ∀ s : St, (ps.foldl step s).maps.map (fun m => (m.1, m.2.1)) = s.maps.map (fun m => (m.1, m.2.1)) ++ ps := by
    induction ps with
    | nil => intro s; simp
    | cons p t ih =>
      intro s
      rw [List.foldl_cons, ih]
      unfold step
      cases s.scope.get (.samp p.2) <;> simp
  simpa [run, init] using this init

open Pyc.DirectTex in
/-- the negative: making the pair up without registering it in the scope gives two samplers for one
    image and two parameters with one id -/
theorem direct_throwaway_breaks : ∃ ps : List (String × String),
    ((runThrowaway ps).maps.map (·.2.2)) = [1, 3] ∧ ¬ ((runThrowaway ps).params.map (·.1)).Nodup :=
  ⟨[("emission", "img0"), ("diffuse", "img0")], by decide⟩

/-! ### non-vacuity -/
def dA : NodeDef := ⟨"A", ["B", "C"]⟩
def dB : NodeDef := ⟨"B", ["C"]⟩
def dC : NodeDef := ⟨"C", []⟩
def dS : NodeDef := ⟨"S", ["S"]⟩
def dD : NodeDef := ⟨"D", ["missing"]⟩
example : loadNodes [dA, dB, dC] = (["C", "B", "A"], []) := by decide
example : library [dA, dB, dC] = ["A", "B", "C"] := by decide
example : (loadNodes [dS, dA, dD, dC, dB]).1 = ["C", "B", "A"] ∧ (loadNodes [dS, dA, dD, dC, dB]).2 = [dS, dD] := by decide
example : resolveUrl [⟨1, "x"⟩, ⟨2, "y"⟩] (writeUrl ⟨2, "y"⟩) = .obj ⟨2, "y"⟩ := by decide

example : (Pyc.DirectTex.run [("emission", "a"), ("ambient", "b"), ("diffuse", "a")]).maps
    = [("emission", "a", 1), ("ambient", "b", 3), ("diffuse", "a", 1)] := by decide

end Pyc.Props.C07
