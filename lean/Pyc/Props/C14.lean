/-
C14 — Id-indexed library lists stay coherent under every mutation.
Property theorems only; helper lemmas are in Pyc/Proofs/IndexedList.lean, the model in
Pyc/Model/IndexedList.lean.
-/
import Pyc.Proofs.IndexedList

namespace Pyc.Props.C14
open Pyc.IL Pyc.PyList

/-- lookup by id, membership by id and `get()` agree exactly with the list contents -/
def Coherent (s : State) : Prop := Sound s.items s.index ∧ Complete s.items s.index

private theorem removeAt_coherent (s : State) (k : Nat) (h : Coherent s) :
    Coherent (removeAt s k) := by
  unfold removeAt Coherent
  apply finalize_coherent h.1 h.2
  · intro o ho; exact mem_eraseIdx_or _ _ _ ho
  · intro o ho; exact Or.inl (List.mem_of_mem_eraseIdx ho)
  · intro o ho; simp at ho

/-- construction from any list (also wholesale replacement through the library attribute) -/
theorem coherent_init (os : List Obj) : Coherent (mk os) := by
  unfold mk Coherent
  have := @finalize_coherent [] os [] os [] (sound_nil _) (by intro o ho; simp at ho)
    (by intro o ho; simp at ho) (by intro o ho; exact Or.inr ho) (by intro o ho; exact ho)
  simpa [finalize] using this

/-- every mutator preserves coherence, whatever its argument form and whether or not it fails -/
theorem coherent_step (s : State) (op : Op) (h : Coherent s) : Coherent (step s op).1 := by
  cases op with
  | append o =>
    simp only [step]
    apply finalize_coherent h.1 h.2 <;> intro x hx <;> simp_all
  | extend os =>
    simp only [step]
    apply finalize_coherent h.1 h.2 <;> intro x hx <;> simp_all
  | iadd os =>
    simp only [step]
    apply finalize_coherent h.1 h.2 <;> intro x hx <;> simp_all
  | insert a o =>
    simp only [step]
    split
    · exact h
    · next k _ =>
      apply finalize_coherent h.1 h.2
      · intro x hx
        rcases (mem_split_at s.items k x).mp hx with h1 | h1 <;> simp [h1]
      · intro x hx
        simp only [List.mem_append, List.mem_cons] at hx
        rcases hx with h1 | h1 | h1
        · exact Or.inl (List.mem_of_mem_take h1)
        · right; simp [h1]
        · exact Or.inl (List.mem_of_mem_drop h1)
      · intro x hx; simp_all
  | setitem a o =>
    simp only [step]
    split
    · exact h
    · next k hk =>
      have hlt : k < s.items.length := by
        cases a with
        | pos i =>
          simp only [elemPos] at hk
          split at hk
          · next k' hn => cases hk; exact normIdx_lt hn
          · cases hk
        | key key =>
          simp only [elemPos, keyPos] at hk
          split at hk
          · cases hk
          · split at hk
            · next hlt => cases hk; exact hlt
            · cases hk
      apply finalize_coherent h.1 h.2
      · intro x hx; exact mem_set_or _ _ _ _ hx
      · intro x hx
        rcases List.mem_or_eq_of_mem_set hx with h1 | h1
        · exact Or.inl h1
        · right; simp [h1]
      · intro x hx
        simp only [List.mem_singleton] at hx
        subst hx
        exact List.mem_set hlt x
  | setslice a b os =>
    simp only [step]
    have hb := sliceBounds_le s.items.length a b
    apply finalize_coherent h.1 h.2
    · intro x hx
      rcases mem_slice_split s.items _ _ hb.1 x hx with (h1 | h1) | h1 <;> simp [h1]
    · intro x hx
      simp only [List.mem_append] at hx
      rcases hx with (h1 | h1) | h1
      · exact Or.inl (List.mem_of_mem_take h1)
      · exact Or.inr h1
      · exact Or.inl (List.mem_of_mem_drop h1)
    · intro x hx; simp [hx]
  | delitem a =>
    simp only [step]
    split
    · exact h
    · exact removeAt_coherent s _ h
  | delslice a b =>
    simp only [step]
    have hb := sliceBounds_le s.items.length a b
    apply finalize_coherent h.1 h.2
    · intro x hx
      rcases mem_slice_split s.items _ _ hb.1 x hx with (h1 | h1) | h1 <;> simp [h1]
    · intro x hx
      simp only [List.mem_append] at hx
      rcases hx with h1 | h1
      · exact Or.inl (List.mem_of_mem_take h1)
      · exact Or.inl (List.mem_of_mem_drop h1)
    · intro x hx; simp at hx
  | pop a =>
    simp only [step]
    split
    · exact h
    · split
      · exact removeAt_coherent s _ h
      · exact h
  | removeObj o =>
    simp only [step]
    split
    · exact removeAt_coherent s _ h
    · exact h
  | removeKey k =>
    simp only [step]
    split
    · exact h
    · split
      · exact removeAt_coherent s _ h
      · exact h
  | clear =>
    simp only [step]
    exact ⟨sound_nil _, by intro o ho; simp at ho⟩
  | imul n =>
    simp only [step]
    split
    · exact ⟨sound_nil _, by intro o ho; simp at ho⟩
    · next hn => exact coherent_congr (mem_replicate_flatten s.items n hn) h.1 h.2
  | replace os => exact coherent_init os

/-- every state reachable from any constructed list by any finite operation sequence -/
theorem coherent_reachable (os : List Obj) (ops : List Op) : Coherent (run (mk os) ops) := by
  have : ∀ s, Coherent s → Coherent (run s ops) := by
    induction ops with
    | nil => intro s h; exact h
    | cons op rest ih => intro s h; exact ih _ (coherent_step s op h)
  exact this _ (coherent_init os)

/-- what coherence means for the three query forms: `L[k]`/`L.get(k)` returns an element of
    the list carrying `k`, and `k in L` is true exactly when some element carries `k` -/
theorem lookup_spec (s : State) (h : Coherent s) (k : String) :
    (∀ o, lookup s k = some o → o ∈ s.items ∧ o.id = k) ∧
    (containsKey s k = true ↔ ∃ o ∈ s.items, o.id = k) ∧
    (containsKey s k = (lookup s k).isSome) := by
  refine ⟨fun o ho => h.1 k o ho, ?_, rfl⟩
  constructor
  · intro hc
    unfold containsKey at hc
    obtain ⟨o, ho⟩ := Option.isSome_iff_exists.mp hc
    exact ⟨o, h.1 k o ho⟩
  · rintro ⟨o, ho, rfl⟩
    exact h.2 o ho

/-- a failed operation leaves list and index unchanged -/
theorem failed_unchanged (s : State) (op : Op) (e : Err) (h : (step s op).2 = .fail e) :
    (step s op).1 = s := by
  cases op <;> simp only [step] at h ⊢ <;> (repeat' split at h) <;> simp_all

/-- positional behaviour is that of a plain list (integer argument forms) -/
theorem positional_refines_list (s : State) :
    (∀ o, (step s (.append o)).1.items = s.items ++ [o]) ∧
    (∀ os, (step s (.extend os)).1.items = s.items ++ os) ∧
    (∀ os, (step s (.iadd os)).1.items = s.items ++ os) ∧
    (∀ i o, (step s (.insert (.pos i) o)).1.items =
        s.items.take (clampIdx s.items.length i) ++ o :: s.items.drop (clampIdx s.items.length i)) ∧
    (∀ i o k, normIdx s.items.length i = some k →
        (step s (.setitem (.pos i) o)).1.items = s.items.set k o) ∧
    (∀ i k, normIdx s.items.length i = some k →
        (step s (.delitem (.pos i))).1.items = s.items.eraseIdx k) ∧
    (∀ i k, normIdx s.items.length i = some k →
        (step s (.pop (some (.pos i)))).1.items = s.items.eraseIdx k ∧
        (step s (.pop (some (.pos i)))).2 = (match s.items[k]? with | some o => .val o | none => .fail .indexError)) ∧
    (∀ i, normIdx s.items.length i = none →
        (step s (.setitem (.pos i) default)).2 = .fail .indexError ∧
        (step s (.delitem (.pos i))).2 = .fail .indexError ∧
        (step s (.pop (some (.pos i)))).2 = .fail .indexError) ∧
    (∀ o, o ∈ s.items → (step s (.removeObj o)).1.items = s.items.eraseIdx (s.items.idxOf o)) ∧
    (∀ o, o ∉ s.items → (step s (.removeObj o)).2 = .fail .valueError) := by
  refine ⟨?_, ?_, ?_, ?_, ?_, ?_, ?_, ?_, ?_, ?_⟩
  · intro o; rfl
  · intro os; rfl
  · intro os; rfl
  · intro i o; rfl
  · intro i o k hk; simp [step, elemPos, hk]
  · intro i k hk; simp [step, elemPos, hk, removeAt]
  · intro i k hk
    have hlt := normIdx_lt hk
    simp [step, elemPos, hk, removeAt, hlt]
  · intro i hk; simp [step, elemPos, hk]
  · intro o ho; simp [step, ho, removeAt]
  · intro o ho; simp [step, ho]

/-- by-id argument forms act on the position of the element the index names -/
theorem key_forms_resolve (s : State) (h : Coherent s) (k : String) (o : Obj)
    (hk : lookup s k = some o) :
    elemPos s (.key k) = .ok (s.items.idxOf o) ∧ s.items[s.items.idxOf o]? = some o := by
  have hm := (h.1 k o hk).1
  have hlt : s.items.idxOf o < s.items.length := List.idxOf_lt_length_of_mem hm
  refine ⟨?_, ?_⟩
  · simp [elemPos, keyPos, lookup] at hk ⊢; simp [hk, hlt]
  · simp [List.getElem?_eq_getElem hlt]

private theorem id_inj_of_nodup : ∀ (l : List Obj), (l.map (·.id)).Nodup →
    ∀ a ∈ l, ∀ b ∈ l, a.id = b.id → a = b
  | [], _, a, ha, _, _, _ => by simp at ha
  | x :: t, hn, a, ha, b, hb, hab => by
    simp only [List.map_cons, List.nodup_cons, List.mem_map, not_exists, not_and] at hn
    rcases List.mem_cons.mp ha with rfl | ha' <;> rcases List.mem_cons.mp hb with rfl | hb'
    · rfl
    · exact absurd hab.symm (hn.1 b hb')
    · exact absurd hab (hn.1 a ha')
    · exact id_inj_of_nodup t hn.2 a ha' b hb' hab

/-- when ids are unique (the case every library is meant to be in), the index is a function of
    the list alone: `L[k]` is the first — the only — element whose id is `k`, in every reachable
    state, whatever the history of mutations that led there -/
theorem lookup_eq_find_of_unique_ids (s : State) (h : Coherent s)
    (hn : (s.items.map (·.id)).Nodup) (k : String) :
    lookup s k = s.items.find? (fun o => o.id == k) := by
  cases hl : lookup s k with
  | some o =>
    obtain ⟨hm, hid⟩ := h.1 k o hl
    cases hf : s.items.find? (fun o => o.id == k) with
    | none =>
      have := List.find?_eq_none.mp hf o hm
      simp [hid] at this
    | some o' =>
      have hm' := List.mem_of_find?_eq_some hf
      have hid' : o'.id = k := by simpa using List.find?_some hf
      rw [id_inj_of_nodup s.items hn o hm o' hm' (hid.trans hid'.symm)]
  | none =>
    symm
    apply List.find?_eq_none.mpr
    intro o hm hk
    have hk' : o.id = k := by simpa using hk
    have := h.2 o hm
    rw [hk'] at this
    unfold lookup at hl
    simp [hl] at this

/-- … and so two histories that end in the same list with unique ids answer every by-id query
    alike: nothing of the history survives in the index -/
theorem history_independent (os os' : List Obj) (ops ops' : List Op)
    (he : (run (mk os) ops).items = (run (mk os') ops').items)
    (hn : ((run (mk os) ops).items.map (·.id)).Nodup) (k : String) :
    lookup (run (mk os) ops) k = lookup (run (mk os') ops') k := by
  rw [lookup_eq_find_of_unique_ids _ (coherent_reachable os ops) hn,
      lookup_eq_find_of_unique_ids _ (coherent_reachable os' ops') (he ▸ hn), he]

/-! ### non-vacuity: a concrete reachable state with a duplicate id, and the operations on it -/

def a0 : Obj := ⟨0, "a"⟩
def b1 : Obj := ⟨1, "b"⟩
def a2 : Obj := ⟨2, "a"⟩
def d3 : Obj := ⟨3, "d"⟩

example : (mk [a0, b1, a2]).items = [a0, b1, a2] ∧ lookup (mk [a0, b1, a2]) "a" = some a2 := by decide
example : lookup (step (mk [a0, b1, a2]) (.delitem (.pos (-1)))).1 "a" = some a0 := by decide
example : (step (mk [a0, b1, a2]) (.setitem (.key "b") d3)).1.items = [a0, d3, a2] := by decide
example : (step (mk [a0, b1, a2]) (.pop (some (.pos 7)))).2 = .fail .indexError := by decide
example : (step (mk [a0, b1, a2]) (.removeKey "zz")).2 = .fail .valueError := by decide
example : (run (mk [a0, b1, a2]) [.insert (.pos 9) d3, .delslice (some 0) (some 2), .iadd [b1]]).items
    = [a2, d3, b1] := by decide
-- premises of `history_independent` are satisfiable by two different histories
example : (run (mk [a0, b1, a2]) [.delitem (.pos 0)]).items = (run (mk [b1]) [.append a2]).items ∧
    ((run (mk [a0, b1, a2]) [.delitem (.pos 0)]).items.map (·.id)).Nodup := by decide

end Pyc.Props.C14
