/-
C03 — Saving is idempotent, non-destructive and failure-safe.
Model: Pyc/Model/SaveMachine.lean over Pyc/Model/Sync.lean; the statement order of write()/save()
comes from Pyc/Generated/WriteOrder.lean (regenerated from the source on every run).
-/
import Pyc.Proofs.Sync
import Pyc.Model.SaveMachine

namespace Pyc.Props.C03
open Pyc.Sync Pyc.SaveM Pyc.Generated.WriteOrder

variable {α : Type} [DecidableEq α]

theorem saveSite_idem (s : Site α) (w : List α) : saveSite (saveSite s w) w = saveSite s w := by
  simp [saveSite, sync_idem]

/-- saving again without intervening edits leaves every reconciled element unchanged -/
theorem save_idem : ∀ (ss : List (Site α)) (ws : List (List α)), saveAll (saveAll ss ws) ws = saveAll ss ws
  | [], [] => by simp [saveAll]
  | [], _ :: _ => by simp [saveAll]
  | _ :: _, [] => by simp [saveAll]
  | s :: ss, w :: ws => by simp [saveAll, saveSite_idem, save_idem ss ws]

/-- any number of repeated saves is one save -/
theorem saves_any_number (ss : List (Site α)) (ws : List (List α)) (n : Nat) :
    saveN ws (n + 1) ss = saveAll ss ws := by
  induction n with
  | zero => rfl
  | succ n ih =>
    show saveAll (saveN ws (n + 1) ss) ws = saveAll ss ws
    rw [ih, save_idem]

/-- what save does not manage (animation libraries, top-level extras, <vertices>, <technique>,
    extras inside a mesh or a profile) stays, in order, at every site -/
theorem unmanaged_preserved (s : Site α) (w : List α) :
    (saveSite s w).kids.filter (fun c => !isM s.managed w c) = s.kids.filter (fun c => !isM s.managed w c) := by
  simp [saveSite, sync_unmanaged]

theorem saveAll_nil (ws : List (List α)) : saveAll ([] : List (Site α)) ws = [] := by
  cases ws <;> simp [saveAll]

/-- A save that raised part-way (k sites reconciled from the same model) followed by a successful
    save of the repaired model gives exactly what a save that never failed gives, provided the
    repair did not touch what the first k sites want. -/
theorem failed_prefix_then_ok : ∀ (k : Nat) (ss : List (Site α)) (ws ws' : List (List α)),
    ws'.take k = ws.take k → saveAll (savePrefix k ss ws) ws' = saveAll ss ws'
  | 0, ss, ws, ws', _ => by simp [savePrefix, saveAll]
  | k + 1, [], ws, ws', _ => by simp [savePrefix, saveAll_nil]
  | k + 1, s :: ss, [], ws', h => by
    have : ws' = [] := by
      cases ws' with
      | nil => rfl
      | cons a t => simp at h
    subst this
    simp [savePrefix, saveAll]
  | k + 1, s :: ss, w :: wt, ws', h => by
    cases ws' with
    | nil => simp at h
    | cons w' wt' =>
      simp only [List.take_succ_cons, List.cons.injEq] at h
      obtain ⟨hw, ht⟩ := h
      subst hw
      have ih := failed_prefix_then_ok k ss wt wt' ht
      simp only [savePrefix, List.take_succ_cons, List.drop_succ_cons, saveAll, List.cons_append] at ih ⊢
      rw [saveSite_idem, ih]

/-- write() saves before it opens the destination -/
theorem save_before_open : writeSteps.idxOf .save < writeSteps.idxOf .openDest := by decide

/-- if saving fails, a destination given by path is neither created nor modified -/
theorem failed_write_fs_untouched (k : Nat) (ws : List (List α)) (path : String)
    (ser : List (Site α) → List Nat) (sf : Option Nat) (w : World α) :
    (write (some k) ws path ser sf w).1.fs = w.fs ∧ (write (some k) ws path ser sf w).2 = true := by
  simp [write, execWrite, writeSteps]

/-- a successful write puts the serialisation of the saved sites at the destination -/
theorem write_ok (ws : List (List α)) (path : String) (ser : List (Site α) → List Nat) (w : World α) :
    fsGet (write none ws path ser none w).1.fs path = some (ser (saveAll w.sites ws)) ∧
    (write none ws path ser none w).1.sites = saveAll w.sites ws := by
  simp [write, execWrite, writeSteps, fsSet, fsGet]

/-- after a write whose save failed (at any point k) and a repair that leaves the first k sites'
    content alone, a later write produces exactly the output of a run that never failed -/
theorem failed_write_then_ok (k : Nat) (ws ws' : List (List α)) (p q : String)
    (ser : List (Site α) → List Nat) (w : World α) (h : ws'.take k = ws.take k) :
    fsGet (write none ws' q ser none (write (some k) ws p ser none w).1).1.fs q
      = some (ser (saveAll w.sites ws')) := by
  have e : (write (some k) ws p ser none w).1.sites = savePrefix k w.sites ws := by
    simp [write, execWrite, writeSteps]
  rw [(write_ok ws' q ser _).1, e, failed_prefix_then_ok k _ _ _ h]

/-- a sink that raises after any number k of accepted bytes: a later write to a healthy
    destination produces exactly the output of a run that never failed -/
theorem failing_sink_then_ok (k : Nat) (ws : List (List α)) (p q : String)
    (ser : List (Site α) → List Nat) (w : World α) :
    (write none ws p ser (some k) w).2 = true ∧
    fsGet (write none ws q ser none (write none ws p ser (some k) w).1).1.fs q
      = some (ser (saveAll w.sites ws)) := by
  have e : (write none ws p ser (some k) w).1.sites = saveAll w.sites ws := by
    simp [write, execWrite, writeSteps]
  refine ⟨by simp [write, execWrite, writeSteps], ?_⟩
  rw [(write_ok ws q ser _).1, e, save_idem]

/-- all interleavings of saves (queries do not change sites) before a write: identical bytes -/
theorem history_bytes (n : Nat) (ws : List (List α)) (path : String) (ser : List (Site α) → List Nat)
    (w : World α) :
    fsGet (write none ws path ser none { w with sites := saveN ws n w.sites }).1.fs path
      = fsGet (write none ws path ser none w).1.fs path := by
  rw [(write_ok ws path ser _).1, (write_ok ws path ser w).1]
  cases n with
  | zero => rfl
  | succ n =>
    have := saves_any_number w.sites ws n
    simp only at this ⊢
    rw [this, save_idem]

/-! ### non-vacuity -/
def s1 : Site Nat := ⟨fun c => c < 10, none, [1, 50, 2]⟩
def s2 : Site Nat := ⟨fun _ => true, none, [3]⟩
example : (saveAll [s1, s2] [[2, 4], [5, 6]]).map (·.kids) = [[2, 4, 50], [5, 6]] := by decide
example : (savePrefix 1 [s1, s2] [[2, 4], [5, 6]]).map (·.kids) = [[2, 4, 50], [3]] := by decide
example : fsGet (write (some 1) [[2, 4], [5, 6]] "out.dae" (fun ss => ss.flatMap (·.kids)) none
    ⟨[s1, s2], [("out.dae", [9, 9])]⟩).1.fs "out.dae" = some [9, 9] := by decide
example : fsGet (write none [[2, 4], [5, 6]] "b" (fun ss => ss.flatMap (·.kids)) none
    (write none [[2, 4], [5, 6]] "a" (fun ss => ss.flatMap (·.kids)) (some 3) ⟨[s1, s2], []⟩).1).1.fs "b"
    = some [2, 4, 50, 5, 6] := by decide

end Pyc.Props.C03
