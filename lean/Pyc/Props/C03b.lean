/-
C03, the serialiser's pretty printer: `indent()` changes white-space-only text and tails and nothing else, what it produces depends on
nothing but the content, and running it again changes nothing (so `write()` twice gives the same bytes and unmodelled content survives).
Model: Pyc/Model/Indent.lean.
-/
import Pyc.Model.Indent
namespace Pyc.Props.C03
open Pyc.Indent

theorem indent_leaf (level l : Nat) (text tail : String) :
    indent level (.node l text tail []) = .node l text (if level ≠ 0 then fill (ind level) tail else tail) [] := by
  rw [indent]

theorem indent_cons (level l : Nat) (text tail : String) (k : X) (ks : List X) :
    indent level (.node l text tail (k :: ks))
      = .node l (fill (ind (level + 1)) text) (fill (ind level) tail) (closeLast (ind level) (indentList (level + 1) (k :: ks))) := by
  rw [indent]

theorem blank_ind (level : Nat) : blank (ind level) = true := by
  simp [blank, ind, List.all_cons, List.all_replicate]

theorem blank_empty : blank "" = true := by simp [blank]

private theorem content_fill_eq (v s : String) (hv : blank v = true) :
    (if blank (fill v s) then "" else fill v s) = (if blank s then "" else s) := by
  unfold fill
  by_cases h : blank s = true
  · simp [h, hv]
  · simp [h]

private theorem fill_content (v s : String) : fill v (if blank s then "" else s) = fill v s := by
  unfold fill
  by_cases h : blank s = true
  · simp [h, blank_empty]
  · simp [h]

private theorem content_setTail (v : String) (hv : blank v = true) (k : X) :
    content (k.setTail (fill v k.tail)) = content k := by
  cases k with
  | node l text tail kids => simp [X.setTail, X.tail, content, content_fill_eq v tail hv]

private theorem contentL_closeLast (v : String) (hv : blank v = true) : ∀ ks : List X, contentL (closeLast v ks) = contentL ks
  | [] => rfl
  | [k] => by simp [closeLast, contentL, content_setTail v hv k]
  | k :: k' :: ks => by
    simp only [closeLast, contentL]
    rw [contentL_closeLast v hv (k' :: ks)]
    simp [contentL]

mutual
  /-- **indent() touches white space only**: with every white-space-only text and tail emptied, the tree after indent() is the tree before -/
  theorem content_indent (level : Nat) : ∀ e : X, content (indent level e) = content e
    | .node l text tail [] => by
      rw [indent_leaf]
      by_cases h : level ≠ 0
      · simp only [content, contentL, if_pos h, content_fill_eq (ind level) tail (blank_ind level)]
      · simp only [content, contentL, if_neg h]
    | .node l text tail (k :: ks) => by
      rw [indent_cons]
      simp only [content]
      rw [content_fill_eq _ text (blank_ind _), content_fill_eq _ tail (blank_ind _), contentL_closeLast _ (blank_ind _),
        contentL_indentList (level + 1) (k :: ks)]
  theorem contentL_indentList (level : Nat) : ∀ ks : List X, contentL (indentList level ks) = contentL ks
    | [] => rfl
    | k :: ks => by
      rw [indentList]
      simp only [contentL, content_indent level k, contentL_indentList level ks]
end

private theorem fill_fill (v s : String) (hv : blank v = true) : fill v (fill v s) = fill v s := by
  unfold fill
  by_cases h : blank s = true
  · simp [h, hv]
  · simp [h]

private theorem fill3 (a b t : String) (ha : blank a = true) (hb : blank b = true) : fill a (fill b (fill a t)) = fill a t := by
  unfold fill
  by_cases h : blank t = true
  · simp [h, ha, hb]
  · simp [h]

private theorem indent_setTail (n : Nat) (hn : n ≠ 0) (t : String) : ∀ x : X,
    indent n (x.setTail t) = (indent n x).setTail (fill (ind n) t)
  | .node l text tail [] => by simp [X.setTail, indent, hn]
  | .node l text tail (k :: ks) => by simp [X.setTail, indent]

private theorem setTail_setTail (a b : String) : ∀ x : X, (x.setTail a).setTail b = x.setTail b
  | .node _ _ _ _ => rfl

private theorem tail_setTail (a : String) : ∀ x : X, (x.setTail a).tail = a
  | .node _ _ _ _ => rfl

private theorem closeLast_ne_nil (v : String) : ∀ ks : List X, ks ≠ [] → closeLast v ks ≠ []
  | [], h => absurd rfl h
  | [k], _ => by simp [closeLast]
  | k :: k' :: ks, _ => by simp [closeLast]

/-- closing, indenting the children again and closing again changes nothing once the children are indented -/
private theorem closeLast_fix (i : String) (hi : blank i = true) (n : Nat) (hn : n ≠ 0) :
    ∀ L : List X, indentList n L = L → closeLast i (indentList n (closeLast i L)) = closeLast i L
  | [], _ => rfl
  | [k], h => by
    have hk : indent n k = k := by simpa [indentList] using h
    simp only [closeLast, indentList, indent_setTail n hn, hk, setTail_setTail, tail_setTail]
    rw [fill3 i (ind n) k.tail hi (blank_ind n)]
  | k :: k' :: ks, h => by
    have hk : indent n k = k := by
      have := congrArg List.head? h
      simpa [indentList] using this
    have hrest : indentList n (k' :: ks) = k' :: ks := by
      have := congrArg List.tail h
      simpa [indentList] using this
    have ih := closeLast_fix i hi n hn (k' :: ks) hrest
    have hne : indentList n (closeLast i (k' :: ks)) ≠ [] := by
      intro hc
      have : closeLast i (k' :: ks) ≠ [] := closeLast_ne_nil i _ (by simp)
      cases hcl : closeLast i (k' :: ks) with
      | nil => exact this hcl
      | cons a b => rw [hcl] at hc; simp [indentList] at hc
    show closeLast i (indentList n (k :: closeLast i (k' :: ks))) = k :: closeLast i (k' :: ks)
    simp only [indentList, hk]
    cases hr : indentList n (closeLast i (k' :: ks)) with
    | nil => exact absurd hr hne
    | cons a b =>
      rw [hr] at ih
      simp only [closeLast]
      rw [ih]

mutual
  /-- **running indent() again changes nothing**: the tree `writeXML` leaves behind is a fixed point, so a second write serialises the same tree -/
  theorem indent_idem (level : Nat) : ∀ e : X, indent level (indent level e) = indent level e
    | .node l text tail [] => by
      rw [indent_leaf, indent_leaf]
      by_cases h : level ≠ 0
      · simp only [if_pos h, fill_fill _ _ (blank_ind level)]
      · simp only [if_neg h]
    | .node l text tail (k :: ks) => by
      have hL := indentList_idem (level + 1) (k :: ks)
      have hfix := closeLast_fix (ind level) (blank_ind level) (level + 1) (by omega) _ hL
      have hne : closeLast (ind level) (indentList (level + 1) (k :: ks)) ≠ [] :=
        closeLast_ne_nil _ _ (by rw [indentList]; simp)
      rw [indent_cons]
      obtain ⟨a, b, hK⟩ : ∃ a b, closeLast (ind level) (indentList (level + 1) (k :: ks)) = a :: b := by
        cases hc : closeLast (ind level) (indentList (level + 1) (k :: ks)) with
        | nil => exact absurd hc hne
        | cons a b => exact ⟨a, b, rfl⟩
      rw [hK] at hfix ⊢
      rw [indent_cons, hfix, fill_fill _ _ (blank_ind _), fill_fill _ _ (blank_ind _)]
  theorem indentList_idem (level : Nat) : ∀ ks : List X, indentList level (indentList level ks) = indentList level ks
    | [] => rfl
    | k :: ks => by
      rw [indentList, indentList, indent_idem level k, indentList_idem level ks]
end

/-- non-vacuity: mixed content with a no-break space keeps it, white space around the children is rewritten
    (all text and tails in document order) -/
example : strings (indent 0 (.node 0 " " "" [.node 1 "\u00a0" "  " [.node 2 "" "" []], .node 3 "x" "" []]))
    = ["\n  ", "\u00a0", "", "\n  ", "\n  ", "x", "\n", "\n"] := by decide

end Pyc.Props.C03
