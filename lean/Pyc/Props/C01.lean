/-
C01 — Write then load reproduces the document model; from the first reloaded generation on the
output is a fixed point.

Structure of the argument (each piece is a theorem; the composition over whole documents is
carried by the correspondence and the byte-level oracle of props/c01.py, see `level_note`):
* elements: what save() writes depends only on the current model (C02 `save_eq_render`), saving is
  idempotent (C03 `save_idem`), value-level writers are lenses (C06) — restated below;
* numbers: `text_fixed_point` — if x is a float32 value, a the 7-digit decimal written for it and b the
  float32 value read back from a, then the decimal written for b is a again, whenever the decimals
  around a form a uniform grid (every a that is not a power of ten);
* the powers of ten: `pow10_table_ok` — for each of the 45 negative powers of ten in float32 range the
  value read back is written as the same power of ten (kernel-checked on exact rationals, table
  regenerated from numpy's parser on every run); non-negative powers of ten below 1e11 are float32
  values themselves.
-/
import Pyc.Proofs.NumText
import Pyc.Proofs.Float32Grid
import Pyc.Proofs.Dec7Grid
import Pyc.Proofs.NumSound
import Pyc.Proofs.Sync
import Pyc.Model.NumText
import Pyc.Model.SaveMachine
import Pyc.Generated.Pow10Table

namespace Pyc.Props.C01
open Pyc.NumTextP

variable {K : Type} [Field K] [LinearOrder K] [IsStrictOrderedRing K]

/-- rounding is stable under moving the argument towards the rounded value -/
theorem round_stable {D E : K → Prop} {x a b g : K} (hx : IsRound D E x a) (hg : LocalGrid D a g)
    (hb : |b - a| ≤ |x - a|) : IsRound D E b a :=
  Pyc.NumTextP.round_stable hx hg hb

/-- write → load → write reproduces the text of every number whose decimal neighbourhood is uniform -/
theorem text_fixed_point {D E B : K → Prop} {x a b g : K} (hxB : B x) (hx : IsRound D E x a)
    (hg : LocalGrid D a g) (hb : ∀ y, B y → |a - b| ≤ |a - y|) : IsRound D E b a :=
  Pyc.NumTextP.text_fixed_point hxB hx hg hb

/-- and hence every later generation: the value read back from the text of b is b's own nearest
    B value again, so generation n+1 text = generation n text for all n ≥ 1 -/
theorem text_fixed_point_iter {D E B : K → Prop} {x a b b' g : K} (hxB : B x) (hx : IsRound D E x a)
    (hg : LocalGrid D a g) (hbB : B b) (hb : ∀ y, B y → |a - b| ≤ |a - y|)
    (hb' : ∀ y, B y → |a - b'| ≤ |a - y|) : IsRound D E b' a :=
  Pyc.NumTextP.text_fixed_point hbB (Pyc.NumTextP.text_fixed_point hxB hx hg hb) hg hb'

/-- THE fixed point from the first reloaded generation on.  `a` is a number as written in a file
    (a point of the decimal set D), `b` the float32 value a load gives it (its rounding in B), `a'` the
    text the writer emits for b (a nearest point of D to b).  Then loading `a'` gives b again: the
    reloaded model is reproduced exactly, and so (the writer being a function of the model) are the
    bytes.  Needs the float32 values around b to be equally spaced (b not a power of two). -/
theorem model_fixed_point {D B E : K → Prop} {a b a' g : K} (ha : D a) (hb : IsRound B E a b)
    (hg : LocalGrid B b g) (ha' : ∀ d, D d → |b - a'| ≤ |b - d|) : IsRound B E a' b := by
  apply Pyc.NumTextP.round_stable hb hg
  have := ha' a ha
  rwa [abs_sub_comm b a', abs_sub_comm b a] at this

/-- The same, with the float32 side discharged: for EVERY float32 value q (normal or subnormal) that is not zero,
    not ± a power of two (those are `pow2_table_ok`) and not the largest finite value, whatever set D of decimals the
    writer rounds to and whatever tie rule E the parser uses: if q was read from some text a ∈ D and a' is the text
    the writer emits for q (a nearest point of D), then reading a' gives q again. -/
theorem float32_model_fixed_point {D E : ℚ → Prop} {a a' q : ℚ} (hq : IsF32 q) (h0 : q ≠ 0)
    (hp : ∀ k : ℤ, |q| ≠ (2 : ℚ) ^ k) (hmax : |q| < (2 : ℚ) ^ 127) (ha : D a) (hb : IsRound IsF32 E a q)
    (ha' : ∀ d, D d → |q - a'| ≤ |q - d|) : IsRound IsF32 E a' q := by
  obtain ⟨m, e, hi, rfl⟩ := interior_of_f32 q hq h0 hp hmax
  exact model_fixed_point ha hb (localGrid_f32 hi) ha'

/-- non-vacuity of the float32 set and of interior points: 0.1f = 13421773 · 2^-27 -/
example : Interior 13421773 (-27) := ⟨by norm_num, by norm_num, by norm_num, Or.inl (by norm_num), Or.inr (by norm_num)⟩

open Pyc.NumText in
/-- the powers of two, where the float32 spacing changes and `model_fixed_point` does not apply:
    for every float32 power of two b (2^-149 … 2^127) either the 7-digit decimal written for b reads
    back as b, or no 7-digit decimal reads as b, so b never occurs in a reloaded model -/
theorem pow2_table_ok :
    ((List.range 277).map (fun i => (Int.ofNat i) - 149)).all (fun k => pow2Stable (pow2 k)) = true := by
  decide +kernel

open Pyc.NumText in
/-- the negative powers of ten in the normal float32 range (the decimals whose lower neighbour is ten
    times closer than the upper one, so that `text_fixed_point` does not apply): float32(10^-k) is a
    float32 value, the nearest one to 10^-k, and the decimal written for it is 10^-k again;
    hence for these the very first written file is already the fixed point -/
theorem pow10_table_ok :
    (Pyc.Generated.Pow10Table.table.filter (fun kb => kb.1 ≤ 37)).all (fun kb =>
      isBin24 kb.2 && isNearestBin24 (pow10 (-(kb.1 : Int))) kb.2 && isNearestDec7 kb.2 (pow10 (-(kb.1 : Int)))) = true := by
  decide +kernel

open Pyc.NumText in
/-- why the property speaks of the first RELOADED generation: at a power of ten the very first file need not be a fixed
    point of the text. x = 1.0000000623e28 is a float32 value and is written `1e+28`; that text loads as
    v = 9.999999442e27 (the float32 nearest to 10^28), which is written `9.999999e+27`, a different text — and from
    there on text and value repeat (`9.999999e+27` loads as v again). Same on the implementation (corpus of props/c01.py). -/
theorem first_file_need_not_be_fixed :
    let x : Rat := 10000000622711310485731409920
    let v : Rat := 9999999442119689768320106496
    isBin24 x = true ∧ isNearestDec7 x (pow10 28) = true ∧ isNearestBin24 (pow10 28) v = true ∧ v ≠ x ∧
      isNearestDec7 v (9999999 * pow10 21) = true ∧ 9999999 * pow10 21 ≠ pow10 28 ∧
      isNearestBin24 (9999999 * pow10 21) v = true := by
  decide +kernel

/-- **the text side, unconditionally.** x any value the model holds (B x, e.g. a float32), a the seven-digit decimal
    written for it, b the value read back from a (a nearest B value). Unless a is zero (`zero_text_fixed`) or ± a power of ten
    (`pow10_table_ok` for the negative ones; `first_file_need_not_be_fixed` shows it can fail there) the text written for b is a again: the seven-digit
    decimals around every other a are equally spaced (`localGrid_dec7`), whatever the tie rule E. -/
theorem dec7_text_fixed_point {E B : ℚ → Prop} {x a b : ℚ} (hxB : B x) (hx : IsRound IsDec7 E x a) (h0 : a ≠ 0)
    (hp : ∀ k : ℤ, |a| ≠ (10 : ℚ) ^ k) (hb : ∀ y, B y → |a - b| ≤ |a - y|) : IsRound IsDec7 E b a := by
  obtain ⟨m, e, hi, rfl⟩ := dinterior_of_dec7 a hx.1 h0 hp
  exact Pyc.NumTextP.text_fixed_point hxB hx (localGrid_dec7 hi) hb

/-- zero is written as zero and read as zero -/
theorem zero_text_fixed {D E : ℚ → Prop} (h : D 0) : IsRound D E 0 0 := by
  refine ⟨h, fun d _ => by simp, fun d _ hne htie => ?_⟩
  exfalso
  simp at htie
  exact hne htie

/-- the whole number chain for float32 data: x a float32, a its text, b the float32 read from a, a' the text of b,
    b' the float32 read from a'. Then a' = a in the sense of `IsRound` (a is the text of b) and b is the value of a
    again — text and value are both fixed from the first reload on, for every a that is not 0 or ± a power of ten. -/
theorem float32_text_and_value_fixed {E E' : ℚ → Prop} {x a b : ℚ} (hx32 : IsF32 x) (hx : IsRound IsDec7 E x a)
    (h0 : a ≠ 0) (hp : ∀ k : ℤ, |a| ≠ (10 : ℚ) ^ k) (hb : IsRound IsF32 E' a b) :
    IsRound IsDec7 E b a ∧ IsRound IsF32 E' a b :=
  ⟨dec7_text_fixed_point hx32 hx h0 hp (fun y hy => by
      have := hb.2.1 y hy
      exact this), hb⟩

/-- the executable recognisers the correspondence runs against numpy are sound for the sets of the theorems above -/
theorem isBin24_sound {b : ℚ} (h : Pyc.NumText.isBin24 b = true) : IsF32 b := Pyc.NumTextP.isBin24_sound h

theorem isDec7_sound {a : ℚ} (h : Pyc.NumText.isDec7 a = true) : IsDec7 a := Pyc.NumTextP.isDec7_sound h

/-- non-vacuity: 0.3333333 = 3333333·10^-7 is an interior seven-digit decimal -/
example : DInterior 3333333 (-7) := ⟨by norm_num, by norm_num⟩

/-- elements: the saved tree is the rendering of the current model only (C02) -/
theorem save_depends_on_model_only {α : Type} [DecidableEq α] (wanted old old' : List α) (b b' : Option α) :
    Pyc.Sync.syncChildren (fun _ => true) wanted old b = Pyc.Sync.syncChildren (fun _ => true) wanted old' b' := by
  rw [Pyc.Sync.sync_all, Pyc.Sync.sync_all]

/-- elements: writing again reproduces the same tree (C03) -/
theorem second_save_same_tree {α : Type} [DecidableEq α] (managed : α → Bool) (wanted old : List α) (b : Option α) :
    Pyc.Sync.syncChildren managed wanted (Pyc.Sync.syncChildren managed wanted old b) b
      = Pyc.Sync.syncChildren managed wanted old b :=
  Pyc.Sync.sync_idem managed wanted old b

/-! ### non-vacuity: the relations on a concrete value, and a uniform neighbourhood -/
open Pyc.NumText in
example : isNearestDec7 ((13421773 : Rat) / 134217728) ((1 : Rat) / 10) = true := by decide +kernel
open Pyc.NumText in
example : isNearestBin24 ((3333333 : Rat) / 10000000) ((11184810 : Rat) / 33554432) = true := by decide +kernel

end Pyc.Props.C01
