/-
C03, continued: saving is idempotent at the root element, for every list of children a file may have there — several library elements
of one kind, libraries that hold nothing the loader keeps, no `<scene>`, top-level extras, unmanaged libraries, in any order.
The library tuple is the one `translators/write_order.py` reads from `Collada.save` on every run.
-/
import Pyc.Proofs.RootSave
import Pyc.Generated.WriteOrder

namespace Pyc.Props.C03
open Pyc.RootSave Pyc.Generated.WriteOrder

/-- **saving is idempotent at the root**: the children of `<COLLADA>` after two saves are those after one — whatever the file held
    (several library elements of one kind, libraries without objects, no `<scene>`, extras, unmanaged libraries) -/
theorem saveRoot_idem (libs : List String) (ne : String → Bool) (hs : Bool) (kids : List String)
    (hnd : libs.Nodup) (ha : "asset" ∉ libs) (hsc : "scene" ∉ libs) :
    saveRoot libs ne hs (saveRoot libs ne hs kids) = saveRoot libs ne hs kids := by
  -- the first save
  obtain ⟨F, hF⟩ : ∃ F, libs.foldl (saveLib ne (afterLast "asset" (assetStep kids))) (assetStep kids) = "asset" :: F :=
    head_foldl_saveLib ne _ "asset" (afterLast_pos "asset" _) libs _ ha
  obtain ⟨R, hR⟩ := head_sceneStep hs F
  have hroot : saveRoot libs ne hs kids = "asset" :: R := by
    simp only [saveRoot]; rw [hF, hR]
  have hcnt : ∀ l ∈ libs, cnt l ("asset" :: R) = if ne l then 1 else 0 := by
    intro l hl
    have hl' : l ≠ "scene" := fun e => hsc (e ▸ hl)
    rw [← hR, cnt_sceneStep hs l _ hl', ← hF, cnt_foldl_saveLib ne _ libs _ l hnd]
    simp [hl]
  -- the second one
  have hasset : assetStep ("asset" :: R) = "asset" :: R := by simp [assetStep, eraseFirst]
  rw [hroot]
  simp only [saveRoot]
  rw [hasset, foldl_saveLib_fix ne _ libs _ hcnt, ← hR, sceneStep_fix]

/-- … and what one save leaves: each managed library at most once, exactly when it holds objects; `<asset>` first -/
theorem saveRoot_counts (libs : List String) (ne : String → Bool) (hs : Bool) (kids : List String)
    (hnd : libs.Nodup) (ha : "asset" ∉ libs) (hsc : "scene" ∉ libs) :
    (∀ l ∈ libs, cnt l (saveRoot libs ne hs kids) = if ne l then 1 else 0) ∧
    (saveRoot libs ne hs kids).head? = some "asset" := by
  obtain ⟨F, hF⟩ : ∃ F, libs.foldl (saveLib ne (afterLast "asset" (assetStep kids))) (assetStep kids) = "asset" :: F :=
    head_foldl_saveLib ne _ "asset" (afterLast_pos "asset" _) libs _ ha
  obtain ⟨R, hR⟩ := head_sceneStep hs F
  have hroot : saveRoot libs ne hs kids = "asset" :: R := by
    simp only [saveRoot]; rw [hF, hR]
  refine ⟨?_, by rw [hroot]; rfl⟩
  intro l hl
  have hl' : l ≠ "scene" := fun e => hsc (e ▸ hl)
  rw [hroot, ← hR, cnt_sceneStep hs l _ hl', ← hF, cnt_foldl_saveLib ne _ libs _ l hnd]
  simp [hl]


/-- the library tuple of the source has the shape the two theorems ask for -/
theorem libOrder_ok : libOrder.Nodup ∧ "asset" ∉ libOrder ∧ "scene" ∉ libOrder := by decide

/-- … so: for the real library tuple, every root, every content of the lists and with or without a default scene -/
theorem real_save_root_idem (ne : String → Bool) (hs : Bool) (kids : List String) :
    saveRoot libOrder ne hs (saveRoot libOrder ne hs kids) = saveRoot libOrder ne hs kids :=
  saveRoot_idem libOrder ne hs kids libOrder_ok.1 libOrder_ok.2.1 libOrder_ok.2.2

theorem real_save_root_counts (ne : String → Bool) (hs : Bool) (kids : List String) :
    (∀ l ∈ libOrder, cnt l (saveRoot libOrder ne hs kids) = if ne l then 1 else 0) ∧
    (saveRoot libOrder ne hs kids).head? = some "asset" :=
  saveRoot_counts libOrder ne hs kids libOrder_ok.1 libOrder_ok.2.1 libOrder_ok.2.2

/-- negative: removing the further elements of one kind only for libraries that are kept is NOT idempotent
    (three empty `<library_lights>` elements: one save leaves two, the next one) -/
theorem late_removal_not_idempotent :
    let kids := ["asset", "library_lights", "library_lights", "library_lights", "scene"]
    saveRootLate libOrder (fun _ => false) true (saveRootLate libOrder (fun _ => false) true kids)
      ≠ saveRootLate libOrder (fun _ => false) true kids := by decide

-- non-vacuity: a root as another tool may write it
example : saveRoot libOrder (fun l => l == "library_geometries" || l == "library_visual_scenes") true
    ["library_lights", "library_geometries", "asset", "library_animations", "library_geometries", "library_lights", "extra"]
    = ["asset", "library_visual_scenes", "library_geometries", "library_animations", "scene", "extra"] := by decide

end Pyc.Props.C03
