/-
C12 — Scene traversal yields every instance once, correctly transformed and bound.
Property theorems only; the model is Pyc/Model/Scene.lean (mirrors collada/scene.py `objects`
and the `Bound*` constructors), helper lemmas are in Pyc/Proofs/Scene.lean.

Traversal theorems hold for ANY matrix type with `*` and `1` (so also for float matrices as far
as the order of multiplications is concerned) and any scene tree: any depth, any fan-out, shared
library nodes used any number of times and nested (`SNode.ref`). Binding theorems hold over any
commutative ring.
-/
import Pyc.Proofs.Scene

namespace Pyc.Props.C12
open Pyc.Scene

variable {M P : Type}

/-! ## Traversal -/

section traversal
variable [Mul M] [One M]

/-- `Scene.objects(kind)` yields, in document order, exactly one entry per root-to-instance path
of that kind (paths run through `instance_node`s into the shared nodes, once per use), and the
entry's matrix is what the code's multiplication order gives for the node matrices on the path:
`((m₁ * m₂) * m₃) * …`, starting from the root's own matrix. -/
theorem objects_eq_paths_exact (kind : Kind) (roots : List (SNode M P)) :
    sceneObjects kind roots =
      (pathsList kind roots).map (fun mp => (pathProd mp.1, mp.2)) :=
  objectsList_none kind roots

/-- … and in a monoid (4x4 matrices over a commutative ring are one, `mat4_monoid`) that matrix is
the ordered product `m₁ * (m₂ * (… * 1))` of the node matrices from the root down the path. -/
theorem objects_eq_paths [LawfulMonoid M] (kind : Kind) (roots : List (SNode M P)) :
    sceneObjects kind roots =
      (pathsList kind roots).map (fun mp => (mp.1.foldr (· * ·) 1, mp.2)) := by
  rw [objects_eq_paths_exact]
  apply List.map_congr_left
  intro mp _
  rw [pathProd_eq]

/-- a root node is entered with its own matrix (`matrix=None` does not multiply by anything);
the same holds when the root is an `instance_node`; an instance placed directly in `Scene.nodes`
is bound with the identity -/
theorem root_uses_own_matrix (kind : Kind) (m : M) (cs : List (SNode M P)) (p : P) :
    sceneObjects kind [.node m cs] = objectsList kind (some m) cs ∧
    sceneObjects kind [.ref (.node m cs)] = objectsList kind (some m) cs ∧
    sceneObjects kind [.node m [.inst kind p]] = [(m, p)] ∧
    sceneObjects kind [(.inst kind p : SNode M P)] = [(1, p)] := by
  simp [sceneObjects, objectsList, objects]

/-- below the root every node multiplies the accumulated matrix on the right by its own, and an
`instance_node` passes the caller's matrix through unchanged -/
theorem child_matrix (kind : Kind) (a m : M) (cs : List (SNode M P)) (t : SNode M P) :
    objects kind (some a) (.node m cs) = objectsList kind (some (a * m)) cs ∧
    objects kind (some a) (.ref t) = objects kind (some a) t := by
  simp [objects]

/-- exactly one bound object per instance path: the number of results is the number of paths,
a shared node counting once per `instance_node` that reaches it -/
theorem count_paths (kind : Kind) (roots : List (SNode M P)) :
    (sceneObjects kind roots).length = countInstList kind roots := by
  rw [objects_eq_paths_exact, List.length_map, length_pathsList]

omit [Mul M] [One M] in
/-- instantiating the same library node twice yields its objects twice (not once, not merged) -/
theorem shared_counts_per_use (kind : Kind) (m : M) (t : SNode M P) :
    countInst kind (.node m [.ref t, .ref t]) = 2 * countInst kind t := by
  simp [countInst, countInstList]; omega

/-- document order: the results for the roots (and, by `child_matrix`, for any children list)
are the concatenation of the results for each, left to right -/
theorem objects_append (kind : Kind) (xs ys : List (SNode M P)) :
    sceneObjects kind (xs ++ ys) = sceneObjects kind xs ++ sceneObjects kind ys := by
  simp [objects_eq_paths_exact, pathsList_append]

/-- nothing is invented and nothing is skipped: `(A, p)` is yielded iff some root reaches an
instance `p` of the requested kind along node matrices `ms` (through any nesting and any
`instance_node`s, `Reach` is a relation, not a traversal) and `A` is the product along `ms` -/
theorem mem_objects_iff (kind : Kind) (roots : List (SNode M P)) (A : M) (p : P) :
    (A, p) ∈ sceneObjects kind roots ↔
      ∃ r ∈ roots, ∃ ms, Reach kind r ms p ∧ A = pathProd ms := by
  rw [objects_eq_paths_exact]
  constructor
  · intro h
    obtain ⟨⟨ms, q⟩, hmem, heq⟩ := List.mem_map.mp h
    simp only [Prod.mk.injEq] at heq
    obtain ⟨rfl, rfl⟩ := heq
    obtain ⟨r, hr, hreach⟩ := reach_of_mem_pathsList kind roots ms q hmem
    exact ⟨r, hr, ms, hreach, rfl⟩
  · rintro ⟨r, hr, ms, hreach, rfl⟩
    exact List.mem_map.mpr ⟨(ms, p),
      mem_pathsList_of_mem kind roots r _ hr (mem_paths_of_reach kind r ms p hreach), rfl⟩

/-- only instances of the requested kind are yielded, and every one of them is -/
theorem kind_filter (kind k : Kind) (p : P) (acc : Option M) :
    objects kind acc (.inst k p : SNode M P) =
      if k = kind then [((match acc with | some a => a | none => 1), p)] else [] := by
  cases acc <;> by_cases h : k = kind <;> simp [objects, h]

end traversal

/-! ## Binding (over any commutative ring) -/

section binding
open Lean.Grind
variable {R : Type} [CommRing R]

/-- 4x4 matrices satisfy the monoid laws `objects_eq_paths` asks for -/
theorem mat4_monoid : LawfulMonoid (Mat4 R) := inferInstance

/-- the code's `v · (Mᵀ)[:3,:3] + M[:3,3]` is the homogeneous action of `M` on the point `v`:
`(M · (v;1))₁..₃`, i.e. `R·v + t` -/
theorem bound_vertex (m : Mat4 R) (v : V3 R) :
    bindVertex m v = (Mat4.mulVec m v.point).xyz ∧
    bindVertex m v = Mat3.mulVec (Mat4.rot3 m) v + Mat4.trans m := by
  constructor <;> apply V3.ext' <;>
    simp only [bindVertex, V3.add_def, V3.add, Mat3.vecMul, Mat3.mulVec, Mat4.rot3, Mat4.transpose,
      Mat4.trans, Mat4.mulVec, V4.xyz, V3.point] <;> grind

/-- the code's `n · (Mᵀ)[:3,:3]` is `R·n = (M · (n;0))₁..₃`: rotation/scale part only, no
translation and no renormalisation -/
theorem bound_normal (m : Mat4 R) (n : V3 R) :
    bindNormal m n = (Mat4.mulVec m n.dir).xyz ∧
    bindNormal m n = Mat3.mulVec (Mat4.rot3 m) n := by
  constructor <;> apply V3.ext' <;>
    simp only [bindNormal, Mat3.vecMul, Mat3.mulVec, Mat4.rot3, Mat4.transpose,
      Mat4.mulVec, V4.xyz, V3.dir] <;> grind

/-- binding with a product is binding in sequence (inner matrix first) when the inner matrix is
affine — so a vertex under the path `m₁ … m_k` is `m₁` applied to (`m₂` applied to (… `v`)) -/
theorem bound_vertex_compose (a b : Mat4 R) (hb : Mat4.Affine b) (v : V3 R) :
    bindVertex (a * b) v = bindVertex a (bindVertex b v) ∧
    bindNormal (a * b) v = bindNormal a (bindNormal b v) := by
  obtain ⟨h0, h1, h2, h3⟩ := hb
  constructor <;> apply V3.ext' <;>
    simp only [bindVertex, bindNormal, V3.add_def, V3.add, Mat3.vecMul, Mat4.rot3, Mat4.transpose,
      Mat4.trans, Mat4.mul_def, Mat4.mul, h0, h1, h2, h3] <;> grind

theorem affine_mul (a b : Mat4 R) (ha : Mat4.Affine a) (hb : Mat4.Affine b) : Mat4.Affine (a * b) := by
  obtain ⟨a0, a1, a2, a3⟩ := ha
  obtain ⟨b0, b1, b2, b3⟩ := hb
  simp only [Mat4.Affine, Mat4.mul_def, Mat4.mul, a0, a1, a2, a3, b0, b1, b2, b3]
  refine ⟨?_, ?_, ?_, ?_⟩ <;> grind

/-- the bound vertex of an instance whose path carries the affine matrices `ms` is the vertex
pushed through them from the innermost node outwards -/
theorem bound_vertex_along_path (ms : List (Mat4 R)) (h : ∀ m ∈ ms, Mat4.Affine m) (v : V3 R) :
    bindVertex (pathProd ms) v = ms.foldr bindVertex v := by
  rw [pathProd_eq]
  induction ms with
  | nil =>
    apply V3.ext' <;>
      simp only [List.foldr, bindVertex, V3.add_def, V3.add, Mat3.vecMul, Mat4.rot3, Mat4.transpose,
        Mat4.trans, Mat4.one_def, Mat4.one] <;> grind
  | cons m ms ih =>
    have hms : ∀ m ∈ ms, Mat4.Affine m := fun x hx => h x (List.mem_cons_of_mem _ hx)
    have haff : Mat4.Affine (ms.foldr (· * ·) 1) := by
      clear ih h
      induction ms with
      | nil => simp [Mat4.Affine, Mat4.one_def, Mat4.one]
      | cons x xs ihx =>
        exact affine_mul _ _ (hms x (List.mem_cons_self ..))
          (ihx (fun y hy => hms y (List.mem_cons_of_mem _ hy)))
    simp only [List.foldr]
    rw [(bound_vertex_compose m _ haff v).1, ih hms]

/-- binding leaves the index arrays alone and binds every primitive, in order -/
theorem index_unchanged (m : Mat4 R) (binds : List (String × Nat)) (g : List (Prim R)) :
    (bindGeometry m binds g).map (·.index) = g.map (·.index) ∧
    (bindGeometry m binds g).length = g.length := by
  simp [bindGeometry, bindPrim, Function.comp_def]

/-- bound lights and cameras: every position the code sets is the image of the origin,
`M · (0,0,0,1) = M[:3,3]`; every direction is the image of −Z, `M · (0,0,−1,0) = −M[:3,2]`;
every up vector is the image of +Y. Point lights get a position only, directional lights a
direction only, ambient lights neither; spot lights and cameras get all three. -/
theorem light_camera_pose (m : Mat4 R) :
    let origin : V3 R := ⟨0, 0, 0⟩
    let minusZ : V3 R := ⟨0, 0, -1⟩
    let plusY : V3 R := ⟨0, 1, 0⟩
    let pos := some (Mat4.mulVec m origin.point).xyz
    let dir := some (Mat4.mulVec m minusZ.dir).xyz
    let up := some (Mat4.mulVec m plusY.dir).xyz
    (bindLight .point m).position = pos ∧ (bindLight .point m).direction = none ∧
    (bindLight .spot m).position = pos ∧ (bindLight .spot m).direction = dir ∧
    (bindLight .spot m).up = up ∧
    (bindLight .directional m).position = none ∧ (bindLight .directional m).direction = dir ∧
    (bindLight .ambient m).position = none ∧ (bindLight .ambient m).direction = none ∧
    (bindCamera m).position = pos ∧ (bindCamera m).direction = dir ∧ (bindCamera m).up = up ∧
    pos = some (Mat4.trans m) ∧ dir = some (-(Mat4.col2 m)) := by
  simp only [bindLight, bindCamera, Option.some.injEq, true_and]
  refine ⟨?_, ?_, ?_, ?_, ?_, ?_, ?_, ?_, ?_, ?_⟩ <;> apply V3.ext' <;>
    simp only [V3.add_def, V3.add, V3.neg_def, V3.neg, Mat3.mulVec, Mat4.rot3, Mat4.trans, Mat4.col2,
      Mat4.col1, Mat4.mulVec, V4.xyz, V3.point, V3.dir] <;> grind

/-- a skin is bound with `M · bind_shape_matrix`; for an affine bind-shape matrix that is the
bind-shape transform first, then the scene transform -/
theorem skin_bind_shape (m bsm : Mat4 R) (binds : List (String × Nat)) (g : List (Prim R)) :
    bindSkin m bsm binds g = bindGeometry (m * bsm) binds g ∧
    (Mat4.Affine bsm → ∀ v, bindVertex (m * bsm) v = bindVertex m (bindVertex bsm v)) :=
  ⟨rfl, fun h v => (bound_vertex_compose m bsm h v).1⟩

end binding

/-! ## Materials -/

/-- the material of a primitive is the target of the LAST binding on this instance whose symbol
equals the primitive's symbol; `None` when no binding has it or the primitive has no symbol -/
theorem material_lookup {V : Type} (binds : List (String × V)) (s : String) :
    materialOf binds (some s) = ((binds.filter (fun b => b.1 = s)).getLast?).map (·.2) ∧
    materialOf binds none = none ∧
    ((∀ b ∈ binds, b.1 ≠ s) → materialOf binds (some s) = none) := by
  refine ⟨?_, ?_, ?_⟩
  · rw [materialOf_eq]; simp
  · rw [materialOf_eq]; simp
  · intro h
    rw [materialOf_eq]
    simp only [Option.map_eq_none_iff, List.getLast?_eq_none_iff, List.filter_eq_nil_iff]
    intro b hb; simpa using h b hb

/-- surplus bindings (symbols no primitive asks for) change nothing: dropping every binding for
other symbols, or adding one, leaves the material of symbol `s` as it was -/
theorem material_surplus_ignored {V : Type} (binds : List (String × V)) (s s' : String) (v : V)
    (h : s' ≠ s) :
    materialOf (binds.filter (fun b => b.1 = s)) (some s) = materialOf binds (some s) ∧
    materialOf (binds ++ [(s', v)]) (some s) = materialOf binds (some s) ∧
    materialOf ((s', v) :: binds) (some s) = materialOf binds (some s) := by
  simp [materialOf_eq, List.filter_filter, h]

/-- a later binding for the same symbol overrides an earlier one -/
theorem material_last_wins {V : Type} (binds : List (String × V)) (s : String) (v : V) :
    materialOf (binds ++ [(s, v)]) (some s) = some v := by
  simp [materialOf_eq]

/-- the material does not depend on the matrix, nor vertices on the binding table -/
theorem bind_independent {R : Type} [Add R] [Mul R] [Neg R] [OfNat R 0] [OfNat R 1]
    (m : Mat4 R) (binds : List (String × Nat)) (p : Prim R) :
    (bindPrim m binds p).material = materialOf binds p.sym ∧
    (bindPrim m binds p).vertex = p.vertex.map (List.map (bindVertex m)) ∧
    (bindPrim m binds p).normal = p.normal.map (List.map (bindNormal m)) ∧
    (bindPrim m binds p).index = p.index := ⟨rfl, rfl, rfl, rfl⟩

/-! ## Non-vacuity: concrete instances (tests, not theorems) -/

section examples

private def T (x y z : Int) : Mat4 Int := ⟨1, 0, 0, x,  0, 1, 0, y,  0, 0, 1, z,  0, 0, 0, 1⟩
private def S : Mat4 Int := ⟨0, -1, 0, 0,  1, 0, 0, 0,  0, 0, 2, 0,  0, 0, 0, 1⟩

/-- library node used twice, once nested under another library node -/
private def lib0 : SNode (Mat4 Int) Nat := .node S [.inst .geometry 7, .inst .light 9]
private def lib1 : SNode (Mat4 Int) Nat := .node (T 0 0 5) [.ref lib0, .inst .geometry 8]
private def roots : List (SNode (Mat4 Int) Nat) :=
  [.node (T 1 2 3) [.ref lib0, .node (T 0 1 0) [.ref lib1]], .ref lib1, .inst .geometry 6]

example : (sceneObjects .geometry roots).map (·.2) = [7, 7, 8, 7, 8, 6] := by decide
example : countInstList .geometry roots = 6 ∧ countInstList .light roots = 3 := by decide
example : Reach .light (roots[0]'(by decide)) [T 1 2 3, T 0 1 0, T 0 0 5, S] 9 :=
  .node (List.mem_cons_of_mem _ (List.mem_cons_self ..)) (.node (List.mem_cons_self ..) (.ref
    (.node (List.mem_cons_self ..) (.ref (.node (List.mem_cons_of_mem _ (List.mem_cons_self ..)) (.inst 9))))))
example : sceneObjects .light roots =
    [(T 1 2 3 * S, 9), ((T 1 2 3 * T 0 1 0) * T 0 0 5 * S, 9), (T 0 0 5 * S, 9)] := by decide
example : (sceneObjects .geometry roots).map (·.1) =
    (pathsList .geometry roots).map (fun mp => mp.1.foldr (· * ·) 1) := by decide
example : bindVertex (T 1 2 3 * S) ⟨1, 0, 0⟩ = ⟨1, 3, 3⟩ := by decide
example : bindNormal (T 1 2 3 * S) ⟨0, 0, 1⟩ = ⟨0, 0, 2⟩ := by decide  -- not renormalised
example : Mat4.Affine S ∧ Mat4.Affine (T 1 2 3) := ⟨⟨rfl, rfl, rfl, rfl⟩, ⟨rfl, rfl, rfl, rfl⟩⟩
example : materialOf [("a", 1), ("b", 2), ("a", 3), ("zz", 4)] (some "a") = some 3 := by decide
example : materialOf [("a", 1), ("b", 2)] (some "c") = none := by decide
example : (bindLight .spot (T 1 2 3 * S)).direction = some ⟨0, 0, -2⟩ := by decide
example : (bindCamera (T 1 2 3 * S)).position = some ⟨1, 2, 3⟩ := by decide

end examples

end Pyc.Props.C12
