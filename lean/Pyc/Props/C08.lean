/-
C08 — Load failures are DaeErrors, ignorable, and contained.
-/
import Pyc.Model.Errors

namespace Pyc.Props.C08
open Pyc.Err Pyc.Generated.ErrClasses

/-- every exception class the package defines derives from DaeError (table of this run), so masking
    DaeError masks them all, and masking a class masks itself -/
theorem all_dae_subclass : classes.all (fun r => subclass r.1 "DaeError") = true := by decide
theorem subclass_refl_table : classes.all (fun r => subclass r.1 r.1) = true := by decide
/-- the four load-time kinds are pairwise unrelated: masking one does not mask another -/
theorem kinds_unrelated :
    (["DaeIncompleteError", "DaeBrokenRefError", "DaeMalformedError", "DaeUnsupportedError"].all (fun a =>
      ["DaeIncompleteError", "DaeBrokenRefError", "DaeMalformedError", "DaeUnsupportedError"].all (fun b =>
        a == b || !subclass a b))) = true := by decide

variable {α : Type}

/-- handleError: the error is always recorded; it is re-raised iff no masked class is a superclass -/
theorem handleError_spec (mask : List String) (s : St α) (e : String) :
    (masked mask e = true → step mask s (.error e) = .ok { s with errors := s.errors ++ [e] }) ∧
    (masked mask e = false → step mask s (.error e) = .error (e, { s with errors := s.errors ++ [e] })) := by
  constructor <;> intro h <;> simp [step, h]

/-- containment: when every raised class is masked, the library holds exactly the items whose own
    load succeeds, each with its own value and in document order (nothing invented, nothing else
    lost), and every error is recorded, in order -/
theorem containment (mask : List String) : ∀ (items : List (Item α)) (s : St α),
    (∀ e, .error e ∈ items → masked mask e = true) →
    loadAll mask s items = .ok ⟨s.loaded ++ items.filterMap (fun i => match i with | .ok x => some x | .error _ => none),
                                 s.errors ++ items.filterMap (fun i => match i with | .ok _ => none | .error e => some e)⟩
  | [], s, _ => by simp [loadAll]
  | .ok x :: rest, s, h => by
    have ih := containment mask rest { s with loaded := s.loaded ++ [x] } (fun e he => h e (List.mem_cons_of_mem _ he))
    simp only [loadAll, step, ih]
    simp
  | .error e :: rest, s, h => by
    have hm := h e (List.mem_cons_self ..)
    have ih := containment mask rest { s with errors := s.errors ++ [e] } (fun e' he => h e' (List.mem_cons_of_mem _ he))
    simp only [loadAll, step, hm, if_true, ih]
    simp

/-- classes that are not listed still abort the load: the first unmasked error propagates, after
    having been recorded, and nothing after it is loaded -/
theorem unlisted_aborts (mask : List String) (pre post : List (Item α)) (e : String) (s : St α)
    (hpre : ∀ e', .error e' ∈ pre → masked mask e' = true) (he : masked mask e = false) :
    ∃ s', loadAll mask s (pre ++ .error e :: post) = .error (e, s') ∧ s'.errors.getLast? = some e := by
  have h1 := containment mask pre s hpre
  have key : ∀ (items : List (Item α)) (s0 s1 : St α), loadAll mask s0 items = .ok s1 →
      ∀ tail, loadAll mask s0 (items ++ tail) = loadAll mask s1 tail := by
    intro items
    induction items with
    | nil => intro s0 s1 h tail; simp [loadAll] at h; simp [h]
    | cons it rest ih =>
      intro s0 s1 h tail
      simp only [loadAll, List.cons_append] at h ⊢
      cases hs : step mask s0 it with
      | ok s' => rw [hs] at h; simp only at h ⊢; exact ih s' s1 h tail
      | error r => rw [hs] at h; cases h
  rw [key pre s _ h1]
  simp only [loadAll, step, he]
  refine ⟨_, rfl, ?_⟩
  simp

/-- clearing the mask restores strictness: with an empty mask the first error aborts -/
theorem clear_mask (mask : List String) (e : String) (s : St α) :
    ignoreErrors mask [none] = [] ∧ step (ignoreErrors mask [none]) s (.error e) = .error (e, { s with errors := s.errors ++ [e] }) := by
  simp [ignoreErrors, step, masked]

/-- no object is invented: whatever ends up in a library is the value of one of its items -/
theorem no_invention (mask : List String) (items : List (Item α)) (s s' : St α)
    (h : loadAll mask s items = .ok s') : ∀ x ∈ s'.loaded, x ∈ s.loaded ∨ .ok x ∈ items := by
  induction items generalizing s with
  | nil => simp [loadAll] at h; subst h; intro x hx; exact Or.inl hx
  | cons it rest ih =>
    simp only [loadAll] at h
    cases hs : step mask s it with
    | error r => rw [hs] at h; cases h
    | ok s1 =>
      rw [hs] at h
      intro x hx
      rcases ih s1 h x hx with h1 | h1
      · cases it with
        | ok y =>
          simp [step] at hs; subst hs
          rcases List.mem_append.mp h1 with h2 | h2
          · exact Or.inl h2
          · simp at h2; subst h2; exact Or.inr (List.mem_cons_self ..)
        | error e =>
          simp only [step] at hs
          split at hs
          · cases hs; exact Or.inl h1
          · cases hs
      · exact Or.inr (List.mem_cons_of_mem _ h1)

/-- an object of a later library that is not damaged itself and whose references all point to
    objects that were loaded is loaded, with the value it has in the undamaged document -/
theorem independent_loaded (env : List String) (d : Dep) (hd : d.damaged = none)
    (hdeps : ∀ r ∈ d.deps, r ∈ env) : loadDep env d = .ok d.id := by
  have : d.deps.all (fun r => env.contains r) = true := by
    simp only [List.all_eq_true]; intro r hr; simpa using hdeps r hr
  simp only [loadDep, hd]
  rw [this]
  rfl

/-- … and one that depends on a missing object is a broken reference, not a binding to another object -/
theorem dependent_is_broken_ref (env : List String) (d : Dep) (hd : d.damaged = none)
    (r : String) (hr : r ∈ d.deps) (hmiss : r ∉ env) : loadDep env d = .error "DaeBrokenRefError" := by
  have : d.deps.all (fun r => env.contains r) = false := by
    simp only [List.all_eq_false]; exact ⟨r, hr, by simpa using hmiss⟩
  simp only [loadDep, hd]
  rw [this]
  rfl

/-! ### non-vacuity -/
example : loadAll ["DaeBrokenRefError"] ⟨[], []⟩ [.ok 1, .error "DaeBrokenRefError", .ok 3] = .ok ⟨[1, 3], ["DaeBrokenRefError"]⟩ := by rfl
example : loadAll ["DaeError"] ⟨[], []⟩ [.error "DaeMalformedError", .ok 3] = .ok ⟨[3], ["DaeMalformedError"]⟩ := by rfl
example : loadAll ["DaeIncompleteError"] ⟨[], []⟩ [.ok 1, .error "DaeMalformedError", .ok 3]
    = .error ("DaeMalformedError", ⟨[1], ["DaeMalformedError"]⟩) := by rfl

end Pyc.Props.C08
