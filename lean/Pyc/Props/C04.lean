/-
C04 — Every written document is schema-valid COLLADA 1.4.1 (element structure).
For each element kind the writer produces, the sequence of child elements it emits — for EVERY number of
sources, primitives, inputs, transforms, children, parameters — is in the language of the content model
that translators/xsd_table.py derived from the shipped schema on this run.
Attribute values, identity constraints and simple types are outside these theorems (Xerces checks them).
-/
import Pyc.Proofs.Schema
import Pyc.Generated.EffectTables

namespace Pyc.Props.C04
open Pyc.Schema Pyc.Generated.SchemaTable RegularExpression

private theorem optChar (p : String) (b : Bool) : (if b then [p] else []) ∈ (1 + char p).matches' := by
  cases b
  · exact mem_opt_nil
  · exact mem_opt_some (mem_char p)

private theorem starAlt {P : RegularExpression String} (l allowed : List String)
    (hl : ∀ a ∈ l, a ∈ allowed) (hP : ∀ a ∈ allowed, [a] ∈ P.matches') : l ∈ (star P).matches' :=
  mem_star_of_forall l (fun a ha => hP a (hl a ha))

def primitiveTags : List String := ["lines", "linestrips", "polygons", "polylist", "triangles", "trifans", "tristrips"]

/-- `<mesh>`: any positive number of sources, `<vertices>`, any primitives, any number of extras -/
theorem emit_mesh_valid (nsrc : Nat) (prims : List String) (nextra : Nat) (hs : 0 < nsrc)
    (hp : ∀ p ∈ prims, p ∈ primitiveTags) : cm_geometry_mesh.rmatch (emitMesh nsrc prims nextra) = true := by
  apply rmatch_of_mem
  obtain ⟨n, rfl⟩ : ∃ n, nsrc = n + 1 := ⟨nsrc - 1, by omega⟩
  have hprims : prims ∈ (star (altOf primitiveTags)).matches' :=
    mem_star_of_forall prims (fun a ha => mem_altOf primitiveTags a (hp a ha))
  have := mem_mul (mem_mul (mem_mul (mem_mul (mem_char "source") (mem_star_replicate "source" n)) (mem_char "vertices")) hprims)
    (mem_star_replicate "extra" nextra)
  simpa [emitMesh, cm_geometry_mesh, List.replicate_succ, List.append_assoc, altOf, primitiveTags] using this

def transformTags : List String := ["lookat", "matrix", "rotate", "scale", "skew", "translate"]

/-- how many children of each kind a `<node>` has, in the order the user keeps them (schema order) -/
def nodeChildren (ncam nctl ngeo nlight ninode nnode nextra : Nat) : List String :=
  List.replicate ncam "instance_camera" ++ List.replicate nctl "instance_controller" ++ List.replicate ngeo "instance_geometry"
  ++ List.replicate nlight "instance_light" ++ List.replicate ninode "instance_node" ++ List.replicate nnode "node"
  ++ List.replicate nextra "extra"

/-- `<node>` (under a visual scene, a library or another node): any transforms in any order, then the
    children in schema order -/
theorem emit_node_valid (ts : List String) (ncam nctl ngeo nlight ninode nnode nextra : Nat)
    (ht : ∀ t ∈ ts, t ∈ transformTags) :
    cm_visual_scene_node.rmatch (emitNode ts (nodeChildren ncam nctl ngeo nlight ninode nnode nextra)) = true ∧
    cm_node_node = cm_visual_scene_node ∧ cm_library_nodes_node = cm_visual_scene_node := by
  refine ⟨?_, rfl, rfl⟩
  apply rmatch_of_mem
  have hts : ts ∈ (star (altOf transformTags)).matches' :=
    mem_star_of_forall ts (fun a ha => mem_altOf transformTags a (ht a ha))
  have := mem_mul (mem_mul (mem_mul (mem_mul (mem_mul (mem_mul (mem_mul (mem_mul
    (mem_opt_nil (P := char "asset")) hts) (mem_star_replicate "instance_camera" ncam)) (mem_star_replicate "instance_controller" nctl))
    (mem_star_replicate "instance_geometry" ngeo)) (mem_star_replicate "instance_light" nlight)) (mem_star_replicate "instance_node" ninode))
    (mem_star_replicate "node" nnode)) (mem_star_replicate "extra" nextra)
  simpa [emitNode, nodeChildren, cm_visual_scene_node, List.append_assoc, altOf, transformTags] using this

/-- `<source>`: the array element followed by `<technique_common>` -/
theorem emit_source_valid (k : String) (hk : k ∈ ["float_array", "IDREF_array", "Name_array"]) :
    cm_mesh_source.rmatch (emitSource k) = true := by
  apply rmatch_of_mem
  have harr : [k] ∈ (1 + char "IDREF_array" + char "Name_array" + char "bool_array" + char "float_array" + char "int_array").matches' := by
    simp only [List.mem_cons, List.mem_nil_iff, or_false] at hk
    rcases hk with rfl | rfl | rfl
    · exact mem_add_left (mem_add_right (mem_char _))
    · exact mem_add_left (mem_add_left (mem_add_left (mem_add_left (mem_add_right (mem_char _)))))
    · exact mem_add_left (mem_add_left (mem_add_left (mem_add_right (mem_char _))))
  have := mem_mul (mem_mul (mem_mul (mem_opt_nil (P := char "asset")) harr) (mem_opt_some (mem_char "technique_common")))
    (mem_star_replicate "technique" 0)
  simpa [emitSource, cm_mesh_source] using this

/-- `<triangles>` / `<lines>`: inputs then one `<p>`; `<polylist>`: inputs, `<vcount>`, `<p>`; `<polygons>`: inputs then any number of `<p>` -/
theorem emit_prims_valid (ninputs np : Nat) :
    cm_mesh_triangles.rmatch (emitPrim ninputs false 1) = true ∧ cm_mesh_lines.rmatch (emitPrim ninputs false 1) = true ∧
    cm_mesh_polylist.rmatch (emitPrim ninputs true 1) = true ∧ cm_mesh_polygons.rmatch (emitPrim ninputs false np) = true := by
  refine ⟨?_, ?_, ?_, ?_⟩
  · apply rmatch_of_mem
    have := mem_mul (mem_mul (mem_star_replicate "input" ninputs) (mem_opt_some (mem_char "p"))) (mem_star_replicate "extra" 0)
    simpa [emitPrim, cm_mesh_triangles] using this
  · apply rmatch_of_mem
    have := mem_mul (mem_mul (mem_star_replicate "input" ninputs) (mem_opt_some (mem_char "p"))) (mem_star_replicate "extra" 0)
    simpa [emitPrim, cm_mesh_lines] using this
  · apply rmatch_of_mem
    have := mem_mul (mem_mul (mem_mul (mem_star_replicate "input" ninputs) (mem_opt_some (mem_char "vcount"))) (mem_opt_some (mem_char "p")))
      (mem_star_replicate "extra" 0)
    simpa [emitPrim, cm_mesh_polylist, List.append_assoc] using this
  · apply rmatch_of_mem
    have hp : List.replicate np "p" ∈ (star (char "p" + char "ph")).matches' :=
      mem_star_of_forall _ (fun a ha => by rw [List.eq_of_mem_replicate ha]; exact mem_add_left (mem_char _))
    have := mem_mul (mem_mul (mem_star_replicate "input" ninputs) hp) (mem_star_replicate "extra" 0)
    simpa [emitPrim, cm_mesh_polygons] using this

/-- `<visual_scene>` with at least one node; `<bind_material>/<technique_common>` with at least one binding -/
theorem emit_scene_valid (n : Nat) :
    cm_library_visual_scenes_visual_scene.rmatch (emitLibrary "node" (n + 1)) = true ∧
    cm_bind_material_technique_common.rmatch (emitLibrary "instance_material" (n + 1)) = true := by
  constructor
  · apply rmatch_of_mem
    have := mem_mul (mem_mul (mem_mul (mem_mul (mem_opt_nil (P := char "asset")) (mem_char "node")) (mem_star_replicate "node" n))
      (mem_star_replicate "evaluate_scene" 0)) (mem_star_replicate "extra" 0)
    simpa [emitLibrary, cm_library_visual_scenes_visual_scene, List.replicate_succ] using this
  · apply rmatch_of_mem
    have := mem_mul (mem_char "instance_material") (mem_star_replicate "instance_material" n)
    simpa [emitLibrary, cm_bind_material_technique_common, List.replicate_succ] using this

def libraryTags : List String := ["library_animations", "library_animation_clips", "library_cameras", "library_controllers",
  "library_geometries", "library_effects", "library_force_fields", "library_images", "library_lights", "library_materials",
  "library_nodes", "library_physics_materials", "library_physics_models", "library_physics_scenes", "library_visual_scenes"]

/-- `<COLLADA>`: `<asset>` first (save() inserts it at position 0 and new libraries right after it),
    any libraries in any order, `<scene>`, kept extras last -/
theorem emit_root_valid (libs : List String) (scene : Bool) (nextra : Nat) (hl : ∀ l ∈ libs, l ∈ libraryTags) :
    cm_root_COLLADA.rmatch (emitRoot libs scene nextra) = true := by
  apply rmatch_of_mem
  have hlibs : libs ∈ (star (altOf libraryTags)).matches' :=
    mem_star_of_forall libs (fun a ha => mem_altOf libraryTags a (hl a ha))
  have hscene : (if scene then ["scene"] else []) ∈ (1 + char "scene").matches' := optChar "scene" scene
  have := mem_mul (mem_mul (mem_mul (mem_char "asset") hlibs) hscene) (mem_star_replicate "extra" nextra)
  simpa [emitRoot, cm_root_COLLADA, List.append_assoc, altOf, libraryTags] using this

/-- the shader elements: whatever subset of the supported properties has a value, emitted in the order
    of `Effect.supported` as it stands in the source, is accepted by `<phong>` and `<blinn>`;
    by `<lambert>` when specular and shininess are unset; by `<constant>` when also ambient and diffuse are -/
theorem emit_shader_valid (h : String → Bool) :
    cm_technique_phong.rmatch (emitShader Pyc.Generated.EffectTables.supported h) = true ∧
    cm_technique_blinn.rmatch (emitShader Pyc.Generated.EffectTables.supported h) = true ∧
    (h "specular" = false → h "shininess" = false →
      cm_technique_lambert.rmatch (emitShader Pyc.Generated.EffectTables.supported h) = true) ∧
    (h "ambient" = false → h "diffuse" = false → h "specular" = false → h "shininess" = false →
      cm_technique_constant.rmatch (emitShader Pyc.Generated.EffectTables.supported h) = true) := by
  have key : emitShader Pyc.Generated.EffectTables.supported h =
      (if h "emission" then ["emission"] else []) ++ (if h "ambient" then ["ambient"] else []) ++ (if h "diffuse" then ["diffuse"] else [])
      ++ (if h "specular" then ["specular"] else []) ++ (if h "shininess" then ["shininess"] else [])
      ++ (if h "reflective" then ["reflective"] else []) ++ (if h "reflectivity" then ["reflectivity"] else [])
      ++ (if h "transparent" then ["transparent"] else []) ++ (if h "transparency" then ["transparency"] else [])
      ++ (if h "index_of_refraction" then ["index_of_refraction"] else []) := by
    simp [emitShader, Pyc.Generated.EffectTables.supported, List.flatMap_cons, List.append_assoc]
  have full := mem_mul (mem_mul (mem_mul (mem_mul (mem_mul (mem_mul (mem_mul (mem_mul (mem_mul
    (optChar "emission" (h "emission")) (optChar "ambient" (h "ambient"))) (optChar "diffuse" (h "diffuse")))
    (optChar "specular" (h "specular"))) (optChar "shininess" (h "shininess"))) (optChar "reflective" (h "reflective")))
    (optChar "reflectivity" (h "reflectivity"))) (optChar "transparent" (h "transparent"))) (optChar "transparency" (h "transparency")))
    (optChar "index_of_refraction" (h "index_of_refraction"))
  refine ⟨?_, ?_, ?_, ?_⟩
  · apply rmatch_of_mem; rw [key]; exact full
  · apply rmatch_of_mem; rw [key]; exact full
  · intro h1 h2
    apply rmatch_of_mem
    rw [key, h1, h2]
    have := mem_mul (mem_mul (mem_mul (mem_mul (mem_mul (mem_mul (mem_mul
      (optChar "emission" (h "emission")) (optChar "ambient" (h "ambient"))) (optChar "diffuse" (h "diffuse")))
      (optChar "reflective" (h "reflective"))) (optChar "reflectivity" (h "reflectivity"))) (optChar "transparent" (h "transparent")))
      (optChar "transparency" (h "transparency"))) (optChar "index_of_refraction" (h "index_of_refraction"))
    simpa [cm_technique_lambert] using this
  · intro h1 h2 h3 h4
    apply rmatch_of_mem
    rw [key, h1, h2, h3, h4]
    have := mem_mul (mem_mul (mem_mul (mem_mul (mem_mul
      (optChar "emission" (h "emission")) (optChar "reflective" (h "reflective"))) (optChar "reflectivity" (h "reflectivity")))
      (optChar "transparent" (h "transparent"))) (optChar "transparency" (h "transparency")))
      (optChar "index_of_refraction" (h "index_of_refraction"))
    simpa [cm_technique_constant] using this

/-- lights: colour first, then the optional values that are set in schema order (which is where
    save() inserts a newly set value); a point light's zfar is not part of the 1.4.1 schema -/
theorem emit_light_valid (s : String → Bool) :
    cm_technique_common_point.rmatch (emitLight ["constant_attenuation", "linear_attenuation", "quadratic_attenuation"] s) = true ∧
    cm_technique_common_spot.rmatch (emitLight ["constant_attenuation", "linear_attenuation", "quadratic_attenuation",
      "falloff_angle", "falloff_exponent"] s) = true ∧
    cm_technique_common_directional.rmatch (emitLight [] s) = true ∧ cm_technique_common_ambient.rmatch (emitLight [] s) = true := by
  refine ⟨?_, ?_, ?_, ?_⟩
  · apply rmatch_of_mem
    have := mem_mul (mem_mul (mem_mul (mem_char "color") (optChar "constant_attenuation" (s "constant_attenuation")))
      (optChar "linear_attenuation" (s "linear_attenuation"))) (optChar "quadratic_attenuation" (s "quadratic_attenuation"))
    have e : emitLight ["constant_attenuation", "linear_attenuation", "quadratic_attenuation"] s =
        ["color"] ++ (if s "constant_attenuation" then ["constant_attenuation"] else [])
        ++ (if s "linear_attenuation" then ["linear_attenuation"] else [])
        ++ (if s "quadratic_attenuation" then ["quadratic_attenuation"] else []) := by
      simp [emitLight, List.flatMap_cons, List.append_assoc]
    rw [e]; exact this
  · apply rmatch_of_mem
    have := mem_mul (mem_mul (mem_mul (mem_mul (mem_mul (mem_char "color") (optChar "constant_attenuation" (s "constant_attenuation")))
      (optChar "linear_attenuation" (s "linear_attenuation"))) (optChar "quadratic_attenuation" (s "quadratic_attenuation")))
      (optChar "falloff_angle" (s "falloff_angle"))) (optChar "falloff_exponent" (s "falloff_exponent"))
    have e : emitLight ["constant_attenuation", "linear_attenuation", "quadratic_attenuation", "falloff_angle", "falloff_exponent"] s =
        ["color"] ++ (if s "constant_attenuation" then ["constant_attenuation"] else [])
        ++ (if s "linear_attenuation" then ["linear_attenuation"] else [])
        ++ (if s "quadratic_attenuation" then ["quadratic_attenuation"] else [])
        ++ (if s "falloff_angle" then ["falloff_angle"] else []) ++ (if s "falloff_exponent" then ["falloff_exponent"] else []) := by
      simp [emitLight, List.flatMap_cons, List.append_assoc]
    rw [e]; exact this
  · apply rmatch_of_mem; simpa [emitLight, cm_technique_common_directional] using mem_char "color"
  · apply rmatch_of_mem; simpa [emitLight, cm_technique_common_ambient] using mem_char "color"

/-! ### non-vacuity: concrete documents through the executable validator -/
example : valid "geometry" (.node "mesh" [] [.node "source" ["id"] [.node "float_array" ["id", "count"] [], .node "technique_common" [] [.node "accessor" ["source", "count"] []]],
    .node "vertices" ["id"] [.node "input" ["semantic", "source"] []], .node "triangles" ["count"] [.node "input" ["semantic", "source", "offset"] [], .node "p" [] []]]) = true := by
  decide
example : valid "geometry" (.node "mesh" [] [.node "vertices" ["id"] [.node "input" ["semantic", "source"] []]]) = false := by decide
example : cm_technique_lambert.rmatch ["emission", "specular"] = false := by decide

end Pyc.Props.C04
