/-
C08, containment at document level: across the libraries that refer to each other by id, with every raised
class masked, an object is loaded EXACTLY when it is good — its own element is undamaged and every object it
refers to is good — a notion that does not mention load order, masks or errors.
Model: Pyc/Model/DocLoad.lean.
-/
import Pyc.Model.DocLoad
import Pyc.Generated.LoadOrder

namespace Pyc.Props.C08
open Pyc.DocLoad Pyc.Err

/-- an object that neither is damaged nor depends, directly or through other objects, on a damaged or missing one -/
inductive Good (libs : List Lib) : String × String → Prop where
  | mk (l : Lib) (hl : l ∈ libs) (it : Entry) (hit : it ∈ l.items) (hd : it.damaged = none)
      (h : ∀ r ∈ it.refs, Good libs r) : Good libs (l.name, it.id)

private theorem loadLib_sound (libs : List Lib) (mask : List String) (l : Lib) (hl : l ∈ libs) :
    ∀ (rest : List Entry) (s s' : DState), (∀ it ∈ rest, it ∈ l.items) → (∀ p ∈ s.env, Good libs p) →
      loadLib mask l.name s rest = .ok s' → ∀ p ∈ s'.env, Good libs p
  | [], s, s', _, hs, h => by simp [loadLib] at h; subst h; exact hs
  | it :: rest, s, s', hsub, hs, h => by
    simp only [loadLib] at h
    cases hi : loadItem s.env it with
    | ok id =>
      rw [hi] at h
      apply loadLib_sound libs mask l hl rest _ s' (fun x hx => hsub x (List.mem_cons_of_mem _ hx)) _ h
      intro p hp
      simp only [List.mem_append, List.mem_singleton] at hp
      rcases hp with hp | hp
      · exact hs p hp
      · subst hp
        unfold loadItem at hi
        cases hd : it.damaged with
        | some e => simp only [hd] at hi; split at hi <;> cases hi
        | none =>
          simp only [hd] at hi
          split at hi
          · next hall =>
            cases hi
            refine Good.mk l hl it (hsub it (List.mem_cons_self ..)) hd ?_
            intro r hr
            simp only [List.all_eq_true] at hall
            exact hs r (by simpa using hall r hr)
          · cases hi
    | error e =>
      rw [hi] at h
      simp only at h
      split at h
      · exact loadLib_sound libs mask l hl rest ⟨s.env, s.errors ++ [e]⟩ s' (fun x hx => hsub x (List.mem_cons_of_mem _ hx)) hs h
      · cases h

private theorem loadDoc_sound (libs : List Lib) (mask : List String) :
    ∀ (rest : List Lib) (s s' : DState), (∀ l ∈ rest, l ∈ libs) → (∀ p ∈ s.env, Good libs p) →
      loadDoc mask s rest = .ok s' → ∀ p ∈ s'.env, Good libs p
  | [], s, s', _, hs, h => by simp [loadDoc] at h; subst h; exact hs
  | l :: rest, s, s', hsub, hs, h => by
    simp only [loadDoc] at h
    cases hl : loadLib mask l.name s l.items with
    | error r => rw [hl] at h; cases h
    | ok s1 =>
      rw [hl] at h
      have h1 := loadLib_sound libs mask l (hsub l (List.mem_cons_self ..)) l.items s s1 (fun _ h => h) hs hl
      exact loadDoc_sound libs mask rest s1 s' (fun x hx => hsub x (List.mem_cons_of_mem _ hx)) h1 h

/-- nothing is invented and nothing damaged slips in: whatever the mask, every loaded object is good -/
theorem loaded_are_good (libs : List Lib) (mask : List String) (s : DState)
    (h : loadDoc mask ⟨[], []⟩ libs = .ok s) : ∀ p ∈ s.env, Good libs p :=
  loadDoc_sound libs mask libs ⟨[], []⟩ s (fun _ h => h) (by intro p hp; simp at hp) h

/-! completeness needs what `deps_precede` (C07) establishes for the real load order: an object only refers to
    libraries that are loaded before its own -/

/-- `OrderedFrom done libs`: library names are distinct and not among `done`, and every reference of an item names a
    library that comes earlier (in `done` or before it in `libs`) -/
def OrderedFrom : List String → List Lib → Prop
  | _, [] => True
  | done, l :: rest => (∀ it ∈ l.items, ∀ r ∈ it.refs, r.1 ∈ done) ∧ l.name ∉ done ∧ OrderedFrom (done ++ [l.name]) rest

private theorem names_fresh : ∀ (rest : List Lib) (done : List String), OrderedFrom done rest →
    ∀ l ∈ rest, l.name ∉ done
  | [], _, _, l, hl => by simp at hl
  | x :: rest, done, h, l, hl => by
    rcases List.mem_cons.mp hl with e | hin
    · subst e; exact h.2.1
    · intro hd
      exact names_fresh rest _ h.2.2 l hin (by simp [hd])

private theorem good_inv {libs : List Lib} {p : String × String} (h : Good libs p) :
    ∃ l ∈ libs, ∃ it ∈ l.items, p = (l.name, it.id) ∧ it.damaged = none ∧ ∀ r ∈ it.refs, Good libs r := by
  cases h with
  | mk l hl it hit hd h => exact ⟨l, hl, it, hit, rfl, hd, h⟩

private theorem loadLib_mono (mask : List String) (name : String) :
    ∀ (rest : List Entry) (s s' : DState), loadLib mask name s rest = .ok s' → ∀ p ∈ s.env, p ∈ s'.env
  | [], s, s', h => by simp [loadLib] at h; subst h; exact fun _ h => h
  | it :: rest, s, s', h => by
    simp only [loadLib] at h
    cases hi : loadItem s.env it with
    | ok id =>
      rw [hi] at h
      intro p hp
      exact loadLib_mono mask name rest _ s' h p (by simp [hp])
    | error e =>
      rw [hi] at h
      simp only at h
      split at h
      · exact loadLib_mono mask name rest ⟨s.env, s.errors ++ [e]⟩ s' h
      · cases h

/-- within one library: an undamaged item whose references are all loaded already gets loaded -/
theorem item_loaded (mask : List String) (name : String) :
    ∀ (rest : List Entry) (s s' : DState), loadLib mask name s rest = .ok s' →
      ∀ it ∈ rest, it.damaged = none → (∀ r ∈ it.refs, r ∈ s.env) → (name, it.id) ∈ s'.env
  | [], s, s', _, it, hit, _, _ => by simp at hit
  | x :: rest, s, s', h, it, hit, hd, hr => by
    simp only [loadLib] at h
    rcases List.mem_cons.mp hit with e | hin
    · subst e
      have hall : it.refs.all (fun r => s.env.contains r) = true := by
        simp only [List.all_eq_true]; intro r hr'; simpa using hr r hr'
      have hi : loadItem s.env it = .ok it.id := by
        unfold loadItem; rw [hd]; simp only; rw [if_pos hall]
      rw [hi] at h
      exact loadLib_mono mask name rest _ s' h _ (by simp)
    · cases hi : loadItem s.env x with
      | ok id =>
        rw [hi] at h
        exact item_loaded mask name rest _ s' h it hin hd (fun r hr' => by simp [hr r hr'])
      | error e =>
        rw [hi] at h
        simp only at h
        split at h
        · exact item_loaded mask name rest ⟨s.env, s.errors ++ [e]⟩ s' h it hin hd hr
        · cases h

private theorem loadDoc_complete (libs : List Lib) (mask : List String) :
    ∀ (rest : List Lib) (doneL : List Lib) (s s' : DState), libs = doneL ++ rest →
      OrderedFrom (doneL.map (·.name)) rest →
      (∀ p, Good libs p → p.1 ∈ doneL.map (·.name) → p ∈ s.env) →
      loadDoc mask s rest = .ok s' → ∀ p, Good libs p → p ∈ s'.env
  | [], doneL, s, s', hl, _, hinv, h, p, hg => by
    simp [loadDoc] at h; subst h
    obtain ⟨l, hlm, it, _, rfl, _, _⟩ := good_inv hg
    apply hinv _ hg
    simp only [List.append_nil] at hl
    subst hl
    exact List.mem_map.mpr ⟨l, hlm, rfl⟩
  | l :: rest, doneL, s, s', hl, hord, hinv, h, p, hg => by
    simp only [loadDoc] at h
    cases h1 : loadLib mask l.name s l.items with
    | error r => rw [h1] at h; cases h
    | ok s1 =>
      rw [h1] at h
      refine loadDoc_complete libs mask rest (doneL ++ [l]) s1 s' (by simp [hl]) (by simpa using hord.2.2) ?_ h p hg
      intro q hq hqn
      simp only [List.map_append, List.map_cons, List.map_nil, List.mem_append, List.mem_singleton] at hqn
      rcases hqn with hqn | hqn
      · exact loadLib_mono mask l.name l.items s s1 h1 q (hinv q hq hqn)
      · obtain ⟨l', hl', it, hit, rfl, hd, hr⟩ := good_inv hq
        simp only at hqn
        -- names are distinct: the library that makes q good is l itself
        have hll : l' = l := by
          rw [hl] at hl'
          simp only [List.mem_append, List.mem_cons] at hl'
          rcases hl' with hd' | rfl | hr'
          · exact absurd (hqn ▸ List.mem_map.mpr ⟨l', hd', rfl⟩) hord.2.1
          · rfl
          · exact absurd (by simp [hqn]) (names_fresh rest _ hord.2.2 l' hr')
        subst hll
        rw [hqn]
        rw [← hqn]
        apply item_loaded mask l'.name l'.items s s1 h1 it hit hd
        intro r hrr
        exact hinv r (hr r hrr) (hord.1 it hit r hrr)

/-- **containment, document level.** With the libraries in dependency order (what C07's `deps_precede` shows for
    the real load order) and the load running to completion (every raised class masked), the loaded objects are
    exactly the good ones: a damaged or missing object takes its dependants — direct and indirect — with it and
    nothing else, whatever the order of items inside the libraries, the mask, or the errors recorded. -/
theorem loaded_iff_good (libs : List Lib) (mask : List String) (s : DState) (hord : OrderedFrom [] libs)
    (h : loadDoc mask ⟨[], []⟩ libs = .ok s) (p : String × String) : p ∈ s.env ↔ Good libs p :=
  ⟨loaded_are_good libs mask s h p,
   loadDoc_complete libs mask libs [] ⟨[], []⟩ s rfl (by simpa using hord) (by intro p _ hp; simp at hp) h p⟩

/-- the good set does not mention the order of items: permuting the items inside libraries, or which classes are
    masked (as long as the load completes), cannot change what is loaded -/
theorem loaded_independent_of_mask (libs : List Lib) (m1 m2 : List String) (s1 s2 : DState) (hord : OrderedFrom [] libs)
    (h1 : loadDoc m1 ⟨[], []⟩ libs = .ok s1) (h2 : loadDoc m2 ⟨[], []⟩ libs = .ok s2) (p : String × String) :
    p ∈ s1.env ↔ p ∈ s2.env := by
  rw [loaded_iff_good libs m1 s1 hord h1, loaded_iff_good libs m2 s2 hord h2]

/-- the libraries whose objects refer to objects of other libraries by plain id lookup, in the order
    `Collada.__init__` loads them (generated from the source); nodes and scenes resolve through the retry loop of
    Pyc/Model/Refs.lean and are not part of this model -/
def docLibNames : List String :=
  Pyc.Generated.LoadOrder.order.filter (fun n => n != "nodes" && n != "scenes" && n != "animations")

def docLibs (items : String → List Entry) : List Lib := docLibNames.map (fun n => ⟨n, items n⟩)

/-- a document whose objects look ids up only where the generated dependency table says their loaders do -/
def Conforms (items : String → List Entry) : Prop :=
  ∀ n, ∀ it ∈ items n, ∀ r ∈ it.refs, (n, r.1) ∈ Pyc.Generated.LoadOrder.deps

/-- the load order of the source puts every library behind the libraries its loaders look ids up in -/
theorem docLibNames_eq : docLibNames = ["images", "effects", "materials", "geometries", "controllers", "lights", "cameras"] := by
  decide

theorem real_order_ordered (items : String → List Entry) (h : Conforms items) : OrderedFrom [] (docLibs items) := by
  have hd : ∀ n it, it ∈ items n → ∀ r ∈ it.refs, (n, r.1) ∈ Pyc.Generated.LoadOrder.deps := fun n it hit r hr => h n it hit r hr
  simp only [Pyc.Generated.LoadOrder.deps] at hd
  simp only [docLibs, docLibNames_eq, List.map, OrderedFrom, List.nil_append, List.cons_append, and_true]
  and_intros <;>
    first
    | decide
    | (intro it hit r hr
       have := hd _ it hit r hr
       simp at this <;> simp [this])

/-- containment for the real load order: whatever the document, as long as its objects refer where the loaders
    look, what a completed load holds is exactly the good objects -/
theorem real_loaded_iff_good (items : String → List Entry) (hc : Conforms items) (mask : List String) (s : DState)
    (h : loadDoc mask ⟨[], []⟩ (docLibs items) = .ok s) (p : String × String) : p ∈ s.env ↔ Good (docLibs items) p :=
  loaded_iff_good _ mask s (real_order_ordered items hc) h p

def exLibs : List Lib := [
  ⟨"images", [⟨"i1", some "DaeMalformedError", true, []⟩, ⟨"i2", none, true, []⟩]⟩,
  ⟨"effects", [⟨"e1", none, true, [("images", "i1")]⟩, ⟨"e2", none, true, [("images", "i2")]⟩]⟩,
  ⟨"materials", [⟨"m1", none, true, [("effects", "e1")]⟩, ⟨"m2", none, true, [("effects", "e2")]⟩]⟩]

/-- non-vacuity: image ← effect ← material, one damaged image: the effect and material using it go, the others stay -/
example : ((loadDoc ["DaeError"] ⟨[], []⟩ exLibs).toOption.map (fun s => (s.env, s.errors.length)))
    = some ([("images", "i2"), ("effects", "e2"), ("materials", "m2")], 3) := by decide

example : OrderedFrom [] exLibs := by simp [OrderedFrom, exLibs]

end Pyc.Props.C08
