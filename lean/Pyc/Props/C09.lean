/-
C09 — Primitive indices are in range and arrays have the documented shapes.
Property theorems only; helper lemmas are in Pyc/Proofs/Validate.lean, the model in
Pyc/Model/Validate.lean (`construct`).  All statements hold for every number of inputs, every
offset layout (shared, distinct, gapped), every source length including 0 and every index
stream; nothing is bounded.
-/
import Pyc.Proofs.Validate

namespace Pyc.Props.C09
open Pyc.Validate

/-- `source[index]` cannot fail: every entry is a row of the source -/
def InRange (v : View) : Prop := ∀ e ∈ v.flat, e < v.src.rows

/-- the documented shape of an index array of a primitive with `corners` corners:
    N×3 for triangles, N×2 for lines, one row per corner for polylists and polygons -/
def DocShape (kind : Kind) (v : View) (corners : Nat) : Prop :=
  match kind with
  | .triangles => ∃ N, v.shape = [N, 3] ∧ corners = N * 3 ∧ v.flat.length = N * 3
  | .lines => ∃ N, v.shape = [N, 2] ∧ corners = N * 2 ∧ v.flat.length = N * 2
  | _ => v.shape = [corners] ∧ v.flat.length = corners

/-- number of components the source of a semantic must have (3, or 2 for TEXCOORD) -/
def arity (s : Sem) : Nat := (want s).length

/-- **accept_sound.**  Whatever `construct` accepts: every entry of every exposed index view
    (vertex, normal, each texcoord / textangent / texbinormal set) is a row of its source; every
    view has the documented shape; the stream consists of whole corners; the vertex counts of a
    polylist / polygons add up to the corners; and, unless the stream is empty (an empty primitive
    is not validated, see `build`), every exposed source has the arity of its semantic. -/
theorem accept_sound (spec : PrimSpec) (pv : PrimViews) (h : construct spec = .ok pv) :
    (∀ v ∈ pv.all, InRange v) ∧
    (∀ v ∈ pv.all, DocShape spec.kind v ((stream spec).length / pv.stride)) ∧
    (stream spec).length = (stream spec).length / pv.stride * pv.stride ∧
    ((spec.kind = .polylist ∨ spec.kind = .polygons) →
      pv.vcounts.sum = (stream spec).length / pv.stride) ∧
    (stream spec ≠ [] →
      (∀ v ∈ pv.vertex.toList ++ pv.normal.toList ++ pv.textangent ++ pv.texbinormal,
        v.src.comps.length = 3) ∧
      (∀ v ∈ pv.texcoord, v.src.comps.length = 2)) := by
  obtain ⟨t, _, _, _, hb⟩ := construct_ok h
  have b := build_ok hb
  have hn := strideOf_pos t
  have hk := itemWidth_pos spec.kind
  have hmod : (stream spec).length % strideOf t = 0 := mod_of_mod_mul b.whole
  -- shape, length and range of every view, empty primitive or not
  have hview : ∀ v ∈ pv.all, v.shape = viewShape spec.kind (strideOf t) (stream spec).length ∧
      v.flat.length = (stream spec).length / strideOf t ∧ InRange v := by
    intro v hv
    by_cases hx : spec.polys.flatten = []
    · obtain ⟨i, _, rfl⟩ := b.emptyViews hx v hv
      have hs : stream spec = [] := hx
      refine ⟨by rw [hs]; rfl, by rw [hs]; simp [emptyView], ?_⟩
      intro e he
      simp [emptyView] at he
    · obtain ⟨i, hi, hf⟩ := allOk_ok_mem (b.views hx).1 v hv
      have ok := viewOf_ok hf
      exact ⟨ok.shape, ok.length, ok.inRange⟩
  have hsem : ∀ (s : Sem) (l : List Input) (vs : List View), (∀ i ∈ l, i.sem = s) →
      allOk (viewOf spec.kind (strideOf t) spec.polys.flatten) l = .ok vs →
      ∀ v ∈ vs, v.src.comps = want s := by
    intro s l vs hl ha v hv
    obtain ⟨i, hi, hf⟩ := allOk_ok_mem ha v hv
    rw [(viewOf_ok hf).comps, hl i hi]
  refine ⟨fun v hv => (hview v hv).2.2, ?_, ?_, ?_, ?_⟩
  · intro v hv
    obtain ⟨hshape, hlen, _⟩ := hview v hv
    rw [b.stride]
    cases hkind : spec.kind with
    | triangles =>
      rw [hkind] at hshape
      have hw : (stream spec).length % (3 * strideOf t) = 0 := by
        have := b.whole; rw [hkind] at this; exact this
      have := div_mul_width (k := 3) (by omega) hn hw
      exact ⟨(stream spec).length / (3 * strideOf t), hshape, this.symm, hlen.trans this.symm⟩
    | lines =>
      rw [hkind] at hshape
      have hw : (stream spec).length % (2 * strideOf t) = 0 := by
        have := b.whole; rw [hkind] at this; exact this
      have := div_mul_width (k := 2) (by omega) hn hw
      exact ⟨(stream spec).length / (2 * strideOf t), hshape, this.symm, hlen.trans this.symm⟩
    | polylist => rw [hkind] at hshape; exact ⟨hshape, hlen⟩
    | polygons => rw [hkind] at hshape; exact ⟨hshape, hlen⟩
  · rw [b.stride]
    have := Nat.div_add_mod (stream spec).length (strideOf t)
    rw [hmod, Nat.add_zero, Nat.mul_comm] at this
    exact this.symm
  · intro hk'
    rw [b.stride]
    exact b.total hk'
  · intro hx
    obtain ⟨_, ⟨vi, hvi, vv, hvv, hfv⟩, hnrm, htex, htan, hbin⟩ := b.views hx
    constructor
    · intro v hv
      simp only [List.mem_append] at hv
      rcases hv with ((hv | hv) | hv) | hv
      · rw [hvv] at hv
        simp at hv; subst hv
        have hs : vi.sem = .vertex := (sel_sub (List.mem_of_mem_head? hvi)).2
        rw [(viewOf_ok hfv).comps, hs]; rfl
      · have := hsem .normal _ _ (fun i hi =>
          (sel_sub (List.mem_of_mem_head? (by simpa using hi))).2) hnrm v hv
        rw [this]; rfl
      · have := hsem .textangent _ _ (fun i hi => (sel_sub hi).2) htan v hv
        rw [this]; rfl
      · have := hsem .texbinormal _ _ (fun i hi => (sel_sub hi).2) hbin v hv
        rw [this]; rfl
    · intro v hv
      have := hsem .texcoord _ _ (fun i hi => (sel_sub hi).2) htex v hv
      rw [this]; rfl

/-- **accept_views** (de-interleaving by offset).  Each exposed view belongs to one of the
    validated inputs (first VERTEX, first NORMAL, every TEXCOORD / TEXTANGENT / TEXBINORMAL input
    of the table `Primitive._getInputsFromList` builds), selects from that input's source, and
    holds exactly the column `stream[r * nindices + offset]`, corner by corner. -/
theorem accept_views (spec : PrimSpec) (pv : PrimViews) (h : construct spec = .ok pv) :
    ∃ t, tableOf spec = .ok t ∧ pv.stride = strideOf t ∧
      ∀ v ∈ pv.all, ∃ i ∈ checked t, v.offset = i.offset ∧ v.src.rows = i.src.rows ∧
        (stream spec ≠ [] → v.src.comps = want i.sem) ∧
        ∀ r, r < (stream spec).length / pv.stride →
          ∃ e, v.flat[r]? = some e ∧ (stream spec)[r * pv.stride + i.offset]? = some e := by
  obtain ⟨t, ht, _, _, hb⟩ := construct_ok h
  have b := build_ok hb
  refine ⟨t, ht, b.stride, ?_⟩
  intro v hv
  by_cases hx : spec.polys.flatten = []
  · obtain ⟨i, hi, rfl⟩ := b.emptyViews hx v hv
    have hs : stream spec = [] := hx
    refine ⟨i, hi, rfl, rfl, fun hc => absurd hs hc, ?_⟩
    intro r hr
    rw [hs] at hr
    simp at hr
  · obtain ⟨i, hi, hf⟩ := allOk_ok_mem (b.views hx).1 v hv
    have ok := viewOf_ok hf
    rw [b.stride]
    exact ⟨i, hi, ok.offset, ok.rows, fun _ => ok.comps, ok.entries⟩

/-- **accept_covers.**  Nothing that must be validated is skipped: the vertex view always
    exists, the normal view exists iff there is a NORMAL input, there is one texcoord view per
    TEXCOORD input, and on a non-empty stream one textangent / texbinormal view per input and a
    view for every validated input (an empty primitive exposes no tangents or binormals). -/
theorem accept_covers (spec : PrimSpec) (pv : PrimViews) (t : List Input)
    (h : construct spec = .ok pv) (ht : tableOf spec = .ok t) :
    pv.vertex.isSome ∧
    pv.normal.isSome = (sel .normal t).head?.isSome ∧
    pv.texcoord.length = (sel .texcoord t).length ∧
    (stream spec = [] → pv.textangent = [] ∧ pv.texbinormal = []) ∧
    (stream spec ≠ [] →
      (∀ i ∈ checked t, ∃ v ∈ pv.all, v.offset = i.offset ∧ v.src.rows = i.src.rows) ∧
      pv.textangent.length = (sel .textangent t).length ∧
      pv.texbinormal.length = (sel .texbinormal t).length) := by
  obtain ⟨t', ht', _, _, hb⟩ := construct_ok h
  rw [ht] at ht'
  cases ht'
  have b := build_ok hb
  by_cases hx : spec.polys.flatten = []
  · have hs : stream spec = [] := hx
    obtain ⟨hta, hbi, ⟨vi, hvi, hvv⟩, hn, htx⟩ := b.empty hx
    refine ⟨by simp [hvv], by simp [hn], by simp [htx], fun _ => ⟨hta, hbi⟩, fun hc => absurd hs hc⟩
  · have hs : stream spec ≠ [] := hx
    obtain ⟨hall, ⟨vi, hvi, vv, hvv, hfv⟩, hnrm, htex, htan, hbin⟩ := b.views hx
    refine ⟨by simp [hvv], ?_, allOk_ok_length htex, fun hc => absurd hc hs,
      fun _ => ⟨?_, allOk_ok_length htan, allOk_ok_length hbin⟩⟩
    · have := allOk_ok_length hnrm
      cases hn : pv.normal <;> cases hs' : (sel Sem.normal t).head? <;> simp [hn, hs'] at this ⊢
    · intro i hi
      obtain ⟨v, hv, hf⟩ := allOk_ok_mem' hall i hi
      have ok := viewOf_ok hf
      exact ⟨v, hv, ok.offset, ok.rows⟩

/-- the ways in which the property calls a specification malformed, on the resolved table -/
inductive Defect (spec : PrimSpec) (t : List Input) : Prop where
  /-- an entry of the column of a validated input points at or beyond the end of its source -/
  | beyond (i : Input) (hi : i ∈ checked t) (r e : Nat)
      (hget : (stream spec)[r * strideOf t + i.offset]? = some e) (hbig : i.src.rows ≤ e)
  /-- the source of a validated input has the wrong number of components for its semantic -/
  | arity (i : Input) (hi : i ∈ checked t) (hne : stream spec ≠ [])
      (hbad : i.src.comps.length ≠ arity i.sem)
  /-- the stream is not a whole number of items (3 / 2 / 1 corners of `nindices` entries) -/
  | ragged (h : (stream spec).length % (itemWidth spec.kind * strideOf t) ≠ 0)
  /-- the vertex counts of a polylist do not add up to the corners of the stream -/
  | vcount (hk : spec.kind = .polylist)
      (h : spec.vcounts.sum ≠ (stream spec).length / strideOf t)
  /-- a `<p>` of a polygons element is not a whole number of corners -/
  | polygon (hk : spec.kind = .polygons) (p : List Nat) (hp : p ∈ spec.polys)
      (h : p.length % strideOf t ≠ 0)

/-- **reject_complete** (sources).  A source whose data length is not a multiple of its stride
    makes construction and loading fail with DaeMalformedError, wherever the source is and
    whether or not an input uses it. -/
theorem reject_bad_source (spec : PrimSpec) (hn : ∀ s ∈ spec.sources, s.names ≠ [])
    (s : SrcSpec) (hs : s ∈ spec.sources) (hbad : s.rawLen % s.stride spec.loaded ≠ 0) :
    construct spec = .error .malformed := by
  unfold construct
  rw [sourcesOf_malformed hn hs hbad]

/-- **reject_complete.**  When the sources are well-formed and the inputs resolve to a table
    with a VERTEX input, any defect — an entry ≥ the length of its source at any position and
    by any amount, a wrong arity, a ragged stream, `Σ vcount ≠ corners`, a ragged `<p>` —
    makes `construct` fail, and fail with DaeMalformedError. -/
theorem reject_complete (spec : PrimSpec) (t : List Input) (ht : tableOf spec = .ok t)
    (hv : sel .vertex t ≠ []) (d : Defect spec t) : construct spec = .error .malformed := by
  rw [construct_of_table ht]
  split
  · cases hb : build spec.kind t spec.vcounts spec.polys with
    | error e => rw [build_error hv hb]
    | ok pv =>
      exfalso
      have b := build_ok hb
      have hmod : (stream spec).length % strideOf t = 0 := mod_of_mod_mul b.whole
      cases d with
      | beyond i hi r e hget hbig =>
        have hx : spec.polys.flatten ≠ [] := by
          intro hc
          have : stream spec = [] := hc
          rw [this] at hget; simp at hget
        obtain ⟨v, hv', hf⟩ := allOk_ok_mem' (b.views hx).1 i hi
        have ok := viewOf_ok hf
        have hlt : r * strideOf t + i.offset < (stream spec).length := by
          cases hl : decide (r * strideOf t + i.offset < (stream spec).length) with
          | true => exact of_decide_eq_true hl
          | false =>
            have := of_decide_eq_false hl
            rw [List.getElem?_eq_none (by omega)] at hget; cases hget
        obtain ⟨e', h1, h2⟩ := ok.entries r (row_of_lt hmod hlt)
        have hee : e' = e := by
          have : (stream spec)[r * strideOf t + i.offset]? = some e' := h2
          rw [hget] at this; exact (Option.some.inj this).symm
        subst hee
        have := ok.inRange e' (List.mem_of_getElem? h1)
        rw [ok.rows] at this
        omega
      | arity i hi hne hbad =>
        obtain ⟨v, _, hf⟩ := allOk_ok_mem' (b.views hne).1 i hi
        exact hbad (viewOf_ok hf).arity
      | ragged h => exact h b.whole
      | vcount hk h =>
        have h1 := b.total (Or.inl hk)
        have h2 := b.vcounts
        rw [if_neg (by rw [hk]; decide)] at h2
        rw [h2] at h1
        exact h h1
      | polygon hk p hp h =>
        have h1 := b.total (Or.inr hk)
        have h2 := b.vcounts
        rw [if_pos hk] at h2
        rw [h2] at h1
        exact h (polygons_div hmod h1 p hp)
  · rfl

/-- **accept_complete** (the converse: the model does not reject by accident).  With
    well-formed sources, a VERTEX input, parsable text and no defect, `construct` accepts. -/
theorem accept_complete (spec : PrimSpec) (t : List Input) (ht : tableOf spec = .ok t)
    (hv : sel .vertex t ≠ []) (hp : parsedEarly spec = true ∧ parsedLate spec = true)
    (hgood : ¬ Defect spec t) : ∃ pv, construct spec = .ok pv := by
  rw [construct_of_table ht, if_pos hp]
  have hn := strideOf_pos t
  have hw : spec.polys.flatten.length % (itemWidth spec.kind * strideOf t) = 0 :=
    Classical.byContradiction fun hc => hgood (.ragged hc)
  apply build_total hv hw
  · intro hk
    by_cases hpg : spec.kind = .polygons
    · rw [if_pos hpg]
      have hall : ∀ l ∈ spec.polys.map List.length, l % strideOf t = 0 := by
        intro l hl
        obtain ⟨p, hp', rfl⟩ := List.mem_map.mp hl
        exact Classical.byContradiction fun hc => hgood (.polygon hpg p hp' hc)
      have := sum_map_div hn hall
      rw [List.map_map] at this
      rw [List.length_flatten]
      exact this
    · rw [if_neg hpg]
      have hpl : spec.kind = .polylist := by
        rcases hk with hk | hk
        · exact hk
        · exact absurd hk hpg
      exact Classical.byContradiction fun hc => hgood (.vcount hpl hc)
  · intro hx i hi
    refine ⟨Classical.byContradiction fun hc => hgood (.arity i hi hx hc), ?_⟩
    intro r e hget
    exact Classical.byContradiction fun hc => hgood (.beyond i hi r e hget (by omega))

/-- **select_total.**  After acceptance `vertex[vertex_index]`, `normal[normal_index]`,
    `texcoordset[i][texcoord_indexset[i]]`, … all succeed. -/
theorem select_total (spec : PrimSpec) (pv : PrimViews) (h : construct spec = .ok pv) :
    ∀ v ∈ pv.all, select v = .ok v.flat := by
  intro v hv
  have hr := (accept_sound spec pv h).1 v hv
  unfold select
  apply allOk_self
  intro e he
  simp [hr e he]

/-- **no_raw.**  With named source components and a VERTEX input, construction and loading
    end in acceptance, DaeMalformedError or DaeBrokenRefError — never in a raw Python exception
    (`ValueError` from a reshape or an empty `max`, `IndexError`, …). -/
theorem only_dae_errors (spec : PrimSpec) (hn : ∀ s ∈ spec.sources, s.names ≠ [])
    (hv : ∀ t, tableOf spec = .ok t → sel .vertex t ≠ []) (e : DaeErr)
    (h : construct spec = .error e) : e = .malformed ∨ e = .brokenRef := by
  cases hs : sourcesOf spec with
  | error e' =>
    unfold construct at h
    rw [hs] at h
    obtain ⟨s, hs', hf⟩ := allOk_error hs
    left
    rw [← Except.error.inj h]
    exact buildSource_error _ s (hn s hs') hf
  | ok srcs =>
    cases ht : tableFrom spec srcs with
    | error e' =>
      unfold construct at h
      simp only [hs, ht] at h
      split at h
      · left; exact (Except.error.inj h).symm
      · obtain ⟨i, _, hf⟩ := allOk_error ht
        rw [← Except.error.inj h]
        rcases resolve_error hf with ⟨he, _⟩ | ⟨he, _⟩
        · left; exact he
        · right; exact he
    | ok t =>
      have htab : tableOf spec = .ok t := by unfold tableOf; rw [hs]; exact ht
      rw [construct_of_table htab] at h
      left
      split at h
      · exact build_error (hv t htab) h
      · exact (Except.error.inj h).symm

theorem no_raw (spec : PrimSpec) (hn : ∀ s ∈ spec.sources, s.names ≠ [])
    (hv : ∀ t, tableOf spec = .ok t → sel .vertex t ≠ []) (c : String) :
    construct spec ≠ .error (.raw c) := by
  intro h
  rcases only_dae_errors spec hn hv _ h with h | h <;> cases h

/-- **polygons_whole.**  `Polygons` has no check of its own; the two checks it inherits
    (whole stream, vcount total) already force every `<p>` to be a whole number of corners. -/
theorem polygons_whole (spec : PrimSpec) (pv : PrimViews) (hk : spec.kind = .polygons)
    (h : construct spec = .ok pv) : ∀ p ∈ spec.polys, p.length % pv.stride = 0 := by
  obtain ⟨t, _, _, _, hb⟩ := construct_ok h
  have b := build_ok hb
  have h1 := b.total (Or.inr hk)
  have h2 := b.vcounts
  rw [if_pos hk] at h2
  rw [h2] at h1
  rw [b.stride]
  exact polygons_div (mod_of_mod_mul b.whole) h1

/-- values that do not fit into 32 bits never survive loading (they used to wrap around) -/
theorem load_rejects_overflow (spec : PrimSpec) (pv : PrimViews) (hl : spec.loaded = true)
    (h : construct spec = .ok pv) : ∀ e ∈ stream spec, e ≤ int32Max := by
  obtain ⟨_, _, he, hla, _⟩ := construct_ok h
  unfold parsedEarly at he
  unfold parsedLate at hla
  rw [hl] at he hla
  intro e hmem
  by_cases hk : spec.kind = .polygons
  · simp [hk, parseOk] at he
    exact he e hmem
  · have : (spec.kind == Kind.polygons) = false := by simp [hk]
    simp [this, parseOk] at hla
    exact hla e hmem

/-! ### non-vacuity: concrete specifications on both sides of every theorem -/

/-- the error class of a result (`none`: accepted) -/
def verdict (r : Except DaeErr PrimViews) : Option DaeErr :=
  match r with
  | .ok _ => none
  | .error e => some e

/-- triangles, three inputs on two offsets, VERTEX through `<vertices>`, an S,T,P source -/
def okSpec : PrimSpec :=
  { kind := .triangles, loaded := true,
    sources := [⟨9, ["X", "Y", "Z"]⟩, ⟨6, ["X", "Y", "Z"]⟩, ⟨6, ["S", "T", "P"]⟩],
    verts := [(.position, 0)],
    inputs := [⟨0, .vertex, .verts⟩, ⟨1, .normal, .src 1⟩, ⟨1, .texcoord, .src 2⟩],
    vcounts := [], polys := [[0, 1, 1, 0, 2, 1]] }

example : (match construct okSpec with
    | .ok pv => (pv.stride, pv.all.map (fun v => (v.flat, v.shape, v.src.rows, v.src.comps.length)))
    | .error _ => (0, [])) =
    (2, [([0, 1, 2], [1, 3], 3, 3), ([1, 0, 1], [1, 3], 2, 3), ([1, 0, 1], [1, 3], 2, 2)]) := by decide

/-- the same with the last normal index one past its source: rejected -/
example : verdict (construct { okSpec with polys := [[0, 1, 1, 0, 2, 2]] }) = some .malformed := by decide
/-- ragged stream -/
example : verdict (construct { okSpec with polys := [[0, 1, 1, 0, 2]] }) = some .malformed := by decide
/-- S,T,P data that is not a multiple of 3 -/
example : verdict (construct { okSpec with sources := [⟨9, ["X", "Y", "Z"]⟩, ⟨6, ["X", "Y", "Z"]⟩, ⟨7, ["S", "T", "P"]⟩] }) = some .malformed := by decide
/-- a two-component source used as NORMAL -/
example : verdict (construct { okSpec with sources := [⟨9, ["X", "Y", "Z"]⟩, ⟨6, ["S", "T"]⟩, ⟨6, ["S", "T", "P"]⟩] }) = some .malformed := by decide
/-- 2^32 + 1 does not become index 1 -/
example : verdict (construct { okSpec with polys := [[0, 1, 4294967297, 0, 2, 1]] }) = some .malformed := by decide

/-- polylist with a gapped offset, NORMAL inside `<vertices>` and a texture tangent set -/
def polySpec : PrimSpec :=
  { kind := .polylist, loaded := true,
    sources := [⟨12, ["X", "Y", "Z"]⟩, ⟨3, ["A", "B", "C"]⟩, ⟨6, ["X", "Y", "Z"]⟩],
    verts := [(.position, 0), (.other .normal, 1)],
    inputs := [⟨2, .textangent, .src 2⟩, ⟨0, .vertex, .verts⟩],
    vcounts := [3, 1], polys := [[3, 9, 1, 0, 9, 0, 2, 9, 1, 0, 9, 0]] }

example : verdict (construct polySpec) = some .malformed := by decide      -- normal index 3 ≥ 1 row
example : (match construct { polySpec with verts := [(.position, 0)] } with
    | .ok pv => (pv.stride, pv.all.map (fun v => (v.flat, v.shape, v.src.rows)))
    | .error _ => (0, [])) = (3, [([3, 0, 2, 0], [4], 4), ([1, 0, 1, 0], [4], 2)]) := by decide
/-- Σ vcount ≠ corners -/
example : verdict (construct { polySpec with verts := [(.position, 0)], vcounts := [3, 2] }) = some .malformed := by decide
/-- polygons: compensating ragged `<p>` lists (5 + 3 entries on 2 inputs) -/
def pgSpec : PrimSpec :=
  { kind := .polygons, loaded := false, sources := [⟨9, ["X", "Y", "Z"]⟩], verts := [],
    inputs := [⟨0, .vertex, .src 0⟩, ⟨1, .color, .src 0⟩], vcounts := [],
    polys := [[0, 0, 1, 1, 2], [0, 1, 1]] }
example : verdict (construct pgSpec) = some .malformed := by decide
example : verdict (construct { pgSpec with polys := [[0, 0, 1, 1], [0, 1, 1, 2]] }) = none := by decide
/-- an empty stream over empty sources is accepted; vertex, normal and texcoord are zero-row views -/
example : (match construct { okSpec with sources := [⟨0, ["X", "Y", "Z"]⟩, ⟨0, ["X", "Y", "Z"]⟩, ⟨0, ["S", "T"]⟩], polys := [[]] } with
    | .ok pv => pv.all.map (fun v => (v.shape, v.flat, v.src.rows)) | .error _ => []) =
    [([0, 3], [], 0), ([0, 3], [], 0), ([0, 3], [], 0)] := by decide
/-- the hypotheses of `no_raw` are needed: no inputs at all is Python's `max()` of nothing -/
example : verdict (construct { okSpec with inputs := [] }) = some (.raw "ValueError") := by decide

/-! ## references of the input table: malformed vs dangling (used by C08's fault kinds "reference without '#'" and "dangling reference") -/

/-- **malformed vs dangling reference.**  When every reference of the input table that IS a reference (`#…`) resolves,
    a table holding a text that is no reference is refused with DaeMalformedError — the kind documented for corrupted
    data — not with DaeBrokenRefError, the kind of a reference whose target is missing. -/
theorem bad_reference_is_malformed (spec : PrimSpec) (srcs : List Src)
    (hgood : ∀ i ∈ expandVertex spec.verts spec.inputs, i.ref ≠ .bad → ∃ x, resolve srcs i = .ok x)
    (hbad : ∃ i ∈ expandVertex spec.verts spec.inputs, i.ref = .bad) :
    tableFrom spec srcs = .error .malformed := by
  unfold tableFrom
  apply allOk_fails
  · intro a ha e he
    rcases resolve_error he with ⟨h, _⟩ | ⟨_, hne⟩
    · exact h
    · obtain ⟨x, hx⟩ := hgood a ha hne
      rw [hx] at he; cases he
  · obtain ⟨i, hi, hb⟩ := hbad
    refine ⟨i, hi, .malformed, ?_⟩
    unfold resolve
    rw [hb]

/-- … and conversely a dangling reference in a table without such texts is a broken reference -/
theorem dangling_reference_is_broken (spec : PrimSpec) (srcs : List Src) (e : DaeErr)
    (hnobad : ∀ i ∈ expandVertex spec.verts spec.inputs, i.ref ≠ .bad)
    (h : tableFrom spec srcs = .error e) : e = .brokenRef := by
  obtain ⟨i, hi, hf⟩ := allOk_error h
  rcases resolve_error hf with ⟨_, hb⟩ | ⟨he, _⟩
  · exact absurd hb (hnobad i hi)
  · exact he

example : tableFrom { kind := .triangles, loaded := true, sources := [], verts := [], inputs := [⟨0, .vertex, .bad⟩], vcounts := [], polys := [] } [] = .error .malformed := by
  apply bad_reference_is_malformed
  · intro i hi hne
    simp [expandVertex] at hi
    subst hi
    exact absurd rfl hne
  · exact ⟨⟨0, .vertex, .bad⟩, by simp [expandVertex], rfl⟩

end Pyc.Props.C09
