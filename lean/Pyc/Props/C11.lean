/-
C11 — Triangulation and strip/fan expansion preserve geometry and winding.
Property theorems only; the model is Pyc/Model/IndexOps.lean, helper lemmas are in
Pyc/Proofs/IndexOps.lean. Every statement is over an arbitrary row type `α` (a row is the
whole index tuple of one corner), arbitrary run lengths, arbitrary numbers of `<p>` and
arbitrary strides: nothing is bounded.

`none` in the model is "numpy raised". The theorems below say the model functions return
`some …` on every well-formed input, so no statement holds because of a swallowed failure.
-/
import Pyc.Proofs.IndexOps

namespace Pyc.Props.C11
open Pyc.IndexOps

/-! ### strips -/

/-- triangle `i` of a strip exists exactly for `i < n - 2` -/
theorem stripTri_defined {α : Type} (xs : List α) (i : Nat) :
    (stripTri? xs i).isSome = true ↔ i + 2 < xs.length := by
  rw [stripTri?_isSome]; simp

/-- … and is `(x i, x (i+1), x (i+2))` for even `i` -/
theorem stripTri_even {α : Type} (xs : List α) (i : Nat) (h : i + 2 < xs.length) (he : i % 2 = 0) :
    stripTri? xs i = some (xs[i], xs[i + 1], xs[i + 2]) := by
  unfold stripTri?
  rw [if_pos he, tri?_some xs i (i + 1) (i + 2) (by omega) (by omega) h]

/-- … with the first two corners exchanged for odd `i`, which keeps the strip's winding -/
theorem stripTri_odd {α : Type} (xs : List α) (i : Nat) (h : i + 2 < xs.length) (ho : i % 2 = 1) :
    stripTri? xs i = some (xs[i + 1], xs[i], xs[i + 2]) := by
  unfold stripTri?
  rw [if_neg (by omega), tri?_some xs (i + 1) i (i + 2) (by omega) (by omega) h]

/-- `_extendFromStrip` in the order the code emits: never fails (its three slices always have
    equal lengths), first the even-numbered triangles of the strip, then the odd-numbered ones;
    `stripTri?` is `none` from `i = n - 2` on, so both blocks are pinned completely -/
theorem strip_spec {α : Type} (xs : List α) :
    ∃ ev od, stripEven xs = some ev ∧ stripOdd xs = some od ∧ strip xs = some (ev ++ od) ∧
      (∀ j, ev[j]? = stripTri? xs (2 * j)) ∧ (∀ j, od[j]? = stripTri? xs (2 * j + 1)) := by
  refine ⟨evenTris xs, oddTris xs, stripEven_some xs, stripOdd_some xs, strip_some xs, ?_, ?_⟩
  · intro j
    rw [evenTris_eq, evens_getElem?, stripOrder_false_getElem?]
  · intro j
    rw [oddTris_eq, evens_getElem?, List.getElem?_tail, stripOrder_false_getElem?]

/-- the same in strip order: the loaded triangles are a permutation of the `n - 2` triangles
    `stripTri? xs 0, stripTri? xs 1, …` of the strip -/
theorem strip_perm {α : Type} (xs : List α) :
    ∃ out, strip xs = some out ∧ out.Perm (stripOrder false xs) ∧
      (stripOrder false xs).length = xs.length - 2 ∧
      ∀ i, (stripOrder false xs)[i]? = stripTri? xs i := by
  refine ⟨evenTris xs ++ oddTris xs, strip_some xs, ?_, stripOrder_length xs, stripOrder_false_getElem? xs⟩
  rw [evenTris_eq, oddTris_eq]
  exact evens_odds_perm _

theorem strip_count {α : Type} (xs : List α) (out : List (Tri α)) (h : strip xs = some out) :
    out.length = xs.length - 2 := by
  obtain ⟨out', h', hp, hl, _⟩ := strip_perm xs
  rw [h] at h'
  cases h'
  rw [hp.length_eq, hl]

/-! ### fans -/

/-- `_extendFromFan` never fails and yields `n - 2` triangles `(x 0, x (i+1), x (i+2))` -/
theorem fan_spec {α : Type} (xs : List α) :
    ∃ out, fan xs = some out ∧ out.length = xs.length - 2 ∧
      (∀ i, out[i]? = tri? xs 0 (i + 1) (i + 2)) ∧
      (∀ i (h : i + 2 < xs.length), out[i]? = some (xs[0], xs[i + 1], xs[i + 2])) := by
  refine ⟨fanSpec xs, fan_some xs, fanSpec_length xs, fanSpec_getElem? xs, ?_⟩
  intro i h
  rw [fanSpec_getElem?, tri?_some xs 0 (i + 1) (i + 2) (by omega) (by omega) h]

/-- runs of 0, 1 and 2 corners load fine and carry no triangle -/
theorem short_runs_empty {α : Type} (xs : List α) (h : xs.length ≤ 2) :
    strip xs = some [] ∧ fan xs = some [] := by
  constructor
  · obtain ⟨out, ho, hp, hl, _⟩ := strip_perm xs
    have : out.length = 0 := by rw [hp.length_eq, hl]; omega
    rw [ho, List.eq_nil_of_length_eq_zero this]
  · rw [fan_some]
    have : (fanSpec xs).length = 0 := by rw [fanSpec_length]; omega
    rw [List.eq_nil_of_length_eq_zero this]

/-! ### every input's index is carried along; each `<p>` independently -/

/-- `reshape((-1, k))`: row `i` holds entries `k*i … k*i + k - 1` of the `<p>` stream, i.e. the
    indices of all inputs of corner `i`; expansion then moves whole rows -/
theorem rows_carry_every_input {β : Type} (k : Nat) (p : List β) (rows : List (List β))
    (h : chunk k p = some rows) :
    rows.flatten = p ∧ rows.length * k = p.length ∧
    ∀ i j, j < k → (rows[i]?.bind (·[j]?)) = p[k * i + j]? := by
  obtain ⟨hk, hm, rfl⟩ := chunk_eq_some k p rows h
  have hlen : p.length / k * k = p.length := by
    have := Nat.div_add_mod p.length k
    rw [hm, Nat.mul_comm] at this
    omega
  refine ⟨rowsOf_flatten k p hm, by rw [rowsOf_length, hlen], ?_⟩
  intro i j hj
  rw [rowsOf_getElem?]
  by_cases hi : i < p.length / k
  · simp only [hi, if_true, Option.bind_some, List.getElem?_take, hj, List.getElem?_drop]
  · simp only [hi, if_false, Option.bind_none]
    symm
    apply List.getElem?_eq_none
    have h1 : p.length / k ≤ i := by omega
    have h2 : p.length / k * k ≤ i * k := Nat.mul_le_mul_right k h1
    rw [Nat.mul_comm k i]
    omega

/-- a `<p>` on its own loads exactly when it is a whole number of rows, to the strip / fan of
    its rows -/
theorem load_single {β : Type} (kind : Kind) (k : Nat) (p : List β) (out : List (Tri (List β))) :
    loadTris kind k [p] = .ok out ↔ ∃ rows, chunk k p = some rows ∧ extend kind rows = some out := by
  simp only [loadTris, List.isEmpty_cons, Bool.false_eq_true, if_false, traverse, loadP]
  cases hc : chunk k p with
  | none => simp
  | some rows =>
    simp only [Option.some.injEq, exists_eq_left']
    cases he : extend kind rows with
    | none => simp
    | some o => simp

/-- several `<p>`: the result is the concatenation, in document order, of what each `<p>`
    gives when loaded alone -/
theorem per_p_concat {β : Type} (kind : Kind) (k : Nat) (ps : List (List β))
    (f : List β → List (Tri (List β))) (hne : ps ≠ [])
    (h : ∀ p ∈ ps, loadTris kind k [p] = .ok (f p)) :
    loadTris kind k ps = .ok (ps.flatMap f) := by
  have hp : ∀ p ∈ ps, loadP kind k p = some (f p) := by
    intro p hp
    have := h p hp
    simp only [loadTris, List.isEmpty_cons, Bool.false_eq_true, if_false, traverse] at this
    cases hl : loadP kind k p with
    | none => simp [hl] at this
    | some o =>
      simp only [hl, List.flatten_cons, List.flatten_nil, List.append_nil, Except.ok.injEq] at this
      rw [this]
  have hemp : ps.isEmpty = false := by cases ps <;> simp_all
  simp only [loadTris, hemp, Bool.false_eq_true, if_false, traverse_map_some _ f ps hp,
    List.flatMap_def]

/-- the loader accepts exactly the primitives in which every `<p>` is a whole number of rows;
    a ragged `<p>` is `DaeMalformedError`, no `<p>` at all is `DaeIncompleteError` -/
theorem load_outcome {β : Type} (kind : Kind) (k : Nat) (hk : k ≠ 0) (ps : List (List β)) :
    (ps = [] → loadTris kind k ps = .error .incomplete) ∧
    (ps ≠ [] → (∀ p ∈ ps, p.length % k = 0) → ∃ out, loadTris kind k ps = .ok out) ∧
    (ps ≠ [] → (∃ p ∈ ps, p.length % k ≠ 0) → loadTris kind k ps = .error .malformed) := by
  refine ⟨?_, ?_, ?_⟩
  · rintro rfl; rfl
  · intro hne h
    refine ⟨ps.flatMap (fun p => expand kind (rowsOf k p)), per_p_concat kind k ps _ hne ?_⟩
    intro p hp
    rw [load_single]
    exact ⟨rowsOf k p, chunk_some k p hk (h p hp), extend_some kind _⟩
  · rintro hne ⟨p, hp, hbad⟩
    have hemp : ps.isEmpty = false := by cases ps <;> simp_all
    simp only [loadTris, hemp, Bool.false_eq_true, if_false,
      traverse_none (loadP kind k) ps p hp (loadP_none kind k p hbad)]

/-! ### polylist / polygons triangulation -/

/-- cutting the rows by the vcounts: the polygons are consecutive, complete, and polygon `i`
    has `vcounts[i]` corners; this is also what item access `P[i]` returns -/
theorem polygons_partition {α : Type} (rows : List α) (vc : List Nat) (h : rows.length = vc.sum) :
    polygonsOf rows vc = splitPolys rows vc ∧ (splitPolys rows vc).flatten = rows ∧
    (splitPolys rows vc).map List.length = vc :=
  ⟨polygonsOf_eq rows vc, splitPolys_flatten vc rows (by omega), splitPolys_lengths vc rows (by omega)⟩

/-- `Polylist.triangleset()`: the selector arithmetic never fails on a primitive with one row
    per counted corner (whatever the counts: 0, 1, 2 included, anywhere) and yields, in polygon
    order, the fan of each polygon around that polygon's first corner -/
theorem selector_spec {α : Type} (rows : List α) (vc : List Nat) (h : rows.length = vc.sum) :
    triangulate rows vc = some ((splitPolys rows vc).flatMap fanSpec) :=
  triangulate_some rows vc h

/-- exactly `Σ max(nᵢ - 2, 0)` triangles (`-` on `Nat` is truncated) -/
theorem triangulate_count {α : Type} (rows : List α) (vc : List Nat) (h : rows.length = vc.sum)
    (out : List (Tri α)) (ho : triangulate rows vc = some out) :
    out.length = (vc.map (· - 2)).sum := by
  rw [selector_spec rows vc h] at ho
  cases ho
  rw [List.length_flatMap]
  have := (polygons_partition rows vc h).2.2
  have e : (splitPolys rows vc).map (fun p => (fanSpec p).length) =
      ((splitPolys rows vc).map List.length).map (· - 2) := by
    rw [List.map_map]
    apply List.map_congr_left
    intro p _
    simp [fanSpec_length]
  rw [e, this]

/-- triangulating polygon by polygon (`P[i].triangles()` for every `i`) never fails and,
    concatenated in polygon order, gives exactly the triangles of `P.triangleset()` -/
theorem polygon_triangles_agree {α : Type} (rows : List α) (vc : List Nat) (h : rows.length = vc.sum) :
    ∃ parts, perPolygon rows vc = some parts ∧ parts.length = vc.length ∧
      triangulate rows vc = some parts.flatten ∧
      ∀ i : Nat, parts[i]? = ((polygonsOf rows vc)[i]?).map fanSpec := by
  refine ⟨(splitPolys rows vc).map fanSpec, ?_, ?_, ?_, ?_⟩
  · unfold perPolygon
    rw [polygonsOf_eq]
    exact traverse_map_some _ _ _ (fun p _ => polygonTriangles_some p)
  · rw [List.length_map, splitPolys_length]
  · rw [selector_spec rows vc h, List.flatMap_def]
  · intro i
    rw [polygonsOf_eq, List.getElem?_map]

/-- `Polygons`: with one `<p>` per polygon, each a whole number of rows, the vcounts are the
    per-`<p>` corner counts, the concatenated stream reshapes to the rows of the `<p>`s in
    order, counts and rows are consistent, and polygon `i` of the primitive is exactly `<p>` `i` -/
theorem polygons_vcounts {β : Type} (k : Nat) (hk : k ≠ 0) (ps : List (List β))
    (h : ∀ p ∈ ps, p.length % k = 0) :
    ∃ rowss : List (List (List β)),
      traverse (chunk k) ps = some rowss ∧
      polygonsVcounts k ps = rowss.map List.length ∧
      polygonsRows k ps = some rowss.flatten ∧
      rowss.flatten.length = (polygonsVcounts k ps).sum ∧
      polygonsOf rowss.flatten (polygonsVcounts k ps) = rowss := by
  refine ⟨ps.map (rowsOf k), ?_, ?_, ?_, ?_, ?_⟩
  · exact traverse_map_some _ _ _ (fun p hp => chunk_some k p hk (h p hp))
  · simp [polygonsVcounts, rowsOf_length]
  · unfold polygonsRows
    rw [chunk_some k _ hk (flatten_length_mod k ps h), rowsOf_flatten_all k hk ps h]
  · have e : polygonsVcounts k ps = (ps.map (rowsOf k)).map List.length := by
      simp [polygonsVcounts, rowsOf_length]
    rw [e, List.length_flatten]
  · have e : polygonsVcounts k ps = (ps.map (rowsOf k)).map List.length := by
      simp [polygonsVcounts, rowsOf_length]
    rw [e, polygonsOf_eq, splitPolys_flatten_lengths]

/-! ### normals and texcoords stay attached to the same corners

A row is the tuple of all inputs' indices of one corner. The operations are natural in the
row type: applying any function to the rows first (for instance "select the NORMAL column",
`index[:, :, offset]`) and expanding afterwards is the same as expanding and applying it to
every corner afterwards. So the normal / texcoord index found at a corner of an output
triangle is the one that stood next to that corner's vertex index in the file; and the result
for arbitrary index contents is the image of the result for pairwise-distinct labels. -/

theorem strip_natural {α β : Type} (f : α → β) (xs : List α) :
    strip (xs.map f) = (strip xs).map (List.map (mapTri f)) := by
  rw [strip_some, strip_some, evenTris_eq, oddTris_eq, evenTris_eq, oddTris_eq, stripOrder_map]
  simp [evens_map, ← List.map_tail]

theorem fan_natural {α β : Type} (f : α → β) (xs : List α) :
    fan (xs.map f) = (fan xs).map (List.map (mapTri f)) := by
  rw [fan_some, fan_some, fanSpec_map]; rfl

theorem triangulate_natural {α β : Type} (f : α → β) (rows : List α) (vc : List Nat)
    (h : rows.length = vc.sum) :
    triangulate (rows.map f) vc = (triangulate rows vc).map (List.map (mapTri f)) := by
  rw [selector_spec rows vc h, selector_spec (rows.map f) vc (by simpa using h), splitPolys_map]
  simp only [Option.map_some, List.flatMap_def, List.map_map, List.map_flatten]
  congr 2
  apply List.map_congr_left
  intro p _
  simp [fanSpec_map]

theorem polygonTriangles_natural {α β : Type} (f : α → β) (xs : List α) :
    polygonTriangles (xs.map f) = (polygonTriangles xs).map (List.map (mapTri f)) := by
  rw [polygonTriangles_some, polygonTriangles_some, fanSpec_map]; rfl

/-! ### non-vacuity: concrete instances (tests, not theorems) -/

example : strip [0, 1, 2, 3, 4, 5, 6] = some [(0, 1, 2), (2, 3, 4), (4, 5, 6), (2, 1, 3), (4, 3, 5)] := by decide
example : stripOrder false [0, 1, 2, 3, 4, 5, 6] = [(0, 1, 2), (2, 1, 3), (2, 3, 4), (4, 3, 5), (4, 5, 6)] := by decide
example : stripTri? [10, 11, 12, 13] 1 = some (12, 11, 13) ∧ stripTri? [10, 11, 12, 13] 2 = none := by decide
example : fan [7, 1, 2, 3, 4] = some [(7, 1, 2), (7, 2, 3), (7, 3, 4)] := by decide
example : strip [5, 6] = some [] ∧ fan [5] = some [] ∧ fan ([] : List Nat) = some [] := by decide
example : chunk 2 [0, 10, 1, 11, 2, 12] = some [[0, 10], [1, 11], [2, 12]] ∧ chunk 2 [0, 10, 1] = none := by decide
example : loadTris .strip 2 [[0, 10, 1, 11, 2, 12, 3, 13], [9, 19], [], [4, 14, 5, 15, 6, 16]]
    = .ok [([0, 10], [1, 11], [2, 12]), ([2, 12], [1, 11], [3, 13]), ([4, 14], [5, 15], [6, 16])] := by rfl
example : loadTris .fan 1 [[0, 1, 2, 3], [4, 5]] = .ok [([0], [1], [2]), ([0], [2], [3])] := by rfl
example : loadTris .fan 2 [[0, 1, 2]] = .error .malformed ∧ loadTris .fan 2 ([] : List (List Nat)) = .error .incomplete := ⟨rfl, rfl⟩
example : triangulate [0, 1, 2, 3, 4, 5, 6, 7, 8] [0, 4, 2, 0, 3] = some [(0, 1, 2), (0, 2, 3), (6, 7, 8)] := by decide
example : triangulate ([] : List Nat) [0, 0] = some [] ∧ triangulate [0] [0, 1] = some [] := by decide
example : perPolygon [0, 1, 2, 3, 4, 5, 6, 7, 8] [0, 4, 2, 0, 3] = some [[], [(0, 1, 2), (0, 2, 3)], [], [], [(6, 7, 8)]] := by decide
example : polygonsVcounts 2 [[0, 10, 1, 11, 2, 12], [], [3, 13]] = [3, 0, 1] ∧
    polygonsRows 2 [[0, 10, 1, 11, 2, 12], [], [3, 13]] = some [[0, 10], [1, 11], [2, 12], [3, 13]] := by decide
example : (triangulate [[0, 10], [1, 11], [2, 12]] [3]).map (List.map (mapTri (·[1]?)))
    = triangulate [some 10, some 11, some 12] [3] := by decide

end Pyc.Props.C11
