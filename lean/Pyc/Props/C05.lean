/-
C05 — The loaded model says what the file says (reading kernels).
`index_selection`: entry k of shape i of the index array exposed for an input at `offset` is the
stream element (perShape·i + k)·stride + offset, for every stride, offset (shared or gapped) and
stream; `expand_*`: the <vertices> expansion; the normalisations are characterised one by one so that
"only the documented normalisations apply" has a precise meaning. Whole-document agreement with an
independent reading is the reader oracle of props/c05.py.
-/
import Pyc.Model.Load

namespace Pyc.Props.C05
open Pyc.Load

theorem column_length (n o : Nat) (xs : List Nat) : (column n o xs).length = xs.length / n := by
  simp [column]

theorem column_get (n o r : Nat) (xs : List Nat) (hr : r < xs.length / n) (ho : o < n) :
    (column n o xs)[r]? = xs[r * n + o]? := by
  have hlt : r * n + o < xs.length := by
    have h1 : (r + 1) * n ≤ xs.length / n * n := Nat.mul_le_mul_right n hr
    have h2 : xs.length / n * n ≤ xs.length := Nat.div_mul_le_self _ _
    have : (r + 1) * n = r * n + n := by rw [Nat.add_mul, Nat.one_mul]
    omega
  simp [column, hr, List.getD, List.getElem?_eq_getElem hlt]

/-- per-input index selection: shape i, corner k of the input at `offset` -/
theorem index_selection (perShape stride offset i k : Nat) (stream : List Nat)
    (hk : k < perShape) (ho : offset < stride)
    (hi : i < (stream.length / stride) / perShape) :
    ((indexArray perShape stride offset stream)[i]?.bind (fun row => row[k]?))
      = stream[(perShape * i + k) * stride + offset]? := by
  have hrow : i * perShape + k < stream.length / stride := by
    have h1 : (i + 1) * perShape ≤ (stream.length / stride) / perShape * perShape := Nat.mul_le_mul_right _ hi
    have h2 := Nat.div_mul_le_self (stream.length / stride) perShape
    have : (i + 1) * perShape = i * perShape + perShape := by rw [Nat.add_mul, Nat.one_mul]
    omega
  have hc := column_get stride offset (i * perShape + k) stream hrow ho
  have hcl := column_length stride offset stream
  have hg : (indexArray perShape stride offset stream)[i]?
      = some ((List.range perShape).map (fun j => (column stride offset stream).getD (i * perShape + j) 0)) := by
    simp [indexArray, groups, hcl, hi]
  rw [hg]
  simp only [Option.bind_some]
  have hkk : ((List.range perShape).map (fun j => (column stride offset stream).getD (i * perShape + j) 0))[k]?
      = some ((column stride offset stream).getD (i * perShape + k) 0) := by
    simp [hk]
  rw [hkk]
  have hcl' : i * perShape + k < (column stride offset stream).length := by rw [hcl]; exact hrow
  have : (column stride offset stream).getD (i * perShape + k) 0 = (column stride offset stream)[i * perShape + k] := by
    simp [List.getD, List.getElem?_eq_getElem hcl']
  rw [this, ← List.getElem?_eq_getElem hcl', hc, Nat.mul_comm perShape i]

/-- the array has one row per shape and each row has perShape entries -/
theorem index_shape (perShape stride offset : Nat) (stream : List Nat) :
    (indexArray perShape stride offset stream).length = (stream.length / stride) / perShape ∧
    ∀ row ∈ indexArray perShape stride offset stream, row.length = perShape := by
  constructor
  · simp [indexArray, groups, column_length]
  · intro row hrow
    simp [indexArray, groups] at hrow
    obtain ⟨_, _, rfl⟩ := hrow
    simp

/-- inputs that do not name a <vertices> element are kept as they are, in order, in front -/
theorem expand_keeps_others (verts : List (String × List (String × String))) (ins : List RawInput)
    (h : ∀ i ∈ ins, namesVertices verts i = false) :
    expandInputs verts ins = ins := by
  unfold expandInputs
  have hk : ins.filter (fun i => !namesVertices verts i) = ins := by
    rw [List.filter_eq_self]; intro i hi; simp [h i hi]
  have ha : ins.flatMap (expandOne verts) = [] := by
    rw [List.flatMap_eq_nil_iff]
    intro i hi
    have := h i hi
    unfold namesVertices at this
    unfold expandOne
    split
    · cases hf : verts.find? (fun v => v.1 == i.source) with
      | none => rfl
      | some v => simp [hf] at this
    · rfl
  simp only [hk, ha, List.filter_nil, List.append_nil]

/-- a single VERTEX input naming <vertices vid> becomes one input per <vertices> input, at the
    VERTEX input's offset and set, POSITION read as VERTEX, the other semantics unchanged -/
theorem expand_vertex (vid : String) (vins : List (String × String)) (off : Nat) (st : Option String) :
    expandInputs [(vid, vins)] [⟨off, "VERTEX", vid, st⟩]
      = vins.map (fun sv => ⟨off, if sv.1 == "POSITION" then "VERTEX" else sv.1, sv.2, st⟩) := by
  simp [expandInputs, expandOne, namesVertices]

/-- a binding of <vertices> that the primitive lists itself as well (the writer lists the inputs it derived from <vertices>) is
    one input: it occurs exactly once in the expansion -/
theorem expand_listed_once (vid : String) (sem src : String) (off : Nat) (st : Option String)
    (hv : vid ≠ src) (hs : sem ≠ "POSITION") (hs' : sem ≠ "VERTEX") :
    expandInputs [(vid, [("POSITION", "pos"), (sem, src)])] [⟨off, "VERTEX", vid, st⟩, ⟨off, sem, src, st⟩]
      = [⟨off, sem, src, st⟩, ⟨off, "VERTEX", "pos", st⟩] := by
  have h1 : (vid == src) = false := by simpa using hv
  have h2 : (sem == "POSITION") = false := by simpa using hs
  have h3 : (sem == "VERTEX") = false := by simpa using hs'
  have n1 : namesVertices [(vid, [("POSITION", "pos"), (sem, src)])] ⟨off, "VERTEX", vid, st⟩ = true := by
    simp [namesVertices]
  have n2 : namesVertices [(vid, [("POSITION", "pos"), (sem, src)])] ⟨off, sem, src, st⟩ = false := by
    simp [namesVertices, h1]
  have e1 : expandOne [(vid, [("POSITION", "pos"), (sem, src)])] ⟨off, "VERTEX", vid, st⟩
      = [⟨off, "VERTEX", "pos", st⟩, ⟨off, sem, src, st⟩] := by
    simp [expandOne, h2]
    intro h; exact absurd h hs
  have e2 : expandOne [(vid, [("POSITION", "pos"), (sem, src)])] ⟨off, sem, src, st⟩ = [] := by
    simp [expandOne, h3]
  unfold expandInputs
  simp only [List.filter, n1, n2, Bool.not_true, Bool.not_false, List.flatMap_cons, List.flatMap_nil, e1, e2, List.append_nil]
  have c1 : ([⟨off, sem, src, st⟩] : List RawInput).contains ⟨off, "VERTEX", "pos", st⟩ = false := by
    rw [Bool.eq_false_iff]
    intro hc
    rw [List.contains_iff_mem] at hc
    simp only [List.mem_singleton, RawInput.mk.injEq] at hc
    exact hs' hc.2.1.symm
  have c2 : ([⟨off, sem, src, st⟩] : List RawInput).contains ⟨off, sem, src, st⟩ = true := by
    rw [List.contains_iff_mem]; simp
  have hd : decide ("VERTEX" = sem) = false := by simpa using (Ne.symm hs')
  simp [hd]

theorem normComponents_spec (comps : List String) :
    (comps = ["U", "V"] → normComponents comps = ["S", "T"]) ∧
    (comps = ["S", "T", "P"] → normComponents comps = ["S", "T"]) ∧
    (comps ≠ ["U", "V"] → comps ≠ ["S", "T", "P"] → normComponents comps = comps) := by
  refine ⟨?_, ?_, ?_⟩
  · intro h; simp [normComponents, h]
  · intro h; simp [normComponents, h]
  · intro h1 h2; simp [normComponents, h1, h2]

/-- dropping the third component keeps the first two of every triple -/
theorem dropThird_get : ∀ (xs : List α) (i : Nat), 3 * i + 2 < xs.length →
    (dropThird xs)[2 * i]? = xs[3 * i]? ∧ (dropThird xs)[2 * i + 1]? = xs[3 * i + 1]?
  | a :: b :: c :: t, 0, _ => by simp [dropThird]
  | a :: b :: c :: t, i + 1, h => by
    have h' : 3 * i + 2 < t.length := by simp at h; omega
    have ih := dropThird_get t i h'
    have e1 : 2 * (i + 1) = (2 * i) + 1 + 1 := by omega
    have e2 : 3 * (i + 1) = (3 * i) + 1 + 1 + 1 := by omega
    have e3 : 2 * (i + 1) + 1 = (2 * i + 1) + 1 + 1 := by omega
    have e4 : 3 * (i + 1) + 1 = (3 * i + 1) + 1 + 1 + 1 := by omega
    simp only [dropThird, e1, e2, e3, e4, List.getElem?_cons_succ]
    exact ih
  | [], i, h => by simp at h
  | [_], i, h => by simp at h
  | [_, _], i, h => by simp at h; omega

theorem padRGBA_spec (c : List Int) (zero one : Int) :
    (4 ≤ c.length → padRGBA c zero one = c) ∧
    (c.length ≤ 3 → (padRGBA c zero one).length = 4 ∧ (padRGBA c zero one).take c.length = c ∧
      (padRGBA c zero one)[3]? = some one) := by
  constructor
  · intro h; simp [padRGBA, h]
  · intro h
    have hn : ¬ c.length ≥ 4 := by omega
    simp only [padRGBA, hn, if_false]
    refine ⟨by simp; omega, ?_, ?_⟩
    · simp [List.take_append_of_le_length]
    · have : (c ++ List.replicate (3 - c.length) zero).length = 3 := by simp; omega
      rw [List.getElem?_append_right (by omega)]
      simp [this]

theorem nodeName_default (id : Option String) : nodeName id none = id := rfl
theorem nodeName_given (id : Option String) (n : String) : nodeName id (some n) = some n := rfl

theorem cameraAspect_spec (x y a : Option α) :
    (x.isSome ∧ y.isSome ∧ a.isSome → cameraAspect x y a = none) ∧
    (¬(x.isSome ∧ y.isSome) → cameraAspect x y a = a) := by
  cases x <;> cases y <;> cases a <;> simp [cameraAspect]

/-! ### non-vacuity -/
example : indexArray 3 2 1 [0, 10, 1, 11, 2, 12, 3, 13, 4, 14, 5, 15] = [[10, 11, 12], [13, 14, 15]] := by decide
example : indexArray 2 3 0 [7, 0, 0, 8, 0, 0] = [[7, 8]] := by decide
example : expandInputs [("vtx", [("POSITION", "pos"), ("NORMAL", "nor")])]
    [⟨1, "TEXCOORD", "uv", some "0"⟩, ⟨0, "VERTEX", "vtx", none⟩]
    = [⟨1, "TEXCOORD", "uv", some "0"⟩, ⟨0, "VERTEX", "pos", none⟩, ⟨0, "NORMAL", "nor", none⟩] := by decide
example : dropThird [1, 2, 3, 4, 5, 6] = [1, 2, 4, 5] := by decide
example : padRGBA [5, 6] 0 1 = [5, 6, 0, 1] := by decide

end Pyc.Props.C05
