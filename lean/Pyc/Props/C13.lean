/-
C13 — Transforms have their mathematical meaning and compose in document order.
Property theorems only; helper lemmas are in Pyc/Proofs/Transform.lean, the model in
Pyc/Model/Transform.lean.  `R` is any commutative ring; a homogeneous point is `(v, 1)`, a
direction `(v, 0)`; `M.apply v` is `M·v` (column vectors).

What a ring cannot say is a parameter of the model and a hypothesis here:
`c, s` with `c² + s² = 1` stand for `cos`/`sin` of `angle·π/180`; `rf, rs` with
`rf²·‖eye − interest‖² = 1`, `rs²·‖front × up‖² = 1` for the reciprocal square roots the
lookat constructor divides by (the code takes the positive roots).
-/
import Pyc.Proofs.Transform
import Mathlib.Algebra.Ring.Rat

namespace Pyc.Props.C13
open Pyc.Tf

variable {R : Type} [CommRing R]

/-! ## the five elements -/

/-- `<translate>`: points move by `(x, y, z)`, directions do not move -/
theorem translate_def (x y z : R) (v : V3 R) (w : R) :
    (translate x y z).apply (V4.ofV3 v w) = ⟨v.x + x * w, v.y + y * w, v.z + z * w, w⟩ := by
  tf_ring

/-- `<scale>`: componentwise scaling of points and directions -/
theorem scale_def (x y z : R) (v : V3 R) (w : R) :
    (scale x y z).apply (V4.ofV3 v w) = ⟨x * v.x, y * v.y, z * v.z, w⟩ := by
  tf_ring

/-- `<matrix>`: sixteen numbers are the matrix in row-major order — the image of the k-th basis
    vector is made of entries `k, k+4, k+8, k+12` (so entries 3, 7, 11 are the translation),
    flattening gives the numbers back, and any other count is rejected -/
theorem matrix_row_major (a0 a1 a2 a3 a4 a5 a6 a7 a8 a9 a10 a11 a12 a13 a14 a15 : R) :
    ∃ m, ofList [a0, a1, a2, a3, a4, a5, a6, a7, a8, a9, a10, a11, a12, a13, a14, a15] = .ok m ∧
      m.toList = [a0, a1, a2, a3, a4, a5, a6, a7, a8, a9, a10, a11, a12, a13, a14, a15] ∧
      m.apply ⟨1, 0, 0, 0⟩ = ⟨a0, a4, a8, a12⟩ ∧ m.apply ⟨0, 1, 0, 0⟩ = ⟨a1, a5, a9, a13⟩ ∧
      m.apply ⟨0, 0, 1, 0⟩ = ⟨a2, a6, a10, a14⟩ ∧ m.apply ⟨0, 0, 0, 1⟩ = ⟨a3, a7, a11, a15⟩ := by
  refine ⟨_, rfl, rfl, ?_, ?_, ?_, ?_⟩ <;> tf_ring

omit [CommRing R] in
theorem matrix_count (l : List R) : (∃ m, ofList l = .ok m) ↔ l.length = 16 := by
  constructor
  · rintro ⟨m, h⟩
    unfold ofList at h
    split at h
    · rfl
    · cases h
  · intro h
    match l, h with
    | [a0, a1, a2, a3, a4, a5, a6, a7, a8, a9, a10, a11, a12, a13, a14, a15], _ => exact ⟨_, rfl⟩

/-- `<rotate>`: the matrix of `makeRotationMatrix` is Rodrigues' rotation formula
    `R v = c·v + s·(a × v) + (1 − c)(a·v)·a` — an identity, no hypothesis -/
theorem rot_rodrigues (x y z c s : R) (v : V3 R) (w : R) :
    (rotate x y z c s).apply (V4.ofV3 v w) =
      V4.ofV3 (V3.add (V3.add (V3.smul c v) (V3.smul s (V3.cross ⟨x, y, z⟩ v)))
                (V3.smul ((1 - c) * V3.dot ⟨x, y, z⟩ v) ⟨x, y, z⟩)) w := by
  tf_ring

/-- a unit axis is fixed -/
theorem rot_axis_fixed (x y z c s : R) (h : x * x + y * y + z * z = 1) :
    (rotate x y z c s).apply ⟨x, y, z, 0⟩ = ⟨x, y, z, 0⟩ := by
  tf_unfold
  refine ⟨?_, ?_, ?_, ?_⟩
  · linear_combination ((1 - c) * x) * h
  · linear_combination ((1 - c) * y) * h
  · linear_combination ((1 - c) * z) * h
  · ring

/-- lengths are preserved -/
theorem rot_norm (x y z c s : R) (v : V3 R) (h : x * x + y * y + z * z = 1)
    (hc : c * c + s * s = 1) :
    (((rotate x y z c s).apply (V4.ofV3 v 0)).xyz).dot (((rotate x y z c s).apply (V4.ofV3 v 0)).xyz)
      = v.dot v := by
  rcases v with ⟨a, b, d⟩
  tf_unfold
  linear_combination ((a*a+b*b+d*d) - (x*a+y*b+z*d)*(x*a+y*b+z*d)) * hc
    + (s*s*(a*a+b*b+d*d) + (1-c)*(1-c)*(x*a+y*b+z*d)*(x*a+y*b+z*d)) * h

/-- `Rᵀ·R = 1` -/
theorem rot_orthogonal (x y z c s : R) (h : x * x + y * y + z * z = 1) (hc : c * c + s * s = 1) :
    (rotate x y z c s).transpose.mul (rotate x y z c s) = M4.one := by
  tf_unfold
  refine ⟨⟨?_, ?_, ?_, ?_⟩, ⟨?_, ?_, ?_, ?_⟩, ⟨?_, ?_, ?_, ?_⟩, ⟨?_, ?_, ?_, ?_⟩⟩
  · linear_combination (1 - x*x) * hc + (s*s + (1-c)*(1-c)*x*x) * h
  · linear_combination (- x*y) * hc + ((1-c)*(1-c)*x*y) * h
  · linear_combination (- x*z) * hc + ((1-c)*(1-c)*x*z) * h
  · ring
  · linear_combination (- x*y) * hc + ((1-c)*(1-c)*x*y) * h
  · linear_combination (1 - y*y) * hc + (s*s + (1-c)*(1-c)*y*y) * h
  · linear_combination (- y*z) * hc + ((1-c)*(1-c)*y*z) * h
  · ring
  · linear_combination (- x*z) * hc + ((1-c)*(1-c)*x*z) * h
  · linear_combination (- y*z) * hc + ((1-c)*(1-c)*y*z) * h
  · linear_combination (1 - z*z) * hc + (s*s + (1-c)*(1-c)*z*z) * h
  all_goals ring

/-- … and it is a proper rotation (no reflection) -/
theorem rot_det_one (x y z c s : R) (h : x * x + y * y + z * z = 1) (hc : c * c + s * s = 1) :
    (rotate x y z c s).det3 = 1 := by
  tf_unfold
  linear_combination hc + (s*s + (1-c)*(c*c + s*s*(x*x+y*y+z*z))) * h

/-- right-handed, by the angle whose cosine and sine are `c, s`: about +Z the X axis turns
    towards +Y; angle 0 is the identity; angles about one unit axis add up -/
theorem rot_right_handed (c s : R) :
    (rotate 0 0 1 c s).apply ⟨1, 0, 0, 0⟩ = ⟨c, s, 0, 0⟩ ∧
    (rotate 1 0 0 c s).apply ⟨0, 1, 0, 0⟩ = ⟨0, c, s, 0⟩ ∧
    (rotate 0 1 0 c s).apply ⟨0, 0, 1, 0⟩ = ⟨s, 0, c, 0⟩ := by
  refine ⟨?_, ?_, ?_⟩ <;> tf_ring

theorem rot_zero (x y z : R) : rotate x y z 1 0 = M4.one := by tf_ring

theorem rot_angle_add (x y z c₁ s₁ c₂ s₂ : R) (h : x * x + y * y + z * z = 1) :
    (rotate x y z c₁ s₁).mul (rotate x y z c₂ s₂)
      = rotate x y z (c₁ * c₂ - s₁ * s₂) (s₁ * c₂ + c₁ * s₂) := by
  tf_unfold
  refine ⟨⟨?_, ?_, ?_, ?_⟩, ⟨?_, ?_, ?_, ?_⟩, ⟨?_, ?_, ?_, ?_⟩, ⟨?_, ?_, ?_, ?_⟩⟩
  · linear_combination (-(s₁*s₂) + (1-c₁)*(1-c₂)*x*x) * h
  · linear_combination ((1-c₁)*(1-c₂)*x*y) * h
  · linear_combination ((1-c₁)*(1-c₂)*x*z) * h
  · ring
  · linear_combination ((1-c₁)*(1-c₂)*x*y) * h
  · linear_combination (-(s₁*s₂) + (1-c₁)*(1-c₂)*y*y) * h
  · linear_combination ((1-c₁)*(1-c₂)*y*z) * h
  · ring
  · linear_combination ((1-c₁)*(1-c₂)*x*z) * h
  · linear_combination ((1-c₁)*(1-c₂)*y*z) * h
  · linear_combination (-(s₁*s₂) + (1-c₁)*(1-c₂)*z*z) * h
  all_goals ring

/-! ## lookat -/

/-- the origin is placed at the eye (no hypothesis) -/
theorem lookat_eye (eye interest up : V3 R) (rf rs : R) :
    (lookat eye interest up rf rs).apply ⟨0, 0, 0, 1⟩ = V4.ofV3 eye 1 := by
  tf_ring

/-- `-Z` points at the interest point: `M·(0,0,−1,0) = rf·(interest − eye)`, i.e.
    `(interest − eye)/n` for the `n` with `n·rf = 1`, and that `n` is the distance -/
theorem lookat_minus_z (eye interest up : V3 R) (rf rs : R) :
    (lookat eye interest up rf rs).apply ⟨0, 0, -1, 0⟩ = V4.ofV3 (V3.smul rf (V3.sub interest eye)) 0 := by
  tf_ring

theorem lookat_minus_z_unit (eye interest up : V3 R) (rf rs n : R) (hn : n * rf = 1)
    (hf : rf * rf * (V3.sub eye interest).dot (V3.sub eye interest) = 1) :
    V3.smul n ((lookat eye interest up rf rs).apply ⟨0, 0, -1, 0⟩).xyz = V3.sub interest eye ∧
    n * n = (V3.sub interest eye).dot (V3.sub interest eye) := by
  rcases eye with ⟨ex, ey, ez⟩
  rcases interest with ⟨ix, iy, iz⟩
  tf_unfold at hf ⊢
  refine ⟨⟨?_, ?_, ?_⟩, ?_⟩
  · linear_combination (ix - ex) * hn
  · linear_combination (iy - ey) * hn
  · linear_combination (iz - ez) * hn
  · linear_combination (-(n * n)) * hf
      + ((ex-ix)*(ex-ix) + (ey-iy)*(ey-iy) + (ez-iz)*(ez-iz)) * (n * rf + 1) * hn

/-- the three axes written into columns 0, 1, 2 are an orthonormal right-handed frame, so the
    lookat matrix is a rigid placement: X = side, Y = up', Z = front -/
theorem lookat_frame (eye interest up : V3 R) (rf rs : R)
    (hf : rf * rf * (V3.sub eye interest).dot (V3.sub eye interest) = 1)
    (hs : rs * rs * ((lookFront eye interest rf).cross up).dot ((lookFront eye interest rf).cross up) = 1) :
    let f := lookFront eye interest rf
    let s := lookSide eye interest up rf rs
    let u := lookUp eye interest up rf rs
    (lookat eye interest up rf rs).apply ⟨1, 0, 0, 0⟩ = V4.ofV3 s 0 ∧
    (lookat eye interest up rf rs).apply ⟨0, 1, 0, 0⟩ = V4.ofV3 u 0 ∧
    (lookat eye interest up rf rs).apply ⟨0, 0, 1, 0⟩ = V4.ofV3 f 0 ∧
    s.dot s = 1 ∧ u.dot u = 1 ∧ f.dot f = 1 ∧ s.dot u = 0 ∧ s.dot f = 0 ∧ u.dot f = 0 ∧
    (lookat eye interest up rf rs).det3 = 1 := by
  intro f s u
  have hff : f.dot f = 1 := by
    simp only [f, lookFront, V3.dot, V3.smul] at hf ⊢
    linear_combination hf
  have hss : s.dot s = 1 := by
    have : s.dot s = rs * rs * (f.cross up).dot (f.cross up) := by
      simp only [s, f, lookSide, V3.dot, V3.neg, V3.smul]; ring
    rw [this]; exact hs
  have hfs : f.dot s = 0 := look_front_dot_side eye interest up rf rs
  have huu : u.dot u = 1 := by
    show (f.cross s).dot (f.cross s) = 1
    rw [cross_dot_cross, hff, hss, hfs]; ring
  refine ⟨?_, ?_, ?_, hss, huu, hff, ?_, ?_, ?_, ?_⟩
  · simp only [lookat, M4.apply, V4.dot, V4.ofV3, V4.mk.injEq]; and_intros <;> ring
  · simp only [lookat, M4.apply, V4.dot, V4.ofV3, V4.mk.injEq]; and_intros <;> ring
  · simp only [lookat, M4.apply, V4.dot, V4.ofV3, V4.mk.injEq]; and_intros <;> ring
  · exact dot_cross_right f s
  · rw [dot_comm]; exact hfs
  · rw [dot_comm]; exact dot_cross_left f s
  · have := frame_det f s
    have hd : (lookat eye interest up rf rs).det3 = s.dot s * f.dot f - f.dot s * f.dot s := by
      rw [← this]; simp only [lookat, M4.det3, lookUp, f, s]
    rw [hd, hss, hff, hfs]; ring

/-- the camera's Y axis is the given up vector with its component along the viewing direction
    removed, times `rs` (which the code takes positive): `up' = rs·((f·f)·up − (f·up)·f)` -/
theorem lookat_up_projection (eye interest up : V3 R) (rf rs : R) :
    lookUp eye interest up rf rs =
      V3.smul rs (V3.sub (V3.smul ((lookFront eye interest rf).dot (lookFront eye interest rf)) up)
        (V3.smul ((lookFront eye interest rf).dot up) (lookFront eye interest rf))) := by
  simp only [lookUp, lookSide, V3.dot, V3.cross, V3.neg, V3.smul, V3.sub, V3.mk.injEq]
  and_intros <;> ring

/-! ## composition -/

/-- a product of transforms acts as the nested application: the FIRST listed transform is the
    outermost one (applied last to a point) -/
theorem compose_order (ts : List (M4 R)) (v : V4 R) : (prod ts).apply v = ts.foldr M4.apply v :=
  apply_prod ts v

/-- the accumulated matrix of a list is the ordered product: `prod (xs ++ ys) = prod xs · prod ys` -/
theorem prod_ordered (xs ys : List (M4 R)) (t : M4 R) :
    prod ([] : List (M4 R)) = M4.one ∧ prod [t] = t ∧ prod (t :: xs) = t.mul (prod xs) ∧
    prod (xs ++ ys) = (prod xs).mul (prod ys) :=
  ⟨prod_nil, prod_singleton t, prod_cons t xs, prod_append xs ys⟩

/-! ## constructed = loaded = after save -/

/-- a loader performs the count check and then the very constructor call -/
theorem load_eq_construct (x y z a c s rf rs e0 e1 e2 i0 i1 i2 u0 u1 u2 : R) (m : List R) :
    (Elem.translate [x, y, z]).load = (Ctor.translate x y z).build ∧
    (Elem.rotate [x, y, z, a] c s).load = (Ctor.rotate x y z c s).build ∧
    (Elem.scale [x, y, z]).load = (Ctor.scale x y z).build ∧
    (Elem.matrix m).load = (Ctor.matrix m).build ∧
    (Elem.lookat [e0, e1, e2, i0, i1, i2, u0, u1, u2] rf rs).load
      = (Ctor.lookat [e0, e1, e2] [i0, i1, i2] [u0, u1, u2] rf rs).build ∧
    (Ctor.lookat [e0, e1, e2] [i0, i1, i2] [u0, u1, u2] rf rs).build
      = .ok (lookat ⟨e0, e1, e2⟩ ⟨i0, i1, i2⟩ ⟨u0, u1, u2⟩ rf rs) := by
  refine ⟨rfl, rfl, rfl, rfl, ?_, rfl⟩
  simp [Elem.load, Elem.toCtor]

/-- a wrong number of floats is rejected (`DaeMalformedError`) by every loader -/
theorem load_count (fl : List R) (c s rf rs : R) :
    (fl.length ≠ 3 → (Elem.translate fl).load = .error .malformed ∧ (Elem.scale fl).load = .error .malformed) ∧
    (fl.length ≠ 4 → (Elem.rotate fl c s).load = .error .malformed) ∧
    (fl.length ≠ 16 → (Elem.matrix fl).load = .error .malformed) ∧
    (fl.length ≠ 9 → (Elem.lookat fl rf rs).load = .error .malformed) := by
  refine ⟨?_, ?_, ?_, ?_⟩
  · intro h
    constructor <;>
    · simp only [Elem.load, Elem.toCtor]
      split
      · next heq => split at heq <;> simp_all
      · next heq => split at heq <;> simp_all
  · intro h
    simp only [Elem.load, Elem.toCtor]
    split
    · next heq => split at heq <;> simp_all
    · next heq => split at heq <;> simp_all
  · intro h
    simp only [Elem.load, Elem.toCtor, Ctor.build]
    unfold ofList
    split
    · simp at h
    · rfl
  · intro h
    simp [Elem.load, Elem.toCtor, h]

/-- `Node(...)`: the cached matrix is the ordered product of the transforms' matrices -/
theorem node_matrix_constructed (ts : List (M4 R)) :
    (Node.new ts).transforms = ts ∧ (Node.new ts).matrix = prod ts := ⟨rfl, rfl⟩

/-- `Node.load`: the transforms are exactly the transform children, each loaded successfully,
    in document order (other children interleaved or not), and the node is the one the
    constructor builds from them; a load error is the error of one of the transform children -/
theorem node_matrix_loaded (children : List (Child R)) :
    (∀ n, Node.load children = .ok n →
      (tfElems children).map Elem.load = n.transforms.map Except.ok ∧
      n = Node.new n.transforms ∧ n.matrix = prod n.transforms) ∧
    (∀ err, Node.load children = .error err → ∃ e ∈ tfElems children, e.load = .error err) := by
  constructor
  · intro n h
    unfold Node.load at h
    cases hc : collect children [] with
    | error err => simp [hc] at h
    | ok ms =>
      simp only [hc, Except.ok.injEq] at h
      obtain ⟨new, h1, h2⟩ := collect_ok children [] ms hc
      subst h
      simp only [List.nil_append] at h1
      subst h1
      exact ⟨h2, rfl, rfl⟩
  · intro err h
    unfold Node.load at h
    cases hc : collect children [] with
    | error err' =>
      cases err; cases err'
      exact collect_error children [] _ hc
    | ok ms => simp [hc] at h

/-- edits of the transform list never touch the cached matrix, `save` never touches the list -/
theorem edits_leave_matrix (n : Node R) (es : List (Edit (M4 R))) :
    (n.run (es.map Op.edit)).matrix = n.matrix := by
  induction es generalizing n with
  | nil => rfl
  | cons e rest ih => rw [List.map_cons, run_cons, ih, step_edit_matrix]

/-- for EVERY history of list edits and saves (from any starting node, constructed or loaded):
    saving makes the cached matrix the ordered product of the list as it is now — the same
    matrix a fresh constructor call on that list yields — and later edits keep that value
    until the next save -/
theorem node_matrix_after_save (n : Node R) (ops : List (Op R)) (later : List (Edit (M4 R))) :
    let saved := n.run (ops ++ [Op.save])
    saved.transforms = (n.run ops).transforms ∧
    saved.matrix = prod saved.transforms ∧
    saved = Node.new saved.transforms ∧
    (saved.run (later.map Op.edit)).matrix = prod saved.transforms := by
  intro saved
  have h1 : saved = (n.run ops).save := by
    show n.run (ops ++ [Op.save]) = _
    rw [run_append]; rfl
  refine ⟨by rw [h1]; rfl, by rw [h1]; rfl, by rw [h1]; rfl, ?_⟩
  rw [edits_leave_matrix, h1]; rfl

/-- constructed = loaded = after save: whenever the three routes end with the same list of
    transform matrices, they end with the same node matrix -/
theorem node_matrix_three_ways (ts : List (M4 R)) (children : List (Child R)) (nl : Node R)
    (n0 : Node R) (ops : List (Op R))
    (hl : Node.load children = .ok nl) (hts : nl.transforms = ts)
    (hh : (n0.run ops).transforms = ts) :
    (Node.new ts).matrix = prod ts ∧ nl.matrix = prod ts ∧
    (n0.run (ops ++ [Op.save])).matrix = prod ts := by
  refine ⟨rfl, ?_, ?_⟩
  · rw [← hts]; exact ((node_matrix_loaded children).1 nl hl).2.2
  · have := node_matrix_after_save n0 ops []
    simp only at this
    rw [this.2.1, this.1, hh]

/-! ## non-vacuity: concrete instances (tests, not theorems) -/

-- 90° about +Z (c = 0, s = 1) over Int: X ↦ Y, Y ↦ −X
example : (rotate (0 : Int) 0 1 0 1).apply ⟨1, 0, 0, 0⟩ = ⟨0, 1, 0, 0⟩ ∧
    (rotate (0 : Int) 0 1 0 1).apply ⟨0, 1, 0, 0⟩ = ⟨-1, 0, 0, 0⟩ := by decide

-- a unit axis off the coordinate axes and an angle with rational cosine and sine
example : ((2 / 3 : Rat) * (2 / 3) + (1 / 3) * (1 / 3) + (2 / 3) * (2 / 3) = 1) ∧
    ((3 / 5 : Rat) * (3 / 5) + (4 / 5) * (4 / 5) = 1) := by constructor <;> norm_num

example : (rotate (2 / 3 : Rat) (1 / 3) (2 / 3) (3 / 5) (4 / 5)).det3 = 1 :=
  rot_det_one _ _ _ _ _ (by norm_num) (by norm_num)

-- translate then scale is not scale then translate: order matters, first listed is outermost
example : (prod [translate (1 : Int) 2 3, scale 2 2 2]).apply ⟨1, 1, 1, 1⟩ = ⟨3, 4, 5, 1⟩ ∧
    (prod [scale (2 : Int) 2 2, translate 1 2 3]).apply ⟨1, 1, 1, 1⟩ = ⟨4, 6, 8, 1⟩ := by decide

-- a lookat whose up vector is neither unit nor perpendicular to the viewing direction:
-- eye (4,1,5), interest (1,1,1), up (3,5,4); ‖eye − interest‖ = 5, ‖front × up‖ = 5
example : lookat (⟨4, 1, 5⟩ : V3 Rat) ⟨1, 1, 1⟩ ⟨3, 5, 4⟩ (1 / 5) (1 / 5) =
    ⟨⟨4 / 5, 0, 3 / 5, 4⟩, ⟨0, 1, 0, 1⟩, ⟨-3 / 5, 0, 4 / 5, 5⟩, ⟨0, 0, 0, 1⟩⟩ := by
  simp only [lookat, lookUp, lookSide, lookFront, V3.cross, V3.neg, V3.smul, V3.sub]; norm_num

example : ((1 / 5 : Rat) * (1 / 5) * (V3.sub (⟨4, 1, 5⟩ : V3 Rat) ⟨1, 1, 1⟩).dot (V3.sub ⟨4, 1, 5⟩ ⟨1, 1, 1⟩) = 1) := by
  simp only [V3.dot, V3.sub]; norm_num

-- load: transforms interleaved with other children; a wrong count aborts
example : (Node.load [.tf (.translate [(1 : Int), 2, 3]), .other, .tf (.scale [2, 2, 2])]).toOption.map (·.matrix)
    = some ⟨⟨2, 0, 0, 1⟩, ⟨0, 2, 0, 2⟩, ⟨0, 0, 2, 3⟩, ⟨0, 0, 0, 1⟩⟩ := by decide
example : (Node.load [.tf (.translate [(1 : Int), 2])]).toOption.map (·.matrix) = none := by decide

-- a history: reverse the list, matrix is stale until save
example : ((Node.new [translate (1 : Int) 2 3, scale 2 2 2]).run [.edit .reverse]).matrix
    = ⟨⟨2, 0, 0, 1⟩, ⟨0, 2, 0, 2⟩, ⟨0, 0, 2, 3⟩, ⟨0, 0, 0, 1⟩⟩ := by decide
example : ((Node.new [translate (1 : Int) 2 3, scale 2 2 2]).run [.edit .reverse, .save]).matrix
    = ⟨⟨2, 0, 0, 2⟩, ⟨0, 2, 0, 4⟩, ⟨0, 0, 2, 6⟩, ⟨0, 0, 0, 1⟩⟩ := by decide
example : ((Node.new [translate (1 : Int) 2 3]).step (.edit (.pop (some 5)))).2 = .indexError := by decide

/-! ## several nodes: each owns its list and its matrix

The theorems above follow ONE node.  A scene holds many; the implementation keeps `transforms` and `matrix` per object, so a
history over several nodes is the product of per-node histories.  The check's "bystander" oracle (props/c13.py: the nodes
around the target, and a sibling made without a transform list and edited before the case starts) is the tie of this
frame to the real `Node` class — a list shared between nodes made with default arguments breaks exactly this. -/

/-- the nodes of a scene, each with its own transform list; an operation is addressed to one of them -/
def runScene (ns : List (Node R)) (h : List (Nat × Op R)) : List (Node R) :=
  h.foldl (fun s io => s.modify io.1 (fun n => (n.step io.2).1)) ns

/-- what one node went through: the operations addressed to it, in order -/
def opsOf (j : Nat) (h : List (Nat × Op R)) : List (Op R) := (h.filter (fun io => io.1 == j)).map (·.2)

/-- every history over several nodes projects onto per-node histories: node `j` ends exactly where its own operations
    take it — an edit or save of one node never shows in another (each node owns its list and its matrix) -/
theorem scene_projection (ns : List (Node R)) (h : List (Nat × Op R)) (j : Nat) :
    (runScene ns h)[j]? = ns[j]?.map (fun n => n.run (opsOf j h)) := by
  induction h generalizing ns with
  | nil => simp [runScene, opsOf, Node.run]
  | cons io rest ih =>
    have : runScene ns (io :: rest) = runScene (ns.modify io.1 (fun n => (n.step io.2).1)) rest := rfl
    rw [this, ih]
    by_cases hij : io.1 = j
    · subst hij
      simp [opsOf, List.getElem?_modify_eq, Node.run, Option.map_map, Function.comp_def]
    · have hne : (io.1 == j) = false := by simpa using hij
      simp [opsOf, List.getElem?_modify_ne _ _ hij, hne]

/-- in particular a node nobody addressed is what it was, and its matrix after any number of saves elsewhere is still
    the product of its own list whenever it was before -/
theorem untouched_node (ns : List (Node R)) (h : List (Nat × Op R)) (j : Nat) (hj : ∀ io ∈ h, io.1 ≠ j) :
    (runScene ns h)[j]? = ns[j]? := by
  rw [scene_projection]
  have : opsOf j h = [] := by
    simp only [opsOf, List.map_eq_nil_iff, List.filter_eq_nil_iff]
    intro io hio
    simpa using hj io hio
  rw [this]
  cases ns[j]? <;> simp [Node.run]

example : (runScene [Node.new [translate (1 : Int) 2 3], Node.new []]
    [(0, Op.edit (.append (scale 2 2 2))), (0, Op.save)])[1]? = some (Node.new []) := by
  rw [untouched_node]
  · rfl
  · intro io hio; simp at hio; rcases hio with rfl | rfl <;> simp

end Pyc.Props.C13
