/-
C20 — Documents are isolated from one another.
Property theorems only; helper lemmas are in Pyc/Proofs/Isolation.lean, the model in
Pyc/Model/Isolation.lean.

The statements are unconditional for systems whose operations have the frame type
`DocState → DocState × Out`.  Whether the operations of the real library have that type is the
correspondence obligation discharged on every run by props/c20.py (module-state monitor,
object-graph disjointness, interleaved-vs-solo runs, threads in the thorough tier).
Interleavings finer than one operation, and races inside numpy / ElementTree / zipfile, cannot
be exhibited by this model (DESIGN.md, C20 "Partial").
-/
import Pyc.Proofs.Isolation

namespace Pyc.Props.C20
open Pyc.Iso

variable {D G O : Type}

/-- an operation on document `e.doc` leaves every other document and the globals unchanged -/
theorem step_frame (s : Sys D G) (e : Ev D O) :
    (∀ j, j ≠ e.doc → (stepSys s e).1.docs j = s.docs j) ∧ (stepSys s e).1.globals = s.globals :=
  ⟨fun j h => stepSys_docs_other s e j h, rfl⟩

/-- operations on distinct documents commute: same resulting system, and each operation
    produces the same output whichever comes first -/
theorem steps_commute (s : Sys D G) (e₁ e₂ : Ev D O) (h : e₁.doc ≠ e₂.doc) :
    (stepSys (stepSys s e₁).1 e₂).1 = (stepSys (stepSys s e₂).1 e₁).1 ∧
    (stepSys (stepSys s e₂).1 e₁).2 = (stepSys s e₁).2 ∧
    (stepSys (stepSys s e₁).1 e₂).2 = (stepSys s e₂).2 := by
  have h12 : (stepSys s e₁).1.docs e₂.doc = s.docs e₂.doc := stepSys_docs_other s e₁ _ (Ne.symm h)
  have h21 : (stepSys s e₂).1.docs e₁.doc = s.docs e₁.doc := stepSys_docs_other s e₂ _ h
  refine ⟨?_, ?_, ?_⟩
  · show ({ docs := setDoc (stepSys s e₁).1.docs e₂.doc _, globals := s.globals } : Sys D G)
        = { docs := setDoc (stepSys s e₂).1.docs e₁.doc _, globals := s.globals }
    rw [h12, h21]
    show ({ docs := setDoc (setDoc s.docs e₁.doc _) e₂.doc _, globals := s.globals } : Sys D G)
        = { docs := setDoc (setDoc s.docs e₂.doc _) e₁.doc _, globals := s.globals }
    rw [setDoc_comm _ _ _ _ _ h]
  · simp only [stepSys_out, h21]
  · simp only [stepSys_out, h12]

/-- THE all-schedules statement.  For every schedule `σ` — any interleaving of any number of
    operations on any set of documents — and every initial system, what an observer of document
    `i` sees (its final state and its outputs, in order) is exactly the result of handling the
    document alone with its own operations; and the globals are untouched. -/
theorem schedule_projection (σ : List (Ev D O)) (s : Sys D G) (i : Nat) :
    proj i (run σ s) = runSolo (opsOf i σ) (s.docs i) ∧ (run σ s).1.globals = s.globals :=
  ⟨run_proj σ s i, run_globals σ s⟩

/-- two schedules that give every document the same operations in the same order (i.e. two
    interleavings of the same per-document histories), started from systems that agree on the
    documents (the globals may differ), are indistinguishable document by document -/
theorem interleavings_agree (σ τ : List (Ev D O)) (s t : Sys D G)
    (hops : ∀ i, opsOf i σ = opsOf i τ) (hdocs : ∀ i, s.docs i = t.docs i) (i : Nat) :
    proj i (run σ s) = proj i (run τ t) := by
  rw [run_proj, run_proj, hops i, hdocs i]

/-- what else happened in the process is irrelevant: prefixing, suffixing or interleaving a
    schedule with operations on OTHER documents does not change what document `i` shows -/
theorem others_irrelevant (σ τ : List (Ev D O)) (s : Sys D G) (i : Nat)
    (hτ : ∀ e ∈ τ, e.doc ≠ i) :
    proj i (run (τ ++ σ) s) = proj i (run σ s) ∧ proj i (run (σ ++ τ) s) = proj i (run σ s) := by
  have hnil : opsOf i τ = [] := by
    simp only [opsOf, List.map_eq_nil_iff, List.filter_eq_nil_iff]
    intro e he; simpa using hτ e he
  constructor <;> rw [run_proj, run_proj, opsOf_append, hnil] <;> simp

/-- the pycollada document machine: namespace, ignore mask, recorded errors and library ids of
    document `i` after ANY schedule are those of the solo run of its own operations -/
theorem pyc_schedule_projection (σ : Sched) (s : Sys DocState Globals) (i : Nat) :
    proj i (runDocs σ s) = soloDoc i σ (s.docs i) ∧ (runDocs σ s).1.globals = s.globals :=
  schedule_projection (σ.map toEv) s i

/-- in particular each of the four things the property names never leaks -/
theorem pyc_no_leak (σ : Sched) (s : Sys DocState Globals) (i : Nat) :
    ((runDocs σ s).1.docs i).ns = (soloDoc i σ (s.docs i)).1.ns ∧
    ((runDocs σ s).1.docs i).mask = (soloDoc i σ (s.docs i)).1.mask ∧
    ((runDocs σ s).1.docs i).errors = (soloDoc i σ (s.docs i)).1.errors ∧
    ((runDocs σ s).1.docs i).ids = (soloDoc i σ (s.docs i)).1.ids ∧
    outsOf i (runDocs σ s).2 = (soloDoc i σ (s.docs i)).2 := by
  have h := (pyc_schedule_projection σ s i).1
  simp only [proj] at h
  rw [← h]
  exact ⟨rfl, rfl, rfl, rfl, rfl⟩

/-- the frame type is what carries the theorem: a system with leaky operation TYPE whose
    operations happen to be lifted frame operations still projects -/
theorem leaky_of_frame_projects (σ : List (Ev D O)) (s : Sys D G) (i : Nat) :
    proj i (runL (σ.map liftEv) s) = runSoloL (opsOfL i (σ.map liftEv)) s.globals (s.docs i) := by
  rw [runL_lift, opsOfL_lift, runSoloL_lift, run_proj]

/-! ### NEGATIVE results: what a leak looks like (concrete witnesses)

`applyLeaky` lets `load` store the root namespace in a module-level tag and `save` write through
it, and lets `ignoreErrors` append to a mask list shared by all documents.  Projection fails. -/

def nsA : String := "urn:a"
def nsB : String := "urn:b"
def lightOk (ns : String) : Item := ⟨.lights, "l0", ns, none, false⟩
def lightBad (ns : String) : Item := ⟨.lights, "l1", ns, some .incomplete, false⟩

/-- witness 1 (namespace leak): load A, load B, save A -/
def leakNs : Sched := [(0, .load nsA none [] [lightOk nsA]), (1, .load nsB none [] [lightOk nsB]), (0, .save)]
/-- witness 2 (mask leak): document 0 ignores everything, document 1 loads a damaged file -/
def leakMask : Sched :=
  [(0, .new), (0, .setIgnore [.daeError]), (1, .load nsA none [] [lightOk nsA, lightBad nsA])]

/-- with a module-level tag the written namespace of document 0 is the one document 1 loaded -/
theorem leaky_projection_fails_namespace :
    proj 0 (runDocsL leakNs initSys) ≠ soloDocL 0 leakNs initSys.globals (initSys.docs 0) ∧
    outsOf 0 (runDocsL leakNs initSys).2 = [.loaded, .saved nsB] ∧
    (soloDocL 0 leakNs initSys.globals (initSys.docs 0)).2 = [.loaded, .saved nsA] := by
  decide

/-- with a shared mask list a damaged document loads (error swallowed) where alone it fails -/
theorem leaky_projection_fails_mask :
    proj 1 (runDocsL leakMask initSys) ≠ soloDocL 1 leakMask initSys.globals (initSys.docs 1) ∧
    outsOf 1 (runDocsL leakMask initSys).2 = [.loaded] ∧
    (soloDocL 1 leakMask initSys.globals (initSys.docs 1)).2 = [.fail .incomplete] := by
  decide

/-- hence no projection theorem holds for operations of the leaky type -/
theorem leaky_no_projection_theorem :
    ¬ ∀ (σ : Sched) (s : Sys DocState Globals) (i : Nat),
      proj i (runDocsL σ s) = soloDocL i σ s.globals (s.docs i) :=
  fun h => leaky_projection_fails_namespace.1 (h leakNs initSys 0)

/-- and the leaky machine does write the globals -/
theorem leaky_writes_globals : (runDocsL leakNs initSys).1.globals ≠ initSys.globals := by decide

/-! ### non-vacuity: concrete schedules over three documents with mixed namespaces, a damaged
    document, different masks, edits and saves -/

def matBad (ns : String) : Item := ⟨.materials, "m1", ns, some .brokenRef, false⟩
def foreign : Item := ⟨.lights, "l9", "urn:other", some .malformed, false⟩

def demo : Sched :=
  [ (0, .load nsA none [] [lightOk nsA, foreign]),
    (1, .load nsB none [.brokenRef] [lightOk nsB, lightBad nsB, matBad nsB]),
    (2, .load defaultNs none [.daeError] [lightBad defaultNs, matBad defaultNs, lightOk defaultNs]),
    (1, .new),
    (0, .add .nodes "n1"),
    (2, .setIgnore [.malformed]),
    (1, .add .lights "l0"),
    (0, .save),
    (2, .remove .lights "l0"),
    (1, .load nsB (some .malformed) [] []),
    (2, .save),
    (0, .remove .lights "zz"),
    (1, .save) ]

-- document 1: the damaged load fails (incomplete light not masked), leaving the slot empty; new;
-- add; a load that does not parse leaves the document as it was; save in the default namespace
example : proj 1 (runDocs demo initSys) =
    (⟨true, defaultNs, [], [], [(.lights, "l0")]⟩, [.fail .incomplete, .ok, .ok, .fail .malformed, .saved defaultNs]) := by
  decide
-- document 2: errors recorded in loader order (materials before lights), mask grows, light removed
example : proj 2 (runDocs demo initSys) =
    (⟨true, defaultNs, [.daeError, .malformed], [.brokenRef, .incomplete], []⟩, [.loaded, .ok, .ok, .saved defaultNs]) := by
  decide
-- document 0: the foreign-namespace child is not seen at all
example : proj 0 (runDocs demo initSys) =
    (⟨true, nsA, [], [], [(.lights, "l0"), (.nodes, "n1")]⟩, [.loaded, .ok, .saved nsA, .missing]) := by
  decide
example : proj 1 (runDocs demo initSys) = soloDoc 1 demo (initSys.docs 1) := by decide
-- the hypotheses of `steps_commute` and `others_irrelevant` are satisfiable
example : (toEv (0, .save)).doc ≠ (toEv (1, .new)).doc := by decide
example : ∀ e ∈ ([(1, Op.new), (2, Op.save)] : Sched).map toEv, e.doc ≠ 0 := by
  intro e he; simp [toEv] at he; rcases he with rfl | rfl <;> decide

end Pyc.Props.C20
