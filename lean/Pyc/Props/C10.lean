/-
C10 — Item access, iteration and array views of a primitive agree.

"For every primitive, bound or unbound, len() equals the number of shapes, iteration yields exactly
len() items (none for an empty primitive), and the i-th item carries exactly the vertices, normals,
texture coordinates, indices and material that the array views give for position i, polygon i
covering exactly its vcount corners.  An input that is absent shows up as None or an empty tuple
consistently on every item."

Property theorems only; the model is Pyc/Model/ItemAccess.lean, helper lemmas are in
Pyc/Proofs/ItemAccess.lean.  Triangle sets and line sets are `FixedSet`, polylists and polygons
are `PolySet`; a bound primitive is `p.bind f g look` — again a `FixedSet` / `PolySet` — so every
theorem stated for a well-formed primitive covers the bound one through `wf_bind_*`.
The theorems hold for every source array, index stream, offset layout, vcount vector, position,
vertex / normal transformation and material map; no size bound anywhere.
-/
import Pyc.Proofs.ItemAccess

namespace Pyc.Props.C10
open Pyc.ItemAccess Pyc.PyList

variable {α μ ν : Type}

/-! ### well-formed primitives: what the constructors and binding establish -/

/-- a triangle / line set whose index views all have `len` rows with entries inside their sources -/
def FixedSet.WF (p : FixedSet α μ) : Prop := Valid pyGet p.len p.views

/-- a polylist whose `polyindex` is the cumulative-vcount table and whose views stay inside their sources -/
def PolySet.WF (p : PolySet α μ) : Prop :=
  Valid (polySel p.polyindex) p.len p.views ∧ p.polyindex = mkPolyindex p.vcounts

/-- every TriangleSet / LineSet the constructor accepts is well-formed (also the empty one) -/
theorem wf_mkFixed {arity stride : Nat} {stream : List Nat} {vertex : Input α}
    {normal : Option (Input α)} {tex : List (Input α)} {material : μ} {p : FixedSet α μ}
    (h : mkFixed arity stride stream vertex normal tex material = some p) : FixedSet.WF p :=
  mkFixed_valid h

/-- every Polylist the constructor accepts is well-formed -/
theorem wf_mkPoly {stride : Nat} {stream vcounts : List Nat} {vertex : Input α}
    {normal : Option (Input α)} {tex : List (Input α)} {material : μ} {p : PolySet α μ}
    (h : mkPoly stride stream vcounts vertex normal tex material = some p) : PolySet.WF p := by
  refine ⟨mkPoly_valid h, ?_⟩
  rcases mkPoly_props h with ⟨h1, h2, _⟩
  rw [h2, h1]

/-- every Polygons object the constructor accepts is well-formed -/
theorem wf_mkPolygons {stride : Nat} {polys : List (List Nat)} {vertex : Input α}
    {normal : Option (Input α)} {tex : List (Input α)} {material : μ} {p : PolySet α μ}
    (h : mkPolygons stride polys vertex normal tex material = some p) : PolySet.WF p :=
  wf_mkPoly h

/-- binding (any transformation of vertices and normals, any material map) keeps a primitive well-formed -/
theorem wf_bind_fixed (f g : α → α) (look : μ → ν) {p : FixedSet α μ} (h : FixedSet.WF p) :
    FixedSet.WF (p.bind f g look) :=
  bind_valid pyGet h f g

theorem wf_bind_poly (f g : α → α) (look : μ → ν) {p : PolySet α μ} (h : PolySet.WF p) :
    PolySet.WF (p.bind f g look) :=
  ⟨bind_valid (polySel p.polyindex) h.1 f g, h.2⟩

/-! ### len, iteration, shapes() -/

/-- `prim[i]` is defined exactly for `-len ≤ i < len`, everything else is `IndexError` -/
theorem getItem_defined_iff_fixed {p : FixedSet α μ} (h : FixedSet.WF p) (i : Int) :
    (p.getItem i).isSome ↔ (-(p.len : Int) ≤ i ∧ i < p.len) :=
  getItemWith_isSome_iff pyGet h p.material i

theorem getItem_defined_iff_poly {p : PolySet α μ} (h : PolySet.WF p) (i : Int) :
    (p.getItem i).isSome ↔ (-(p.len : Int) ≤ i ∧ i < p.len) :=
  getItemWith_isSome_iff (polySel p.polyindex) h.1 p.material i

/-- a negative position names the same item as `i + len` -/
theorem getItem_negative_fixed {p : FixedSet α μ} (h : FixedSet.WF p) (i : Int)
    (h1 : -(p.len : Int) ≤ i) (h2 : i < 0) : p.getItem i = p.getItem (i + p.len) :=
  getItemWith_wrap pyGet h p.material i h1 h2

theorem getItem_negative_poly {p : PolySet α μ} (h : PolySet.WF p) (i : Int)
    (h1 : -(p.len : Int) ≤ i) (h2 : i < 0) : p.getItem i = p.getItem (i + p.len) :=
  getItemWith_wrap (polySel p.polyindex) h.1 p.material i h1 h2

/-- **iter_eq_range** (triangle and line sets, bound or unbound): iterating by the legacy
    `__getitem__` protocol yields exactly the items `prim[0] … prim[len-1]`, every one of them
    defined; so does `shapes()` / `triangles()` / `lines()`; the number of items is `len`. -/
theorem iter_eq_range_fixed {p : FixedSet α μ} (h : FixedSet.WF p) :
    p.iterate.map some = (List.range p.len).map (fun (k : Nat) => p.getItem (k : Int)) ∧
    p.iterate.length = p.len ∧
    p.shapes = some p.iterate := by
  have := iterateWith_spec pyGet h p.material
  refine ⟨this.1, ?_, this.2.2⟩
  have hl := congrArg List.length this.1
  simp only [List.length_map, List.length_range] at hl
  exact hl

/-- **iter_eq_range** (polylists and polygons, bound or unbound) -/
theorem iter_eq_range_poly {p : PolySet α μ} (h : PolySet.WF p) :
    p.iterate.map some = (List.range p.len).map (fun (k : Nat) => p.getItem (k : Int)) ∧
    p.iterate.length = p.len ∧
    p.shapes = some p.iterate := by
  have := iterateWith_spec (polySel p.polyindex) h.1 p.material
  refine ⟨this.1, ?_, this.2.2⟩
  have hl := congrArg List.length this.1
  simp only [List.length_map, List.length_range] at hl
  exact hl

/-- an empty primitive yields nothing (and does not raise) -/
theorem iter_empty_fixed {p : FixedSet α μ} (h : FixedSet.WF p) (h0 : p.len = 0) :
    p.iterate = [] ∧ p.shapes = some [] := by
  have := iter_eq_range_fixed h
  have hl : p.iterate = [] := List.eq_nil_of_length_eq_zero (by rw [this.2.1, h0])
  exact ⟨hl, by rw [this.2.2, hl]⟩

theorem iter_empty_poly {p : PolySet α μ} (h : PolySet.WF p) (h0 : p.len = 0) :
    p.iterate = [] ∧ p.shapes = some [] := by
  have := iter_eq_range_poly h
  have hl : p.iterate = [] := List.eq_nil_of_length_eq_zero (by rw [this.2.1, h0])
  exact ⟨hl, by rw [this.2.2, hl]⟩

/-- the legacy protocol really terminates by `IndexError` at position `len`: any allowance of
    more than `len` calls gives the same list, with the "ended by IndexError" flag set -/
theorem iterate_fuel_independent_fixed {p : FixedSet α μ} (h : FixedSet.WF p) (fuel : Nat)
    (hf : p.len < fuel) :
    iterateFuel (fun (k : Nat) => p.getItem (k : Int)) fuel 0 = (p.iterate, true) :=
  (iterateWith_spec pyGet h p.material).2.1 fuel hf

theorem iterate_fuel_independent_poly {p : PolySet α μ} (h : PolySet.WF p) (fuel : Nat)
    (hf : p.len < fuel) :
    iterateFuel (fun (k : Nat) => p.getItem (k : Int)) fuel 0 = (p.iterate, true) :=
  (iterateWith_spec (polySel p.polyindex) h.1 p.material).2.1 fuel hf

/-! ### the item at position i carries what the array views give -/

/-- **item_views** (triangle and line sets): `item.indices = vertex_index[i]`,
    `item.vertices[j] = vertex[vertex_index[i][j]]`, the same for the normal input and for every
    texcoord set, and the material is the primitive's. -/
theorem item_views_fixed (p : FixedSet α μ) (i : Int) (it : Item α μ) (h : p.getItem i = some it) :
    (pyGet p.views.vertexIndex i = some it.indices ∧
      it.indices.map (fun j => p.views.vertex[j]?) = it.vertices.map some) ∧
    ((p.views.normal = none → it.normalIndices = none ∧ it.normals = none) ∧
     (∀ nd, p.views.normal = some nd → ∃ ni nv, it.normalIndices = some ni ∧ it.normals = some nv ∧
         pyGet nd.2 i = some ni ∧ ni.map (fun j => nd.1[j]?) = nv.map some)) ∧
    (it.texcoordIndices.length = p.views.texcoords.length ∧
     it.texcoords.length = p.views.texcoords.length ∧
     ∀ j (hj : j < p.views.texcoords.length), ∃ ti tv,
        it.texcoordIndices[j]? = some ti ∧ it.texcoords[j]? = some tv ∧
        pyGet (p.views.texcoords[j]).2 i = some ti ∧
        ti.map (fun k => (p.views.texcoords[j]).1[k]?) = tv.map some) ∧
    it.material = p.material :=
  getItemWith_spec pyGet p.views p.material i it h

/-- **item_views** (polylists / polygons): as above with
    `item.indices = vertex_index[polystarts[i]:polyends[i]]` -/
theorem item_views_poly (p : PolySet α μ) (i : Int) (it : Item α μ) (h : p.getItem i = some it) :
    ∃ s e, pyGet p.polyindex i = some (s, e) ∧
    (it.indices = slice p.views.vertexIndex s e ∧
      it.indices.map (fun j => p.views.vertex[j]?) = it.vertices.map some) ∧
    ((p.views.normal = none → it.normalIndices = none ∧ it.normals = none) ∧
     (∀ nd, p.views.normal = some nd → ∃ nv, it.normalIndices = some (slice nd.2 s e) ∧
         it.normals = some nv ∧ (slice nd.2 s e).map (fun j => nd.1[j]?) = nv.map some)) ∧
    (it.texcoordIndices.length = p.views.texcoords.length ∧
     it.texcoords.length = p.views.texcoords.length ∧
     ∀ j (hj : j < p.views.texcoords.length), ∃ tv,
        it.texcoordIndices[j]? = some (slice (p.views.texcoords[j]).2 s e) ∧
        it.texcoords[j]? = some tv ∧
        (slice (p.views.texcoords[j]).2 s e).map (fun k => (p.views.texcoords[j]).1[k]?)
          = tv.map some) ∧
    it.material = p.material := by
  rcases getItemWith_spec (polySel p.polyindex) p.views p.material i it h with ⟨hv, hn, ht, hm⟩
  have hsel : ∀ (view idx : List Nat), polySel p.polyindex view i = some idx →
      ∃ r, pyGet p.polyindex i = some r ∧ idx = slice view r.1 r.2 := by
    intro view idx hs
    unfold polySel at hs
    simp only [Option.map_eq_some_iff] at hs
    rcases hs with ⟨r, hr, rfl⟩
    exact ⟨r, hr, rfl⟩
  rcases hsel _ _ hv.1 with ⟨r, hr, hidx⟩
  refine ⟨r.1, r.2, hr, ⟨hidx, hv.2⟩, ?_, ?_, hm⟩
  · refine ⟨hn.1, ?_⟩
    intro nd hw
    rcases hn.2 nd hw with ⟨ni, nv, h1, h2, h3, h4⟩
    rcases hsel _ _ h3 with ⟨r', hr', hni⟩
    rw [hr] at hr'; cases hr'
    subst hni
    exact ⟨nv, h1, h2, h4⟩
  · refine ⟨ht.1, ht.2.1, ?_⟩
    intro j hj
    rcases ht.2.2 j hj with ⟨ti, tv, h1, h2, h3, h4⟩
    rcases hsel _ _ h3 with ⟨r', hr', hti⟩
    rw [hr] at hr'; cases hr'
    subst hti
    exact ⟨tv, h1, h2, h4⟩

/-- a bound item is the unbound item with vertices and normals transformed and the material
    looked up; indices, texture coordinates and the positions that are defined are the same -/
theorem bound_item_fixed (f g : α → α) (look : μ → ν) (p : FixedSet α μ) (i : Int) :
    (p.bind f g look).getItem i = (p.getItem i).map (Item.bind f g (look p.material)) :=
  getItemWith_bind pyGet f g p.views p.material (look p.material) i

theorem bound_item_poly (f g : α → α) (look : μ → ν) (p : PolySet α μ) (i : Int) :
    (p.bind f g look).getItem i = (p.getItem i).map (Item.bind f g (look p.material)) :=
  getItemWith_bind (polySel p.polyindex) f g p.views p.material (look p.material) i

/-! ### polygon i covers exactly its vcount corners -/

/-- **polygon_extent**, the table: `polystarts[i] + vcounts[i] = polyends[i]` (so
    `polyends[i] − polystarts[i] = vcounts[i]`, the subtraction in `polystarts` never truncates),
    the first polygon starts at corner 0 and every polygon starts where the previous one ends. -/
theorem polygon_extent (vc : List Nat) (i : Nat) (hi : i < vc.length) :
    ∃ s e, (polystarts vc)[i]? = some s ∧ (polyends vc)[i]? = some e ∧
      (mkPolyindex vc)[i]? = some (s, e) ∧
      s + vc[i] = e ∧ e - s = vc[i] ∧
      s = (vc.take i).sum ∧ e ≤ vc.sum ∧
      (i = 0 → s = 0) ∧
      (i + 1 < vc.length → (polystarts vc)[i + 1]? = some e) := by
  refine ⟨(vc.take i).sum, (vc.take i).sum + vc[i], ?_, ?_, ?_, rfl, by omega, rfl, ?_, ?_, ?_⟩
  · unfold polystarts polyends cumsum
    rw [startsFrom_getElem?]; simp [hi]
  · unfold polyends cumsum
    rw [cumsumFrom_getElem?]; simp [hi]
  · rw [mkPolyindex_eq, rangesFrom_getElem?]; simp [hi]
  · rw [← sum_take_succ vc i hi]; exact sum_take_le vc (i + 1)
  · intro h0; subst h0; simp
  · intro hn
    unfold polystarts polyends cumsum
    rw [startsFrom_getElem?]
    simp [hn, sum_take_succ vc i hi]

/-- **polygon_extent**, the partition: the slices `[polystarts[i] : polyends[i])`, in order, cut
    any per-corner view into consecutive pieces that together are its first `Σ vcounts` rows —
    the whole view when the vcounts add up to the number of corners. -/
theorem polygon_partition {β : Type} (vc : List Nat) (xs : List β) :
    (mkPolyindex vc).flatMap (fun r => slice xs r.1 r.2) = xs.take vc.sum ∧
    (xs.length = vc.sum → (mkPolyindex vc).flatMap (fun r => slice xs r.1 r.2) = xs) := by
  have h : (mkPolyindex vc).flatMap (fun r => slice xs r.1 r.2) = xs.take vc.sum := by
    rw [mkPolyindex_eq, rangesFrom_flatMap_slice]; simp [slice]
  refine ⟨h, ?_⟩
  intro hl
  rw [h, ← hl, List.take_length]

/-- **polygon_extent**, the items: polygon `i` of a well-formed polylist whose vcounts add up to
    the number of corners has exactly `vcounts[i]` indices, vertices, normals and texcoords,
    namely the corners `polystarts[i] … polystarts[i] + vcounts[i] − 1` of the views. -/
theorem polygon_item_extent {p : PolySet α μ} (h : PolySet.WF p)
    (hsum : p.vcounts.sum = p.views.vertexIndex.length) (i : Nat) (hi : i < p.len) :
    ∃ it, p.getItem (i : Int) = some it ∧
      it.indices = slice p.views.vertexIndex ((p.vcounts.take i).sum) ((p.vcounts.take i).sum + p.vcounts[i]) ∧
      it.indices.length = p.vcounts[i] ∧ it.vertices.length = p.vcounts[i] := by
  have hsome := (getItem_defined_iff_poly h (i : Int)).mpr ⟨by omega, by exact_mod_cast hi⟩
  cases hg : p.getItem (i : Int) with
  | none => simp [hg] at hsome
  | some it =>
    refine ⟨it, rfl, ?_⟩
    rcases item_views_poly p i it hg with ⟨s, e, hse, ⟨hidx, hgat⟩, _, _, _⟩
    rcases polygon_extent p.vcounts i hi with ⟨s', e', _, _, hrow, hadd, _, hs', he', _, _⟩
    rw [pyGet_ofNat, h.2, hrow] at hse
    cases hse
    have hlen : it.indices.length = p.vcounts[i] := by
      rw [hidx, slice_length _ _ _ (by omega)]; omega
    refine ⟨by rw [hidx, hs', ← hadd, hs'], hlen, ?_⟩
    have := congrArg List.length hgat
    simp only [List.length_map] at this
    omega

/-- all polygons together use every corner row exactly once, in order -/
theorem polygons_cover_corners {p : PolySet α μ} (h : PolySet.WF p)
    (hsum : p.vcounts.sum = p.views.vertexIndex.length) :
    p.iterate.flatMap (·.indices) = p.views.vertexIndex := by
  have hit := (iter_eq_range_poly h).1
  have hrows : p.iterate.map (·.indices)
      = (mkPolyindex p.vcounts).map (fun r => slice p.views.vertexIndex r.1 r.2) := by
    apply List.ext_getElem?
    intro k
    have hl : p.iterate.length = p.len := (iter_eq_range_poly h).2.1
    by_cases hk : k < p.len
    · have hk' : k < p.iterate.length := by omega
      have h1 := congrArg (fun l => l[k]?) hit
      simp only [List.getElem?_map, List.getElem?_range hk, List.getElem?_eq_getElem hk',
        Option.map_some, Option.some.injEq] at h1
      rcases item_views_poly p k p.iterate[k] h1.symm with ⟨s, e, hse, ⟨hidx, _⟩, _⟩
      rw [pyGet_ofNat, h.2] at hse
      simp only [List.getElem?_map, List.getElem?_eq_getElem hk', Option.map_some, hse, hidx]
    · have e1 : (p.iterate.map (·.indices))[k]? = none := by
        apply List.getElem?_eq_none; simp; omega
      have e2 : ((mkPolyindex p.vcounts).map (fun r => slice p.views.vertexIndex r.1 r.2))[k]? = none := by
        apply List.getElem?_eq_none
        simp only [List.length_map, mkPolyindex_length]
        unfold PolySet.len at hk; omega
      rw [e1, e2]
  have := (polygon_partition p.vcounts p.views.vertexIndex).2 hsum.symm
  rw [← this, List.flatMap_def, List.flatMap_def, hrows]

/-! ### absent inputs -/

/-- **absent_consistent**: on every item of a primitive, `normals` / `normal_indices` are `None`
    exactly when the primitive has no normal array, and `texcoords` / `texcoord_indices` have as
    many entries as the primitive has texcoord sets (empty when there is none) — the same answer
    at every position. -/
theorem absent_consistent_fixed (p : FixedSet α μ) (i : Int) (it : Item α μ)
    (h : p.getItem i = some it) :
    it.normals.isSome = p.views.normal.isSome ∧ it.normalIndices.isSome = p.views.normal.isSome ∧
    it.texcoords.length = p.views.texcoords.length ∧
    it.texcoordIndices.length = p.views.texcoords.length :=
  getItemWith_absent pyGet p.views p.material i it h

theorem absent_consistent_poly (p : PolySet α μ) (i : Int) (it : Item α μ)
    (h : p.getItem i = some it) :
    it.normals.isSome = p.views.normal.isSome ∧ it.normalIndices.isSome = p.views.normal.isSome ∧
    it.texcoords.length = p.views.texcoords.length ∧
    it.texcoordIndices.length = p.views.texcoords.length :=
  getItemWith_absent (polySel p.polyindex) p.views p.material i it h

/-- binding neither adds nor removes an input, so bound and unbound items agree on what is absent -/
theorem absent_consistent_bound (f g : α → α) (look : μ → ν) (p : FixedSet α μ) (q : PolySet α μ) :
    (p.bind f g look).views.normal.isSome = p.views.normal.isSome ∧
    (p.bind f g look).views.texcoords.length = p.views.texcoords.length ∧
    (q.bind f g look).views.normal.isSome = q.views.normal.isSome ∧
    (q.bind f g look).views.texcoords.length = q.views.texcoords.length := by
  simp [FixedSet.bind, PolySet.bind, Views.bind]

/-! ### non-vacuity: concrete primitives satisfying the hypotheses (tests, not theorems) -/

section examples

/-- two triangles, stride 2 (VERTEX at offset 0, one TEXCOORD set at offset 1), no normals -/
def exTri : Option (FixedSet Vec (Option String)) :=
  mkFixed 3 2 [0,0, 1,1, 2,0,  2,1, 1,0, 3,1]
    ⟨0, [[0,0,0],[1,0,0],[0,1,0],[0,0,1]]⟩ none [⟨1, [[0,0],[1,1]]⟩] (some "m")

example : (exTri.map (·.len)) = some 2 := by decide
example : (exTri.bind (·.getItem (-1))).map (·.indices) = some [2, 1, 3] := by decide
example : (exTri.bind (·.getItem 1)).map (·.vertices) = some [[0,1,0],[1,0,0],[0,0,1]] := by decide
example : (exTri.bind (·.getItem 1)).map (·.normals) = some none := by decide
example : (exTri.bind (·.getItem 1)).map (·.texcoords) = some [[[1,1],[0,0],[1,1]]] := by decide
example : (exTri.bind (·.getItem 2)) = none := by decide
example : (exTri.bind (·.getItem (-3))) = none := by decide
example : (exTri.map (·.iterate.length)) = some 2 := by decide
/-- an index outside the source is rejected by the constructor -/
example : (mkFixed 3 1 [0, 1, 4] ⟨0, [[0,0,0],[1,0,0]]⟩ none [] (none : Option String)).isSome = false := by
  decide
/-- the empty triangle set is accepted, has no items and `prim[0]` is `IndexError` -/
def exEmpty : Option (FixedSet Vec (Option String)) :=
  mkFixed 3 2 [] ⟨0, [[0,0,0]]⟩ (some ⟨1, [[0,0,1]]⟩) [] none
example : exEmpty.map (·.iterate) = some [] := by decide
example : exEmpty.map (·.shapes) = some (some []) := by decide
example : exEmpty.bind (·.getItem 0) = none := by decide
example : exEmpty.map (·.views.normal.isSome) = some true := by decide

/-- a polylist with vcounts 3, 0, 4 and a normal input at offset 1 -/
def exPoly : Option (PolySet Vec (Option String)) :=
  mkPoly 2 [0,0, 1,1, 2,0,  3,1, 2,1, 1,0, 0,0] [3, 0, 4]
    ⟨0, [[0,0,0],[1,0,0],[0,1,0],[0,0,1]]⟩ (some ⟨1, [[0,0,1],[1,0,0]]⟩) [] (some "m")

example : exPoly.map (·.polyindex) = some [(0,3),(3,3),(3,7)] := by decide
example : exPoly.map (·.len) = some 3 := by decide
example : (exPoly.bind (·.getItem 1)).map (·.indices) = some [] := by decide
example : (exPoly.bind (·.getItem (-1))).map (·.indices) = some [3,2,1,0] := by decide
example : (exPoly.bind (·.getItem 2)).map (·.normalIndices) = some (some [1,1,0,0]) := by decide
example : exPoly.map (·.iterate.map (·.indices)) = some [[0,1,2],[],[3,2,1,0]] := by decide
example : exPoly.map (fun p => decide (p.vcounts.sum = p.views.vertexIndex.length)) = some true := by decide
example : polystarts [3, 0, 4] = [0, 3, 3] ∧ polyends [3, 0, 4] = [3, 3, 7] := by decide

/-- binding: vertices translated by (1,2,3), normals doubled, material looked up -/
example : (exPoly.map (fun p => (p.bind (applyPoint [[1,0,0,1],[0,1,0,2],[0,0,1,3],[0,0,0,1]])
              (applyDir [[2,0,0,0],[0,2,0,0],[0,0,2,0],[0,0,0,1]])
              (matLookup [("m", "mat0"), ("x", "mat1"), ("m", "mat2")])).getItem 0)).map
            (·.map (fun it => (it.vertices, it.normals, it.material)))
          = some (some ([[1,2,3],[2,2,3],[1,3,3]], some [[0,0,2],[2,0,0],[0,0,2]], some "mat2")) := by
  decide

end examples

end Pyc.Props.C10
