/-
C06 — The written file says what the model says.
Value-level writers: the optional-child lens (_correctValInNode), the VERTEX redirection of
Geometry.save and its inverse reading, the shader parameter emission of Effect.save; together with
the child reconciliation of C02 (managed children are exactly the model's elements) they say that
what an independent reader finds in a saved element is the model's current value.
Model: Pyc/Model/Emit.lean; helper lemmas: Pyc/Proofs/Emit.lean.
-/
import Pyc.Proofs.Emit
import Pyc.Proofs.Sync
import Pyc.Generated.EffectTables

namespace Pyc.Props.C06
open Pyc.Emit

variable {β : Type}

/-- after `_correctValInNode(node, k, v)` a reader finds exactly `v` under tag `k`
    (an optional child occurs at most once, as the schema says) -/
theorem correctVal_get (kids : Kids β) (k : String) (v : Option β) (later : List String) (h : cnt kids k ≤ 1) :
    find (correctVal kids k v later) k = v := by
  unfold correctVal
  cases hf : find kids k with
  | none =>
    cases v with
    | none => simpa using hf
    | some x =>
      have h0 : cnt kids k = 0 := by
        rcases Nat.eq_zero_or_pos (cnt kids k) with h' | h'
        · exact h'
        · have := (find_isSome_iff kids k).mpr h'
          simp [hf] at this
      induction kids with
      | nil => simp [find, insertBefore]
      | cons c r ih =>
        obtain ⟨t, w⟩ := c
        rw [cnt_cons] at h0 h
        by_cases e : t = k
        · simp [e] at h0
        · simp [e] at h0 h
          simp only [find, e, if_false] at hf
          by_cases hm : t ∈ later
          · simp [insertBefore, hm, find]
          · simp only [insertBefore, List.contains_eq_mem, hm, decide_false, Bool.false_eq_true, if_false, find, e]
            exact ih h hf h0
  | some y =>
    cases v with
    | none =>
      have := dropTag_eq_filter kids k h
      simp only [dropTag, hf] at this
      rw [this]
      apply find_none_of_cnt_zero
      simp [cnt, List.filter_filter]
    | some x =>
      induction kids with
      | nil => simp [find] at hf
      | cons c r ih =>
        obtain ⟨t, w⟩ := c
        by_cases e : t = k
        · simp [setFirst, find, e]
        · rw [cnt_cons] at h
          simp [e] at h
          simp only [find, e, if_false] at hf
          simpa [setFirst, find, e] using ih h hf

/-- it touches nothing else: every other child keeps its value and its place -/
theorem correctVal_frame (kids : Kids β) (k : String) (v : Option β) (later : List String) :
    (correctVal kids k v later).filter (fun c => c.1 != k) = kids.filter (fun c => c.1 != k) := by
  unfold correctVal
  cases hf : find kids k with
  | none =>
    cases v with
    | none => rfl
    | some x =>
      simp only
      clear hf
      induction kids with
      | nil => simp [insertBefore]
      | cons c r ih =>
        obtain ⟨t, w⟩ := c
        by_cases hm : t ∈ later
        · simp [insertBefore, hm, List.filter_cons]
        · simp only [insertBefore, List.contains_eq_mem, hm, decide_false, Bool.false_eq_true, if_false, List.filter_cons, ih]
  | some y =>
    cases v with
    | none =>
      simp only
      induction kids with
      | nil => rfl
      | cons c r ih =>
        obtain ⟨t, w⟩ := c
        by_cases e : t = k
        · simp [removeFirst, e, List.filter_cons]
        · simp only [find, e, if_false] at hf
          simp [removeFirst, e, List.filter_cons, ih hf]
    | some x =>
      simp only
      induction kids with
      | nil => rfl
      | cons c r ih =>
        obtain ⟨t, w⟩ := c
        by_cases e : t = k
        · simp [setFirst, e, List.filter_cons]
        · simp only [find, e, if_false] at hf
          simp [setFirst, e, List.filter_cons, ih hf]

/-- after the redirection no VERTEX input reads the position source directly:
    it reads it through `<vertices>` -/
theorem redirect_vertex_targets_vertices (vertId vertRef : String) (ins : List Input) (hne : vertId ≠ vertRef) :
    ∀ i ∈ redirect vertId vertRef ins, i.semantic = "VERTEX" → i.source ≠ vertRef := by
  intro i hi hs
  simp only [redirect, List.mem_map] at hi
  obtain ⟨j, _, rfl⟩ := hi
  by_cases c : j.source = vertRef ∧ j.semantic = "VERTEX"
  · simp [c, hne]
  · simp only [c, if_false] at hs ⊢
    intro h
    exact c ⟨h, hs⟩

private theorem filter_map_fix {γ : Type} (p : γ → Bool) (f : γ → γ) (hp : ∀ i, p (f i) = p i)
    (hf : ∀ i, p i = true → f i = i) : ∀ l : List γ, (l.map f).filter p = l.filter p
  | [] => rfl
  | i :: r => by
    rw [List.map_cons, List.filter_cons, List.filter_cons, hp i, filter_map_fix p f hp hf r]
    by_cases h : p i = true
    · simp [h, hf i h]
    · simp [h]

/-- inputs that are not VERTEX inputs are written unchanged -/
theorem redirect_others_unchanged (vertId vertRef : String) (ins : List Input) :
    (redirect vertId vertRef ins).filter (fun i => i.semantic != "VERTEX")
      = ins.filter (fun i => i.semantic != "VERTEX") := by
  unfold redirect
  apply filter_map_fix
  · intro i
    by_cases c : i.source = vertRef ∧ i.semantic = "VERTEX" <;> simp [c]
  · intro i hi
    have : i.semantic ≠ "VERTEX" := by simpa using hi
    simp [this]

/-- a reader that follows the `<vertices>` indirection recovers exactly the model's inputs
    (the id of `<vertices>` is not the id of a source) -/
theorem resolve_redirect (vertId vertRef : String) (ins : List Input)
    (hfresh : ∀ i ∈ ins, i.source ≠ vertId) :
    resolve vertId vertRef (redirect vertId vertRef ins) = ins := by
  induction ins with
  | nil => rfl
  | cons i r ih =>
    have hr := ih (fun j hj => hfresh j (List.mem_cons_of_mem _ hj))
    have hi := hfresh i (List.mem_cons_self ..)
    simp only [resolve, redirect, List.map_cons, List.map_map] at hr ⊢
    congr 1
    · by_cases c : i.source = vertRef ∧ i.semantic = "VERTEX"
      · obtain ⟨c1, c2⟩ := c
        cases i
        simp_all
      · simp only [Function.comp, c, if_false]
        have : ¬ (i.source = vertId ∧ i.semantic = "VERTEX") := fun h => hi h.1
        simp [this]

/-- redirecting twice is redirecting once -/
theorem redirect_idem (vertId vertRef : String) (ins : List Input) (hne : vertId ≠ vertRef) :
    redirect vertId vertRef (redirect vertId vertRef ins) = redirect vertId vertRef ins := by
  induction ins with
  | nil => rfl
  | cons i r ih =>
    simp only [redirect, List.map_cons, List.map_map] at ih ⊢
    congr 1
    by_cases c : i.source = vertRef ∧ i.semantic = "VERTEX"
    · simp [c, hne]
    · simp [c]

/-- one step of the emission loop, for a property that occurs at most once among the children -/
private theorem step_eq (value : String → Option β) (ks : Kids β) (p : String) (h : cnt ks p ≤ 1) :
    emitStep value ks p = ks.filter (fun c => c.1 != p) ++ ((value p).map (fun v => (p, v))).toList := by
  unfold emitStep
  rw [dropTag_eq_filter ks p h]
  cases value p <;> simp

/-- What Effect.save leaves in the shader element: the children it does not know, untouched and
    in front, then one element per supported property that has a value, in the order of
    `Effect.supported` (which is the order the schema prescribes). -/
theorem emitProps_eq (supported : List String) (value : String → Option β) (kids : Kids β)
    (hnd : supported.Nodup) (huniq : ∀ p ∈ supported, cnt kids p ≤ 1) :
    emitProps supported value kids
      = kids.filter (fun c => !supported.contains c.1)
        ++ supported.filterMap (fun p => (value p).map (fun v => (p, v))) := by
  unfold emitProps
  induction supported generalizing kids with
  | nil =>
    have : kids.filter (fun _ => true) = kids := List.filter_eq_self.mpr (by simp)
    simp [this]
  | cons p ps ih =>
    rw [List.foldl_cons]
    have hp := huniq p (List.mem_cons_self ..)
    rw [step_eq value kids p hp]
    obtain ⟨hpn, hps⟩ := List.nodup_cons.mp hnd
    rw [ih _ hps]
    · simp only [List.filter_append, List.filter_filter]
      have e1 : (kids.filter (fun c => c.1 != p)).filter (fun c => !ps.contains c.1)
          = kids.filter (fun c => !(p :: ps).contains c.1) := by
        rw [List.filter_filter]
        congr 1
        funext c
        by_cases e : c.1 = p <;> simp [e, Bool.and_comm]
      have e2 : (((value p).map (fun v => (p, v))).toList).filter (fun c => !ps.contains c.1)
          = ((value p).map (fun v => (p, v))).toList := by
        cases value p with
        | none => rfl
        | some v => simp [hpn]
      rw [List.filter_filter] at e1
      rw [e1, e2]
      cases hv : value p <;> simp [List.filterMap_cons, hv]
    · intro q hq
      have hqp : q ≠ p := fun e => hpn (e ▸ hq)
      rw [cnt_append, cnt_filter_ne _ _ _ hqp]
      have := huniq q (List.mem_cons_of_mem _ hq)
      cases value p with
      | none => simpa [cnt] using this
      | some v =>
        have hpq : ¬ p = q := fun e => hqp (Eq.symm e)
        have : cnt [(p, v)] q = 0 := by simp [cnt, hpq]
        simp only [Option.map, Option.toList]
        omega

/-- the order of shader parameters in the COLLADA 1.4.1 schema (phong/blinn; lambert and constant are sub-sequences) -/
def schemaOrder : List String :=
  ["emission", "ambient", "diffuse", "specular", "shininess", "reflective", "reflectivity",
   "transparent", "transparency", "index_of_refraction"]

/-- `Effect.supported` as it stands in the source has no repetition and follows the schema order,
    so `emitProps_eq` applies to it and the emitted sequence is schema-ordered -/
theorem supported_ok : Pyc.Generated.EffectTables.supported.Nodup ∧
    Pyc.Generated.EffectTables.supported.isSublist schemaOrder = true := by decide

/-- managed children of a saved element are exactly the model's elements (C02), restated here for
    the "nothing missing, nothing unaccounted for" clause -/
theorem managed_exact {α : Type} [DecidableEq α] (managed : α → Bool) (wanted old : List α) (before : Option α) :
    (Pyc.Sync.syncChildren managed wanted old before).filter (Pyc.Sync.isM managed wanted) = wanted :=
  Pyc.Sync.sync_managed managed wanted old before

/-! ### non-vacuity -/
example : correctVal [("color", 1), ("zfar", 2)] "zfar" (none : Option Nat) = [("color", 1)] := by decide
example : correctVal [("color", 1)] "zfar" (some 7) = [("color", 1), ("zfar", 7)] := by decide
example : correctVal [("color", 1), ("quadratic_attenuation", 3)] "constant_attenuation" (some 7)
    ["linear_attenuation", "quadratic_attenuation", "zfar"] = [("color", 1), ("constant_attenuation", 7), ("quadratic_attenuation", 3)] := by decide
example : redirect "pos-vertices" "pos" [⟨"VERTEX", "pos"⟩, ⟨"NORMAL", "pos"⟩, ⟨"TEXCOORD", "uv"⟩]
    = [⟨"VERTEX", "pos-vertices"⟩, ⟨"NORMAL", "pos"⟩, ⟨"TEXCOORD", "uv"⟩] := by decide
example : emitProps ["emission", "diffuse", "shininess"] (fun p => if p = "diffuse" then none else some 1)
    [("diffuse", 5), ("custom", 9), ("emission", 3)] = [("custom", 9), ("emission", 1), ("shininess", 1)] := by decide

/-! ### optional attributes: `_setAttribute` is a lens on the attribute the model value belongs to, and leaves the others alone -/

theorem getAttr_setAttr (attrs : List (String × String)) (name : String) (v : Option String) :
    getAttr (setAttr attrs name v) name = v := by
  cases v with
  | none =>
    simp only [setAttr, getAttr]
    have : (attrs.filter (fun p => p.1 != name)).find? (fun p => p.1 == name) = none := by
      rw [List.find?_eq_none]
      intro p hp
      simp only [List.mem_filter] at hp
      simpa using hp.2
    rw [this]; rfl
  | some x =>
    simp only [setAttr, getAttr]
    split
    · next h =>
      induction attrs with
      | nil => simp at h
      | cons p ps ih =>
        simp only [List.map_cons, List.find?_cons]
        by_cases hp : p.1 == name
        · simp [hp]
        · simp only [hp, if_false, Bool.false_eq_true]
          have h' : ps.any (fun p => p.1 == name) = true := by
            simp only [List.any_cons, hp, Bool.false_or] at h
            exact h
          simpa [hp] using ih h'
    · next h =>
      have hnone : attrs.find? (fun p => p.1 == name) = none := by
        rw [List.find?_eq_none]
        intro p hp
        intro hc
        exact h (List.any_eq_true.mpr ⟨p, hp, hc⟩)
      simp [List.find?_append, hnone]

private theorem find_filter_other (name other : String) (h : other ≠ name) : ∀ attrs : List (String × String),
    (attrs.filter (fun p => p.1 != name)).find? (fun p => p.1 == other) = attrs.find? (fun p => p.1 == other)
  | [] => rfl
  | p :: ps => by
    by_cases hp : p.1 = name
    · have hpo : (p.1 == other) = false := by rw [hp]; simpa using (Ne.symm h)
      have hf : (p.1 != name) = false := by simp [hp]
      rw [List.filter_cons, hf, List.find?_cons, hpo]
      exact find_filter_other name other h ps
    · have hf : (p.1 != name) = true := by simpa using hp
      rw [List.filter_cons, hf]
      simp only [if_true, List.find?_cons]
      cases p.1 == other
      · exact find_filter_other name other h ps
      · rfl

private theorem find_map_other (name other x : String) (h : other ≠ name) : ∀ attrs : List (String × String),
    (attrs.map (fun p => if p.1 == name then (name, x) else p)).find? (fun p => p.1 == other) = attrs.find? (fun p => p.1 == other)
  | [] => rfl
  | p :: ps => by
    have hno : (name == other) = false := by simpa using (Ne.symm h)
    by_cases hp : p.1 = name
    · have hpo : (p.1 == other) = false := by rw [hp]; exact hno
      have hb : (p.1 == name) = true := by simp [hp]
      rw [List.map_cons, hb]
      simp only [if_true, List.find?_cons, hno, hpo]
      exact find_map_other name other x h ps
    · have hb : (p.1 == name) = false := by simpa using hp
      rw [List.map_cons, hb]
      simp only [Bool.false_eq_true, if_false, List.find?_cons]
      cases p.1 == other
      · exact find_map_other name other x h ps
      · rfl

theorem getAttr_setAttr_other (attrs : List (String × String)) (name other : String) (v : Option String) (h : other ≠ name) :
    getAttr (setAttr attrs name v) other = getAttr attrs other := by
  have hno : (name == other) = false := by simpa using (Ne.symm h)
  cases v with
  | none => simp only [setAttr, getAttr, find_filter_other name other h attrs]
  | some x =>
    simp only [setAttr, getAttr]
    split
    · rw [find_map_other name other x h attrs]
    · rw [List.find?_append]
      cases hf : attrs.find? (fun p => p.1 == other) with
      | some q => rfl
      | none => simp [List.find?_cons, hno]

/-- non-vacuity -/
example : setAttr [("id", "a"), ("name", "n")] "id" none = [("name", "n")] := by decide
example : setAttr [("id", "a"), ("name", "n")] "id" (some "b") = [("id", "b"), ("name", "n")] := by decide
example : setAttr [("name", "n")] "id" (some "b") = [("name", "n"), ("id", "b")] := by decide

end Pyc.Props.C06
