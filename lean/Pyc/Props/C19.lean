/-
C19 — Skin and morph controllers decode the file faithfully.
Property theorems only; helper lemmas are in Pyc/Proofs/Skin.lean, the model in
Pyc/Model/Skin.lean (tied to collada/controller.py and ControllerNode by props/c19.py).

Reading guide.  `vcounts`, `stream` are the integers of `<vcount>` and `<v>`; `nind` is the
number of indices per influence (`nindices jo wo = max jo wo + 1`); `pre i` below is
`Σ_{j<i} vcounts[j]`, written `((natCounts vcounts).take i).sum`.  All statements hold for
every input: any number of vertices, any counts (zero included), any offsets in either
order, any source lengths, any scene tree.

Not a theorem here (checked by the correspondence run on the real objects only): that the
bound skin's primitives are the source geometry's primitive objects — the model has no
notion of primitive objects, only of the matrix they are bound with.
-/
import Pyc.Proofs.Skin

namespace Pyc.Props.C19
open Pyc.Skin

/-! ### partition of `<v>` by `<vcount>` -/

/-- acceptance is decided by the counts and the stream length alone -/
theorem partition_accept_iff (vcounts stream : List Int) (nind : Nat) :
    (∃ gs, partition vcounts stream nind = .ok gs) ↔
      (∀ c ∈ vcounts, 0 ≤ c) ∧ (stream.length : Int) = nind * vcounts.sum := by
  constructor
  · rintro ⟨gs, h⟩
    obtain ⟨hn, hlen, _⟩ := (partition_eq_ok _ _ _ _).mp h
    refine ⟨hn, ?_⟩
    rw [← natCounts_sum_cast vcounts hn, hlen]
    simp
  · rintro ⟨hn, hlen⟩
    refine ⟨_, (partition_eq_ok _ _ _ _).mpr ⟨hn, ?_, rfl⟩⟩
    rw [← natCounts_sum_cast vcounts hn] at hlen
    exact_mod_cast hlen

/-- a stream whose length is not `nindices · Σ vcounts` (surplus or missing data), or a negative
    count, is rejected as malformed -/
theorem partition_reject (vcounts stream : List Int) (nind : Nat)
    (h : (stream.length : Int) ≠ nind * vcounts.sum ∨ ∃ c ∈ vcounts, c < 0) :
    partition vcounts stream nind = .error .malformed := by
  cases hp : partition vcounts stream nind with
  | error e => rw [partition_error _ _ _ e hp]
  | ok gs =>
    exfalso
    obtain ⟨hn, hlen⟩ := (partition_accept_iff vcounts stream nind).mp ⟨gs, hp⟩
    rcases h with h | ⟨c, hc, hlt⟩
    · exact h hlen
    · have := hn c hc; omega

/-- group `i` of an accepted partition is the `i`-th block of the stream — it starts after the
    tuples of the earlier vertices and holds `vcounts[i]` tuples — and the groups concatenated
    give back the stream -/
theorem partition_groups (vcounts stream : List Int) (nind : Nat) (gs : List (List (List Int)))
    (h : partition vcounts stream nind = .ok gs) :
    gs.length = vcounts.length ∧
    (∀ i ct, (natCounts vcounts)[i]? = some ct →
      gs[i]? = some (rows nind ct
        ((stream.drop (nind * ((natCounts vcounts).take i).sum)).take (nind * ct)))) ∧
    (gs.map List.flatten).flatten = stream := by
  obtain ⟨_, hlen, rfl⟩ := (partition_eq_ok _ _ _ _).mp h
  refine ⟨by simp [groupsFrom_length, natCounts], ?_, ?_⟩
  · intro i ct hi
    have := groupsFrom_getElem? nind stream (natCounts vcounts) 0 i ct hi
    simpa using this
  · rw [groupsFrom_flatten, ← hlen]
    simp

/-- the same, entry by entry: vertex `i` has exactly `vcounts[i]` tuples of exactly `nind` entries,
    and entry `c` of its `k`-th tuple is stream position `nind · (pre i + k) + c` (which exists) -/
theorem partition_entries (vcounts stream : List Int) (nind : Nat) (gs : List (List (List Int)))
    (h : partition vcounts stream nind = .ok gs) (i ct k : Nat)
    (hi : (natCounts vcounts)[i]? = some ct) (hk : k < ct) :
    ∃ g row, gs[i]? = some g ∧ g.length = ct ∧ g[k]? = some row ∧ row.length = nind ∧
      ∀ c, c < nind → row[c]? = stream[nind * (((natCounts vcounts).take i).sum + k) + c]? ∧
        nind * (((natCounts vcounts).take i).sum + k) + c < stream.length :=
  partition_row vcounts stream nind gs h i ct k hi hk

/-! ### joint and weight columns, either input order -/

/-- for any two offsets (JOINT before WEIGHT, after it, equal, or with a gap) both columns of an
    accepted partition exist, have one list of `vcounts[i]` entries per vertex, and entry `k` of
    vertex `i` is the stream value at the input's offset inside that vertex's `k`-th tuple -/
theorem offset_select (vcounts stream : List Int) (jo wo : Nat) (gs : List (List (List Int)))
    (h : partition vcounts stream (nindices jo wo) = .ok gs) :
    ∃ ji wi, columns jo gs = .ok ji ∧ columns wo gs = .ok wi ∧
      ji.length = vcounts.length ∧ wi.length = vcounts.length ∧
      ∀ i ct, (natCounts vcounts)[i]? = some ct →
        ∃ gj gw, ji[i]? = some gj ∧ wi[i]? = some gw ∧ gj.length = ct ∧ gw.length = ct ∧
          ∀ k, k < ct → ∃ j w, gj[k]? = some j ∧ gw[k]? = some w ∧
            stream[nindices jo wo * (((natCounts vcounts).take i).sum + k) + jo]? = some j ∧
            stream[nindices jo wo * (((natCounts vcounts).take i).sum + k) + wo]? = some w := by
  have hjo : jo < nindices jo wo := by unfold nindices; omega
  have hwo : wo < nindices jo wo := by unfold nindices; omega
  have hw := partition_width _ _ _ _ h
  obtain ⟨ji, hji⟩ := columns_total jo gs (fun g hg row hr => by rw [hw g hg row hr]; exact hjo)
  obtain ⟨wi, hwi⟩ := columns_total wo gs (fun g hg row hr => by rw [hw g hg row hr]; exact hwo)
  have hlen := (partition_groups _ _ _ _ h).1
  refine ⟨ji, wi, hji, hwi, by rw [columns_length _ _ _ hji, hlen], by rw [columns_length _ _ _ hwi, hlen], ?_⟩
  intro i ct hi
  obtain ⟨gj, hgj, hgjl, hgje⟩ := offset_entry _ _ _ jo hjo gs ji h hji i ct hi
  obtain ⟨gw, hgw, hgwl, hgwe⟩ := offset_entry _ _ _ wo hwo gs wi h hwi i ct hi
  refine ⟨gj, gw, hgj, hgw, hgjl, hgwl, ?_⟩
  intro k hk
  obtain ⟨j, hj, hsj⟩ := hgje k hk
  obtain ⟨w, hw', hsw⟩ := hgwe k hk
  exact ⟨j, w, hj, hw', hsj, hsw⟩

/-! ### index ranges -/

/-- the range check accepts exactly when every joint index is in `[-1, #joints)` (-1 = bind shape)
    and every weight index in `[0, #weights)`; otherwise the skin is rejected as malformed -/
theorem joint_weight_in_range (nJoints nWeights : Nat) (ji wi : List (List Int)) :
    (checkRange nJoints nWeights ji wi = .ok () ↔
      (∀ g ∈ ji, ∀ j ∈ g, -1 ≤ j ∧ j < (nJoints : Int)) ∧
      (∀ g ∈ wi, ∀ w ∈ g, 0 ≤ w ∧ w < (nWeights : Int))) ∧
    (checkRange nJoints nWeights ji wi ≠ .ok () → checkRange nJoints nWeights ji wi = .error .malformed) := by
  refine ⟨checkRange_ok_iff _ _ _ _, ?_⟩
  intro h
  cases hc : checkRange nJoints nWeights ji wi with
  | ok u => exact absurd hc h
  | error e => rw [checkRange_error _ _ _ _ e hc]

/-- what a loaded skin is: every stage accepted, and its fields are the stage results -/
theorem decodeSkin_eq_ok (x : SkinIn) (o : SkinOut) :
    decodeSkin x = .ok o ↔
      findGeom x.geoms x.source = some o.geom ∧
      bindShape x.bind = .ok o.bind ∧
      pairJoints x.names x.mats = .ok o.joints ∧
      partition x.vcounts x.stream (nindices x.jo x.wo) = .ok o.index ∧
      columns x.jo o.index = .ok o.jointIndex ∧
      columns x.wo o.index = .ok o.weightIndex ∧
      checkRange x.nWeightJoints x.nWeights o.jointIndex o.weightIndex = .ok () := by
  unfold decodeSkin
  cases h1 : findGeom x.geoms x.source with
  | none => simp
  | some g =>
    cases h2 : bindShape x.bind with
    | error e => simp
    | ok b =>
      cases h3 : pairJoints x.names x.mats with
      | error e => simp
      | ok js =>
        cases h4 : partition x.vcounts x.stream (nindices x.jo x.wo) with
        | error e => simp
        | ok idx =>
          dsimp only
          cases h5 : columns x.jo idx with
          | error e =>
            simp only [Option.some.injEq, Except.ok.injEq, reduceCtorEq, false_iff, not_and]
            intro _ _ _ hidx h5'
            rw [← hidx, h5] at h5'
            cases h5'
          | ok ji =>
            dsimp only
            cases h6 : columns x.wo idx with
            | error e =>
              simp only [Option.some.injEq, Except.ok.injEq, reduceCtorEq, false_iff, not_and]
              intro _ _ _ hidx _ h6'
              rw [← hidx, h6] at h6'
              cases h6'
            | ok wi =>
              dsimp only
              cases h7 : checkRange x.nWeightJoints x.nWeights ji wi with
              | error e =>
                simp only [Option.some.injEq, Except.ok.injEq, reduceCtorEq, false_iff, not_and]
                intro _ _ _ hidx h5' h6' h7'
                rw [← hidx, h5] at h5'
                rw [← hidx, h6] at h6'
                cases h5'; cases h6'
                rw [h7] at h7'
                cases h7'
              | ok u =>
                simp only [Option.some.injEq, Except.ok.injEq]
                constructor
                · intro ho
                  subst ho
                  exact ⟨rfl, rfl, rfl, rfl, h5, h6, h7⟩
                · rintro ⟨rfl, rfl, rfl, rfl, h5', h6', _⟩
                  rw [h5] at h5'; rw [h6] at h6'
                  cases h5'; cases h6'
                  rfl

/-- a loaded skin exposes, for every vertex, indices that are all in range -/
theorem loaded_skin_in_range (x : SkinIn) (o : SkinOut) (h : decodeSkin x = .ok o) :
    (∀ g ∈ o.jointIndex, ∀ j ∈ g, -1 ≤ j ∧ j < (x.nWeightJoints : Int)) ∧
    (∀ g ∈ o.weightIndex, ∀ w ∈ g, 0 ≤ w ∧ w < (x.nWeights : Int)) :=
  (checkRange_ok_iff _ _ _ _).mp ((decodeSkin_eq_ok x o).mp h).2.2.2.2.2.2

/-- the only failures of a skin are Malformed, and BrokenRef for a source geometry that is not in
    the library; in particular an out-of-range index, a wrong `<v>` length, a negative count, a
    joint/matrix length mismatch or a bind shape of the wrong size all give Malformed -/
theorem decodeSkin_error (x : SkinIn) (e : Err) (h : decodeSkin x = .error e) :
    (e = .brokenRef ∧ x.source ∉ x.geoms) ∨
    (e = .malformed ∧ x.source ∈ x.geoms ∧
      ((∃ l, x.bind = some l ∧ l.length ≠ 16) ∨
       x.mats.length ≠ 16 * x.names.length ∨
       (x.stream.length : Int) ≠ nindices x.jo x.wo * x.vcounts.sum ∨ (∃ c ∈ x.vcounts, c < 0) ∨
       ∃ idx ji wi, partition x.vcounts x.stream (nindices x.jo x.wo) = .ok idx ∧
         columns x.jo idx = .ok ji ∧ columns x.wo idx = .ok wi ∧
         ((∃ g ∈ ji, ∃ j ∈ g, j < -1 ∨ (x.nWeightJoints : Int) ≤ j) ∨
          (∃ g ∈ wi, ∃ w ∈ g, w < 0 ∨ (x.nWeights : Int) ≤ w)))) := by
  unfold decodeSkin at h
  cases h1 : findGeom x.geoms x.source with
  | none =>
    rw [h1] at h
    cases h
    exact Or.inl ⟨rfl, (findGeom_none _ _).mp h1⟩
  | some g =>
    have hin : x.source ∈ x.geoms := by
      by_contra hn
      rw [(findGeom_none _ _).mpr hn] at h1
      cases h1
    rw [h1] at h
    right
    cases h2 : bindShape x.bind with
    | error e2 =>
      rw [h2] at h
      cases h
      cases hb : x.bind with
      | none => rw [hb] at h2; cases h2
      | some l =>
        rw [hb] at h2
        simp only [bindShape] at h2
        split at h2
        · next hl => cases h2; exact ⟨rfl, hin, Or.inl ⟨l, rfl, hl⟩⟩
        · cases h2
    | ok b =>
      rw [h2] at h
      cases h3 : pairJoints x.names x.mats with
      | error e3 =>
        rw [h3] at h
        cases h
        refine ⟨pairJoints_error _ _ _ h3, hin, Or.inr (Or.inl ?_)⟩
        intro hl
        have := (pairJoints_eq_ok x.names x.mats _).mpr ⟨hl, rfl⟩
        rw [h3] at this
        cases this
      | ok js =>
        rw [h3] at h
        cases h4 : partition x.vcounts x.stream (nindices x.jo x.wo) with
        | error e4 =>
          rw [h4] at h
          cases h
          refine ⟨partition_error _ _ _ _ h4, hin, ?_⟩
          by_cases hneg : ∃ c ∈ x.vcounts, c < 0
          · exact Or.inr (Or.inr (Or.inr (Or.inl hneg)))
          · refine Or.inr (Or.inr (Or.inl ?_))
            intro hl
            have hn : ∀ c ∈ x.vcounts, 0 ≤ c := by
              intro c hc
              by_contra hlt
              exact hneg ⟨c, hc, by omega⟩
            obtain ⟨gs, hgs⟩ := (partition_accept_iff _ _ _).mpr ⟨hn, hl⟩
            rw [h4] at hgs
            cases hgs
        | ok idx =>
          rw [h4] at h
          have hjo : x.jo < nindices x.jo x.wo := by unfold nindices; omega
          have hwo : x.wo < nindices x.jo x.wo := by unfold nindices; omega
          have hw := partition_width _ _ _ _ h4
          obtain ⟨ji, hji⟩ := columns_total x.jo idx (fun g hg row hr => by rw [hw g hg row hr]; exact hjo)
          obtain ⟨wi, hwi⟩ := columns_total x.wo idx (fun g hg row hr => by rw [hw g hg row hr]; exact hwo)
          dsimp only at h
          rw [hji] at h
          dsimp only at h
          rw [hwi] at h
          dsimp only at h
          cases h7 : checkRange x.nWeightJoints x.nWeights ji wi with
          | ok u => rw [h7] at h; cases h
          | error e7 =>
            rw [h7] at h
            cases h
            refine ⟨checkRange_error _ _ _ _ _ h7, hin, Or.inr (Or.inr (Or.inr (Or.inr ⟨idx, ji, wi, rfl, hji, hwi, ?_⟩)))⟩
            by_contra hnone
            rw [not_or] at hnone
            have : checkRange x.nWeightJoints x.nWeights ji wi = .ok () := by
              apply (checkRange_ok_iff _ _ _ _).mpr
              constructor
              · intro g hg j hj
                have := hnone.1
                constructor
                · by_contra hlt; exact this ⟨g, hg, j, hj, Or.inl (by omega)⟩
                · by_contra hge; exact this ⟨g, hg, j, hj, Or.inr (by omega)⟩
              · intro g hg w hw'
                have := hnone.2
                constructor
                · by_contra hlt; exact this ⟨g, hg, w, hw', Or.inl (by omega)⟩
                · by_contra hge; exact this ⟨g, hg, w, hw', Or.inr (by omega)⟩
            rw [h7] at this
            cases this

/-! ### joint names and inverse bind matrices -/

/-- accepted: as many matrices as names, and name `i` is paired with the `i`-th block of 16
    values; a matrix source of any other length is malformed -/
theorem joint_matrix_pairing (names : List String) (mats : List Int) :
    (∀ ps, pairJoints names mats = .ok ps →
      mats.length = 16 * names.length ∧ ps.length = names.length ∧
      ∀ (i : Nat) (n : String), names[i]? = some n →
        ps[i]? = some (n, (mats.drop (16 * i)).take 16) ∧ ((mats.drop (16 * i)).take 16).length = 16) ∧
    (mats.length ≠ 16 * names.length → pairJoints names mats = .error .malformed) ∧
    (mats.length = 16 * names.length → ∃ ps, pairJoints names mats = .ok ps) := by
  refine ⟨?_, ?_, ?_⟩
  · intro ps h
    obtain ⟨hlen, rfl⟩ := (pairJoints_eq_ok _ _ _).mp h
    refine ⟨hlen, by simp [rows_length], ?_⟩
    intro i n hn
    have hi : i < names.length := by
      by_contra hge
      rw [List.getElem?_eq_none (by omega)] at hn
      cases hn
    constructor
    · rw [List.getElem?_zip_eq_some]
      exact ⟨hn, rows_getElem? 16 names.length mats i hi⟩
    · simp only [List.length_take, List.length_drop]
      omega
  · intro hne
    cases hp : pairJoints names mats with
    | error e => rw [pairJoints_error _ _ _ hp]
    | ok ps => exact absurd ((pairJoints_eq_ok _ _ _).mp hp).1 hne
  · intro heq
    exact ⟨_, (pairJoints_eq_ok _ _ _).mpr ⟨heq, rfl⟩⟩

/-- the name → matrix mapping built from the pairs: looking a name up gives the matrix of its
    last occurrence, and with distinct names the mapping lists exactly the pairs, in order -/
theorem joint_matrix_lookup (ps : List (String × List Int)) :
    (∀ k, dictGet (dictOf ps) k = (ps.reverse.find? (fun p => decide (p.1 = k))).map (·.2)) ∧
    ((ps.map (·.1)).Nodup → dictOf ps = ps) := by
  constructor
  · intro k
    unfold dictOf
    rw [dictGet_foldl]
    cases ps.reverse.find? (fun p => decide (p.1 = k)) <;> simp [dictGet]
  · intro h
    unfold dictOf
    have := foldl_dictSet_nodup ps [] (by simpa using h)
    simpa using this

/-! ### bind shape -/

/-- an absent `<bind_shape_matrix>` is the identity, which leaves every bound matrix unchanged; a
    present one must have 16 values and is read row by row -/
theorem bind_shape_default_identity :
    bindShape none = .ok 1 ∧
    (∀ m : Mat, boundMatrix m 1 = m) ∧
    (∀ l, l.length = 16 → bindShape (some l) = .ok (Mat.ofList l) ∧ (Mat.ofList l).toList = l) ∧
    (∀ l, l.length ≠ 16 → bindShape (some l) = .error .malformed) := by
  refine ⟨rfl, fun m => Mon.mul_one m, ?_, ?_⟩
  · intro l hl
    refine ⟨by simp [bindShape, hl], ?_⟩
    match l, hl with
    | [a0, a1, a2, a3, a4, a5, a6, a7, a8, a9, a10, a11, a12, a13, a14, a15], _ => rfl
  · intro l hl
    simp [bindShape, hl]

/-- the skin's geometry is the library geometry whose id the `source` attribute names -/
theorem source_geometry_resolved (x : SkinIn) (o : SkinOut) (h : decodeSkin x = .ok o) :
    x.geoms[o.geom]? = some x.source :=
  findGeom_some _ _ _ ((decodeSkin_eq_ok x o).mp h).1

/-! ### morph -/

/-- an accepted morph has its base geometry and one (target geometry, weight) pair per target, in
    order; the outcome does not depend on which of the two methods (or none) is given -/
theorem targets_paired (geoms : List String) (source : String) (method : Option String)
    (targets : List String) (weights : List Int) :
    (∀ b l, decodeMorph geoms source method targets weights = .ok (b, l) →
      geoms[b]? = some source ∧ targets.length = weights.length ∧ l.length = targets.length ∧
      ∀ (i : Nat) (t : String) (w : Int), targets[i]? = some t → weights[i]? = some w →
        ∃ g, l[i]? = some (g, w) ∧ geoms[g]? = some t) ∧
    (source ∈ geoms → (method = none ∨ method = some "NORMALIZED" ∨ method = some "RELATIVE") →
      targets.length ≠ weights.length →
      decodeMorph geoms source method targets weights = .error .malformed) ∧
    (decodeMorph geoms source (some "RELATIVE") targets weights = decodeMorph geoms source none targets weights ∧
     decodeMorph geoms source (some "NORMALIZED") targets weights = decodeMorph geoms source none targets weights) := by
  refine ⟨?_, ?_, ?_⟩
  · intro b l h
    unfold decodeMorph at h
    cases h1 : findGeom geoms source with
    | none => rw [h1] at h; cases h
    | some b' =>
      rw [h1] at h
      simp only at h
      split at h
      · cases h
      · split at h
        · cases h
        · next hlen =>
          have hlen' : targets.length = weights.length := by
            by_contra hne; exact hlen hne
          cases h2 : resolveTargets geoms (targets.zip weights) with
          | none => rw [h2] at h; cases h
          | some l' =>
            rw [h2] at h
            simp only [Except.ok.injEq, Prod.mk.injEq] at h
            obtain ⟨rfl, rfl⟩ := h
            obtain ⟨hl, hall⟩ := resolveTargets_some geoms _ _ h2
            refine ⟨findGeom_some _ _ _ h1, hlen', by simp [hl, List.length_zip, hlen'], ?_⟩
            intro i t w ht hw
            obtain ⟨g, hg, hli⟩ := hall i t w (List.getElem?_zip_eq_some.mpr ⟨ht, hw⟩)
            exact ⟨g, hli, findGeom_some _ _ _ hg⟩
  · intro hin hm hne
    unfold decodeMorph
    cases h1 : findGeom geoms source with
    | none => exact absurd hin ((findGeom_none _ _).mp h1)
    | some b =>
      have : method.getD "NORMALIZED" = "NORMALIZED" ∨ method.getD "NORMALIZED" = "RELATIVE" := by
        rcases hm with rfl | rfl | rfl <;> simp
      simp [this, hne]
  · constructor <;> simp [decodeMorph]

/-! ### binding a skin through a scene -/

/-- for every scene tree over any monoid: the bound skins are, in document order, one per
    `<instance_controller>`, and each is bound with (product of the node matrices on its path,
    root first) · (bind shape of its skin) — equivalently the bind shape is applied first, then
    the innermost node's transform, …, the root's last -/
theorem bound_skin_matrix {M : Type} [Mon M] (bind : Nat → M) (nodes : List (SNode M)) :
    sceneBoundSkins bind nodes =
      (SNode.pathsList nodes).map (fun p => (pathProd p.1 * bind p.2, p.2)) ∧
    sceneBoundSkins bind nodes =
      (SNode.pathsList nodes).map (fun p => (p.1.foldr (· * ·) (bind p.2), p.2)) := by
  have h1 : sceneBoundSkins bind nodes =
      (SNode.pathsList nodes).map (fun p => (pathProd p.1 * bind p.2, p.2)) := by
    unfold sceneBoundSkins sceneObjects boundMatrix
    rw [objectsList_eq_paths]
    simp [List.map_map, Function.comp, pathProd, accGet]
  refine ⟨h1, ?_⟩
  rw [h1]
  apply List.map_congr_left
  intro p _
  unfold pathProd
  rw [foldl_mul_eq, Mon.one_mul]

/-- with no `<bind_shape_matrix>` the skin is bound with the path matrix itself -/
theorem bound_skin_matrix_default {M : Type} [Mon M] (nodes : List (SNode M)) :
    sceneBoundSkins (fun _ => (1 : M)) nodes = (SNode.pathsList nodes).map (fun p => (pathProd p.1, p.2)) := by
  rw [(bound_skin_matrix _ nodes).1]
  apply List.map_congr_left
  intro p _
  simp [Mon.mul_one]

/-! ### non-vacuity: concrete instances -/

-- three vertices with 2, 0, 1 influences; WEIGHT at offset 0 and JOINT at offset 1
example : partition [2, 0, 1] [7, 0, 8, 1, 9, 0] (nindices 1 0) = .ok [[[7, 0], [8, 1]], [], [[9, 0]]] := by decide
example : columns 1 [[[7, 0], [8, 1]], [], [[9, 0]]] = .ok [[0, 1], [], [0]] ∧
    columns 0 [[[7, 0], [8, 1]], [], [[9, 0]]] = .ok [[7, 8], [], [9]] := by decide
-- the other input order and a gapped offset pair
example : partition [1, 1] [0, 5, 3, 1, 5, 4] (nindices 0 2) = .ok [[[0, 5, 3]], [[1, 5, 4]]] := by decide
-- surplus / short data and a negative count are rejected, no vertices at all is accepted
example : partition [2, 0, 1] [7, 0, 8, 1, 9, 0, 0] 2 = .error .malformed := by decide
example : partition [2, 0, 1] [7, 0, 8, 1, 9] 2 = .error .malformed := by decide
example : partition [-1] [0, 0] 2 = .error .malformed := by decide
example : partition [] [] 2 = .ok [] ∧ partition [0, 0] [] 2 = .ok [[], []] := by decide
-- ranges: -1 is a legal joint, 2 joints means index 2 is out, an influence-free skin needs no source entries
example : checkRange 2 3 [[0, -1], [], [1]] [[2, 0], [], [1]] = .ok () := by decide
example : checkRange 2 3 [[0, 2]] [[0, 0]] = .error .malformed := by decide
example : checkRange 2 3 [[0, -2]] [[0, 0]] = .error .malformed := by decide
example : checkRange 2 3 [[0, 1]] [[0, -1]] = .error .malformed := by decide
example : checkRange 0 0 [[], []] [[], []] = .ok () := by decide
-- names and matrices
example : pairJoints ["a", "b"] (List.replicate 16 1 ++ List.replicate 16 2)
    = .ok [("a", List.replicate 16 1), ("b", List.replicate 16 2)] := by decide
example : pairJoints ["a", "b"] (List.replicate 16 1) = .error .malformed := by decide
example : pairJoints ["a"] (List.replicate 17 1) = .error .malformed := by decide
example : dictOf [("a", 1), ("b", 2), ("a", 3)] = [("a", 3), ("b", 2)] := by decide
-- morph
example : decodeMorph ["g0", "g1", "g2"] "g0" (some "RELATIVE") ["g2", "g1"] [4, 8] = .ok (0, [(2, 4), (1, 8)]) := by decide
example : decodeMorph ["g0", "g1"] "g0" none [] [] = .ok (0, []) := by decide
example : decodeMorph ["g0", "g1"] "g0" none ["g1"] [] = .error .malformed := by decide
example : decodeMorph ["g0", "g1"] "g0" (some "ADDITIVE") ["g1"] [1] = .error .malformed := by decide
example : decodeMorph ["g0", "g1"] "g0" none ["zz"] [1] = .error .brokenRef := by decide
-- a whole skin
example : (decodeSkin ⟨["g0", "g1"], "g1", none, ["a"], List.replicate 16 0, 1, 2, 0, 1, [1, 0], [0, 1]⟩).toOption.map
    (fun o => (o.geom, o.index, o.jointIndex, o.weightIndex)) = some (1, [[[0, 1]], []], [[0], []], [[1], []]) := by decide
example : decodeSkin ⟨["g0"], "zz", none, [], [], 0, 0, 0, 1, [], []⟩ = .error .brokenRef := by
  have h : findGeom ["g0"] "zz" = none := by decide
  simp [decodeSkin, h]
-- a scene: root node A with an instance and a child node B with an instance (the free monoid of lists)
instance : Mon (List Nat) where
  mul := (· ++ ·)
  one := []
  one_mul := List.nil_append
  mul_one := List.append_nil
  mul_assoc := List.append_assoc
example : sceneBoundSkins (fun _ => [9]) [SNode.node [1] [.inst 0, .node [2] [.inst 0]]]
    = [([1, 9], 0), ([1, 2, 9], 0)] := by decide

end Pyc.Props.C19
