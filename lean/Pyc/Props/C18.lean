/-
C18 — Generated normals are the normalised sum of incident face normals.
Property theorems only; helper lemmas are in Pyc/Proofs/Normals.lean, the model in
Pyc/Model/Normals.lean.  `sqrt` and float division are not modelled: the normalisation `nz`
is a parameter, constrained only by what `toUnitVec` / `normalize_v3` guarantee
(`PosScale`: a non-zero vector is multiplied by a positive factor; `Unitises`: the result has
length one).
-/
import Pyc.Proofs.Normals

namespace Pyc.Props.C18
open Pyc.Normals Pyc.Normals.V3

/-- `nz` multiplies every non-zero vector by a positive factor (division by the length) -/
def PosScale {α : Type} [Mul α] [Zero α] [LT α] (nz : V3 α → V3 α) : Prop :=
  ∀ v, v ≠ 0 → ∃ c, 0 < c ∧ nz v = smul c v

/-- the result of `nz` on a non-zero vector has length one -/
def Unitises {α : Type} [Add α] [Mul α] [Zero α] [OfNat α 1] (nz : V3 α → V3 α) : Prop :=
  ∀ v, v ≠ 0 → dot (nz v) (nz v) = 1

/-! ### the implicit normal of a triangle without normals -/

section face
variable {α : Type} [Field α] [LinearOrder α] [IsStrictOrderedRing α]

/-- `toUnitVec(cross(toUnitVec(v2-v0), toUnitVec(v0-v1)))` is a positive multiple of the
    right-hand cross product `(v1-v0) × (v2-v0)`, orthogonal to both edges and positively
    oriented, for every non-degenerate triangle -/
theorem face_normal_right_hand (nz : V3 α → V3 α) (hp : PosScale nz) (v0 v1 v2 : V3 α)
    (hnd : cross (v1 - v0) (v2 - v0) ≠ 0) :
    ∃ k, 0 < k ∧ triNormal nz v0 v1 v2 = smul k (cross (v1 - v0) (v2 - v0))
      ∧ dot (triNormal nz v0 v1 v2) (v1 - v0) = 0
      ∧ dot (triNormal nz v0 v1 v2) (v2 - v0) = 0
      ∧ 0 < dot (triNormal nz v0 v1 v2) (cross (v1 - v0) (v2 - v0)) := by
  have hw : cross (v2 - v0) (v0 - v1) ≠ 0 := by rw [cross_tri_edges]; exact hnd
  obtain ⟨a, ha, hna⟩ := hp _ (cross_ne_zero_left _ _ hw)
  obtain ⟨b, hb, hnb⟩ := hp _ (cross_ne_zero_right _ _ hw)
  have hab : 0 < a * b := mul_pos ha hb
  have hin : cross (nz (v2 - v0)) (nz (v0 - v1)) = smul (a * b) (cross (v1 - v0) (v2 - v0)) := by
    rw [hna, hnb, cross_smul_smul, cross_tri_edges]
  have hin0 : cross (nz (v2 - v0)) (nz (v0 - v1)) ≠ 0 := by
    rw [hin]; exact smul_ne_zero' _ _ (ne_of_gt hab) hnd
  obtain ⟨c, hc, hnc⟩ := hp _ hin0
  have hk : 0 < c * (a * b) := mul_pos hc hab
  have heq : triNormal nz v0 v1 v2 = smul (c * (a * b)) (cross (v1 - v0) (v2 - v0)) := by
    unfold triNormal
    rw [hnc, hin]
    ext <;> simp <;> ring
  refine ⟨c * (a * b), hk, heq, ?_, ?_, ?_⟩
  · rw [heq, dot_smul_left, dot_cross_left, mul_zero]
  · rw [heq, dot_smul_left, dot_cross_right, mul_zero]
  · rw [heq, dot_smul_left]
    exact mul_pos hk (dot_self_pos _ hnd)

/-- … and it is a unit vector -/
theorem face_normal_unit (nz : V3 α → V3 α) (hp : PosScale nz) (hu : Unitises nz) (v0 v1 v2 : V3 α)
    (hnd : cross (v1 - v0) (v2 - v0) ≠ 0) :
    dot (triNormal nz v0 v1 v2) (triNormal nz v0 v1 v2) = 1 := by
  have hw : cross (v2 - v0) (v0 - v1) ≠ 0 := by rw [cross_tri_edges]; exact hnd
  obtain ⟨a, ha, hna⟩ := hp _ (cross_ne_zero_left _ _ hw)
  obtain ⟨b, hb, hnb⟩ := hp _ (cross_ne_zero_right _ _ hw)
  apply hu
  rw [hna, hnb, cross_smul_smul, cross_tri_edges]
  exact smul_ne_zero' _ _ (ne_of_gt (mul_pos ha hb)) hnd

omit [IsStrictOrderedRing α] in
/-- the per-triangle normal used by `generateNormals`, `normalize_v3(cross(v1-v0, v2-v0))`, is a
    positive multiple of the right-hand cross product and a unit vector -/
theorem set_face_normal_right_hand (nz : V3 α → V3 α) (hp : PosScale nz) (hu : Unitises nz)
    (v0 v1 v2 : V3 α) (hnd : cross (v1 - v0) (v2 - v0) ≠ 0) :
    (∃ k, 0 < k ∧ nz (faceCross (v0, v1, v2)) = smul k (cross (v1 - v0) (v2 - v0)))
      ∧ dot (nz (faceCross (v0, v1, v2))) (nz (faceCross (v0, v1, v2))) = 1 :=
  ⟨hp _ hnd, hu _ hnd⟩

end face

/-! ### accumulation -/

section accumulation
variable {β : Type} [AddCommMonoid β]

/-- one `numpy.add.at(acc, idx, vals)`: entry `v` grows by the sum of ALL values addressed to it -/
theorem scatter_add_call (acc : List β) (idx : List Nat) (vals : List β) (v : Nat) (a : β)
    (h : acc[v]? = some a) :
    (scatterAdd acc idx vals)[v]? =
      some (a + (((idx.zip vals).filter (fun p => p.1 == v)).map (·.2)).sum) :=
  scatterAdd_getElem? acc idx vals v a h

/-- after the three column-wise accumulations, entry `v` is Σ over all (t,k) with `tri t k = v`
    of `n t` — every multiplicity of `v`, in every corner position, over any additive
    commutative monoid -/
theorem scatter_add_sum (nverts : Nat) (tris : List Tri) (ns : List β) (v : Nat) (hv : v < nverts) :
    (accumulate nverts tris ns)[v]? = some (incident v tris ns) :=
  accumulate_getElem? nverts tris ns v hv

/-- what `incident` is, one triangle at a time -/
theorem incident_cons (v : Nat) (t : Tri) (n : β) (tris : List Tri) (ns : List β) :
    incident v (t :: tris) (n :: ns) =
      (if t.a = v then n else 0) + ((if t.b = v then n else 0) + ((if t.c = v then n else 0)
        + incident v tris ns)) := by
  show fsum v (corners (t :: tris) (n :: ns)) = _
  simp only [corners, List.zip_cons_cons, List.flatMap_cons, List.cons_append, List.nil_append,
    fsum_cons]
  rfl

theorem incident_nil (v : Nat) (ns : List β) : incident v [] ns = 0 := rfl

end accumulation

/-- NEGATIVE: the buffered `acc[idx] += vals` of the pinned tree is not the sum — an index that
    occurs twice in one column receives one contribution only (this is defect R17; the failing-
    input search looks for exactly this shape: one vertex, same corner, two triangles) -/
theorem scatterAssign_ne_sum :
    ∃ (acc : List Int) (idx : List Nat) (vals : List Int),
      scatterAssign acc idx vals ≠ scatterAdd acc idx vals ∧
      (scatterAssign acc idx vals)[0]? = some 1 ∧ (scatterAdd acc idx vals)[0]? = some 2 :=
  ⟨[0, 0], [0, 0], [1, 1], by decide, by decide, by decide⟩

/-- NEGATIVE, at the level of the whole generator: the hub of a three-triangle fan (hub always
    in corner 0) gets one face normal with the buffered accumulation, the sum with `add.at` -/
theorem accumulateAssign_fan_hub :
    (accumulateAssign 4 [⟨0, 1, 2⟩, ⟨0, 2, 3⟩, ⟨0, 3, 1⟩]
        ([⟨0, 0, 1⟩, ⟨1, 0, 0⟩, ⟨0, 1, 0⟩] : List (V3 Int)))[0]? = some ⟨0, 1, 0⟩ ∧
    (accumulate 4 [⟨0, 1, 2⟩, ⟨0, 2, 3⟩, ⟨0, 3, 1⟩]
        ([⟨0, 0, 1⟩, ⟨1, 0, 0⟩, ⟨0, 1, 0⟩] : List (V3 Int)))[0]? = some ⟨1, 1, 1⟩ := by
  decide

/-! ### generateNormals -/

section generate
variable {α : Type} [Ring α]

/-- `generateNormals` fails (IndexError) exactly when a triangle refers to a missing vertex -/
theorem generate_defined (nz : V3 α → V3 α) (V : List (V3 α)) (tris : List Tri) :
    (generateNormals nz V tris).isSome ↔
      ∀ t ∈ tris, t.a < V.length ∧ t.b < V.length ∧ t.c < V.length := by
  unfold generateNormals faceNormals
  rw [Option.isSome_map, Option.isSome_map, mapM_isSome_iff]
  constructor
  · intro h t ht; exact (lookupTri_isSome V t).mp (h t ht)
  · intro h t ht; exact (lookupTri_isSome V t).mpr (h t ht)

/-- the generated normals are one per vertex row and are indexed by the vertex index -/
theorem normals_indexed_like_vertices (nz : V3 α → V3 α) (V : List (V3 α)) (tris : List Tri)
    (g : Generated α) (h : generateNormals nz V tris = some g) :
    g.normal.length = V.length ∧ g.normalIndex = tris := by
  unfold generateNormals at h
  cases hf : faceNormals nz V tris with
  | none => simp [hf] at h
  | some ns =>
    simp [hf] at h
    subst h
    simp [accumulate_length]

/-- every vertex gets `nz` of the sum of the unit face normals of all triangles incident to it
    (once per corner in which it occurs), the face normal of triangle `i` being
    `nz ((v1-v0) × (v2-v0))` -/
theorem generate_spec (nz : V3 α → V3 α) (V : List (V3 α)) (tris : List Tri)
    (g : Generated α) (h : generateNormals nz V tris = some g) :
    ∃ ns : List (V3 α), faceNormals nz V tris = some ns ∧ ns.length = tris.length ∧
      (∀ (i : Nat) (t : Tri), tris[i]? = some t → ∃ v0 v1 v2, V[t.a]? = some v0 ∧ V[t.b]? = some v1 ∧
          V[t.c]? = some v2 ∧ ns[i]? = some (nz (cross (v1 - v0) (v2 - v0)))) ∧
      (∀ v, v < V.length → g.normal[v]? = some (nz (incident v tris ns))) := by
  unfold generateNormals at h
  cases hf : faceNormals nz V tris with
  | none => simp [hf] at h
  | some ns =>
    simp [hf] at h
    subst h
    refine ⟨ns, rfl, ?_, ?_, ?_⟩
    · unfold faceNormals at hf
      cases hm : tris.mapM (lookupTri V) with
      | none => simp [hm] at hf
      | some ps =>
        simp [hm] at hf
        subst hf
        simp [mapM_some_length _ _ _ hm]
    · intro i t hi
      unfold faceNormals at hf
      cases hm : tris.mapM (lookupTri V) with
      | none => simp [hm] at hf
      | some ps =>
        simp [hm] at hf
        subst hf
        obtain ⟨p, hp, hpi⟩ := mapM_some_getElem? _ _ _ hm i t hi
        unfold lookupTri at hp
        cases ha : V[t.a]? with
        | none => simp [ha] at hp
        | some v0 =>
          cases hb : V[t.b]? with
          | none => simp [ha, hb] at hp
          | some v1 =>
            cases hc : V[t.c]? with
            | none => simp [ha, hb, hc] at hp
            | some v2 =>
              simp [ha, hb, hc] at hp
              subst hp
              exact ⟨v0, v1, v2, rfl, rfl, rfl, by simp [hpi, faceCross]⟩
    · intro v hv
      simp only [List.getElem?_map]
      rw [accumulate_getElem? V.length tris ns v hv]
      rfl

end generate

/-! ### texture tangents -/

section tangent
variable {α : Type}

/-- the Gram-Schmidt step `tan - norm * dot(norm, tan)` is orthogonal to a unit normal -/
theorem tangent_orthogonal [CommRing α] (n t : V3 α) (h : dot n n = 1) :
    dot (gsResidual n t) n = 0 :=
  dot_gsResidual n t h

/-- after `normalize_v3` the tangent is a unit vector and still orthogonal to the normal,
    provided the accumulated tangent is not parallel to the normal (non-zero residual) -/
theorem tangent_unit_orthogonal [Field α] [LinearOrder α] [IsStrictOrderedRing α]
    (nz : V3 α → V3 α) (hp : PosScale nz) (hu : Unitises nz) (n t : V3 α) (h : dot n n = 1)
    (hne : gsResidual n t ≠ 0) :
    dot (nz (gsResidual n t)) (nz (gsResidual n t)) = 1 ∧ dot (nz (gsResidual n t)) n = 0 := by
  refine ⟨hu _ hne, ?_⟩
  obtain ⟨c, _, hc⟩ := hp _ hne
  rw [hc, dot_smul_left, dot_gsResidual n t h, mul_zero]

/-- direction of the tangent when the normal is `c • S` (`S` the accumulated, unnormalised
    normal): a positive multiple of the division-free `(S·S) t − (S·t) S`, which is what the
    correspondence check compares exactly -/
theorem tangent_direction [Field α] [LinearOrder α] [IsStrictOrderedRing α]
    (c : α) (S t : V3 α) (hc : c ≠ 0) (h : c * c * dot S S = 1) :
    0 < c * c ∧ gsResidual (smul c S) t = smul (c * c) (gsDir S t) ∧ dot (gsDir S t) S = 0 :=
  ⟨mul_self_pos.mpr hc, gsResidual_smul c S t h, dot_gsDir S t⟩

/-- the s direction of a single triangle lies in the plane of the triangle -/
theorem sdir_in_face_plane [Field α] [DecidableEq α] (p : V3 α × V3 α × V3 α)
    (q : V2 α × V2 α × V2 α) (s : V3 α) (h : sdirOf p q = some s) : dot s (faceCross p) = 0 := by
  unfold sdirOf at h
  simp only [] at h
  split at h
  · cases h
  · cases h
    simp [dot, faceCross]
    ring

/-- structure of `generateTexTangentsAndBinormals` (tangent part): corner `k` of triangle `i`
    gets `nz (norm − …)` applied to the normal that corner refers to and to the SUM of the s
    directions of all triangles incident to the corner's vertex (every multiplicity, every
    corner position — `scatter_add_sum` again) -/
theorem tangents_spec [Field α] [DecidableEq α] (nz : V3 α → V3 α) (V : List (V3 α))
    (tris : List Tri) (UV : List (V2 α)) (uvtris : List Tri) (N : List (V3 α)) (ntris : List Tri)
    (R : List (V3 α × V3 α × V3 α))
    (h : generateTangents nz V tris UV uvtris N ntris = some R) :
    ∃ sd : List (V3 α), sdirs V tris UV uvtris = some sd ∧
      ∀ (i : Nat) (t nt : Tri), tris[i]? = some t → ntris[i]? = some nt →
        ∃ n0 n1 n2, N[nt.a]? = some n0 ∧ N[nt.b]? = some n1 ∧ N[nt.c]? = some n2 ∧
          t.a < V.length ∧ t.b < V.length ∧ t.c < V.length ∧
          R[i]? = some (nz (gsResidual n0 (incident t.a tris sd)),
                        nz (gsResidual n1 (incident t.b tris sd)),
                        nz (gsResidual n2 (incident t.c tris sd))) := by
  unfold generateTangents tangentSums perCorner at h
  cases hsd : sdirs V tris UV uvtris with
  | none => simp [hsd] at h
  | some sd =>
    refine ⟨sd, rfl, ?_⟩
    intro i t nt hti hnti
    simp only [hsd, Option.map_some, Option.bind_eq_bind, Option.bind_some] at h
    cases hns : ntris.mapM (lookupTri N) with
    | none => simp [hns] at h
    | some nsl =>
      cases hts : tris.mapM (lookupTri (accumulate V.length tris sd)) with
      | none => simp [hns, hts] at h
      | some ts =>
        simp only [hns, hts, Option.bind_some, Option.some.injEq] at h
        subst h
        obtain ⟨pn, hpn, hpni⟩ := mapM_some_getElem? _ _ _ hns i nt hnti
        obtain ⟨pt, hpt, hpti⟩ := mapM_some_getElem? _ _ _ hts i t hti
        obtain ⟨hn0, hn1, hn2⟩ := (lookupTri_eq_some _ _ _).mp hpn
        obtain ⟨ht0, ht1, ht2⟩ := (lookupTri_eq_some _ _ _).mp hpt
        have hlen := accumulate_length V.length tris sd
        have ha : t.a < V.length := by
          have := (List.getElem?_eq_some_iff.mp ht0).1; rwa [hlen] at this
        have hb : t.b < V.length := by
          have := (List.getElem?_eq_some_iff.mp ht1).1; rwa [hlen] at this
        have hc : t.c < V.length := by
          have := (List.getElem?_eq_some_iff.mp ht2).1; rwa [hlen] at this
        rw [accumulate_getElem? _ _ _ _ ha] at ht0
        rw [accumulate_getElem? _ _ _ _ hb] at ht1
        rw [accumulate_getElem? _ _ _ _ hc] at ht2
        refine ⟨pn.1, pn.2.1, pn.2.2, hn0, hn1, hn2, ha, hb, hc, ?_⟩
        have hz : (nsl.zip ts)[i]? = some (pn, pt) := by
          rw [List.getElem?_zip_eq_some]; exact ⟨hpni, hpti⟩
        rw [List.getElem?_map, hz]
        simp only [Option.map_some, Option.some.injEq] at ht0 ht1 ht2 ⊢
        rw [← ht0, ← ht1, ← ht2]

/-- NEGATIVE: when the accumulated tangent is parallel to the normal the residual is zero —
    no unit tangent exists then (`normalize_v3` leaves the zero vector, or rounding noise, in
    place). Known finding `gentangents:tangent-parallel-to-normal`. -/
theorem tangent_parallel_degenerate :
    ∃ n t : V3 Int, dot n n = 1 ∧ t ≠ 0 ∧ gsResidual n t = 0 :=
  ⟨⟨1, 0, 0⟩, ⟨3, 0, 0⟩, by decide, by decide, by decide⟩

end tangent

/-! ### non-vacuity -/

/-- a positive-scaling normalisation exists over `Rat` … -/
example : PosScale (fun v : V3 Rat => smul 2 v) := fun v _ => ⟨2, by decide, rfl⟩
/-- … and the hypotheses of `face_normal_right_hand` are met by a concrete triangle -/
example : cross ((⟨1, 0, 0⟩ : V3 Int) - ⟨0, 0, 0⟩) (⟨0, 1, 0⟩ - ⟨0, 0, 0⟩) = ⟨0, 0, 1⟩ := by decide
example : triNormal (fun v : V3 Int => v) ⟨0, 0, 0⟩ ⟨2, 0, 0⟩ ⟨0, 3, 0⟩ = ⟨0, 0, 6⟩ := by decide

/-- a vertex in corner 0 of three triangles and in corner 1 of a fourth gets all four -/
example : (accumulate 5 [⟨0, 1, 2⟩, ⟨0, 2, 3⟩, ⟨0, 3, 1⟩, ⟨4, 0, 1⟩] ([10, 20, 30, 40] : List Int))
    = [100, 80, 30, 50, 40] := by decide
example : incident 0 [⟨0, 1, 2⟩, ⟨0, 2, 3⟩, ⟨0, 3, 1⟩, ⟨4, 0, 1⟩] ([10, 20, 30, 40] : List Int) = 100 := by
  decide
/-- the same vertex twice in one triangle counts twice -/
example : incident 0 [⟨0, 0, 1⟩] ([7] : List Int) = 14 := by decide

/-- the whole generator on the fan (identity normalisation so that everything stays in `Int`) -/
example : generateNormals (fun v : V3 Int => v) [⟨0, 0, 0⟩, ⟨1, 0, 0⟩, ⟨0, 1, 0⟩, ⟨0, 0, 1⟩]
      [⟨0, 1, 2⟩, ⟨0, 2, 3⟩, ⟨0, 3, 1⟩] =
    some ⟨[⟨1, 1, 1⟩, ⟨0, 1, 1⟩, ⟨1, 0, 1⟩, ⟨1, 1, 0⟩], [⟨0, 1, 2⟩, ⟨0, 2, 3⟩, ⟨0, 3, 1⟩]⟩ := by
  decide
/-- out-of-range vertex index: the error branch -/
example : generateNormals (fun v : V3 Int => v) [⟨0, 0, 0⟩, ⟨1, 0, 0⟩] [⟨0, 1, 2⟩] = none := by decide

/-- Gram-Schmidt on a concrete unit normal -/
example : dot (⟨0, 0, 1⟩ : V3 Int) ⟨0, 0, 1⟩ = 1 ∧ gsResidual (⟨0, 0, 1⟩ : V3 Int) ⟨2, 3, 5⟩ = ⟨2, 3, 0⟩ := by
  decide
example : gsDir (⟨1, 1, 1⟩ : V3 Int) ⟨1, 0, 0⟩ = ⟨2, -1, -1⟩ := by decide

end Pyc.Props.C18
