/-
C15 — Loading is independent of the namespace URI.
-/
import Pyc.Model.Namespace
import Pyc.Generated.NsUsage

namespace Pyc.Props.C15
open Pyc.Ns

mutual
  theorem view_rename (a b : String) (hab : a ≠ b) : ∀ x : Xml, occurs b x = false →
      view b (renameNs a b x) = view a x
    | .node ns name attrs text kids, h => by
      simp only [occurs, Bool.or_eq_false_iff] at h
      have hk := viewList_rename a b hab kids h.2
      have hns : ns ≠ b := by simpa using h.1
      simp only [renameNs, view]
      by_cases e : ns = a
      · simp [e, hk]
      · simp [e, hns, hk]
  theorem viewList_rename (a b : String) (hab : a ≠ b) : ∀ xs : List Xml, occursList b xs = false →
      viewList b (renameList a b xs) = viewList a xs
    | [], _ => by simp [renameList, viewList]
    | x :: xs, h => by
      simp only [occursList, Bool.or_eq_false_iff] at h
      simp [renameList, viewList, view_rename a b hab x h.1, viewList_rename a b hab xs h.2]
end

/-- Replacing the COLLADA namespace URI by any URI that does not already occur in the document
    (as the namespace of some foreign element) changes nothing in what a loader that takes its
    namespace from the root can compute — whatever it computes (content, recorded errors, …),
    foreign-namespace extras included. -/
theorem load_ns_invariant {α : Type} (f : View → α) (x : Xml) (b : String)
    (hb : occurs b x = false) : loadWith f (renameNs x.ns b x) = loadWith f x := by
  by_cases hab : x.ns = b
  · cases x with
    | node ns name attrs text kids =>
      simp only [Xml.ns] at hab
      simp [occurs, hab] at hb
  · have hroot : (renameNs x.ns b x).ns = b := by
      cases x; simp [renameNs, Xml.ns]
    unfold loadWith
    rw [hroot, view_rename x.ns b hab x hb]

/-- The load-side functions of the package, as the source stands on this run, never tag an element
    name with the hard-wired namespace (table regenerated from the AST on every run). -/
theorem no_hardwired_tag_in_loaders : Pyc.Generated.NsUsage.usage.all (fun u => u.2 == 0) = true := by
  decide

/-- and that matters: a loader that compares with a hard-wired URI is not invariant -/
theorem hardwired_not_invariant :
    ∃ (x : Xml) (b : String), occurs b x = false ∧
      loadHardwired "ns141" geometryIds (renameNs x.ns b x) ≠ loadHardwired "ns141" geometryIds x := by
  refine ⟨.node "ns141" "COLLADA" [] "" [.node "ns141" "library_geometries" [] ""
      [.node "ns141" "geometry" [("id", "g")] "" []]], "ns15", by decide, by decide⟩

/-! ### non-vacuity -/
def sample : Xml := .node "ns141" "COLLADA" [] "" [
  .node "ns141" "library_geometries" [] "" [.node "ns141" "geometry" [("id", "g1")] "" [],
    .node "urn:other" "geometry" [("id", "alien")] "" []],
  .node "ns141" "extra" [] "" [.node "urn:other" "thing" [] "payload" []]]
example : loadWith geometryIds sample = ["g1"] := by decide
example : loadWith geometryIds (renameNs "ns141" "ns15" sample) = ["g1"] := by decide
example : occurs "ns15" sample = false := by decide

end Pyc.Props.C15
