/-
C15 — Loading is independent of the namespace URI.
-/
import Pyc.Model.Namespace
import Pyc.Generated.NsUsage
import Pyc.Generated.NsWrap

namespace Pyc.Props.C15
open Pyc.Ns

mutual
  theorem view_rename (a b : String) (hab : a ≠ b) : ∀ x : Xml, occurs b x = false →
      view b (renameNs a b x) = view a x
    | .node ns name attrs text kids, h => by
      simp only [occurs, Bool.or_eq_false_iff] at h
      have hk := viewList_rename a b hab kids h.2
      have hns : ns ≠ b := by simpa using h.1
      simp only [renameNs, view]
      by_cases e : ns = a
      · simp [e, hk]
      · simp [e, hns, hk]
  theorem viewList_rename (a b : String) (hab : a ≠ b) : ∀ xs : List Xml, occursList b xs = false →
      viewList b (renameList a b xs) = viewList a xs
    | [], _ => by simp [renameList, viewList]
    | x :: xs, h => by
      simp only [occursList, Bool.or_eq_false_iff] at h
      simp [renameList, viewList, view_rename a b hab x h.1, viewList_rename a b hab xs h.2]
end

/-- Replacing the COLLADA namespace URI by any URI that does not already occur in the document
    (as the namespace of some foreign element) changes nothing in what a loader that takes its
    namespace from the root can compute — whatever it computes (content, recorded errors, …),
    foreign-namespace extras included. -/
theorem load_ns_invariant {α : Type} (f : View → α) (x : Xml) (b : String)
    (hb : occurs b x = false) : loadWith f (renameNs x.ns b x) = loadWith f x := by
  by_cases hab : x.ns = b
  · cases x with
    | node ns name attrs text kids =>
      simp only [Xml.ns] at hab
      simp [occurs, hab] at hb
  · have hroot : (renameNs x.ns b x).ns = b := by
      cases x; simp [renameNs, Xml.ns]
    unfold loadWith
    rw [hroot, view_rename x.ns b hab x hb]

/-- The load-side functions of the package, as the source stands on this run, never tag an element
    name with the hard-wired namespace (table regenerated from the AST on every run). -/
theorem no_hardwired_tag_in_loaders : Pyc.Generated.NsUsage.usage.all (fun u => u.2 == 0) = true := by
  decide

/-- and that matters: a loader that compares with a hard-wired URI is not invariant -/
theorem hardwired_not_invariant :
    ∃ (x : Xml) (b : String), occurs b x = false ∧
      loadHardwired "ns141" geometryIds (renameNs x.ns b x) ≠ loadHardwired "ns141" geometryIds x := by
  refine ⟨.node "ns141" "COLLADA" [] "" [.node "ns141" "library_geometries" [] ""
      [.node "ns141" "geometry" [("id", "g")] "" []]], "ns15", by decide, by decide⟩

/-! ### saving a document that is not in the default namespace (`Collada.save` wraps the namespace-unaware `_save`) -/

mutual
  theorem rename_absent (a b : String) : ∀ x : Xml, occurs a x = false → renameNs a b x = x
    | .node ns name attrs text kids, h => by
      simp only [occurs, Bool.or_eq_false_iff] at h
      have hns : ns ≠ a := by simpa using h.1
      simp [renameNs, hns, renameList_absent a b kids h.2]
  theorem renameList_absent (a b : String) : ∀ xs : List Xml, occursList a xs = false → renameList a b xs = xs
    | [], _ => by simp [renameList]
    | x :: xs, h => by
      simp only [occursList, Bool.or_eq_false_iff] at h
      simp [renameList, rename_absent a b x h.1, renameList_absent a b xs h.2]
end

mutual
  theorem rename_roundtrip (a b : String) : ∀ x : Xml, occurs b x = false → renameNs b a (renameNs a b x) = x
    | .node ns name attrs text kids, h => by
      simp only [occurs, Bool.or_eq_false_iff] at h
      have hns : ns ≠ b := by simpa using h.1
      simp only [renameNs]
      by_cases e : ns = a
      · simp [e, renameList_roundtrip a b kids h.2]
      · simp [e, hns, renameList_roundtrip a b kids h.2]
  theorem renameList_roundtrip (a b : String) : ∀ xs : List Xml, occursList b xs = false →
      renameList b a (renameList a b xs) = xs
    | [], _ => by simp [renameList]
    | x :: xs, h => by
      simp only [occursList, Bool.or_eq_false_iff] at h
      simp [renameList, rename_roundtrip a b x h.1, renameList_roundtrip a b xs h.2]
end

mutual
  theorem occurs_after_rename (a b : String) (hab : a ≠ b) : ∀ x : Xml, occurs a (renameNs a b x) = false
    | .node ns name attrs text kids => by
      simp only [renameNs, occurs, Bool.or_eq_false_iff]
      refine ⟨?_, occursList_after_rename a b hab kids⟩
      by_cases e : ns = a
      · simp [e]; exact fun h => hab h.symm
      · simp [e]
  theorem occursList_after_rename (a b : String) (hab : a ≠ b) : ∀ xs : List Xml, occursList a (renameList a b xs) = false
    | [] => by simp [renameList, occursList]
    | x :: xs => by
      simp [renameList, occursList, occurs_after_rename a b hab x, occursList_after_rename a b hab xs]
end

mutual
  theorem occurs_rename_other (a b c : String) (hca : c ≠ a) (hcb : c ≠ b) : ∀ x : Xml,
      occurs c (renameNs a b x) = occurs c x
    | .node ns name attrs text kids => by
      simp only [renameNs, occurs, occursList_rename_other a b c hca hcb kids]
      by_cases e : ns = a
      · have h1 : (b == c) = false := by simpa using Ne.symm hcb
        have h2 : (a == c) = false := by simpa using Ne.symm hca
        simp [e, h1, h2]
      · simp [e]
  theorem occursList_rename_other (a b c : String) (hca : c ≠ a) (hcb : c ≠ b) : ∀ xs : List Xml,
      occursList c (renameList a b xs) = occursList c xs
    | [] => by simp [renameList]
    | x :: xs => by
      simp [renameList, occursList, occurs_rename_other a b c hca hcb x, occursList_rename_other a b c hca hcb xs]
end

/-- **an unedited document is saved as it is**, whatever foreign content it embeds — also content in the default
    namespace itself: if the namespace-unaware save leaves the default-namespace rendering of the document alone,
    the wrapped save returns the document unchanged (element by element, namespace by namespace). -/
theorem saveNs_unedited (dflt parked : String) (core : Xml → Xml) (x : Xml) (hpd : parked ≠ dflt)
    (hp : occurs parked x = false)
    (hcore : core (renameNs x.ns dflt (renameNs dflt parked x)) = renameNs x.ns dflt (renameNs dflt parked x))
    (hcore' : x.ns = dflt → core x = x) : saveNs dflt parked core x = x := by
  unfold saveNs
  by_cases hd : x.ns = dflt
  · rw [if_pos hd]; exact hcore' hd
  · rw [if_neg hd, hcore]
    -- x1 := dflt ↦ parked: no dflt left; x2 := X ↦ dflt; back: dflt ↦ X gives x1 again; parked ↦ dflt gives x
    have h1 : occurs dflt (renameNs dflt parked x) = false := occurs_after_rename dflt parked (Ne.symm hpd) x
    have h2 := rename_roundtrip x.ns dflt (renameNs dflt parked x) h1
    rw [h2]
    exact rename_roundtrip dflt parked x hp

/-- without parking, foreign default-namespace content is moved into the document namespace (the defect of the
    first repair, found by the unmodelled-content oracle of C03) -/
theorem noPark_moves_foreign_content :
    ∃ x : Xml, saveNsNoPark "ns141" id x ≠ x ∧ saveNs "ns141" "parked" id x = x := by
  refine ⟨.node "ns15" "COLLADA" [] "" [.node "ns15" "extra" [] "" [.node "ns141" "note" [] "kept" []]], ?_, ?_⟩
  · intro h
    have := congrArg nsList h
    simp [saveNsNoPark, Xml.ns, renameNs, renameList, nsList, nsListL] at this
  · simp [saveNs, Xml.ns, renameNs, renameList]

/-! tie: the wrapper as the source has it on this run (translators/ns_wrap.py) IS `saveNs` -/
open Pyc.Generated.NsWrap in
def symVal (dflt parked doc : String) : Sym → String
  | .dflt => dflt
  | .doc => doc
  | .parked => parked

open Pyc.Generated.NsWrap in
/-- run the generated step list on a document whose root namespace is `doc` -/
def runSteps (dflt parked doc : String) (core : Xml → Xml) : List Step → Xml → Xml
  | [], x => x
  | .retag a b :: rest, x => runSteps dflt parked doc core rest (renameNs (symVal dflt parked doc a) (symVal dflt parked doc b) x)
  | .core :: rest, x => runSteps dflt parked doc core rest (core x)

/-- the statements of `Collada.save`, in the order they stand in the source on this run, compute `saveNs` -/
theorem source_wrapper_is_saveNs (dflt parked : String) (core : Xml → Xml) (x : Xml) (h : x.ns ≠ dflt) :
    runSteps dflt parked x.ns core Pyc.Generated.NsWrap.steps x = saveNs dflt parked core x := by
  simp [Pyc.Generated.NsWrap.steps, runSteps, symVal, saveNs, h]

/-! ### non-vacuity -/
def sample : Xml := .node "ns141" "COLLADA" [] "" [
  .node "ns141" "library_geometries" [] "" [.node "ns141" "geometry" [("id", "g1")] "" [],
    .node "urn:other" "geometry" [("id", "alien")] "" []],
  .node "ns141" "extra" [] "" [.node "urn:other" "thing" [] "payload" []]]
example : loadWith geometryIds sample = ["g1"] := by decide
example : loadWith geometryIds (renameNs "ns141" "ns15" sample) = ["g1"] := by decide
example : occurs "ns15" sample = false := by decide

end Pyc.Props.C15
