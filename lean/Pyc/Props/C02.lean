/-
C02 — In-place edits are persisted exactly by save.
What `save()` leaves in an element depends only on the CURRENT object lists, not on what the
element held before (any edit history, any number of earlier saves): the managed children become
exactly the current objects' elements, in list order; unmanaged children keep their place.
Model: Pyc/Model/Sync.lean (mirrors collada.util._syncChildren and the bottom-up save recursion),
helper lemmas: Pyc/Proofs/Sync.lean.
-/
import Pyc.Proofs.Sync

namespace Pyc.Props.C02
open Pyc.Sync

variable {α : Type} [DecidableEq α]

/-- the managed children after a save are exactly the wanted elements, in order
    (nothing removed survives, nothing added is missing or duplicated, order kept) -/
theorem sync_managed (managed : α → Bool) (wanted old : List α) (before : Option α) :
    (syncChildren managed wanted old before).filter (isM managed wanted) = wanted := by
  unfold syncChildren
  simp only [List.filter_append]
  rw [filter_isM_wanted]
  have h1 : List.filter (isM managed wanted) (List.take (pos managed wanted old before) (kept managed wanted old)) = [] := by
    rw [List.filter_eq_nil_iff]
    intro c hc
    simp [kept_not_isM managed wanted old c (List.mem_of_mem_take hc)]
  have h2 : List.filter (isM managed wanted) (List.drop (pos managed wanted old before) (kept managed wanted old)) = [] := by
    rw [List.filter_eq_nil_iff]
    intro c hc
    simp [kept_not_isM managed wanted old c (List.mem_of_mem_drop hc)]
  simp [h1, h2]

/-- unmanaged children survive, in their relative order -/
theorem sync_unmanaged (managed : α → Bool) (wanted old : List α) (before : Option α) :
    (syncChildren managed wanted old before).filter (fun c => !isM managed wanted c)
      = old.filter (fun c => !isM managed wanted c) :=
  kept_sync managed wanted old before

/-- when every child is managed (libraries, <node>, <visual_scene>, <technique_common> of a
    bind_material) the children are replaced wholesale -/
theorem sync_all (wanted old : List α) (before : Option α) :
    syncChildren (fun _ => true) wanted old before = wanted := by
  have : kept (fun _ => true) wanted old = [] := by simp [kept, isM]
  simp [syncChildren, this]

/-- a removed object's element does not survive -/
theorem removed_gone (managed : α → Bool) (wanted old : List α) (before : Option α) (c : α)
    (hm : managed c = true) (hw : c ∉ wanted) : c ∉ syncChildren managed wanted old before := by
  intro hc
  have : c ∈ (syncChildren managed wanted old before).filter (isM managed wanted) := by
    simp [List.mem_filter, hc, isM, hm]
  rw [sync_managed] at this
  exact hw this

/-- every wanted element is present exactly as often as the object list holds it -/
theorem added_once (managed : α → Bool) (wanted old : List α) (before : Option α) (c : α)
    (hc : c ∈ wanted) : (syncChildren managed wanted old before).count c = wanted.count c := by
  have h := sync_managed managed wanted old before
  have hm : isM managed wanted c = true := isM_of_mem_wanted managed wanted hc
  have := List.count_filter (l := syncChildren managed wanted old before) (p := isM managed wanted) (a := c) hm
  rw [h] at this
  exact this.symm

/-- the wanted elements sit next to each other, in list order -/
theorem order_kept (managed : α → Bool) (wanted old : List α) (before : Option α) :
    wanted <:+: syncChildren managed wanted old before := by
  unfold syncChildren
  exact ⟨_, _, rfl⟩

/-- saving twice is saving once -/
theorem sync_idem (managed : α → Bool) (wanted old : List α) (before : Option α) :
    syncChildren managed wanted (syncChildren managed wanted old before) before
      = syncChildren managed wanted old before := by
  have hk := kept_sync managed wanted old before
  cases hw : wanted with
  | nil =>
    subst hw
    have hnone : ∀ l : List α, (kept managed [] l).findIdx? (isM managed []) = none := by
      intro l
      apply findIdx?_none_of_all_false
      exact kept_not_isM managed [] l
    have e1 : syncChildren managed [] old before = kept managed [] old := by
      simp [syncChildren]
    rw [e1]
    have e2 : kept managed [] (kept managed [] old) = kept managed [] old := by
      have h := hk; rw [e1] at h; exact h
    simp [syncChildren, e2]
  | cons w ws =>
    rw [← hw]
    have hne : wanted ≠ [] := by rw [hw]; simp
    generalize hp : pos managed wanted old before = p at *
    have hnew : syncChildren managed wanted old before
        = (kept managed wanted old).take p ++ wanted ++ (kept managed wanted old).drop p := by
      simp [syncChildren, hp]
    have hfirst : (syncChildren managed wanted old before).findIdx? (isM managed wanted)
        = some ((kept managed wanted old).take p).length := by
      rw [hnew, List.append_assoc, List.findIdx?_append, findIdx?_take_kept]
      have : (wanted ++ (kept managed wanted old).drop p).findIdx? (isM managed wanted) = some 0 := by
        rw [hw]
        simp [List.findIdx?_cons, isM]
      simp [this]
    have hpos : pos managed wanted (syncChildren managed wanted old before) before
        = ((kept managed wanted old).take p).length := by
      simp [pos, hfirst]
    have hdef : ∀ l : List α, syncChildren managed wanted l before
        = (kept managed wanted l).take (pos managed wanted l before) ++ wanted
          ++ (kept managed wanted l).drop (pos managed wanted l before) := fun _ => rfl
    rw [hdef (syncChildren managed wanted old before), hpos, hk, hnew]
    simp only [List.length_take]
    by_cases h : p ≤ (kept managed wanted old).length
    · simp [Nat.min_eq_left h]
    · have h' : (kept managed wanted old).length ≤ p := by omega
      simp [Nat.min_eq_right h', List.take_of_length_le h', List.drop_of_length_le h']

/-- transforms and instances of a `<node>`: the saved children, read back by kind, give the
    current transform list in order (so the reloaded matrix is the product the list implies) -/
theorem node_children_by_kind (isT : α → Bool) (ts cs old : List α) (before : Option α)
    (ht : ∀ t ∈ ts, isT t = true) (hc : ∀ c ∈ cs, isT c = false) :
    (syncChildren (fun _ => true) (ts ++ cs) old before).filter isT = ts ∧
    (syncChildren (fun _ => true) (ts ++ cs) old before).filter (fun c => !isT c) = cs := by
  rw [sync_all]
  constructor
  · rw [List.filter_append, List.filter_eq_self.mpr ht]
    have : cs.filter isT = [] := by
      rw [List.filter_eq_nil_iff]; intro c h; simp [hc c h]
    simp [this]
  · rw [List.filter_append]
    have h1 : ts.filter (fun c => !isT c) = [] := by
      rw [List.filter_eq_nil_iff]; intro c h; simp [ht c h]
    have h2 : cs.filter (fun c => !isT c) = cs := by
      rw [List.filter_eq_self]; intro c h; simp [hc c h]
    simp [h1, h2]

mutual
  /-- The whole element tree a save produces is the rendering of the CURRENT model: it does not
      depend on what the elements held before (`oldKids` is arbitrary), hence on no edit history
      and on no number of intermediate saves. -/
  theorem save_eq_render : ∀ o : O, save o = render o
    | .mk l old ks => by
      simp only [save, render]
      rw [sync_all, saveList_eq_renderList ks]
  theorem saveList_eq_renderList : ∀ os : List O, saveList os = renderList os
    | [] => by simp [saveList, renderList]
    | o :: os => by
      simp only [saveList, renderList]
      rw [save_eq_render o, saveList_eq_renderList os]
end

/-- two models with the same current content are saved to the same tree, whatever was edited,
    removed, reordered or saved before -/
theorem edits_persist (o₁ o₂ : O) (h : render o₁ = render o₂) : save o₁ = save o₂ := by
  rw [save_eq_render, save_eq_render, h]

/-! ### non-vacuity -/
example : syncChildren (fun c => c < 10) [3, 1] [1, 2, 50, 3, 60] none = [3, 1, 50, 60] := by decide
example : syncChildren (fun c => c < 10) [7] [50, 60] (some 60) = [50, 7, 60] := by decide
example : syncChildren (fun c => c < 10) [] [50, 4, 60] none = [50, 60] := by decide
example : save (.mk 0 [.mk 9 [], .mk 8 []] [.mk 1 [.mk 9 []] [], .mk 2 [] []])
    = .mk 0 [.mk 1 [], .mk 2 []] := by decide

end Pyc.Props.C02
