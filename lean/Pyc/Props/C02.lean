/-
C02 — In-place edits are persisted exactly by save.
What `save()` leaves in an element depends only on the CURRENT object lists, not on what the
element held before (any edit history, any number of earlier saves): the managed children become
exactly the current objects' elements, in list order; unmanaged children keep their place.
Model: Pyc/Model/Sync.lean (mirrors collada.util._syncChildren and the bottom-up save recursion),
helper lemmas: Pyc/Proofs/Sync.lean.
-/
import Pyc.Proofs.Sync

namespace Pyc.Props.C02
open Pyc.Sync

variable {α : Type} [DecidableEq α]

/-- the managed children after a save are exactly the wanted elements, in order
    (nothing removed survives, nothing added is missing or duplicated, order kept) -/
theorem sync_managed (managed : α → Bool) (wanted old : List α) (before : Option α) :
    (syncChildren managed wanted old before).filter (isM managed wanted) = wanted :=
  Pyc.Sync.sync_managed managed wanted old before

/-- unmanaged children survive, in their relative order -/
theorem sync_unmanaged (managed : α → Bool) (wanted old : List α) (before : Option α) :
    (syncChildren managed wanted old before).filter (fun c => !isM managed wanted c)
      = old.filter (fun c => !isM managed wanted c) :=
  Pyc.Sync.sync_unmanaged managed wanted old before

/-- when every child is managed (libraries, <node>, <visual_scene>, <technique_common> of a
    bind_material) the children are replaced wholesale -/
theorem sync_all (wanted old : List α) (before : Option α) :
    syncChildren (fun _ => true) wanted old before = wanted :=
  Pyc.Sync.sync_all wanted old before

/-- saving twice is saving once -/
theorem sync_idem (managed : α → Bool) (wanted old : List α) (before : Option α) :
    syncChildren managed wanted (syncChildren managed wanted old before) before
      = syncChildren managed wanted old before :=
  Pyc.Sync.sync_idem managed wanted old before

/-- a removed object's element does not survive -/
theorem removed_gone (managed : α → Bool) (wanted old : List α) (before : Option α) (c : α)
    (hm : managed c = true) (hw : c ∉ wanted) : c ∉ syncChildren managed wanted old before := by
  intro hc
  have : c ∈ (syncChildren managed wanted old before).filter (isM managed wanted) := by
    simp [List.mem_filter, hc, isM, hm]
  rw [sync_managed] at this
  exact hw this

/-- every wanted element is present exactly as often as the object list holds it -/
theorem added_once (managed : α → Bool) (wanted old : List α) (before : Option α) (c : α)
    (hc : c ∈ wanted) : (syncChildren managed wanted old before).count c = wanted.count c := by
  have h := sync_managed managed wanted old before
  have hm : isM managed wanted c = true := isM_of_mem_wanted managed wanted hc
  have := List.count_filter (l := syncChildren managed wanted old before) (p := isM managed wanted) (a := c) hm
  rw [h] at this
  exact this.symm

/-- the wanted elements sit next to each other, in list order -/
theorem order_kept (managed : α → Bool) (wanted old : List α) (before : Option α) :
    wanted <:+: syncChildren managed wanted old before := by
  unfold syncChildren
  exact ⟨_, _, rfl⟩

/-- transforms and instances of a `<node>`: the saved children, read back by kind, give the
    current transform list in order (so the reloaded matrix is the product the list implies) -/
theorem node_children_by_kind (isT : α → Bool) (ts cs old : List α) (before : Option α)
    (ht : ∀ t ∈ ts, isT t = true) (hc : ∀ c ∈ cs, isT c = false) :
    (syncChildren (fun _ => true) (ts ++ cs) old before).filter isT = ts ∧
    (syncChildren (fun _ => true) (ts ++ cs) old before).filter (fun c => !isT c) = cs := by
  rw [sync_all]
  constructor
  · rw [List.filter_append, List.filter_eq_self.mpr ht]
    have : cs.filter isT = [] := by
      rw [List.filter_eq_nil_iff]; intro c h; simp [hc c h]
    simp [this]
  · rw [List.filter_append]
    have h1 : ts.filter (fun c => !isT c) = [] := by
      rw [List.filter_eq_nil_iff]; intro c h; simp [ht c h]
    have h2 : cs.filter (fun c => !isT c) = cs := by
      rw [List.filter_eq_self]; intro c h; simp [hc c h]
    simp [h1, h2]

mutual
  /-- The whole element tree a save produces is the rendering of the CURRENT model: it does not
      depend on what the elements held before (`oldKids` is arbitrary), hence on no edit history
      and on no number of intermediate saves. -/
  theorem save_eq_render : ∀ o : O, save o = render o
    | .mk l old ks => by
      simp only [save, render]
      rw [sync_all, saveList_eq_renderList ks]
  theorem saveList_eq_renderList : ∀ os : List O, saveList os = renderList os
    | [] => by simp [saveList, renderList]
    | o :: os => by
      simp only [saveList, renderList]
      rw [save_eq_render o, saveList_eq_renderList os]
end

/-- two models with the same current content are saved to the same tree, whatever was edited,
    removed, reordered or saved before -/
theorem edits_persist (o₁ o₂ : O) (h : render o₁ = render o₂) : save o₁ = save o₂ := by
  rw [save_eq_render, save_eq_render, h]

/-! ### non-vacuity -/
example : syncChildren (fun c => c < 10) [3, 1] [1, 2, 50, 3, 60] none = [3, 1, 50, 60] := by decide
example : syncChildren (fun c => c < 10) [7] [50, 60] (some 60) = [50, 7, 60] := by decide
example : syncChildren (fun c => c < 10) [] [50, 4, 60] none = [50, 60] := by decide
example : save (.mk 0 [.mk 9 [], .mk 8 []] [.mk 1 [.mk 9 []] [], .mk 2 [] []])
    = .mk 0 [.mk 1 [], .mk 2 []] := by decide

/-- **the managed block is replaced in place.**  When the children are `B ++ I ++ E` — a block `I` of managed elements between
    unmanaged ones — and `before` is the first element of `E`, the children after the reconciliation are `B ++ wanted ++ E`,
    whether or not there was a managed child before (an empty `I`: the new elements go in front of `before`, at the end when
    `E` is empty too). -/
theorem sync_block (managed : α → Bool) (wanted B I E : List α)
    (hB : ∀ c ∈ B, isM managed wanted c = false) (hI : ∀ c ∈ I, isM managed wanted c = true)
    (hE : ∀ c ∈ E, isM managed wanted c = false) (hEB : ∀ e, E.head? = some e → e ∉ B) :
    syncChildren managed wanted (B ++ I ++ E) E.head? = B ++ wanted ++ E := by
  have hkept : kept managed wanted (B ++ I ++ E) = B ++ E := by
    unfold kept
    rw [List.filter_append, List.filter_append]
    rw [filter_all (l := B) (fun c hc => by simp [hB c hc]), filter_none (l := I) (fun c hc => by simp [hI c hc]),
      filter_all (l := E) (fun c hc => by simp [hE c hc])]
    simp
  have hpos : pos managed wanted (B ++ I ++ E) E.head? = B.length := by
    unfold pos
    rw [List.append_assoc, findIdx?_prefix (I ++ E) hB]
    cases I with
    | nil =>
      have : (([] : List α) ++ E).findIdx? (isM managed wanted) = none := by
        rw [List.nil_append, List.findIdx?_eq_none_iff]
        intro c hc; simp [hE c hc]
      rw [this]
      simp only [Option.map_none]
      rw [show kept managed wanted (B ++ ([] ++ E)) = B ++ E by simpa using hkept]
      cases E with
      | nil => simp
      | cons e E' =>
        simp only [List.head?_cons]
        have : e ∉ B := hEB e rfl
        rw [List.idxOf_append, if_neg this]
        simp
    | cons i I' =>
      have : ((i :: I') ++ E).findIdx? (isM managed wanted) = some 0 := by
        simp [List.findIdx?_cons, hI i (by simp)]
      rw [this]; simp
  unfold syncChildren
  simp only [hkept, hpos]
  simp

end Pyc.Props.C02
