/-
C16 — The container does not matter: path, file object, zip member.
Property theorems only; helper lemmas are in Pyc/Proofs/Container.lean, the model in
Pyc/Model/Container.lean (`selectMember` = the `daefiles` loop of `Collada.__init__`,
`auxPath` = `normpath(join(dirname(self.filename), fname))`, `openSource` = source kind detection,
zip probing and resolver installation, `getFileData` = the four resolvers, `imageData` =
`CImage.getData`).  `stackResolve` (Proofs) is the plain reading of a relative path: skip `''` and
`.`, `..` leaves the current directory, anything else enters it.
-/
import Pyc.Proofs.Container

namespace Pyc.Props.C16
open Pyc.Container

/-! ### which member is the document -/

/-- exactly what automatic selection computes, for every list of member names: the first
    `.dae`/`.DAE` name that is not a decoy; if every candidate is a decoy, the last of them;
    `DaeIncompleteError` if there is no candidate -/
theorem select_auto_spec (names : List Name) :
    selectMember names none =
      match (daefiles names).find? (fun n => !isDecoy n) with
      | some n => .ok n
      | none =>
        match (daefiles names).getLast? with
        | some n => .ok n
        | none => .error .incomplete :=
  selectMember_auto names

/-- the first genuine document is selected wherever decoys (and other members) stand -/
theorem select_first_real (pre post : List Name) (n : Name) (hn : isDae n = true)
    (hreal : isDecoy n = false) (hpre : ∀ c ∈ pre, isDae c = true → isDecoy c = true) :
    selectMember (pre ++ n :: post) none = .ok n := by
  rw [selectMember_auto]
  have hfind : (daefiles (pre ++ n :: post)).find? (fun n => !isDecoy n) = some n := by
    unfold daefiles
    rw [List.filter_append, List.find?_append]
    have h1 : (pre.filter isDae).find? (fun n => !isDecoy n) = none := by
      rw [List.find?_eq_none]
      intro c hc
      have := List.mem_filter.mp hc
      simp [hpre c this.1 this.2]
    rw [h1]
    simp [hn, hreal]
  rw [hfind]

/-- a decoy is selected only if every candidate is a decoy (and then it is the last one) -/
theorem select_decoy_only_if_all (names : List Name) (m : Name)
    (h : selectMember names none = .ok m) (hm : isDecoy m = true) :
    (∀ c ∈ names, isDae c = true → isDecoy c = true) ∧ (daefiles names).getLast? = some m := by
  rw [selectMember_auto] at h
  cases hf : (daefiles names).find? (fun n => !isDecoy n) with
  | some n =>
    rw [hf] at h
    simp only [Except.ok.injEq] at h
    subst h
    have := List.find?_some hf
    simp [hm] at this
  | none =>
    rw [hf] at h
    constructor
    · intro c hc hd
      have := List.find?_eq_none.mp hf c (mem_daefiles.mpr ⟨hc, hd⟩)
      simpa using this
    · cases hl : (daefiles names).getLast? with
      | none => rw [hl] at h; cases h
      | some n => rw [hl] at h; simp only [Except.ok.injEq] at h; rw [h]

/-- an archive is reported as holding no document exactly when no member name ends in `.dae`
    (any case) -/
theorem select_none_error (names : List Name) :
    selectMember names none = .error .incomplete ↔ ∀ c ∈ names, isDae c = false := by
  rw [selectMember_auto]
  constructor
  · intro h c hc
    cases hd : isDae c with
    | false => rfl
    | true =>
      exfalso
      have hmem : c ∈ daefiles names := mem_daefiles.mpr ⟨hc, hd⟩
      cases hf : (daefiles names).find? (fun n => !isDecoy n) with
      | some n => rw [hf] at h; cases h
      | none =>
        rw [hf] at h
        cases hl : (daefiles names).getLast? with
        | some n => rw [hl] at h; cases h
        | none =>
          rw [List.getLast?_eq_none_iff.mp hl] at hmem
          simp at hmem
  · intro h
    have : daefiles names = [] := by
      unfold daefiles
      rw [List.filter_eq_nil_iff]
      intro c hc
      simp [h c hc]
    rw [this]
    rfl

/-- `zip_filename` selects exactly that member, whatever its extension and whatever else is in the
    archive; a name that is not a member (or `''`) is `DaeIncompleteError` -/
theorem select_by_name (names : List Name) (z : Name) :
    selectMember names (some z) = if z ≠ [] ∧ z ∈ names then .ok z else .error .incomplete := by
  unfold selectMember chosen
  cases z with
  | nil => simp
  | cons c r =>
    by_cases h : (c :: r) ∈ names <;> simp [h]

/-- whatever is selected is a member of the archive -/
theorem select_mem (names : List Name) (zf : Option Name) (m : Name)
    (h : selectMember names zf = .ok m) : m ∈ names ∧ m ≠ [] :=
  ⟨(selectMember_ok h).2.2, (selectMember_ok h).2.1⟩

/-! ### where auxiliary files are looked up -/

/-- text level, every depth: for a member `d₁/…/dₙ/m` and a relative path written with the
    components `h0 :: t` (any mix of names, `.`, `..` and empty components, not starting with a
    slash), `normpath(join(dirname(member), rel))` is the plain stack reading of the path,
    whenever that reading stays inside the container -/
theorem resolve_stack (d : List Name) (m h0 : Name) (t r : List Name)
    (hd : ∀ c ∈ d, Plain c) (hm : sep ∉ m) (hh : h0 ≠ []) (hs : ∀ c ∈ h0 :: t, sep ∉ c)
    (hres : stackResolve d (h0 :: t) = some r) (hr : r ≠ []) :
    auxPath (joinSep (d ++ [m])) (joinSep (h0 :: t)) = joinSep r :=
  auxPath_stack d m h0 t r hd hm hh hs hres hr

/-- the written forms `./x`, `sub/x`, `../x` and their combinations `./…/../…/sub/…/x`
    (`j` leading `.`, `k ≤ depth` times `..`, then directories `sub`, then the file name) resolve to
    `d₁/…/dₙ₋ₖ/sub/x` -/
theorem resolve_rel (d sub : List Name) (m x : Name) (j k : Nat)
    (hd : ∀ c ∈ d, Plain c) (hsub : ∀ c ∈ sub, Plain c) (hm : sep ∉ m) (hx : Plain x)
    (hk : k ≤ d.length) :
    auxPath (joinSep (d ++ [m]))
        (joinSep (List.replicate j dot ++ (List.replicate k dotdot ++ (sub ++ [x]))))
      = joinSep (d.take (d.length - k) ++ (sub ++ [x])) := by
  have hres : stackResolve d (List.replicate j dot ++ (List.replicate k dotdot ++ (sub ++ [x])))
      = some (d.take (d.length - k) ++ (sub ++ [x])) := by
    rw [stackResolve_dots, stackResolve_ups _ _ _ hk, stackResolve_plain]
    intro c hc
    rcases List.mem_append.mp hc with h | h
    · exact hsub c h
    · simp at h; subst h; exact hx
  have hne : List.replicate j dot ++ (List.replicate k dotdot ++ (sub ++ [x])) ≠ [] := by simp
  have hall : ∀ c ∈ List.replicate j dot ++ (List.replicate k dotdot ++ (sub ++ [x])), c ≠ [] ∧ sep ∉ c := by
    intro c hc
    simp only [List.mem_append, List.mem_replicate, List.mem_singleton] at hc
    rcases hc with ⟨_, rfl⟩ | ⟨_, rfl⟩ | h | rfl
    · exact ⟨by decide, by decide⟩
    · exact ⟨by decide, by decide⟩
    · exact ⟨(hsub c h).1, (hsub c h).2.1⟩
    · exact ⟨hx.1, hx.2.1⟩
  generalize hrc : List.replicate j dot ++ (List.replicate k dotdot ++ (sub ++ [x])) = rc at *
  cases rc with
  | nil => exact absurd rfl hne
  | cons h0 t =>
    exact auxPath_stack d m h0 t _ hd hm (hall h0 (by simp)).1 (fun c hc => (hall c hc).2) hres (by simp)

/-- a path that climbs above the archive root is resolved to a name starting with `..` -/
theorem resolve_escape (m x : Name) (hm : sep ∉ m) (hx : Plain x) :
    auxPath m (joinSep [dotdot, x]) = joinSep [dotdot, x] := by
  have hx1 := hx.1
  have hxs : ∀ c ∈ [dotdot, x], sep ∉ c := by
    intro c hc
    simp only [List.mem_cons, List.not_mem_nil, or_false] at hc
    rcases hc with rfl | rfl
    · decide
    · exact hx.2.1
  unfold auxPath
  rw [dirname_noSep m hm]
  have hj : join [] (joinSep [dotdot, x]) = joinSep [dotdot, x] := by
    have := join_joinSep [] dotdot [x] (by simp) (by decide) (by decide)
    simpa [joinSep] using this
  rw [hj, normpath_joinSep dotdot [x] (by decide) hxs]
  have hn : normComps false [dotdot, x] = [dotdot, x] := by
    obtain ⟨h1, _, h3, h4⟩ := hx
    unfold normComps
    have e1 : normStep false [] dotdot = [dotdot] := by decide
    have e2 : normStep false [dotdot] x = [dotdot, x] := by
      unfold normStep
      cases x with
      | nil => exact absurd rfl h1
      | cons a b => simp [h3]
    simp [List.foldl_cons, e1, e2]
  rw [hn]
  simp [joinSep, dotdot]

/-! ### the resolver dispatch table -/

/-- a user loader overrides every other resolver, for every source kind -/
theorem loader_overrides (s : Source) (zf : Option Name) (o : Opened)
    (h : openSource s zf true = .ok o) : o.resolver = .loader := by
  cases s with
  | mk og p =>
    cases p with
    | doc b =>
      rw [openSource_doc] at h
      simp only [Except.ok.injEq] at h
      subst h; rfl
    | zip a =>
      obtain ⟨m, _, _, hr⟩ := openSource_zip_ok h
      rw [hr]; rfl

/-- without a loader: a zip gets the zip resolver for the selected member (also when the zip was
    opened through a path), a plain document opened by path the disk resolver for that path, a plain
    document read from a file object none; opening fails only for a zip without selectable member -/
theorem resolver_table (o : Origin) (zf : Option Name) :
    (∀ b, openSource ⟨o, .doc b⟩ zf false =
        .ok ⟨(match o with | .path p => some p | .fileobj => none), b,
             (match o with | .path p => .disk p | .fileobj => .null)⟩) ∧
    (∀ a r, openSource ⟨o, .zip a⟩ zf false = .ok r →
        ∃ m, selectMember a.names zf = .ok m ∧ r.filename = some m ∧ a.read m = some r.data ∧
          r.resolver = .zip a m) ∧
    (∀ a, (∃ e, openSource ⟨o, .zip a⟩ zf false = .error e) ↔ selectMember a.names zf = .error .incomplete) := by
  refine ⟨?_, ?_, ?_⟩
  · intro b; cases o <;> rfl
  · intro a r h
    obtain ⟨m, hm, hd, hr⟩ := openSource_zip_ok h
    refine ⟨m, hm, ?_, hd, ?_⟩ <;> (rw [hr])
    · rfl
  · intro a; exact openSource_zip_error o a zf false

/-- the document bytes do not depend on how the container was handed over (path or file object)
    nor on the loader argument -/
theorem extract_origin_irrelevant (o₁ o₂ : Origin) (p : Payload) (zf : Option Name) (hl : Bool) :
    (openSource ⟨o₁, p⟩ zf hl).map (·.data) = extract ⟨o₂, p⟩ zf := by
  unfold extract
  cases p with
  | doc b => rw [openSource_doc, openSource_doc]; rfl
  | zip a =>
    rw [openSource_zip, openSource_zip]
    cases selectMember a.names zf with
    | error e => rfl
    | ok m =>
      dsimp only
      cases a.read m <;> rfl

/-- loading is parsing the extracted bytes -/
theorem load_container_eq {M : Type} (loadBytes : Blob → M) (s : Source) (zf : Option Name) (hl : Bool) :
    loadFrom loadBytes s zf hl = (extract s zf).map loadBytes := by
  cases s with
  | mk o p =>
    rw [← extract_origin_irrelevant o o p zf hl]
    unfold loadFrom
    cases openSource ⟨o, p⟩ zf hl <;> rfl

/-- the container does not matter: a zip (opened any way, with any arguments) whose selected member
    holds the bytes `b` loads to the same model as `b` as a plain document from a path or a file
    object, with or without loader or `zip_filename` -/
theorem zip_member_eq_plain {M : Type} (loadBytes : Blob → M) (a : Archive) (m : Name) (b : Blob)
    (zf zf' : Option Name) (o o' : Origin) (hl hl' : Bool)
    (hsel : selectMember a.names zf = .ok m) (hread : a.read m = some b) :
    loadFrom loadBytes ⟨o, .zip a⟩ zf hl = loadFrom loadBytes ⟨o', .doc b⟩ zf' hl' ∧
    loadFrom loadBytes ⟨o', .doc b⟩ zf' hl' = .ok (loadBytes b) := by
  rw [load_container_eq, load_container_eq]
  have h1 : extract ⟨o, .zip a⟩ zf = .ok b := by
    unfold extract
    rw [openSource_zip, hsel]
    simp only [hread]
    rfl
  have h2 : extract ⟨o', .doc b⟩ zf' = .ok b := by
    unfold extract
    rw [openSource_doc]; rfl
  rw [h1, h2]
  exact ⟨rfl, rfl⟩

/-! ### auxiliary files -/

/-- every failure to obtain an auxiliary file is a broken reference; no resolver and a loader
    answering `None` always fail -/
theorem aux_failure_is_brokenRef (fs : Disk) (ld : Name → Option Blob) (r : Resolver) (f : Name) :
    (∀ e, getFileData fs ld r f = .error e → e = .brokenRef) ∧
    getFileData fs ld .null f = .error .brokenRef ∧
    (ld f = none → getFileData fs ld .loader f = .error .brokenRef) ∧
    (∀ b, ld f = some b → getFileData fs ld .loader f = .ok b) := by
  refine ⟨?_, rfl, ?_, ?_⟩
  · intro e h
    cases r <;> simp only [getFileData] at h <;> (repeat' split at h) <;> simp_all
  · intro h; simp [getFileData, h]
  · intro b h; simp [getFileData, h]

/-- inside a zip the file is found exactly when the resolved path is a member, and then its bytes
    are that member's; the disk and the way the zip was opened play no role -/
theorem zip_aux_spec (fs : Disk) (ld : Name → Option Blob) (a : Archive) (m f : Name) (b : Blob) :
    getFileData fs ld (.zip a m) f = .ok b ↔ auxPath m f ∈ a.names ∧ a.read (auxPath m f) = some b := by
  simp only [getFileData]
  by_cases h : auxPath m f ∈ a.names
  · obtain ⟨b', hb'⟩ := read_of_mem a _ h
    simp [h, hb']
  · simp [h]

/-- on disk the file is found exactly when the resolved path (relative to the document's directory)
    is a regular file -/
theorem disk_aux_spec (fs : Disk) (ld : Name → Option Blob) (p f : Name) (b : Blob) :
    getFileData fs ld (.disk p) f = .ok b ↔ fs.file (auxPath p f) = some b := by
  simp only [getFileData]
  cases fs.file (auxPath p f) <;> simp

/-- first `CImage.data` access: the bytes, or a `DaeBrokenRefError` that is recorded and raised
    unless masked by `ignore` -/
theorem image_access (mask : List Cls) (r : Except Err Blob) :
    (∀ b, r = .ok b → imageData mask r = (.data b, [])) ∧
    (∀ e, r = .error e → (imageData mask r).2 = [e] ∧
      (imageData mask r).1 = if masked mask e then .empty else .raised e) := by
  constructor
  · intro b h; subst h; rfl
  · intro e h; subst h; exact ⟨rfl, rfl⟩

/-! ### non-vacuity -/

def nm (s : String) : Name := s.toList

example : selectMember [nm "__MACOSX/._m.dae", nm "readme.txt", nm "a/b/m.DAE", nm "z.dae"] none
    = .ok (nm "a/b/m.DAE") := by rfl
example : isDae (nm "a/b/m.DAE") = true ∧ isDecoy (nm "a/b/m.DAE") = false ∧
    (∀ c ∈ [nm "__MACOSX/._m.dae", nm "readme.txt"], isDae c = true → isDecoy c = true) := by decide
example : selectMember [nm "a.dae", nm "__MACOSX/._a.dae"] none = .ok (nm "a.dae") := by rfl
example : selectMember [nm "__MACOSX/._a.dae", nm "x.png", nm "__MACOSX/._b.dae"] none
    = .ok (nm "__MACOSX/._b.dae") := by rfl
example : selectMember [nm "x.png", nm "notes.dae.bak", nm "xdae"] none = .error .incomplete := by rfl
example : selectMember [nm "a.dae", nm "model.xml"] (some (nm "model.xml")) = .ok (nm "model.xml") := by rfl
example : selectMember [nm "a.dae"] (some (nm "b.dae")) = .error .incomplete := by rfl
example : auxPath (nm "a/b/m.dae") (nm "./t.png") = nm "a/b/t.png" := by decide
example : auxPath (nm "a/b/m.dae") (nm "sub/t.png") = nm "a/b/sub/t.png" := by decide
example : auxPath (nm "a/b/m.dae") (nm "../t.png") = nm "a/t.png" := by decide
example : auxPath (nm "a/b/m.dae") (nm "./../sub//./x") = nm "a/sub/x" := by decide
example : auxPath (nm "m.dae") (nm "../t.png") = nm "../t.png" := by decide
example : Plain (nm "a") ∧ Plain (nm "t.png") ∧ sep ∉ nm "m.dae" := by unfold Plain; decide
example : stackResolve [nm "a", nm "b"] [dot, dotdot, nm "sub", nm "x"] = some [nm "a", nm "sub", nm "x"] := by decide
example : joinSep [dot, dotdot, nm "sub", nm "x"] = nm "./../sub/x" ∧ joinSep [nm "a", nm "b", nm "m.dae"] = nm "a/b/m.dae" := by decide

def ar : Archive := ⟨[(nm "__MACOSX/._m.dae", 9), (nm "a/m.dae", 1), (nm "a/t.png", 2), (nm "t.png", 3)]⟩

example : (openSource ⟨.fileobj, .zip ar⟩ none false).map (·.data) = .ok 1 := by rfl
example : (openSource ⟨.path (nm "/x/p.zip"), .zip ar⟩ none true).map (·.data) = .ok 1 := by rfl
example : getFileData ⟨[], []⟩ (fun _ => none) (.zip ar (nm "a/m.dae")) (nm "./t.png") = .ok 2 := by rfl
example : getFileData ⟨[], []⟩ (fun _ => none) (.zip ar (nm "a/m.dae")) (nm "../t.png") = .ok 3 := by rfl
example : getFileData ⟨[], []⟩ (fun _ => none) (.zip ar (nm "a/m.dae")) (nm "sub/t.png") = .error .brokenRef := by rfl
example : getFileData ⟨nm "/", [(nm "/r/a/t.png", 7)]⟩ (fun _ => none) (.disk (nm "/r/a/m.dae")) (nm "./t.png") = .ok 7 := by rfl
example : getFileData ⟨nm "/r/a", [(nm "/r/t.png", 7)]⟩ (fun _ => none) (.disk (nm "m.dae")) (nm "../t.png") = .ok 7 := by rfl
example : imageData [.daeError] (.error .brokenRef) = (.empty, [.brokenRef]) := by decide
example : imageData [.incomplete] (.error .brokenRef) = (.raised .brokenRef, [.brokenRef]) := by decide

end Pyc.Props.C16
