/- The rounding-stability argument behind the C01 fixed point, over any linearly ordered field. -/
import Mathlib.Tactic.Linarith
import Mathlib.Tactic.Ring
import Mathlib.Algebra.Order.Group.Abs
import Mathlib.Algebra.Order.Field.Basic

namespace Pyc.NumTextP

variable {K : Type} [Field K] [LinearOrder K] [IsStrictOrderedRing K]

/-- `a` is a nearest point of the set `D` to `x`; when another point of `D` is equally near, `a` is
    the one the tie-breaking rule `E` selects ("round half to even") -/
def IsRound (D E : K → Prop) (x a : K) : Prop :=
  D a ∧ (∀ d, D d → |x - a| ≤ |x - d|) ∧ (∀ d, D d → d ≠ a → |x - d| = |x - a| → E a)

/-- around `a` the set `D` is a grid of spacing `g`: both neighbours at distance exactly `g` -/
structure LocalGrid (D : K → Prop) (a g : K) : Prop where
  pos : 0 < g
  lo : D (a - g)
  hi : D (a + g)
  far : ∀ d, D d → d ≠ a → g ≤ |d - a|

theorem half_gap {D E : K → Prop} {x a g : K} (hx : IsRound D E x a) (hg : LocalGrid D a g) :
    |x - a| ≤ g / 2 := by
  have h1 := hx.2.1 _ hg.hi
  have h2 := hx.2.1 _ hg.lo
  have hp := hg.pos
  rcases le_total 0 (x - a) with h | h
  · rw [abs_of_nonneg h] at h1 ⊢
    rcases le_total 0 (x - (a + g)) with h' | h'
    · rw [abs_of_nonneg h'] at h1; linarith
    · rw [abs_of_nonpos h'] at h1; linarith
  · rw [abs_of_nonpos h] at h2 ⊢
    rcases le_total 0 (x - (a - g)) with h' | h'
    · rw [abs_of_nonneg h'] at h2; linarith
    · rw [abs_of_nonpos h'] at h2; linarith

/-- If `a` is the rounding of `x` in `D`, `D` is locally a grid at `a`, and `b` is at least as close to
    `a` as `x` is, then `a` is also the rounding of `b` — including the tie-breaking clause. -/
theorem round_stable {D E : K → Prop} {x a b g : K} (hx : IsRound D E x a) (hg : LocalGrid D a g)
    (hb : |b - a| ≤ |x - a|) : IsRound D E b a := by
  have hh := half_gap hx hg
  have hp := hg.pos
  refine ⟨hx.1, ?_, ?_⟩
  · intro d hd
    by_cases e : d = a
    · subst e; exact le_refl _
    · have hf := hg.far d hd e
      have tri : |d - a| ≤ |b - d| + |b - a| := by
        have : d - a = -(b - d) + (b - a) := by ring
        rw [this]
        calc |-(b - d) + (b - a)| ≤ |-(b - d)| + |b - a| := abs_add_le _ _
          _ = |b - d| + |b - a| := by rw [abs_neg]
      linarith
  · intro d hd e htie
    have hf := hg.far d hd e
    have tri : |d - a| ≤ |b - d| + |b - a| := by
      have : d - a = -(b - d) + (b - a) := by ring
      rw [this]
      calc |-(b - d) + (b - a)| ≤ |-(b - d)| + |b - a| := abs_add_le _ _
        _ = |b - d| + |b - a| := by rw [abs_neg]
    have hxa : |x - a| = g / 2 := by linarith
    rcases le_total 0 (x - a) with h | h
    · rw [abs_of_nonneg h] at hxa
      refine hx.2.2 (a + g) hg.hi (by intro c; linarith) ?_
      have : x - (a + g) = -(g / 2) := by linarith
      rw [this, abs_neg, abs_of_pos (by linarith), abs_of_nonneg h, hxa]
    · rw [abs_of_nonpos h] at hxa
      refine hx.2.2 (a - g) hg.lo (by intro c; linarith) ?_
      have : x - (a - g) = g / 2 := by linarith
      rw [this, abs_of_pos (by linarith), abs_of_nonpos h, hxa]

/-- write -> load -> write: `x` a value of the binary set `B` (a float32), `a` its rounding in the
    decimal set `D` (the text written), `b` a nearest `B` value to `a` (the value loaded back).
    Then the text written for `b` is again `a`. -/
theorem text_fixed_point {D E B : K → Prop} {x a b g : K} (hxB : B x) (hx : IsRound D E x a)
    (hg : LocalGrid D a g) (hb : ∀ y, B y → |a - b| ≤ |a - y|) : IsRound D E b a := by
  apply round_stable hx hg
  have := hb x hxB
  rwa [abs_sub_comm a b, abs_sub_comm a x] at this

end Pyc.NumTextP
