/-
Helper lemmas for C13 (Pyc/Props/C13.lean): matrix algebra over a commutative ring, the
product of a transform list, vector identities behind the lookat frame, and the loop of
`Node.load`.
-/
import Pyc.Model.Transform
import Mathlib.Tactic.Ring
import Mathlib.Tactic.LinearCombination

namespace Pyc.Tf
variable {R : Type} [CommRing R]

/-- unfold every vector / matrix operation of the model down to ring expressions; an equation
    between structures becomes the conjunction of its component equations -/
macro "tf_unfold" loc:(Lean.Parser.Tactic.location)? : tactic => `(tactic|
  simp only [M4.mul, M4.apply, M4.one, M4.transpose, M4.c0, M4.c1, M4.c2, M4.c3, M4.det3,
    V4.dot, V4.ofV3, V4.xyz, V3.dot, V3.cross, V3.add, V3.sub, V3.smul, V3.neg,
    translate, scale, rotate, lookat, lookFront, lookSide, lookUp,
    M4.mk.injEq, V4.mk.injEq, V3.mk.injEq] $[$loc]?)

/-- a polynomial identity in every component -/
macro "tf_ring" : tactic => `(tactic| (tf_unfold; (try and_intros) <;> first | trivial | ring))

/-! ### 4x4 matrices form a monoid acting on column vectors -/

theorem M4.mul_assoc (a b c : M4 R) : (a.mul b).mul c = a.mul (b.mul c) := by tf_ring

theorem M4.one_mul (a : M4 R) : M4.one.mul a = a := by
  rcases a with ⟨⟨_, _, _, _⟩, ⟨_, _, _, _⟩, ⟨_, _, _, _⟩, ⟨_, _, _, _⟩⟩; tf_ring

theorem M4.mul_one (a : M4 R) : a.mul M4.one = a := by
  rcases a with ⟨⟨_, _, _, _⟩, ⟨_, _, _, _⟩, ⟨_, _, _, _⟩, ⟨_, _, _, _⟩⟩; tf_ring

theorem M4.apply_one (v : V4 R) : M4.one.apply v = v := by
  rcases v with ⟨_, _, _, _⟩; tf_ring

theorem M4.apply_mul (a b : M4 R) (v : V4 R) : (a.mul b).apply v = a.apply (b.apply v) := by
  tf_ring

/-! ### the accumulation loop `for t in transforms: matrix = dot(matrix, t.matrix)` -/

theorem foldl_mul (a : M4 R) (ts : List (M4 R)) : ts.foldl M4.mul a = a.mul (prod ts) := by
  induction ts generalizing a with
  | nil => simp [prod, M4.mul_one]
  | cons t rest ih =>
    simp only [prod, List.foldl_cons]
    rw [ih (a.mul t), ih (M4.one.mul t), M4.one_mul, M4.mul_assoc]

theorem prod_nil : prod ([] : List (M4 R)) = M4.one := rfl

theorem prod_cons (t : M4 R) (ts : List (M4 R)) : prod (t :: ts) = t.mul (prod ts) := by
  show List.foldl M4.mul (M4.one.mul t) ts = _
  rw [foldl_mul, M4.one_mul]

theorem prod_singleton (t : M4 R) : prod [t] = t := by
  rw [prod_cons, prod_nil, M4.mul_one]

theorem prod_append (xs ys : List (M4 R)) : prod (xs ++ ys) = (prod xs).mul (prod ys) := by
  induction xs with
  | nil => simp [prod_nil, M4.one_mul]
  | cons t rest ih => rw [List.cons_append, prod_cons, prod_cons, ih, M4.mul_assoc]

theorem apply_prod (ts : List (M4 R)) (v : V4 R) : (prod ts).apply v = ts.foldr M4.apply v := by
  induction ts with
  | nil => simp [prod_nil, M4.apply_one]
  | cons t rest ih => rw [prod_cons, M4.apply_mul, ih, List.foldr_cons]

/-! ### vector identities used by the lookat frame -/

/-- Lagrange: `|a × b|² = |a|²|b|² − (a·b)²` -/
theorem cross_dot_cross (a b : V3 R) :
    (a.cross b).dot (a.cross b) = a.dot a * b.dot b - a.dot b * a.dot b := by
  simp only [V3.dot, V3.cross]; ring

theorem dot_cross_left (a b : V3 R) : a.dot (a.cross b) = 0 := by
  simp only [V3.dot, V3.cross]; ring

theorem dot_cross_right (a b : V3 R) : b.dot (a.cross b) = 0 := by
  simp only [V3.dot, V3.cross]; ring

theorem dot_comm (a b : V3 R) : a.dot b = b.dot a := by
  simp only [V3.dot]; ring

/-- `a × (b × c) = (a·c) b − (a·b) c` -/
theorem cross_cross (a b c : V3 R) :
    a.cross (b.cross c) = V3.sub (V3.smul (a.dot c) b) (V3.smul (a.dot b) c) := by
  simp only [V3.dot, V3.cross, V3.sub, V3.smul, V3.mk.injEq]; and_intros <;> ring

/-- `front · side = 0` whatever the parameters: side is a multiple of `front × up` -/
theorem look_front_dot_side (eye interest up : V3 R) (rf rs : R) :
    (lookFront eye interest rf).dot (lookSide eye interest up rf rs) = 0 := by
  simp only [lookSide, V3.dot, V3.cross, V3.neg, V3.smul]; ring

/-- determinant of the matrix with columns `s`, `f × s`, `f` -/
theorem frame_det (f s : V3 R) :
    (⟨⟨s.x, (f.cross s).x, f.x, 0⟩, ⟨s.y, (f.cross s).y, f.y, 0⟩, ⟨s.z, (f.cross s).z, f.z, 0⟩,
      ⟨0, 0, 0, 1⟩⟩ : M4 R).det3 = s.dot s * f.dot f - f.dot s * f.dot s := by
  simp only [M4.det3, V3.dot, V3.cross]; ring

/-! ### the loop of `Node.load` -/

/-- the transform elements among the children, in document order -/
def tfElems {R : Type} : List (Child R) → List (Elem R)
  | [] => []
  | .tf e :: rest => e :: tfElems rest
  | .other :: rest => tfElems rest

theorem collect_ok (children : List (Child R)) (acc ms : List (M4 R))
    (h : collect children acc = .ok ms) :
    ∃ new, ms = acc ++ new ∧ (tfElems children).map Elem.load = new.map Except.ok := by
  induction children generalizing acc with
  | nil =>
    simp only [collect, Except.ok.injEq] at h
    exact ⟨[], by simp [h], rfl⟩
  | cons ch rest ih =>
    cases ch with
    | other => simpa [collect, tfElems] using ih acc h
    | tf e =>
      simp only [collect] at h
      cases he : e.load with
      | error err => simp [he] at h
      | ok m =>
        simp only [he] at h
        obtain ⟨new, h1, h2⟩ := ih _ h
        exact ⟨m :: new, by simp [h1], by simp [tfElems, he, h2]⟩

theorem collect_error (children : List (Child R)) (acc : List (M4 R)) (err : Err)
    (h : collect children acc = .error err) :
    ∃ e ∈ tfElems children, e.load = .error err := by
  induction children generalizing acc with
  | nil => simp [collect] at h
  | cons ch rest ih =>
    cases ch with
    | other =>
      obtain ⟨e, he, hl⟩ := ih acc (by simpa [collect] using h)
      exact ⟨e, by simpa [tfElems] using he, hl⟩
    | tf e =>
      simp only [collect] at h
      cases he : e.load with
      | error err' =>
        cases err; cases err'
        exact ⟨e, by simp [tfElems], he⟩
      | ok m =>
        simp only [he] at h
        obtain ⟨e', he', hl⟩ := ih _ h
        exact ⟨e', by simp [tfElems, he'], hl⟩

/-! ### histories -/

theorem run_nil (n : Node R) : n.run [] = n := rfl

theorem run_cons (n : Node R) (op : Op R) (ops : List (Op R)) :
    n.run (op :: ops) = (n.step op).1.run ops := rfl

theorem run_append (n : Node R) (xs ys : List (Op R)) : n.run (xs ++ ys) = (n.run xs).run ys := by
  simp [Node.run, List.foldl_append]

theorem step_edit_matrix (n : Node R) (e : Edit (M4 R)) : (n.step (.edit e)).1.matrix = n.matrix := by
  simp only [Node.step]; split <;> rfl

theorem step_save_transforms (n : Node R) : (n.step .save).1.transforms = n.transforms := rfl

end Pyc.Tf
