/- Lemmas for Pyc/Props/C03c.lean (counts and the first child through the steps of `saveRoot`). -/
import Pyc.Model.RootSave

namespace Pyc.RootSave

/-! counting lemmas -/

theorem cnt_insertAt (y x : String) : ∀ (n : Nat) (l : List String), cnt y (insertAt n x l) = (if x = y then 1 else 0) + cnt y l
  | 0, l => by simp [insertAt, cnt]
  | n + 1, [] => by simp [insertAt, cnt]
  | n + 1, k :: ks => by simp [insertAt, cnt, cnt_insertAt y x n ks]; omega

theorem cnt_dropAll (y name : String) : ∀ l : List String, cnt y (dropAll name l) = if y = name then 0 else cnt y l
  | [] => by simp [cnt, dropAll]
  | k :: ks => by
    by_cases hk : k = name
    · subst hk
      by_cases hy : y = k
      · subst hy; simp [dropAll, cnt_dropAll]
      · have : ¬ k = y := fun h => hy h.symm
        simp [dropAll, cnt, cnt_dropAll, hy, this]
    · by_cases hy : y = name
      · subst hy
        have : ¬ k = y := hk
        simp [dropAll, hk, cnt, cnt_dropAll, this]
      · simp [dropAll, hk, cnt, cnt_dropAll, hy]

theorem cnt_keepFirst (y name : String) : ∀ l : List String,
    cnt y (keepFirst name l) = if y = name then min 1 (cnt name l) else cnt y l
  | [] => by simp [keepFirst, cnt]
  | k :: ks => by
    by_cases hk : k = name
    · subst hk
      by_cases hy : y = k
      · subst hy; simp [keepFirst, cnt, cnt_dropAll]
      · have : ¬ k = y := fun h => hy h.symm
        simp [keepFirst, cnt, cnt_dropAll, hy, this]
    · by_cases hy : y = name
      · subst hy
        have : ¬ k = y := hk
        simp [keepFirst, hk, cnt, cnt_keepFirst, this]
      · simp [keepFirst, hk, cnt, cnt_keepFirst, hy]

theorem dropAll_of_cnt_zero (name : String) : ∀ l : List String, cnt name l = 0 → dropAll name l = l
  | [], _ => rfl
  | k :: ks, h => by
    by_cases hk : k = name
    · simp [cnt, hk] at h
    · have : cnt name ks = 0 := by simpa [cnt, hk] using h
      simp [dropAll, hk, dropAll_of_cnt_zero name ks this]

theorem keepFirst_of_le_one (name : String) : ∀ l : List String, cnt name l ≤ 1 → keepFirst name l = l
  | [], _ => rfl
  | k :: ks, h => by
    by_cases hk : k = name
    · subst hk
      have h0 : cnt k ks = 0 := by simp [cnt] at h; omega
      simp [keepFirst, dropAll_of_cnt_zero k ks h0]
    · have : cnt name ks ≤ 1 := by simpa [cnt, hk] using h
      simp [keepFirst, hk, keepFirst_of_le_one name ks this]

/-! the library loop: each round settles the count of its own name and leaves the other names alone -/

theorem cnt_saveLib_self (ne : String → Bool) (loc : Nat) (kids : List String) (name : String) :
    cnt name (saveLib ne loc kids name) = if ne name then 1 else 0 := by
  unfold saveLib
  by_cases h0 : cnt name kids = 0
  · by_cases hn : ne name = true
    · simp [h0, hn, cnt_insertAt]
    · simp [h0, hn]
  · by_cases hn : ne name = true
    · simp [h0, hn, cnt_keepFirst]; omega
    · simp [h0, hn, cnt_dropAll]

theorem cnt_saveLib_other (ne : String → Bool) (loc : Nat) (kids : List String) (name y : String) (hy : y ≠ name) :
    cnt y (saveLib ne loc kids name) = cnt y kids := by
  have hy' : ¬ name = y := fun h => hy h.symm
  unfold saveLib
  by_cases h0 : cnt name kids = 0
  · by_cases hn : ne name = true
    · simp [h0, hn, cnt_insertAt, hy']
    · simp [h0, hn]
  · by_cases hn : ne name = true
    · simp [h0, hn, cnt_keepFirst, hy]
    · simp [h0, hn, cnt_dropAll, hy]

/-- after the loop over `libs` (distinct names) every library in `libs` has exactly one element when it holds objects and none otherwise;
    names outside `libs` keep their count -/
theorem cnt_foldl_saveLib (ne : String → Bool) (loc : Nat) : ∀ (libs : List String) (kids : List String) (y : String),
    libs.Nodup →
    cnt y (libs.foldl (saveLib ne loc) kids) = if y ∈ libs then (if ne y then 1 else 0) else cnt y kids
  | [], kids, y, _ => by simp
  | l :: ls, kids, y, hnd => by
    have hnd' : ls.Nodup := (List.nodup_cons.1 hnd).2
    have hl : l ∉ ls := (List.nodup_cons.1 hnd).1
    simp only [List.foldl_cons]
    rw [cnt_foldl_saveLib ne loc ls _ y hnd']
    by_cases hyl : y = l
    · subst hyl
      simp [hl, cnt_saveLib_self]
    · have : ¬ l = y := fun h => hyl h.symm
      by_cases hys : y ∈ ls
      · simp [hys]
      · simp [hys, hyl, cnt_saveLib_other ne loc kids l y hyl]

/-- a list in which every library already has the count the loop would give it is left alone by the loop -/
theorem foldl_saveLib_fix (ne : String → Bool) (loc : Nat) : ∀ (libs : List String) (kids : List String),
    (∀ l ∈ libs, cnt l kids = if ne l then 1 else 0) → libs.foldl (saveLib ne loc) kids = kids
  | [], _, _ => rfl
  | l :: ls, kids, h => by
    have hl := h l (by simp)
    have : saveLib ne loc kids l = kids := by
      unfold saveLib
      by_cases hn : ne l = true
      · have h1 : cnt l kids = 1 := by simpa [hn] using hl
        simp [h1, hn, keepFirst_of_le_one l kids (by omega)]
      · have h0 : cnt l kids = 0 := by simpa [hn] using hl
        simp [h0, hn]
    simp only [List.foldl_cons, this]
    exact foldl_saveLib_fix ne loc ls kids (fun l' hl' => h l' (by simp [hl']))

/-! the head of the list: `<asset>` stays the first child -/

theorem afterLastAux_pos (name : String) : ∀ (l : List String) (i acc : Nat), 1 ≤ acc → 1 ≤ afterLastAux name l i acc
  | [], _, _, h => h
  | k :: ks, i, acc, h => by
    unfold afterLastAux
    apply afterLastAux_pos
    split <;> omega

theorem afterLast_pos (name : String) (l : List String) : 1 ≤ afterLast name (name :: l) := by
  unfold afterLast afterLastAux
  apply afterLastAux_pos
  simp

theorem head_insertAt (n : Nat) (x a : String) (l : List String) (hn : 1 ≤ n) : ∃ t, insertAt n x (a :: l) = a :: t := by
  cases n with
  | zero => omega
  | succ n => exact ⟨_, rfl⟩

theorem head_saveLib (ne : String → Bool) (loc : Nat) (a : String) (l : List String) (name : String) (hloc : 1 ≤ loc) (ha : a ≠ name) :
    ∃ t, saveLib ne loc (a :: l) name = a :: t := by
  unfold saveLib
  split
  · split
    · exact head_insertAt loc name a l hloc
    · exact ⟨_, rfl⟩
  · split
    · exact ⟨keepFirst name l, by simp [keepFirst, ha]⟩
    · exact ⟨dropAll name l, by simp [dropAll, ha]⟩

theorem head_foldl_saveLib (ne : String → Bool) (loc : Nat) (a : String) (hloc : 1 ≤ loc) :
    ∀ (libs : List String) (l : List String), a ∉ libs → ∃ t, libs.foldl (saveLib ne loc) (a :: l) = a :: t
  | [], l, _ => ⟨l, rfl⟩
  | n :: ns, l, h => by
    have hn : a ≠ n := fun e => h (by simp [e])
    obtain ⟨t, ht⟩ := head_saveLib ne loc a l n hloc hn
    simp only [List.foldl_cons, ht]
    exact head_foldl_saveLib ne loc a hloc ns t (fun hm => h (by simp [hm]))

theorem head_sceneStep (hs : Bool) (l : List String) : ∃ t, sceneStep hs ("asset" :: l) = "asset" :: t := by
  unfold sceneStep
  split
  · have : firstIdx "extra" ("asset" :: l) = firstIdx "extra" l + 1 := by simp [firstIdx]
    rw [this]
    exact ⟨_, rfl⟩
  · exact ⟨_, rfl⟩

theorem cnt_sceneStep (hs : Bool) (y : String) (l : List String) (hy : y ≠ "scene") : cnt y (sceneStep hs l) = cnt y l := by
  have : ¬ "scene" = y := fun h => hy h.symm
  unfold sceneStep
  split
  · simp [cnt_insertAt, this]
  · rfl

theorem sceneStep_fix (hs : Bool) (l : List String) : sceneStep hs (sceneStep hs l) = sceneStep hs l := by
  by_cases h : cnt "scene" l = 0 ∧ hs = true
  · have h1 : sceneStep hs l = insertAt (firstIdx "extra" l) "scene" l := by simp [sceneStep, h]
    have h2 : cnt "scene" (sceneStep hs l) ≠ 0 := by rw [h1, cnt_insertAt]; simp
    have : ¬ (cnt "scene" (sceneStep hs l) = 0 ∧ hs = true) := fun hh => h2 hh.1
    generalize sceneStep hs l = m at *
    simp only [sceneStep, if_neg this]
  · have h1 : sceneStep hs l = l := by simp only [sceneStep, if_neg h]
    rw [h1, h1]


end Pyc.RootSave
