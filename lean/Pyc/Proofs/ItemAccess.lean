/-
Helper lemmas for C10 (item access, iteration, array views).  Model: Pyc/Model/ItemAccess.lean.
-/
import Pyc.Model.ItemAccess

namespace Pyc.ItemAccess
open Pyc.PyList

/-! ### traverse / gather -/

theorem traverse_eq_some_iff {β γ : Type} (f : β → Option γ) (xs : List β) (ys : List γ) :
    traverse f xs = some ys ↔ xs.map f = ys.map some := by
  induction xs generalizing ys with
  | nil => cases ys <;> simp [traverse]
  | cons x xs ih =>
    simp only [traverse, List.map_cons]
    cases hx : f x with
    | none => cases ys <;> simp
    | some y =>
      cases ht : traverse f xs with
      | none =>
        cases ys with
        | nil => simp
        | cons y' ys' =>
          simp only [List.map_cons, List.cons.injEq, reduceCtorEq, false_iff, not_and]
          intro _ h
          have := (ih ys').mpr h
          simp [ht] at this
      | some zs =>
        have hz := (ih zs).mp ht
        cases ys with
        | nil => simp
        | cons y' ys' =>
          simp only [Option.some.injEq, List.cons.injEq, List.map_cons]
          constructor
          · rintro ⟨rfl, rfl⟩; exact ⟨rfl, hz⟩
          · rintro ⟨rfl, h⟩
            refine ⟨rfl, ?_⟩
            have := (ih ys').mpr h
            rw [ht] at this
            exact Option.some.inj this

theorem traverse_length {β γ : Type} {f : β → Option γ} {xs : List β} {ys : List γ}
    (h : traverse f xs = some ys) : ys.length = xs.length := by
  have := congrArg List.length ((traverse_eq_some_iff f xs ys).mp h)
  simpa using this.symm

theorem traverse_getElem? {β γ : Type} {f : β → Option γ} {xs : List β} {ys : List γ}
    (h : traverse f xs = some ys) (j : Nat) (hj : j < xs.length) :
    ∃ y, ys[j]? = some y ∧ f xs[j] = some y := by
  have hm := (traverse_eq_some_iff f xs ys).mp h
  have hl := traverse_length h
  have hj' : j < ys.length := by omega
  refine ⟨ys[j], by simp [hj'], ?_⟩
  have := congrArg (fun l => l[j]?) hm
  simpa [hj, hj'] using this

theorem traverse_isSome {β γ : Type} {f : β → Option γ} {xs : List β}
    (h : ∀ x ∈ xs, (f x).isSome) : (traverse f xs).isSome := by
  induction xs with
  | nil => simp [traverse]
  | cons x xs ih =>
    have hx := h x (by simp)
    have ht := ih (fun y hy => h y (by simp [hy]))
    cases hfx : f x with
    | none => simp [hfx] at hx
    | some y =>
      cases hts : traverse f xs with
      | none => simp [hts] at ht
      | some ys => simp [traverse, hfx, hts]

theorem traverse_mem {β γ : Type} {f : β → Option γ} {xs : List β} {ys : List γ}
    (h : traverse f xs = some ys) : ∀ x ∈ xs, (f x).isSome := by
  intro x hx
  have hm := (traverse_eq_some_iff f xs ys).mp h
  have : f x ∈ xs.map f := List.mem_map_of_mem hx
  rw [hm] at this
  rcases List.mem_map.mp this with ⟨y, _, hy⟩
  simp [← hy]

theorem traverse_congr {β γ : Type} {f g : β → Option γ} {xs : List β}
    (h : ∀ x ∈ xs, f x = g x) : traverse f xs = traverse g xs := by
  induction xs with
  | nil => rfl
  | cons x xs ih =>
    simp only [traverse]
    rw [h x (by simp), ih (fun y hy => h y (by simp [hy]))]

theorem gather_eq_some_iff {α : Type} (data : List α) (idx : List Nat) (vs : List α) :
    gather data idx = some vs ↔ idx.map (fun j => data[j]?) = vs.map some :=
  traverse_eq_some_iff _ idx vs

theorem gather_isSome {α : Type} {data : List α} {idx : List Nat}
    (h : ∀ j ∈ idx, j < data.length) : (gather data idx).isSome := by
  apply traverse_isSome
  intro j hj
  simp [h j hj]

theorem gather_length {α : Type} {data : List α} {idx : List Nat} {vs : List α}
    (h : gather data idx = some vs) : vs.length = idx.length := traverse_length h

theorem gather_map {α : Type} (f : α → α) (data : List α) (idx : List Nat) :
    gather (data.map f) idx = (gather data idx).map (List.map f) := by
  induction idx with
  | nil => simp [gather, traverse]
  | cons j js ih =>
    simp only [gather, traverse] at ih ⊢
    rw [ih]
    cases hj : data[j]? <;> simp [hj]
    cases traverse (fun j => data[j]?) js <;> simp

/-! ### positions -/

theorem pyGet_isSome_iff {β : Type} (xs : List β) (i : Int) :
    (pyGet xs i).isSome ↔ (-(xs.length : Int) ≤ i ∧ i < xs.length) := by
  unfold pyGet normIdx
  split
  · next k hk =>
    split at hk
    · split at hk
      · cases hk
        have : i.toNat < xs.length := by assumption
        simp [this]; omega
      · cases hk
    · split at hk
      · cases hk
        have hlen : 0 < xs.length := by omega
        have : xs.length - (-i).toNat < xs.length := by omega
        simp [this]; omega
      · cases hk
  · next hk =>
    simp only [Option.isSome_none, Bool.false_eq_true, false_iff, not_and, Int.not_lt]
    split at hk
    · split at hk
      · cases hk
      · omega
    · split at hk
      · cases hk
      · omega

theorem pyGet_ofNat {β : Type} (xs : List β) (k : Nat) : pyGet xs (k : Int) = xs[k]? := by
  unfold pyGet normIdx
  by_cases h : k < xs.length
  · simp [h]
  · simp [h]

theorem pyGet_wrap {β : Type} (xs : List β) (i : Int) (h1 : -(xs.length : Int) ≤ i) (h2 : i < 0) :
    pyGet xs i = pyGet xs (i + xs.length) := by
  have e : i + (xs.length : Int) = ((xs.length - (-i).toNat : Nat) : Int) := by omega
  rw [e, pyGet_ofNat]
  unfold pyGet normIdx
  have h3 : ¬ (0 ≤ i) := by omega
  have h4 : (-i).toNat ≤ xs.length := by omega
  simp [h3, h4]

theorem pyGet_mem {β : Type} {xs : List β} {i : Int} {x : β} (h : pyGet xs i = some x) : x ∈ xs := by
  unfold pyGet at h
  split at h
  · exact List.mem_of_getElem? h
  · cases h

/-! ### the legacy iteration protocol -/

theorem filterMap_map_some {β γ : Type} (g : β → Option γ) (l : List β)
    (h : ∀ x ∈ l, (g x).isSome) : (l.filterMap g).map some = l.map g := by
  induction l with
  | nil => rfl
  | cons x xs ih =>
    have hx := h x (by simp)
    cases hg : g x with
    | none => simp [hg] at hx
    | some y =>
      simp [hg, ih (fun z hz => h z (by simp [hz]))]

/-- when `get` answers exactly the positions below `n`, the protocol started at `k ≤ n` collects
    the items `k … n-1` and ends by `IndexError`, whatever allowance above `n - k` it is given -/
theorem iterateFuel_spec {β : Type} (get : Nat → Option β) (n : Nat)
    (h1 : ∀ k, k < n → (get k).isSome) (h2 : get n = none) :
    ∀ fuel k, k ≤ n → n - k < fuel →
      iterateFuel get fuel k = ((List.range' k (n - k)).filterMap get, true) := by
  intro fuel
  induction fuel with
  | zero => intro k _ h; omega
  | succ fuel ih =>
    intro k hk hf
    by_cases hkn : k = n
    · subst hkn; simp [iterateFuel, h2]
    · have hlt : k < n := by omega
      have hs := h1 k hlt
      cases hg : get k with
      | none => simp [hg] at hs
      | some x =>
        have := ih (k + 1) (by omega) (by omega)
        have e : n - k = (n - (k + 1)) + 1 := by omega
        simp only [iterateFuel, hg, this]
        rw [e, List.range'_succ, List.filterMap_cons, hg]

/-! ### item access through the views -/

/-- What the constructors establish about the index views of a primitive with `n` items:
    every view answers exactly the positions `-n ≤ i < n`, a negative position means the same
    as `i + n`, and every index entry lies inside its source array. -/
structure Valid {V α : Type} (sel : V → Int → Option (List Nat)) (n : Nat) (w : Views V α) : Prop where
  range : ∀ d ∈ w.inputs, ∀ i : Int, (sel d.2 i).isSome ↔ (-(n : Int) ≤ i ∧ i < n)
  wrap : ∀ d ∈ w.inputs, ∀ i : Int, -(n : Int) ≤ i → i < 0 → sel d.2 i = sel d.2 (i + n)
  inSrc : ∀ d ∈ w.inputs, ∀ (i : Int) (idx : List Nat), sel d.2 i = some idx → ∀ j ∈ idx, j < d.1.length

section generic
variable {V α μ : Type} (sel : V → Int → Option (List Nat))

theorem texItem_eq_some_iff (i : Int) (t : List α × V) (ti : List Nat) (tv : List α) :
    texItem sel i t = some (ti, tv) ↔
      sel t.2 i = some ti ∧ ti.map (fun j => t.1[j]?) = tv.map some := by
  unfold texItem
  cases hs : sel t.2 i with
  | none => simp
  | some ti' =>
    dsimp only
    cases hg : gather t.1 ti' with
    | none =>
      simp only [reduceCtorEq, Option.some.injEq, false_iff, not_and]
      rintro rfl h
      have := (gather_eq_some_iff t.1 ti' tv).mpr h
      simp [hg] at this
    | some tv' =>
      simp only [Option.some.injEq, Prod.mk.injEq]
      constructor
      · rintro ⟨rfl, rfl⟩; exact ⟨rfl, (gather_eq_some_iff _ _ _).mp hg⟩
      · rintro ⟨rfl, h⟩
        have := (gather_eq_some_iff t.1 ti' tv).mpr h
        rw [hg] at this
        exact ⟨rfl, Option.some.inj this⟩

theorem texItem_isSome {n : Nat} {w : Views V α} (hv : Valid sel n w) {t : List α × V}
    (ht : t ∈ w.inputs) {i : Int} (hi : -(n : Int) ≤ i ∧ i < n) : (texItem sel i t).isSome := by
  have hs := (hv.range t ht i).mpr hi
  unfold texItem
  cases hsel : sel t.2 i with
  | none => simp [hsel] at hs
  | some ti =>
    have hg := gather_isSome (data := t.1) (hv.inSrc t ht i ti hsel)
    dsimp only
    cases hgg : gather t.1 ti with
    | none => simp [hgg] at hg
    | some tv => simp

theorem texItem_wrap {n : Nat} {w : Views V α} (hv : Valid sel n w) {t : List α × V}
    (ht : t ∈ w.inputs) {i : Int} (h1 : -(n : Int) ≤ i) (h2 : i < 0) :
    texItem sel i t = texItem sel (i + n) t := by
  unfold texItem
  rw [hv.wrap t ht i h1 h2]

theorem mem_inputs_vertex (w : Views V α) : (w.vertex, w.vertexIndex) ∈ w.inputs := by
  simp [Views.inputs]

theorem mem_inputs_normal {w : Views V α} {nd : List α × V} (h : w.normal = some nd) : nd ∈ w.inputs := by
  simp [Views.inputs, h]

theorem mem_inputs_tex {w : Views V α} {t : List α × V} (h : t ∈ w.texcoords) : t ∈ w.inputs := by
  simp [Views.inputs, h]

theorem getItemWith_isSome_iff {n : Nat} {w : Views V α} (hv : Valid sel n w) (m : μ) (i : Int) :
    (getItemWith sel w m i).isSome ↔ (-(n : Int) ≤ i ∧ i < n) := by
  constructor
  · intro h
    apply (hv.range _ (mem_inputs_vertex w) i).mp
    unfold getItemWith texItem at h
    cases hs : sel w.vertexIndex i with
    | none => simp [hs] at h
    | some _ => simp
  · intro hi
    unfold getItemWith
    have h1 := texItem_isSome sel hv (mem_inputs_vertex w) hi
    have h3 : (traverse (texItem sel i) w.texcoords).isSome :=
      traverse_isSome (fun t ht => texItem_isSome sel hv (mem_inputs_tex ht) hi)
    cases hv1 : texItem sel i (w.vertex, w.vertexIndex) with
    | none => simp [hv1] at h1
    | some v =>
      cases ht : traverse (texItem sel i) w.texcoords with
      | none => simp [ht] at h3
      | some ts =>
        cases hn : w.normal with
        | none => simp
        | some nd =>
          have h2 := texItem_isSome sel hv (mem_inputs_normal hn) hi
          cases hn2 : texItem sel i nd with
          | none => simp [hn2] at h2
          | some nn => simp [hn2]

theorem getItemWith_wrap {n : Nat} {w : Views V α} (hv : Valid sel n w) (m : μ) (i : Int)
    (h1 : -(n : Int) ≤ i) (h2 : i < 0) :
    getItemWith sel w m i = getItemWith sel w m (i + n) := by
  unfold getItemWith
  rw [texItem_wrap sel hv (mem_inputs_vertex w) h1 h2]
  rw [traverse_congr (fun t ht => texItem_wrap sel hv (mem_inputs_tex ht) h1 h2)]
  cases hn : w.normal with
  | none => rfl
  | some nd => simp only; rw [texItem_wrap sel hv (mem_inputs_normal hn) h1 h2]

/-- what an item carries, read off the views (no well-formedness needed) -/
theorem getItemWith_spec (w : Views V α) (m : μ) (i : Int) (it : Item α μ)
    (h : getItemWith sel w m i = some it) :
    (sel w.vertexIndex i = some it.indices ∧
      it.indices.map (fun j => w.vertex[j]?) = it.vertices.map some) ∧
    ((w.normal = none → it.normalIndices = none ∧ it.normals = none) ∧
     (∀ nd, w.normal = some nd → ∃ ni nv, it.normalIndices = some ni ∧ it.normals = some nv ∧
         sel nd.2 i = some ni ∧ ni.map (fun j => nd.1[j]?) = nv.map some)) ∧
    (it.texcoordIndices.length = w.texcoords.length ∧ it.texcoords.length = w.texcoords.length ∧
     ∀ j (hj : j < w.texcoords.length), ∃ ti tv,
        it.texcoordIndices[j]? = some ti ∧ it.texcoords[j]? = some tv ∧
        sel (w.texcoords[j]).2 i = some ti ∧
        ti.map (fun k => (w.texcoords[j]).1[k]?) = tv.map some) ∧
    it.material = m := by
  unfold getItemWith at h
  split at h
  · next v n ts hv hn ht =>
    cases h
    refine ⟨?_, ?_, ?_, rfl⟩
    · exact (texItem_eq_some_iff sel i (w.vertex, w.vertexIndex) v.1 v.2).mp hv
    · constructor
      · intro hw
        rw [hw] at hn
        cases hn
        exact ⟨rfl, rfl⟩
      · intro nd hw
        rw [hw] at hn
        simp only [Option.map_eq_some_iff] at hn
        rcases hn with ⟨nn, hnn, rfl⟩
        exact ⟨nn.1, nn.2, rfl, rfl, (texItem_eq_some_iff sel i nd nn.1 nn.2).mp hnn⟩
    · have hl := traverse_length ht
      refine ⟨by simp [hl], by simp [hl], ?_⟩
      intro j hj
      rcases traverse_getElem? ht j hj with ⟨y, hy1, hy2⟩
      refine ⟨y.1, y.2, by simp [hy1], by simp [hy1], ?_⟩
      exact (texItem_eq_some_iff sel i (w.texcoords[j]) y.1 y.2).mp hy2
  · cases h

/-- absent inputs: the item shows `None` / an empty list exactly when the primitive has no such input -/
theorem getItemWith_absent (w : Views V α) (m : μ) (i : Int) (it : Item α μ)
    (h : getItemWith sel w m i = some it) :
    it.normals.isSome = w.normal.isSome ∧ it.normalIndices.isSome = w.normal.isSome ∧
    it.texcoords.length = w.texcoords.length ∧ it.texcoordIndices.length = w.texcoords.length := by
  rcases getItemWith_spec sel w m i it h with ⟨_, hn, ⟨h1, h2, _⟩, _⟩
  refine ⟨?_, ?_, h2, h1⟩
  · cases hw : w.normal with
    | none => simp [(hn.1 hw).2]
    | some nd => rcases hn.2 nd hw with ⟨_, _, _, h', _⟩; simp [h']
  · cases hw : w.normal with
    | none => simp [(hn.1 hw).1]
    | some nd => rcases hn.2 nd hw with ⟨_, _, h', _⟩; simp [h']

/-- iteration by the legacy protocol and the `range(n)` generators, for well-formed views -/
theorem iterateWith_spec {n : Nat} {w : Views V α} (hv : Valid sel n w) (m : μ) :
    (iterateWith (getItemWith sel w m) n).map some
        = (List.range n).map (fun (k : Nat) => getItemWith sel w m (k : Int)) ∧
    (∀ fuel, n < fuel →
      iterateFuel (fun (k : Nat) => getItemWith sel w m (k : Int)) fuel 0
        = (iterateWith (getItemWith sel w m) n, true)) ∧
    shapesWith (getItemWith sel w m) n = some (iterateWith (getItemWith sel w m) n) := by
  have h1 : ∀ k, k < n → (getItemWith sel w m (k : Int)).isSome := by
    intro k hk
    exact (getItemWith_isSome_iff sel hv m k).mpr ⟨by omega, by omega⟩
  have h2 : getItemWith sel w m (n : Int) = none := by
    cases hh : getItemWith sel w m (n : Int) with
    | none => rfl
    | some it =>
      have := (getItemWith_isSome_iff sel hv m (n : Int)).mp (by simp [hh])
      omega
  have key := iterateFuel_spec (fun (k : Nat) => getItemWith sel w m (k : Int)) n h1 h2
  have hit : iterateWith (getItemWith sel w m) n
      = (List.range n).filterMap (fun (k : Nat) => getItemWith sel w m (k : Int)) := by
    unfold iterateWith
    rw [key (n + 1) 0 (by omega) (by omega)]
    simp [List.range_eq_range']
  have hmap : (iterateWith (getItemWith sel w m) n).map some
      = (List.range n).map (fun (k : Nat) => getItemWith sel w m (k : Int)) := by
    rw [hit]
    apply filterMap_map_some
    intro k hk
    exact h1 k (List.mem_range.mp hk)
  refine ⟨hmap, ?_, ?_⟩
  · intro fuel hf
    rw [key fuel 0 (by omega) (by omega), hit]
    simp [List.range_eq_range']
  · unfold shapesWith
    exact (traverse_eq_some_iff _ _ _).mpr hmap.symm

theorem bind_inputs_length (f g : α → α) (w : Views V α) :
    ∀ d ∈ (w.bind f g).inputs, ∃ d' ∈ w.inputs, d'.2 = d.2 ∧ d'.1.length = d.1.length := by
  intro d hd
  simp only [Views.inputs, Views.bind, List.mem_cons, List.mem_append, Option.mem_toList,
    Option.map_eq_some_iff] at hd ⊢
  rcases hd with rfl | ⟨nd, hn, rfl⟩ | ht
  · exact ⟨(w.vertex, w.vertexIndex), Or.inl rfl, rfl, by simp⟩
  · exact ⟨nd, Or.inr (Or.inl hn), rfl, by simp⟩
  · exact ⟨d, Or.inr (Or.inr ht), rfl, rfl⟩

theorem bind_valid {n : Nat} {w : Views V α} (hv : Valid sel n w) (f g : α → α) :
    Valid sel n (w.bind f g) := by
  refine ⟨?_, ?_, ?_⟩
  · intro d hd i
    rcases bind_inputs_length f g w d hd with ⟨d', hd', e, _⟩
    rw [← e]; exact hv.range d' hd' i
  · intro d hd i h1 h2
    rcases bind_inputs_length f g w d hd with ⟨d', hd', e, _⟩
    rw [← e]; exact hv.wrap d' hd' i h1 h2
  · intro d hd i idx hs j hj
    rcases bind_inputs_length f g w d hd with ⟨d', hd', e, el⟩
    rw [← e] at hs
    rw [← el]; exact hv.inSrc d' hd' i idx hs j hj

theorem texItem_map (f : α → α) (i : Int) (d : List α) (v : V) :
    texItem sel i (d.map f, v) = (texItem sel i (d, v)).map (fun r => (r.1, r.2.map f)) := by
  unfold texItem
  cases sel v i with
  | none => rfl
  | some ti =>
    dsimp only
    rw [gather_map]
    cases gather d ti <;> rfl

/-- item access commutes with binding -/
theorem getItemWith_bind {ν : Type} (f g : α → α) (w : Views V α) (m : μ) (m' : ν) (i : Int) :
    getItemWith sel (w.bind f g) m' i = (getItemWith sel w m i).map (Item.bind f g m') := by
  unfold getItemWith Views.bind
  dsimp only
  rw [texItem_map]
  cases texItem sel i (w.vertex, w.vertexIndex) with
  | none => simp
  | some v =>
    cases ht : traverse (texItem sel i) w.texcoords with
    | none =>
      cases w.normal with
      | none => simp
      | some nd => simp only [Option.map_some]; cases (texItem sel i (nd.1.map g, nd.2)).map some <;>
                     cases (texItem sel i nd).map some <;> simp
    | some ts =>
      cases w.normal with
      | none => simp [Item.bind]
      | some nd =>
        simp only [Option.map_some]
        rw [texItem_map]
        cases texItem sel i (nd.1, nd.2) with
        | none => simp
        | some nn => simp [Item.bind]

end generic

/-! ### constructors establish well-formedness -/

theorem traverse_mem_image {β γ : Type} {f : β → Option γ} {xs : List β} {ys : List γ}
    (h : traverse f xs = some ys) : ∀ y ∈ ys, ∃ x ∈ xs, f x = some y := by
  intro y hy
  have hm := (traverse_eq_some_iff f xs ys).mp h
  have : some y ∈ ys.map some := List.mem_map_of_mem hy
  rw [← hm] at this
  rcases List.mem_map.mp this with ⟨x, hx, hfx⟩
  exact ⟨x, hx, hfx⟩

theorem inSource_iff {α : Type} (data : List α) (idx : List Nat) :
    inSource data idx = true ↔ ∀ j ∈ idx, j < data.length := by
  simp [inSource, List.all_eq_true]

theorem rowInput_props {α : Type} {index : List (List (List Nat))} {inp : Input α}
    {d : List α × List (List Nat)} (h : rowInput index inp = some d) :
    d.2.length = index.length ∧ ∀ row ∈ d.2, ∀ j ∈ row, j < d.1.length := by
  unfold rowInput at h
  split at h
  · cases h
  · next v hv =>
    split at h
    · next hs =>
      cases h
      refine ⟨traverse_length hv, ?_⟩
      intro row hrow j hj
      exact (inSource_iff _ _).mp hs j (List.mem_flatten.mpr ⟨row, hrow, hj⟩)
    · cases h

theorem valid_of_rows {α : Type} {n : Nat} {w : Views (List (List Nat)) α}
    (h : ∀ d ∈ w.inputs, d.2.length = n ∧ ∀ row ∈ d.2, ∀ j ∈ row, j < d.1.length) :
    Valid pyGet n w := by
  refine ⟨?_, ?_, ?_⟩
  · intro d hd i
    rw [pyGet_isSome_iff, (h d hd).1]
  · intro d hd i h1 h2
    have := pyGet_wrap d.2 i (by rw [(h d hd).1]; exact h1) h2
    rw [(h d hd).1] at this
    exact this
  · intro d hd i idx hs j hj
    exact (h d hd).2 idx (pyGet_mem hs) j hj

theorem mkFixed_valid {α μ : Type} {arity stride : Nat} {stream : List Nat} {vertex : Input α}
    {normal : Option (Input α)} {tex : List (Input α)} {material : μ} {p : FixedSet α μ}
    (h : mkFixed arity stride stream vertex normal tex material = some p) :
    Valid pyGet p.len p.views := by
  unfold mkFixed at h
  split at h
  · cases h
  · split at h
    · cases h
    · next index _ =>
      split at h
      · next v n ts hv hn hts =>
        cases h
        apply valid_of_rows
        intro d hd
        simp only [Views.inputs, List.mem_cons, List.mem_append, Option.mem_toList] at hd
        rcases hd with rfl | hd | hd
        · exact rowInput_props hv
        · cases normal with
          | none => simp at hn; subst hn; cases hd
          | some ni =>
            simp only [Option.map_eq_some_iff] at hn
            rcases hn with ⟨nd, hnd, rfl⟩
            cases hd
            exact rowInput_props hnd
        · rcases traverse_mem_image hts d hd with ⟨x, _, hx⟩
          exact rowInput_props hx
      · cases h

theorem mem_slice {β : Type} {xs : List β} {a b : Nat} {x : β} (h : x ∈ slice xs a b) : x ∈ xs :=
  List.mem_of_mem_take (List.mem_of_mem_drop h)

theorem valid_of_flat {α : Type} {n : Nat} {w : Views (List Nat) α} (polyindex : List (Nat × Nat))
    (hl : polyindex.length = n) (h : ∀ d ∈ w.inputs, ∀ j ∈ d.2, j < d.1.length) :
    Valid (polySel polyindex) n w := by
  refine ⟨?_, ?_, ?_⟩
  · intro d _ i
    unfold polySel
    rw [Option.isSome_map, pyGet_isSome_iff, hl]
  · intro d _ i h1 h2
    unfold polySel
    have := pyGet_wrap polyindex i (by rw [hl]; exact h1) h2
    rw [hl] at this
    rw [this]
  · intro d hd i idx hs j hj
    unfold polySel at hs
    simp only [Option.map_eq_some_iff] at hs
    rcases hs with ⟨r, _, rfl⟩
    exact h d hd j (mem_slice hj)

theorem flatInput_props {α : Type} {corners : List (List Nat)} {inp : Input α}
    {d : List α × List Nat} (h : flatInput corners inp = some d) :
    d.2.length = corners.length ∧ ∀ j ∈ d.2, j < d.1.length := by
  unfold flatInput at h
  split at h
  · cases h
  · next v hv =>
    split at h
    · next hs => cases h; exact ⟨traverse_length hv, (inSource_iff _ _).mp hs⟩
    · cases h

theorem cumsumFrom_length (acc : Nat) (vc : List Nat) : (cumsumFrom acc vc).length = vc.length := by
  induction vc generalizing acc with
  | nil => rfl
  | cons c cs ih => simp [cumsumFrom, ih]

theorem mkPolyindex_length (vc : List Nat) : (mkPolyindex vc).length = vc.length := by
  simp [mkPolyindex, polystarts, polyends, cumsum, cumsumFrom_length]

theorem mkPoly_props {α μ : Type} {stride : Nat} {stream vcounts : List Nat} {vertex : Input α}
    {normal : Option (Input α)} {tex : List (Input α)} {material : μ} {p : PolySet α μ}
    (h : mkPoly stride stream vcounts vertex normal tex material = some p) :
    p.vcounts = vcounts ∧ p.polyindex = mkPolyindex vcounts ∧
    ∀ d ∈ p.views.inputs, ∀ j ∈ d.2, j < d.1.length := by
  unfold mkPoly at h
  split at h
  · cases h
  · next corners _ =>
    split at h
    · next v n ts hv hn hts =>
      cases h
      refine ⟨rfl, rfl, ?_⟩
      intro d hd
      simp only [Views.inputs, List.mem_cons, List.mem_append, Option.mem_toList] at hd
      rcases hd with rfl | hd | hd
      · exact (flatInput_props hv).2
      · cases normal with
        | none => simp at hn; subst hn; cases hd
        | some ni =>
          simp only [Option.map_eq_some_iff] at hn
          rcases hn with ⟨nd, hnd, rfl⟩
          cases hd
          exact (flatInput_props hnd).2
      · rcases traverse_mem_image hts d hd with ⟨x, _, hx⟩
        exact (flatInput_props hx).2
    · cases h

theorem mkPoly_valid {α μ : Type} {stride : Nat} {stream vcounts : List Nat} {vertex : Input α}
    {normal : Option (Input α)} {tex : List (Input α)} {material : μ} {p : PolySet α μ}
    (h : mkPoly stride stream vcounts vertex normal tex material = some p) :
    Valid (polySel p.polyindex) p.len p.views := by
  rcases mkPoly_props h with ⟨h1, h2, h3⟩
  apply valid_of_flat _ _ h3
  rw [h2, mkPolyindex_length, PolySet.len, h1]

/-! ### polystarts / polyends -/

/-- the rows `(start, end)` the cumulative sums stand for -/
def rangesFrom (acc : Nat) : List Nat → List (Nat × Nat)
  | [] => []
  | c :: cs => (acc, acc + c) :: rangesFrom (acc + c) cs

theorem polyindexFrom_eq (acc : Nat) (vc : List Nat) :
    List.zip (List.zipWith (fun e c => e - c) (cumsumFrom acc vc) vc) (cumsumFrom acc vc)
      = rangesFrom acc vc := by
  induction vc generalizing acc with
  | nil => rfl
  | cons c cs ih =>
    simp only [cumsumFrom, List.zipWith_cons_cons, List.zip_cons_cons, rangesFrom, ih]
    congr 2
    omega

theorem mkPolyindex_eq (vc : List Nat) : mkPolyindex vc = rangesFrom 0 vc := by
  unfold mkPolyindex polystarts polyends cumsum
  exact polyindexFrom_eq 0 vc

theorem sum_take_succ (vc : List Nat) (i : Nat) (h : i < vc.length) :
    (vc.take (i + 1)).sum = (vc.take i).sum + vc[i] := by
  induction vc generalizing i with
  | nil => simp at h
  | cons c cs ih =>
    cases i with
    | zero => simp
    | succ i =>
      simp only [List.length_cons, Nat.add_lt_add_iff_right] at h
      simp only [List.take_succ_cons, List.sum_cons, List.getElem_cons_succ]
      rw [ih i h]; omega

theorem sum_take_le (vc : List Nat) (i : Nat) : (vc.take i).sum ≤ vc.sum := by
  induction vc generalizing i with
  | nil => simp
  | cons c cs ih =>
    cases i with
    | zero => simp
    | succ i => simp only [List.take_succ_cons, List.sum_cons]; have := ih i; omega

theorem rangesFrom_getElem? (acc : Nat) (vc : List Nat) (i : Nat) :
    (rangesFrom acc vc)[i]? =
      vc[i]?.map (fun c => (acc + (vc.take i).sum, acc + (vc.take i).sum + c)) := by
  induction vc generalizing acc i with
  | nil => simp [rangesFrom]
  | cons c cs ih =>
    cases i with
    | zero => simp [rangesFrom]
    | succ i =>
      simp only [rangesFrom, List.getElem?_cons_succ, ih, List.take_succ_cons, List.sum_cons]
      cases cs[i]? with
      | none => rfl
      | some c' => simp only [Option.map_some, Option.some.injEq, Prod.mk.injEq]; omega

theorem rangesFrom_length (acc : Nat) (vc : List Nat) : (rangesFrom acc vc).length = vc.length := by
  induction vc generalizing acc with
  | nil => rfl
  | cons c cs ih => simp [rangesFrom, ih]

theorem cumsumFrom_getElem? (acc : Nat) (vc : List Nat) (i : Nat) :
    (cumsumFrom acc vc)[i]? = vc[i]?.map (fun c => acc + (vc.take i).sum + c) := by
  induction vc generalizing acc i with
  | nil => simp [cumsumFrom]
  | cons c cs ih =>
    cases i with
    | zero => simp [cumsumFrom]
    | succ i =>
      simp only [cumsumFrom, List.getElem?_cons_succ, ih, List.take_succ_cons, List.sum_cons]
      cases cs[i]? with
      | none => rfl
      | some c' => simp only [Option.map_some, Option.some.injEq]; omega

theorem startsFrom_getElem? (acc : Nat) (vc : List Nat) (i : Nat) :
    (List.zipWith (fun e c => e - c) (cumsumFrom acc vc) vc)[i]?
      = vc[i]?.map (fun _ => acc + (vc.take i).sum) := by
  induction vc generalizing acc i with
  | nil => simp [cumsumFrom]
  | cons c cs ih =>
    cases i with
    | zero => simp [cumsumFrom]
    | succ i =>
      simp only [cumsumFrom, List.zipWith_cons_cons, List.getElem?_cons_succ, ih,
        List.take_succ_cons, List.sum_cons]
      cases cs[i]? with
      | none => rfl
      | some c' => simp only [Option.map_some, Option.some.injEq]; omega

/-! ### slices -/

theorem slice_self {β : Type} (xs : List β) (a : Nat) : slice xs a a = [] := by
  unfold slice
  apply List.drop_eq_nil_of_le
  simp only [List.length_take]; omega

theorem slice_append {β : Type} (xs : List β) (a b c : Nat) (hab : a ≤ b) (hbc : b ≤ c) :
    slice xs a b ++ slice xs b c = slice xs a c := by
  unfold slice
  have e : xs.take b = (xs.take c).take b := by rw [List.take_take]; congr 1; omega
  rw [e]
  generalize xs.take c = ys
  have h := congrArg (List.drop a) (List.take_append_drop b ys)
  rw [List.drop_append] at h
  by_cases hl : a ≤ (ys.take b).length
  · have : a - (ys.take b).length = 0 := by omega
    rw [this] at h
    simpa using h
  · have hlen : (ys.take b).length = ys.length := by
      simp only [List.length_take] at hl ⊢; omega
    have hd : ys.drop b = [] := by
      apply List.drop_eq_nil_of_le
      simp only [List.length_take] at hl; omega
    rw [hd] at h ⊢
    simpa using h

theorem slice_length {β : Type} (xs : List β) (a b : Nat) (h : b ≤ xs.length) :
    (slice xs a b).length = b - a := by
  unfold slice
  simp only [List.length_drop, List.length_take]; omega

theorem rangesFrom_flatMap_slice {β : Type} (xs : List β) (acc : Nat) (vc : List Nat) :
    (rangesFrom acc vc).flatMap (fun r => slice xs r.1 r.2) = slice xs acc (acc + vc.sum) := by
  induction vc generalizing acc with
  | nil => simp [rangesFrom, slice_self]
  | cons c cs ih =>
    simp only [rangesFrom, List.flatMap_cons, ih, List.sum_cons]
    rw [slice_append xs acc (acc + c) (acc + c + cs.sum) (by omega) (by omega)]
    congr 1; omega

end Pyc.ItemAccess
