/-
Helper lemmas for C16 about Pyc/Model/Container.lean: the selection loop, `split`/`joinSep`,
`dirname`, `join`, `normpath` on paths built from components, and the plain stack reading of a
relative path (`stackResolve`) that the property theorems compare `auxPath` with.
-/
import Pyc.Model.Container

namespace Pyc.Container

/-! ### selection loop -/

theorem isDae_nil : isDae [] = false := by decide

theorem isDae_ne_nil {n : Name} (h : isDae n = true) : n ≠ [] := by
  intro e; subst e; simp [isDae_nil] at h

/-- once a genuine (non-decoy, non-empty) name is held, the loop keeps it -/
theorem foldl_pickStep_keep (cur : Name) (l : List Name) (hne : cur ≠ []) (hreal : isDecoy cur = false) :
    l.foldl pickStep cur = cur := by
  induction l with
  | nil => rfl
  | cons a t ih =>
    have : pickStep cur a = cur := by
      unfold pickStep
      cases cur with
      | nil => exact absurd rfl hne
      | cons c r => simp [hreal]
    simp [List.foldl_cons, this, ih]

/-- what the loop computes from a state that is replaceable (nothing chosen yet, or a decoy) -/
theorem foldl_pickStep_spec (cur : Name) (l : List Name) (hcur : cur = [] ∨ isDecoy cur = true)
    (hne : ∀ c ∈ l, c ≠ []) :
    l.foldl pickStep cur =
      match l.find? (fun n => !isDecoy n) with
      | some n => n
      | none => l.getLast?.getD cur := by
  induction l generalizing cur with
  | nil => rfl
  | cons a t ih =>
    have hstep : pickStep cur a = a := by
      unfold pickStep
      rcases hcur with h | h
      · simp [h]
      · simp [h]
    have ha : a ≠ [] := hne a (by simp)
    have ht : ∀ c ∈ t, c ≠ [] := fun c hc => hne c (by simp [hc])
    rw [List.foldl_cons, hstep]
    cases hdec : isDecoy a with
    | false =>
      rw [foldl_pickStep_keep a t ha hdec]
      simp [hdec]
    | true =>
      rw [ih a (Or.inr hdec) ht]
      simp only [List.find?_cons, hdec, Bool.not_true]
      cases t.find? (fun n => !isDecoy n) with
      | some n => rfl
      | none => simp [List.getLast?_cons]

theorem pickLoop_spec (cands : List Name) (hne : ∀ c ∈ cands, c ≠ []) :
    pickLoop cands =
      match cands.find? (fun n => !isDecoy n) with
      | some n => n
      | none => cands.getLast?.getD [] :=
  foldl_pickStep_spec [] cands (Or.inl rfl) hne

theorem mem_daefiles {names : List Name} {n : Name} : n ∈ daefiles names ↔ n ∈ names ∧ isDae n = true := by
  simp [daefiles]

theorem daefiles_ne_nil (names : List Name) : ∀ c ∈ daefiles names, c ≠ [] :=
  fun _ hc => isDae_ne_nil (mem_daefiles.mp hc).2

theorem contains_iff_mem (names : List Name) (n : Name) : names.contains n = true ↔ n ∈ names := by
  simp

/-- exact description of automatic selection -/
theorem selectMember_auto (names : List Name) :
    selectMember names none =
      match (daefiles names).find? (fun n => !isDecoy n) with
      | some n => .ok n
      | none =>
        match (daefiles names).getLast? with
        | some n => .ok n
        | none => .error .incomplete := by
  unfold selectMember chosen
  simp only
  rw [pickLoop_spec _ (daefiles_ne_nil names)]
  cases hf : (daefiles names).find? (fun n => !isDecoy n) with
  | some n =>
    have hm := List.mem_of_find?_eq_some hf
    have hn := mem_daefiles.mp hm
    have : n ≠ [] := isDae_ne_nil hn.2
    cases n with
    | nil => exact absurd rfl this
    | cons c r => simp [hn.1]
  | none =>
    cases hl : (daefiles names).getLast? with
    | none => simp
    | some n =>
      have hm : n ∈ daefiles names := List.mem_of_getLast? hl
      have hn := mem_daefiles.mp hm
      have : n ≠ [] := isDae_ne_nil hn.2
      cases n with
      | nil => exact absurd rfl this
      | cons c r => simp [hn.1]

theorem selectMember_error {names : List Name} {zf : Option Name} {e : Err}
    (h : selectMember names zf = .error e) : e = .incomplete := by
  unfold selectMember at h
  split at h
  · cases h; rfl
  · cases h

theorem selectMember_ok {names : List Name} {zf : Option Name} {m : Name}
    (h : selectMember names zf = .ok m) : m = chosen names zf ∧ m ≠ [] ∧ m ∈ names := by
  unfold selectMember at h
  split at h
  · cases h
  · next hc =>
    cases h
    simp only [Bool.or_eq_true, Bool.not_eq_eq_eq_not, Bool.not_true, not_or, Bool.not_eq_true] at hc
    refine ⟨rfl, ?_, ?_⟩
    · intro e; rw [e] at hc; simp at hc
    · simpa using hc.2

/-! ### archives -/

theorem read_of_mem (a : Archive) (n : Name) (h : n ∈ a.names) : ∃ b, a.read n = some b := by
  unfold Archive.names at h
  obtain ⟨e, he, hen⟩ := List.mem_map.mp h
  unfold Archive.read
  have hne : a.entries.filter (fun e => e.1 == n) ≠ [] := by
    intro hnil
    have : e ∈ a.entries.filter (fun e => e.1 == n) := by simp [List.mem_filter, he, hen]
    rw [hnil] at this
    simp at this
  cases hl : (a.entries.filter (fun e => e.1 == n)).getLast? with
  | none => exact absurd (List.getLast?_eq_none_iff.mp hl) hne
  | some x => exact ⟨x.2, rfl⟩

theorem openSource_zip (o : Origin) (a : Archive) (zf : Option Name) (hl : Bool) :
    openSource ⟨o, .zip a⟩ zf hl =
      match selectMember a.names zf with
      | .error e => .error e
      | .ok m =>
        match a.read m with
        | none => .error .incomplete
        | some d => .ok ⟨some m, d, if hl then .loader else .zip a m⟩ := by
  cases o <;> rfl

theorem openSource_doc (o : Origin) (b : Blob) (zf : Option Name) (hl : Bool) :
    openSource ⟨o, .doc b⟩ zf hl =
      .ok ⟨(match o with | .path p => some p | .fileobj => none), b,
           if hl then .loader else (match o with | .path p => .disk p | .fileobj => .null)⟩ := by
  cases o <;> rfl

/-- what opening a zip yields -/
theorem openSource_zip_ok {o : Origin} {a : Archive} {zf : Option Name} {hl : Bool} {r : Opened}
    (h : openSource ⟨o, .zip a⟩ zf hl = .ok r) :
    ∃ m, selectMember a.names zf = .ok m ∧ a.read m = some r.data ∧
      r = ⟨some m, r.data, if hl then .loader else .zip a m⟩ := by
  rw [openSource_zip] at h
  cases hs : selectMember a.names zf with
  | error e => rw [hs] at h; cases h
  | ok m =>
    rw [hs] at h
    simp only at h
    cases hr : a.read m with
    | none => rw [hr] at h; cases h
    | some d =>
      rw [hr] at h
      simp only [Except.ok.injEq] at h
      subst h
      exact ⟨m, rfl, hr, rfl⟩

/-- opening a zip fails exactly when no member can be selected -/
theorem openSource_zip_error (o : Origin) (a : Archive) (zf : Option Name) (hl : Bool) :
    (∃ e, openSource ⟨o, .zip a⟩ zf hl = .error e) ↔ selectMember a.names zf = .error .incomplete := by
  rw [openSource_zip]
  cases hs : selectMember a.names zf with
  | error e =>
    have := selectMember_error hs
    subst this
    simp
  | ok m =>
    obtain ⟨b, hb⟩ := read_of_mem a m (selectMember_ok hs).2.2
    simp [hb]

/-! ### components and text -/

/-- an ordinary path component: a non-empty name without slash that is neither `.` nor `..` -/
def Plain (c : Name) : Prop := c ≠ [] ∧ sep ∉ c ∧ c ≠ dot ∧ c ≠ dotdot

theorem split_noSep (c : Name) (h : sep ∉ c) : split c = [c] := by
  induction c with
  | nil => rfl
  | cons a t ih =>
    have ha : a ≠ sep := by intro e; apply h; simp [e]
    have ht : sep ∉ t := by intro e; apply h; simp [e]
    simp [split, ha, ih ht]

theorem split_append_sep (c rest : Name) (h : sep ∉ c) : split (c ++ sep :: rest) = c :: split rest := by
  induction c with
  | nil => simp [split]
  | cons a t ih =>
    have ha : a ≠ sep := by intro e; apply h; simp [e]
    have ht : sep ∉ t := by intro e; apply h; simp [e]
    simp [split, ha, ih ht]

theorem split_joinSep (cs : List Name) (hne : cs ≠ []) (h : ∀ c ∈ cs, sep ∉ c) : split (joinSep cs) = cs := by
  induction cs with
  | nil => exact absurd rfl hne
  | cons a t ih =>
    cases t with
    | nil => simp [joinSep, split_noSep a (h a (by simp))]
    | cons b r =>
      simp only [joinSep]
      rw [split_append_sep a _ (h a (by simp))]
      rw [ih (by simp) (fun c hc => h c (by simp [hc]))]

theorem joinSep_append (d r : List Name) (hd : d ≠ []) (hr : r ≠ []) :
    joinSep (d ++ r) = joinSep d ++ sep :: joinSep r := by
  induction d with
  | nil => exact absurd rfl hd
  | cons a t ih =>
    cases t with
    | nil =>
      cases r with
      | nil => exact absurd rfl hr
      | cons b s => simp [joinSep]
    | cons b s =>
      have := ih (by simp)
      simp only [List.cons_append, joinSep] at this ⊢
      rw [this]
      simp

theorem joinSep_cons_prefix (c : Name) (r : List Name) : ∃ Y, joinSep (c :: r) = c ++ Y := by
  cases r with
  | nil => exact ⟨[], by simp [joinSep]⟩
  | cons b s => exact ⟨sep :: joinSep (b :: s), by simp [joinSep]⟩

theorem joinSep_concat_suffix (d : List Name) (c : Name) : ∃ X, joinSep (d ++ [c]) = X ++ c := by
  cases d with
  | nil => exact ⟨[], by simp [joinSep]⟩
  | cons a t =>
    refine ⟨joinSep (a :: t) ++ [sep], ?_⟩
    rw [joinSep_append (a :: t) [c] (by simp) (by simp)]
    simp [joinSep]

/-- the text of a non-empty list of non-empty slash-free components ends in a non-slash -/
theorem joinSep_ends (d : List Name) (hd : d ≠ []) (h : ∀ c ∈ d, c ≠ [] ∧ sep ∉ c) :
    ∃ X x, joinSep d = X ++ [x] ∧ x ≠ sep := by
  obtain ⟨d', c, rfl⟩ : ∃ d' c, d = d' ++ [c] :=
    ⟨d.dropLast, d.getLast hd, (List.dropLast_concat_getLast hd).symm⟩
  have hc := h c (by simp)
  obtain ⟨c', x, rfl⟩ : ∃ c' x, c = c' ++ [x] :=
    ⟨c.dropLast, c.getLast hc.1, (List.dropLast_concat_getLast hc.1).symm⟩
  obtain ⟨X, hX⟩ := joinSep_concat_suffix d' (c' ++ [x])
  refine ⟨X ++ c', x, by rw [hX, List.append_assoc], ?_⟩
  intro e
  apply hc.2
  simp [e]

/-- … and starts with a non-slash -/
theorem joinSep_starts (c : Name) (r : List Name) (hc : c ≠ []) (hs : sep ∉ c) :
    ∃ x Y, joinSep (c :: r) = x :: Y ∧ x ≠ sep := by
  obtain ⟨Y, hY⟩ := joinSep_cons_prefix c r
  cases c with
  | nil => exact absurd rfl hc
  | cons x t =>
    refine ⟨x, t ++ Y, by simp [hY], ?_⟩
    intro e; apply hs; simp [e]

theorem joinSep_ne_nil (r : List Name) (hr : r ≠ []) (h : ∀ c ∈ r, c ≠ []) : joinSep r ≠ [] := by
  cases r with
  | nil => exact absurd rfl hr
  | cons c t =>
    obtain ⟨Y, hY⟩ := joinSep_cons_prefix c t
    have hc : c ≠ [] := h c (by simp)
    rw [hY]
    intro e
    exact hc (List.append_eq_nil_iff.mp e).1

/-! ### `dirname` -/

theorem dropWhile_all {α : Type} (p : α → Bool) (l : List α) (h : ∀ x ∈ l, p x = true) : l.dropWhile p = [] := by
  induction l with
  | nil => rfl
  | cons a t ih => simp [h a (by simp), ih (fun x hx => h x (by simp [hx]))]

theorem dropWhile_prefix {α : Type} (p : α → Bool) (l : List α) (a : α) (r : List α)
    (h : ∀ x ∈ l, p x = true) (ha : p a = false) : (l ++ a :: r).dropWhile p = a :: r := by
  induction l with
  | nil => simp [ha]
  | cons b t ih =>
    simp only [List.cons_append, List.dropWhile_cons, h b (by simp), if_true]
    exact ih (fun x hx => h x (by simp [hx]))

theorem dirname_noSep (m : Name) (hm : sep ∉ m) : dirname m = [] := by
  unfold dirname
  have : m.reverse.dropWhile (· != sep) = [] := by
    apply dropWhile_all
    intro x hx
    have : x ≠ sep := by intro e; apply hm; rw [← e]; exact List.mem_reverse.mp hx
    simp [this]
  simp [this]

/-- `dirname (A/m) = A` when `A` ends in a non-slash and `m` holds no slash -/
theorem dirname_split (X : Name) (x : Char) (m : Name) (hx : x ≠ sep) (hm : sep ∉ m) :
    dirname (X ++ [x] ++ sep :: m) = X ++ [x] := by
  unfold dirname
  have h1 : (X ++ [x] ++ sep :: m).reverse.dropWhile (· != sep) = sep :: x :: X.reverse := by
    have : (X ++ [x] ++ sep :: m).reverse = m.reverse ++ sep :: x :: X.reverse := by simp
    rw [this]
    apply dropWhile_prefix
    · intro y hy
      have : y ≠ sep := by intro e; apply hm; rw [← e]; exact List.mem_reverse.mp hy
      simp [this]
    · simp
  rw [h1]
  have hxs : (x == sep) = false := by simp [hx]
  simp [rstripSep, hxs]

theorem dirname_joinSep (d : List Name) (m : Name) (hd : ∀ c ∈ d, c ≠ [] ∧ sep ∉ c) (hm : sep ∉ m) :
    dirname (joinSep (d ++ [m])) = joinSep d := by
  cases d with
  | nil => simp [joinSep, dirname_noSep m hm]
  | cons a t =>
    rw [joinSep_append (a :: t) [m] (by simp) (by simp)]
    obtain ⟨X, x, hX, hx⟩ := joinSep_ends (a :: t) (by simp) hd
    rw [hX]
    simpa [joinSep] using dirname_split X x m hx hm

/-! ### `join` -/

theorem sep_beq_false (y : Char) (hy : y ≠ sep) : (sep == y) = false := by
  cases h : sep == y with
  | false => rfl
  | true => exact absurd (by simpa using h : sep = y).symm hy

theorem sep_isPrefixOf_cons (y : Char) (Y : Name) (hy : y ≠ sep) : [sep].isPrefixOf (y :: Y) = false := by
  simp [List.isPrefixOf, sep_beq_false y hy]

theorem join_joinSep (d : List Name) (h0 : Name) (t : List Name) (hd : ∀ c ∈ d, c ≠ [] ∧ sep ∉ c)
    (hh : h0 ≠ []) (hs : sep ∉ h0) :
    join (joinSep d) (joinSep (h0 :: t)) = joinSep (d ++ h0 :: t) := by
  obtain ⟨y, Y, hY, hy⟩ := joinSep_starts h0 t hh hs
  unfold join
  have hstart : startsWith (joinSep (h0 :: t)) [sep] = false := by
    rw [hY]; exact sep_isPrefixOf_cons y Y hy
  rw [hstart]
  cases d with
  | nil => simp [joinSep]
  | cons a r =>
    obtain ⟨X, x, hX, hx⟩ := joinSep_ends (a :: r) (by simp) hd
    have hend : endsWith (joinSep (a :: r)) [sep] = false := by
      rw [hX]
      have : ([sep] : Name).isSuffixOf (X ++ [x]) = [sep].isPrefixOf (x :: X.reverse) := by
        simp [List.isSuffixOf]
      unfold endsWith
      rw [this]; exact sep_isPrefixOf_cons x _ hx
    have hemp : (joinSep (a :: r)).isEmpty = false := by rw [hX]; simp
    rw [joinSep_append (a :: r) (h0 :: t) (by simp) (by simp)]
    simp [hend, hemp]

/-! ### `normpath` -/

theorem dot_ne_dotdot : dot ≠ dotdot := by decide

/-- pushing ordinary components -/
theorem foldl_normStep_plain (ini : Bool) (st d : List Name) (hd : ∀ c ∈ d, Plain c) :
    d.foldl (normStep ini) st = st ++ d := by
  induction d generalizing st with
  | nil => simp
  | cons c r ih =>
    obtain ⟨h1, _, h3, h4⟩ := hd c (by simp)
    have : normStep ini st c = st ++ [c] := by
      unfold normStep
      cases c with
      | nil => exact absurd rfl h1
      | cons a b => simp [h3, h4]
    rw [List.foldl_cons, this, ih _ (fun x hx => hd x (by simp [hx]))]
    simp

theorem normStep_dotdot (st : List Name) (h3 : st ≠ []) (hlast : st.getLast? ≠ some dotdot) :
    normStep false st dotdot = st.dropLast := by
  unfold normStep
  have e0 : (dotdot.isEmpty || dotdot == dot) = false := by decide
  have e2 : st.isEmpty = false := by
    cases st with
    | nil => exact absurd rfl h3
    | cons _ _ => rfl
  have e3 : (st.getLast? == some dotdot) = false := by
    cases hb : st.getLast? == some dotdot with
    | false => rfl
    | true => exact absurd (by simpa using hb) hlast
  have e4 : (dotdot != dotdot) = false := by decide
  rw [e0, e2, e3, e4]
  rfl

/-- the plain reading of a relative path against a stack of directories: skip `''` and `.`,
    `..` pops (failing when there is nothing to pop), anything else is pushed -/
def stackResolve : List Name → List Name → Option (List Name)
  | st, [] => some st
  | st, c :: r =>
    if c = [] ∨ c = dot then stackResolve st r
    else if c = dotdot then (if st = [] then none else stackResolve st.dropLast r)
    else stackResolve (st ++ [c]) r

theorem stackResolve_cons (st : List Name) (c : Name) (r : List Name) :
    stackResolve st (c :: r) =
      (if c = [] ∨ c = dot then stackResolve st r
       else if c = dotdot then (if st = [] then none else stackResolve st.dropLast r)
       else stackResolve (st ++ [c]) r) := by
  rw [stackResolve]

/-- a stack that `..` can pop from: no empty and no `..` entries -/
def Stack (st : List Name) : Prop := ∀ c ∈ st, c ≠ [] ∧ c ≠ dotdot

theorem foldl_normStep_stack (st rc r : List Name) (hst : Stack st) (h : stackResolve st rc = some r) :
    rc.foldl (normStep false) st = r ∧ Stack r := by
  induction rc generalizing st with
  | nil => simp [stackResolve] at h; subst h; exact ⟨rfl, hst⟩
  | cons c t ih =>
    rw [List.foldl_cons]
    unfold stackResolve at h
    by_cases h1 : c = [] ∨ c = dot
    · rw [if_pos h1] at h
      have : normStep false st c = st := by
        unfold normStep
        rcases h1 with e | e <;> simp [e]
      rw [this]; exact ih st hst h
    · rw [if_neg h1] at h
      have hc1 : c ≠ [] := fun e => h1 (Or.inl e)
      have hc2 : c ≠ dot := fun e => h1 (Or.inr e)
      by_cases h2 : c = dotdot
      · rw [if_pos h2] at h
        by_cases h3 : st = []
        · rw [if_pos h3] at h; cases h
        · rw [if_neg h3] at h
          have hlast : st.getLast? ≠ some dotdot := by
            intro e
            exact (hst _ (List.mem_of_getLast? e)).2 rfl
          have : normStep false st c = st.dropLast := by
            subst h2; exact normStep_dotdot st h3 hlast
          rw [this]
          exact ih st.dropLast (fun x hx => hst x (List.dropLast_subset st hx)) h
      · rw [if_neg h2] at h
        have : normStep false st c = st ++ [c] := by
          unfold normStep
          cases c with
          | nil => exact absurd rfl hc1
          | cons a b => simp [hc2, h2]
        rw [this]
        refine ih (st ++ [c]) ?_ h
        intro x hx
        rcases List.mem_append.mp hx with hx | hx
        · exact hst x hx
        · simp at hx; subst hx; exact ⟨hc1, h2⟩

theorem normpath_joinSep (c : Name) (t : List Name) (hc : c ≠ []) (hs : ∀ x ∈ c :: t, sep ∉ x) :
    normpath (joinSep (c :: t)) =
      (if (joinSep (normComps false (c :: t))).isEmpty then dot else joinSep (normComps false (c :: t))) := by
  obtain ⟨y, Y, hY, hy⟩ := joinSep_starts c t hc (hs c (by simp))
  unfold normpath
  have hsplit := split_joinSep (c :: t) (by simp) hs
  rw [hsplit]
  rw [hY]
  simp [startsWith, sep_isPrefixOf_cons y Y hy]

/-- text level: resolving a relative path written as components `h0 :: t` against the member
    `d/m` follows the plain stack reading whenever that reading stays inside the container -/
theorem auxPath_stack (d : List Name) (m h0 : Name) (t r : List Name)
    (hd : ∀ c ∈ d, Plain c) (hm : sep ∉ m) (hh : h0 ≠ []) (hs : ∀ c ∈ h0 :: t, sep ∉ c)
    (hres : stackResolve d (h0 :: t) = some r) (hr : r ≠ []) :
    auxPath (joinSep (d ++ [m])) (joinSep (h0 :: t)) = joinSep r := by
  have hd' : ∀ c ∈ d, c ≠ [] ∧ sep ∉ c := fun c hc => ⟨(hd c hc).1, (hd c hc).2.1⟩
  unfold auxPath
  rw [dirname_joinSep d m hd' hm, join_joinSep d h0 t hd' hh (hs h0 (by simp))]
  have hst : Stack d := fun c hc => ⟨(hd c hc).1, (hd c hc).2.2.2⟩
  obtain ⟨hfold, hstack⟩ := foldl_normStep_stack d (h0 :: t) r hst hres
  have hcomps : normComps false (d ++ h0 :: t) = r := by
    unfold normComps
    rw [List.foldl_append, foldl_normStep_plain false [] d hd]
    simpa using hfold
  have hne : joinSep r ≠ [] := joinSep_ne_nil r hr (fun c hc => (hstack c hc).1)
  have hall : ∀ x ∈ d ++ h0 :: t, sep ∉ x := by
    intro x hx
    rcases List.mem_append.mp hx with hx | hx
    · exact (hd x hx).2.1
    · exact hs x hx
  cases d with
  | nil =>
    simp only [List.nil_append] at hcomps hall ⊢
    rw [normpath_joinSep h0 t hh hall, hcomps]
    cases hj : joinSep r with
    | nil => exact absurd hj hne
    | cons _ _ => rfl
  | cons a b =>
    simp only [List.cons_append] at hcomps hall ⊢
    rw [normpath_joinSep a (b ++ h0 :: t) (hd a (by simp)).1 hall, hcomps]
    cases hj : joinSep r with
    | nil => exact absurd hj hne
    | cons _ _ => rfl

/-! ### the three written forms -/

theorem stackResolve_plain (st sub : List Name) (hsub : ∀ c ∈ sub, Plain c) :
    stackResolve st sub = some (st ++ sub) := by
  induction sub generalizing st with
  | nil => simp [stackResolve]
  | cons c r ih =>
    obtain ⟨h1, _, h3, h4⟩ := hsub c (by simp)
    unfold stackResolve
    rw [if_neg (by rintro (e | e) <;> contradiction), if_neg h4, ih _ (fun x hx => hsub x (by simp [hx]))]
    simp

theorem stackResolve_dots (st rest : List Name) (j : Nat) :
    stackResolve st (List.replicate j dot ++ rest) = stackResolve st rest := by
  induction j with
  | zero => simp
  | succ n ih =>
    rw [List.replicate_succ, List.cons_append, stackResolve_cons, if_pos (Or.inr rfl)]
    exact ih

theorem stackResolve_ups (st rest : List Name) (k : Nat) (hk : k ≤ st.length) :
    stackResolve st (List.replicate k dotdot ++ rest) = stackResolve (st.take (st.length - k)) rest := by
  induction k generalizing st with
  | zero => simp
  | succ n ih =>
    have hne : st ≠ [] := by intro e; subst e; simp at hk
    have e1 : ¬ (dotdot = [] ∨ dotdot = dot) := by decide
    rw [List.replicate_succ, List.cons_append, stackResolve_cons, if_neg e1, if_pos rfl, if_neg hne]
    rw [ih st.dropLast (by simp; omega)]
    have hlist : st.dropLast.take (st.dropLast.length - n) = st.take (st.length - (n + 1)) := by
      rw [List.dropLast_eq_take, List.take_take, List.length_take]
      congr 1
      omega
    rw [hlist]

end Pyc.Container
