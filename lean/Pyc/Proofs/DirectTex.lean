import Pyc.Model.DirectTex
namespace Pyc.DirectTex

structure Inv (s : St) : Prop where
  scope_param : ∀ k u, s.scope.get k = some u → (k, u) ∈ s.params
  param_scope : ∀ k u, (k, u) ∈ s.params → s.scope.get k = some u
  maps_scope : ∀ key im u, (key, im, u) ∈ s.maps → s.scope.get (.samp im) = some u
  nodup : (s.params.map (·.1)).Nodup
  surf_samp : ∀ im, s.scope.get (.samp im) = none → s.scope.get (.surf im) = none

theorem inv_init : Inv init :=
  ⟨by intro k u h; simp [init, Scope.get] at h, by intro k u h; simp [init] at h,
   by intro a b c h; simp [init] at h, by simp [init], by intro im _; simp [init, Scope.get]⟩

theorem inv_step (s : St) (p : String × String) (h : Inv s) : Inv (step s p) := by
  unfold step
  cases hg : s.scope.get (.samp p.2) with
  | some u =>
    refine ⟨h.scope_param, h.param_scope, ?_, h.nodup, h.surf_samp⟩
    intro key im u' hm
    simp only [List.mem_append, List.mem_singleton, Prod.mk.injEq] at hm
    rcases hm with hm | ⟨_, rfl, rfl⟩
    · exact h.maps_scope key im u' hm
    · exact hg
  | none =>
    have hs := h.surf_samp p.2 hg
    have notin : ∀ k, s.scope.get k = none → ∀ u, (k, u) ∉ s.params := by
      intro k hk u hu; have := h.param_scope k u hu; rw [hk] at this; cases this
    refine ⟨?_, ?_, ?_, ?_, ?_⟩
    · intro k u hk
      simp only [Scope.get] at hk
      simp only [List.mem_append, List.mem_cons, List.mem_nil_iff, or_false, Prod.mk.injEq]
      split at hk
      · rename_i e; cases hk; exact Or.inr (Or.inr ⟨e.symm, rfl⟩)
      · split at hk
        · rename_i e; cases hk; exact Or.inr (Or.inl ⟨e.symm, rfl⟩)
        · exact Or.inl (h.scope_param k u hk)
    · intro k u hk
      simp only [List.mem_append, List.mem_cons, List.mem_nil_iff, or_false, Prod.mk.injEq] at hk
      simp only [Scope.get]
      rcases hk with hk | ⟨rfl, rfl⟩ | ⟨rfl, rfl⟩
      · have hk' := h.param_scope k u hk
        have n1 : ¬ (PId.samp p.2 = k) := by intro e; subst e; rw [hg] at hk'; cases hk'
        have n2 : ¬ (PId.surf p.2 = k) := by intro e; subst e; rw [hs] at hk'; cases hk'
        simp [n1, n2, hk']
      · simp
      · simp
    · intro key im u hm
      simp only [List.mem_append, List.mem_singleton, Prod.mk.injEq] at hm
      simp only [Scope.get]
      rcases hm with hm | ⟨_, rfl, rfl⟩
      · have hk' := h.maps_scope key im u hm
        have n1 : ¬ (PId.samp p.2 = PId.samp im) := by intro e; rw [← e, hg] at hk'; cases hk'
        simp [n1, hk']
      · simp
    · simp only [List.map_append, List.map_cons, List.map_nil]
      rw [List.nodup_append]
      refine ⟨h.nodup, by simp, ?_⟩
      intro a ha b hb
      simp only [List.mem_map, Prod.exists, exists_and_right, exists_eq_right] at ha
      obtain ⟨u, hu⟩ := ha
      simp only [List.mem_cons, List.mem_nil_iff, or_false] at hb
      rcases hb with rfl | rfl
      · intro e; subst e; exact notin _ hs u hu
      · intro e; subst e; exact notin _ hg u hu
    · intro im hn
      simp only [Scope.get] at hn ⊢
      by_cases e : p.2 = im
      · subst e; simp at hn
      · have n1 : ¬ (PId.samp p.2 = PId.samp im) := by intro e'; cases e'; exact e rfl
        have n2 : ¬ (PId.surf p.2 = PId.samp im) := by intro e'; cases e'
        have n3 : ¬ (PId.surf p.2 = PId.surf im) := by intro e'; cases e'; exact e rfl
        have n4 : ¬ (PId.samp p.2 = PId.surf im) := by intro e'; cases e'
        simp only [n1, n2, if_false] at hn
        simp only [n3, n4, if_false]
        exact h.surf_samp im hn

theorem inv_foldl (ps : List (String × String)) : ∀ s, Inv s → Inv (ps.foldl step s) := by
  induction ps with
  | nil => intro s h; exact h
  | cons p t ih => intro s h; exact ih _ (inv_step s p h)

theorem inv_run (ps : List (String × String)) : Inv (run ps) := inv_foldl ps _ inv_init

end Pyc.DirectTex

namespace Pyc.DirectTex

/-- every sampler in scope has its surface among the parameters -/
def Paired (s : St) : Prop := ∀ im u, s.scope.get (.samp im) = some u → ∃ v, (PId.surf im, v) ∈ s.params

theorem paired_init : Paired init := by intro im u h; simp [init, Scope.get] at h

theorem paired_step (s : St) (p : String × String) (h : Paired s) : Paired (step s p) := by
  unfold step
  cases hg : s.scope.get (.samp p.2) with
  | some u => exact h
  | none =>
    intro im u hu
    simp only [Scope.get] at hu
    by_cases e : p.2 = im
    · subst e; exact ⟨s.next, by simp⟩
    · have n1 : ¬ (PId.samp p.2 = PId.samp im) := by intro e'; cases e'; exact e rfl
      have n2 : ¬ (PId.surf p.2 = PId.samp im) := by intro e'; cases e'
      simp only [n1, n2, if_false] at hu
      obtain ⟨v, hv⟩ := h im u hu
      exact ⟨v, by simp [hv]⟩

/-- parameters are made up for exactly the images named, nothing else -/
theorem ids_foldl (ps : List (String × String)) : ∀ s, Inv s → Paired s → ∀ k,
    k ∈ (ps.foldl step s).params.map (·.1) ↔
      k ∈ s.params.map (·.1) ∨ ∃ p ∈ ps, k = .samp p.2 ∨ k = .surf p.2 := by
  induction ps with
  | nil => intro s _ _ k; simp
  | cons p t ih =>
    intro s hi hp k
    rw [List.foldl_cons, ih _ (inv_step s p hi) (paired_step s p hp)]
    have key : k ∈ (step s p).params.map (·.1) ↔ k ∈ s.params.map (·.1) ∨ k = .samp p.2 ∨ k = .surf p.2 := by
      unfold step
      cases hg : s.scope.get (.samp p.2) with
      | some u =>
        have h1 := hi.scope_param _ _ hg
        obtain ⟨v, hv⟩ := hp _ _ hg
        constructor
        · intro h; exact Or.inl h
        · rintro (h | rfl | rfl)
          · exact h
          · exact List.mem_map.mpr ⟨_, h1, rfl⟩
          · exact List.mem_map.mpr ⟨_, hv, rfl⟩
      | none =>
        simp only [List.map_append, List.map_cons, List.map_nil, List.mem_append, List.mem_cons,
          List.mem_nil_iff, or_false]
        constructor
        · rintro (h | rfl | rfl)
          · exact Or.inl h
          · exact Or.inr (Or.inr rfl)
          · exact Or.inr (Or.inl rfl)
        · rintro (h | rfl | rfl)
          · exact Or.inl h
          · exact Or.inr (Or.inr rfl)
          · exact Or.inr (Or.inl rfl)
    rw [key]
    simp only [List.mem_cons, exists_eq_or_imp]
    constructor
    · rintro ((h | h) | h)
      · exact Or.inl h
      · exact Or.inr (Or.inl h)
      · exact Or.inr (Or.inr h)
    · rintro (h | h | h)
      · exact Or.inl (Or.inl h)
      · exact Or.inl (Or.inr h)
      · exact Or.inr h

theorem ids_run (ps : List (String × String)) (k : PId) :
    k ∈ (run ps).params.map (·.1) ↔ ∃ p ∈ ps, k = .samp p.2 ∨ k = .surf p.2 := by
  have := ids_foldl ps init inv_init paired_init k
  simpa [run, init] using this

end Pyc.DirectTex
