/- Helper lemmas for the C18 theorems (Pyc/Props/C18.lean). -/
import Pyc.Model.Normals
import Mathlib.Tactic.Ring
import Mathlib.Tactic.LinearCombination
import Mathlib.Tactic.Abel
import Mathlib.Algebra.Order.Field.Basic

namespace Pyc.Normals
open V3

/-! ### scatter accumulation over an additive commutative monoid -/

section scatter
variable {β : Type}

/-- sum of the contributions addressed to `v` in a list of (index, value) pairs -/
def fsum [Add β] [Zero β] (v : Nat) (l : List (Nat × β)) : β :=
  ((l.filter (fun p => p.1 == v)).map (·.2)).sum

variable [AddCommMonoid β]

@[simp] theorem fsum_nil (v : Nat) : fsum v ([] : List (Nat × β)) = 0 := rfl

theorem fsum_cons (v : Nat) (p : Nat × β) (l : List (Nat × β)) :
    fsum v (p :: l) = (if p.1 = v then p.2 else 0) + fsum v l := by
  unfold fsum
  by_cases h : p.1 = v
  · simp [h]
  · simp [h]

theorem fsum_append (v : Nat) (l₁ l₂ : List (Nat × β)) :
    fsum v (l₁ ++ l₂) = fsum v l₁ + fsum v l₂ := by
  induction l₁ with
  | nil => simp
  | cons p l ih => simp only [List.cons_append, fsum_cons, ih, add_assoc]

theorem addAt_length (acc : List β) (i : Nat) (x : β) : (addAt acc i x).length = acc.length := by
  simp [addAt]

theorem getElem?_addAt (acc : List β) (i v : Nat) (x a : β) (h : acc[v]? = some a) :
    (addAt acc i x)[v]? = some (if i = v then a + x else a) := by
  unfold addAt
  rw [List.getElem?_modify, h]
  by_cases hi : i = v <;> simp [hi]

/-- one `numpy.add.at` call: every pair addressed to `v` is added, whatever its multiplicity -/
theorem foldl_addAt_getElem? (l : List (Nat × β)) :
    ∀ (acc : List β) (v : Nat) (a : β), acc[v]? = some a →
      (l.foldl (fun a p => addAt a p.1 p.2) acc)[v]? = some (a + fsum v l) := by
  induction l with
  | nil => intro acc v a h; simpa using h
  | cons p l ih =>
    intro acc v a h
    simp only [List.foldl_cons]
    rw [ih _ v _ (getElem?_addAt acc p.1 v p.2 a h), fsum_cons]
    by_cases hi : p.1 = v
    · simp [hi, add_assoc]
    · simp [hi]

theorem scatterAdd_getElem? (acc : List β) (idx : List Nat) (vals : List β) (v : Nat) (a : β)
    (h : acc[v]? = some a) :
    (scatterAdd acc idx vals)[v]? = some (a + fsum v (idx.zip vals)) :=
  foldl_addAt_getElem? _ acc v a h

theorem scatterAdd_length (acc : List β) (idx : List Nat) (vals : List β) :
    (scatterAdd acc idx vals).length = acc.length := by
  unfold scatterAdd
  generalize idx.zip vals = l
  induction l generalizing acc with
  | nil => rfl
  | cons p l ih => simp only [List.foldl_cons]; rw [ih, addAt_length]

/-- the three column sums together are the sum over all (triangle, corner) pairs -/
theorem columns_eq_corners (v : Nat) (Z : List (Tri × β)) :
    fsum v (Z.map (fun p => (p.1.a, p.2))) + fsum v (Z.map (fun p => (p.1.b, p.2)))
      + fsum v (Z.map (fun p => (p.1.c, p.2)))
    = fsum v (Z.flatMap (fun p => [(p.1.a, p.2), (p.1.b, p.2), (p.1.c, p.2)])) := by
  induction Z with
  | nil => simp
  | cons p Z ih =>
    simp only [List.map_cons, List.flatMap_cons, fsum_cons, fsum_append, fsum_nil, ← ih]
    abel

theorem accumulate_length (nverts : Nat) (tris : List Tri) (ns : List β) :
    (accumulate nverts tris ns).length = nverts := by
  simp [accumulate, scatterAdd_length]

theorem accumulate_getElem? (nverts : Nat) (tris : List Tri) (ns : List β) (v : Nat)
    (hv : v < nverts) : (accumulate nverts tris ns)[v]? = some (incident v tris ns) := by
  have h0 : (List.replicate nverts (0 : β))[v]? = some 0 := by simp [hv]
  unfold accumulate
  rw [scatterAdd_getElem? _ _ _ v _ (scatterAdd_getElem? _ _ _ v _ (scatterAdd_getElem? _ _ _ v _ h0))]
  have hz : ∀ f : Tri → Nat, (tris.map f).zip ns = (tris.zip ns).map (fun p => (f p.1, p.2)) := by
    intro f
    rw [List.zip_map_left]
    rfl
  rw [hz, hz, hz, zero_add, columns_eq_corners]
  rfl

end scatter

/-! ### `mapM` over `Option` -/

theorem mapM_some_length {γ δ : Type} (f : γ → Option δ) :
    ∀ (l : List γ) (r : List δ), l.mapM f = some r → r.length = l.length := by
  intro l
  induction l with
  | nil => intro r h; simp at h; subst h; rfl
  | cons a l ih =>
    intro r h
    rw [List.mapM_cons] at h
    cases hfa : f a with
    | none => simp [hfa] at h
    | some b =>
      cases hl : l.mapM f with
      | none => simp [hfa, hl] at h
      | some r' =>
        simp [hfa, hl] at h
        subst h
        simp [ih r' hl]

theorem mapM_some_getElem? {γ δ : Type} (f : γ → Option δ) :
    ∀ (l : List γ) (r : List δ), l.mapM f = some r →
      ∀ (i : Nat) (a : γ), l[i]? = some a → ∃ b, f a = some b ∧ r[i]? = some b := by
  intro l
  induction l with
  | nil => intro r _ i a hi; simp at hi
  | cons a l ih =>
    intro r h i x hi
    rw [List.mapM_cons] at h
    cases hfa : f a with
    | none => simp [hfa] at h
    | some b =>
      cases hl : l.mapM f with
      | none => simp [hfa, hl] at h
      | some r' =>
        simp [hfa, hl] at h
        subst h
        cases i with
        | zero => simp at hi; subst hi; exact ⟨b, hfa, by simp⟩
        | succ j =>
          simp at hi
          obtain ⟨b', hb', hr'⟩ := ih r' hl j x hi
          exact ⟨b', hb', by simpa using hr'⟩

theorem mapM_isSome_iff {γ δ : Type} (f : γ → Option δ) (l : List γ) :
    (l.mapM f).isSome ↔ ∀ a ∈ l, (f a).isSome := by
  induction l with
  | nil => simp
  | cons a l ih =>
    rw [List.mapM_cons]
    cases hfa : f a with
    | none => simp [hfa]
    | some b =>
      cases hl : l.mapM f with
      | none =>
        have : ¬ ∀ a ∈ l, (f a).isSome := by rw [← ih, hl]; simp
        simp [hfa, this]
      | some r' =>
        have : ∀ a ∈ l, (f a).isSome := by rw [← ih, hl]; simp
        simpa [hfa] using this

theorem lookupTri_isSome {γ : Type} (V : List γ) (t : Tri) :
    (lookupTri V t).isSome ↔ t.a < V.length ∧ t.b < V.length ∧ t.c < V.length := by
  unfold lookupTri
  constructor
  · intro h
    cases ha : V[t.a]? with
    | none => simp [ha] at h
    | some _ =>
      cases hb : V[t.b]? with
      | none => simp [ha, hb] at h
      | some _ =>
        cases hc : V[t.c]? with
        | none => simp [ha, hb, hc] at h
        | some _ =>
          exact ⟨(List.getElem?_eq_some_iff.mp ha).1, (List.getElem?_eq_some_iff.mp hb).1,
            (List.getElem?_eq_some_iff.mp hc).1⟩
  · rintro ⟨ha, hb, hc⟩
    simp [List.getElem?_eq_getElem ha, List.getElem?_eq_getElem hb, List.getElem?_eq_getElem hc]

theorem lookupTri_eq_some {γ : Type} (V : List γ) (t : Tri) (p : γ × γ × γ) :
    lookupTri V t = some p ↔ V[t.a]? = some p.1 ∧ V[t.b]? = some p.2.1 ∧ V[t.c]? = some p.2.2 := by
  obtain ⟨p0, p1, p2⟩ := p
  unfold lookupTri
  cases ha : V[t.a]? with
  | none => simp
  | some _ =>
    cases hb : V[t.b]? with
    | none => simp
    | some _ =>
      cases hc : V[t.c]? with
      | none => simp
      | some _ => simp

/-! ### vector algebra over a commutative ring -/

section ring
variable {α : Type}

@[ext] theorem V3.ext' {a b : V3 α} (hx : a.x = b.x) (hy : a.y = b.y) (hz : a.z = b.z) : a = b := by
  cases a; cases b; simp_all

@[simp] theorem add_x [Add α] (a b : V3 α) : (a + b).x = a.x + b.x := rfl
@[simp] theorem add_y [Add α] (a b : V3 α) : (a + b).y = a.y + b.y := rfl
@[simp] theorem add_z [Add α] (a b : V3 α) : (a + b).z = a.z + b.z := rfl
@[simp] theorem sub_x [Sub α] (a b : V3 α) : (a - b).x = a.x - b.x := rfl
@[simp] theorem sub_y [Sub α] (a b : V3 α) : (a - b).y = a.y - b.y := rfl
@[simp] theorem sub_z [Sub α] (a b : V3 α) : (a - b).z = a.z - b.z := rfl
@[simp] theorem zero_x [Zero α] : (0 : V3 α).x = 0 := rfl
@[simp] theorem zero_y [Zero α] : (0 : V3 α).y = 0 := rfl
@[simp] theorem zero_z [Zero α] : (0 : V3 α).z = 0 := rfl
@[simp] theorem smul_x [Mul α] (k : α) (a : V3 α) : (smul k a).x = k * a.x := rfl
@[simp] theorem smul_y [Mul α] (k : α) (a : V3 α) : (smul k a).y = k * a.y := rfl
@[simp] theorem smul_z [Mul α] (k : α) (a : V3 α) : (smul k a).z = k * a.z := rfl
@[simp] theorem cross_x [Sub α] [Mul α] (a b : V3 α) : (cross a b).x = a.y * b.z - a.z * b.y := rfl
@[simp] theorem cross_y [Sub α] [Mul α] (a b : V3 α) : (cross a b).y = a.z * b.x - a.x * b.z := rfl
@[simp] theorem cross_z [Sub α] [Mul α] (a b : V3 α) : (cross a b).z = a.x * b.y - a.y * b.x := rfl

/-- componentwise addition makes `V3 α` an additive commutative monoid (so the scatter theorems
    apply to arrays of vectors) -/
instance instAddCommMonoidV3 [AddCommMonoid α] : AddCommMonoid (V3 α) where
  add := (· + ·)
  zero := 0
  add_assoc a b c := by ext <;> simp [add_assoc]
  zero_add a := by ext <;> simp
  add_zero a := by ext <;> simp
  add_comm a b := by ext <;> simp [add_comm]
  nsmul := nsmulRec

variable [CommRing α]

theorem cross_smul_smul (a b : α) (u w : V3 α) :
    cross (smul a u) (smul b w) = smul (a * b) (cross u w) := by
  ext <;> simp <;> ring

/-- the edge vectors used by `Triangle.__init__` give the right-hand cross product -/
theorem cross_tri_edges (v0 v1 v2 : V3 α) :
    cross (v2 - v0) (v0 - v1) = cross (v1 - v0) (v2 - v0) := by
  ext <;> simp <;> ring

theorem dot_cross_left (u w : V3 α) : dot (cross u w) u = 0 := by
  simp [dot]; ring

theorem dot_cross_right (u w : V3 α) : dot (cross u w) w = 0 := by
  simp [dot]; ring

theorem dot_smul_left (k : α) (u w : V3 α) : dot (smul k u) w = k * dot u w := by
  simp [dot]; ring

theorem dot_smul_right (k : α) (u w : V3 α) : dot u (smul k w) = k * dot u w := by
  simp [dot]; ring

theorem dot_comm (u w : V3 α) : dot u w = dot w u := by
  simp [dot]; ring

theorem dot_gsResidual (n t : V3 α) (h : dot n n = 1) : dot (gsResidual n t) n = 0 := by
  have e : dot (gsResidual n t) n = dot n t * (1 - dot n n) := by
    simp [dot, gsResidual]; ring
  rw [e, h]; ring

theorem gsResidual_smul (c : α) (S t : V3 α) (h : c * c * dot S S = 1) :
    gsResidual (smul c S) t = smul (c * c) (gsDir S t) := by
  have hx : t.x = (c * c * dot S S) * t.x := by rw [h]; ring
  have hy : t.y = (c * c * dot S S) * t.y := by rw [h]; ring
  have hz : t.z = (c * c * dot S S) * t.z := by rw [h]; ring
  ext
  · simp only [gsResidual, gsDir, sub_x, smul_x]
    rw [dot_smul_left]
    linear_combination hx
  · simp only [gsResidual, gsDir, sub_y, smul_y]
    rw [dot_smul_left]
    linear_combination hy
  · simp only [gsResidual, gsDir, sub_z, smul_z]
    rw [dot_smul_left]
    linear_combination hz

theorem dot_gsDir (S t : V3 α) : dot (gsDir S t) S = 0 := by
  simp [dot, gsDir]; ring

end ring

/-! ### order: positive multiples -/

section order
variable {α : Type} [Field α] [LinearOrder α] [IsStrictOrderedRing α]

theorem dot_self_nonneg (u : V3 α) : 0 ≤ dot u u := by
  unfold dot
  exact add_nonneg (add_nonneg (mul_self_nonneg u.x) (mul_self_nonneg u.y)) (mul_self_nonneg u.z)

theorem dot_self_pos (u : V3 α) (h : u ≠ 0) : 0 < dot u u := by
  rcases lt_or_eq_of_le (dot_self_nonneg u) with hlt | heq
  · exact hlt
  · exfalso
    apply h
    unfold dot at heq
    have hx := mul_self_nonneg u.x
    have hy := mul_self_nonneg u.y
    have hz := mul_self_nonneg u.z
    have hxy : 0 ≤ u.x * u.x + u.y * u.y := add_nonneg hx hy
    have ez : u.z * u.z = 0 := le_antisymm (by rw [heq]; exact le_add_of_nonneg_left hxy) hz
    have hxy0 : u.x * u.x + u.y * u.y = 0 := by rw [ez, add_zero] at heq; exact heq.symm
    have ey : u.y * u.y = 0 := le_antisymm (by rw [← hxy0]; exact le_add_of_nonneg_left hx) hy
    have ex : u.x * u.x = 0 := by rw [ey, add_zero] at hxy0; exact hxy0
    ext
    · exact mul_self_eq_zero.mp ex
    · exact mul_self_eq_zero.mp ey
    · exact mul_self_eq_zero.mp ez

theorem smul_ne_zero' (k : α) (u : V3 α) (hk : k ≠ 0) (hu : u ≠ 0) : smul k u ≠ 0 := by
  intro h
  apply hu
  have hx : k * u.x = 0 := congrArg V3.x h
  have hy : k * u.y = 0 := congrArg V3.y h
  have hz : k * u.z = 0 := congrArg V3.z h
  ext
  · exact (mul_eq_zero.mp hx).resolve_left hk
  · exact (mul_eq_zero.mp hy).resolve_left hk
  · exact (mul_eq_zero.mp hz).resolve_left hk

omit [LinearOrder α] [IsStrictOrderedRing α] in
theorem cross_ne_zero_left (u w : V3 α) (h : cross u w ≠ 0) : u ≠ 0 := by
  intro hu; apply h; subst hu; ext <;> simp

omit [LinearOrder α] [IsStrictOrderedRing α] in
theorem cross_ne_zero_right (u w : V3 α) (h : cross u w ≠ 0) : w ≠ 0 := by
  intro hw; apply h; subst hw; ext <;> simp

end order

end Pyc.Normals
