/- Helper lemmas for the value-level writers (Props C06). -/
import Pyc.Model.Emit

namespace Pyc.Emit
variable {β : Type}

/-- number of children carrying tag `k` -/
def cnt (kids : Kids β) (k : String) : Nat := (kids.filter (fun c => c.1 == k)).length

theorem cnt_cons (t : String) (v : β) (r : Kids β) (k : String) :
    cnt ((t, v) :: r) k = (if t = k then 1 else 0) + cnt r k := by
  unfold cnt
  by_cases h : t = k <;> simp [List.filter_cons, h] <;> omega

theorem cnt_append (a b : Kids β) (k : String) : cnt (a ++ b) k = cnt a k + cnt b k := by
  simp [cnt, List.filter_append]

theorem find_none_of_cnt_zero (kids : Kids β) (k : String) (h : cnt kids k = 0) : find kids k = none := by
  induction kids with
  | nil => rfl
  | cons c r ih =>
    obtain ⟨t, v⟩ := c
    rw [cnt_cons] at h
    by_cases e : t = k
    · simp [e] at h
    · simp [e] at h; simp [find, e, ih h]

theorem filter_ne_of_cnt_zero (kids : Kids β) (k : String) (h : cnt kids k = 0) :
    kids.filter (fun c => c.1 != k) = kids := by
  induction kids with
  | nil => rfl
  | cons c r ih =>
    obtain ⟨t, v⟩ := c
    rw [cnt_cons] at h
    by_cases e : t = k
    · simp [e] at h
    · simp [e] at h; simp [List.filter_cons, e, ih h]

theorem find_isSome_iff (kids : Kids β) (k : String) : (find kids k).isSome ↔ 0 < cnt kids k := by
  induction kids with
  | nil => simp [find, cnt]
  | cons c r ih =>
    obtain ⟨t, v⟩ := c
    rw [cnt_cons]
    by_cases e : t = k
    · simp [find, e]; omega
    · simp [find, e, ih]

theorem dropTag_eq_filter (kids : Kids β) (k : String) (h : cnt kids k ≤ 1) :
    dropTag kids k = kids.filter (fun c => c.1 != k) := by
  induction kids with
  | nil => simp [dropTag, find]
  | cons c r ih =>
    obtain ⟨t, v⟩ := c
    rw [cnt_cons] at h
    by_cases e : t = k
    · subst e
      simp at h
      have h0 : cnt r t = 0 := by omega
      simp [dropTag, find, removeFirst, List.filter_cons, filter_ne_of_cnt_zero r t h0]
    · simp [e] at h
      have ih' := ih h
      have hne : (t != k) = true := by simp [e]
      rw [List.filter_cons_of_pos (by simpa using hne), ← ih']
      unfold dropTag
      simp only [find, e, if_false]
      cases hf : find r k with
      | none => rfl
      | some x => simp [removeFirst, e]

theorem cnt_filter_ne (kids : Kids β) (k q : String) (h : q ≠ k) :
    cnt (kids.filter (fun c => c.1 != k)) q = cnt kids q := by
  induction kids with
  | nil => rfl
  | cons c r ih =>
    obtain ⟨t, v⟩ := c
    by_cases e : t = k
    · subst e
      have : ¬ t = q := fun x => h x.symm
      simp [List.filter_cons, cnt_cons, this, ih]
    · simp [List.filter_cons, e, cnt_cons, ih]

end Pyc.Emit
