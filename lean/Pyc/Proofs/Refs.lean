/- Helper lemmas for the instance_node retry loop (Props C07). -/
import Pyc.Model.Refs

namespace Pyc.Refs

/-- every loaded id belongs to a definition all of whose references were loaded before it -/
def Closed (defs : List NodeDef) (l : List String) : Prop :=
  ∀ a b id, l = a ++ id :: b → ∃ n ∈ defs, n.id = id ∧ ∀ r ∈ n.refs, r ∈ a

theorem closed_nil (defs : List NodeDef) : Closed defs [] := by
  intro a b id h
  cases a <;> simp at h

theorem closed_snoc {defs : List NodeDef} {l : List String} {n : NodeDef} (hc : Closed defs l)
    (hn : n ∈ defs) (hl : canLoad l n = true) : Closed defs (l ++ [n.id]) := by
  intro a b id h
  rcases List.eq_nil_or_concat b with hb | ⟨b', x, hb⟩
  · subst hb
    have h' : l ++ [n.id] = a ++ [id] := h
    have := List.append_inj' h' rfl
    obtain ⟨h1, h2⟩ := this
    simp at h2
    refine ⟨n, hn, h2, ?_⟩
    intro r hr
    simp only [canLoad, List.all_eq_true] at hl
    have := hl r hr
    rw [← h1]
    simpa using this
  · subst hb
    have h' : l ++ [n.id] = (a ++ id :: b') ++ [x] := by simpa [List.concat_eq_append] using h
    have := List.append_inj' h' rfl
    exact hc a b' id this.1

theorem pass_spec (defs : List NodeDef) : ∀ (p : List NodeDef) (l : List String),
    (∀ n ∈ p, n ∈ defs) → Closed defs l →
    Closed defs (pass l p).1 ∧
    (∀ x ∈ l, x ∈ (pass l p).1) ∧
    (∀ n ∈ p, n.id ∈ (pass l p).1 ∨ n ∈ (pass l p).2) ∧
    (∀ n ∈ (pass l p).2, n ∈ p) ∧
    (∀ x ∈ (pass l p).1, x ∈ l ∨ ∃ n ∈ p, n.id = x) ∧
    (pass l p).2.length ≤ p.length ∧
    ((pass l p).2.length = p.length → (pass l p).1 = l ∧ (pass l p).2 = p ∧ ∀ n ∈ p, canLoad l n = false)
  | [], l, _, hc => by simp [pass, hc]
  | n :: ns, l, hp, hc => by
    by_cases h : canLoad l n = true
    · have ih := pass_spec defs ns (l ++ [n.id]) (fun m hm => hp m (List.mem_cons_of_mem _ hm))
        (closed_snoc hc (hp n (List.mem_cons_self ..)) h)
      simp only [pass, h, if_true]
      obtain ⟨i1, i2, i3, i4, i5, i6, i7⟩ := ih
      refine ⟨i1, ?_, ?_, ?_, ?_, ?_, ?_⟩
      · intro x hx; exact i2 x (by simp [hx])
      · intro m hm
        rcases List.mem_cons.mp hm with e | hm
        · subst e; left; exact i2 _ (by simp)
        · exact i3 m hm
      · intro m hm; exact List.mem_cons_of_mem _ (i4 m hm)
      · intro x hx
        rcases i5 x hx with h1 | ⟨m, hm, e⟩
        · rcases List.mem_append.mp h1 with h2 | h2
          · left; exact h2
          · right; refine ⟨n, List.mem_cons_self .., ?_⟩; simp at h2; exact h2.symm
        · right; exact ⟨m, List.mem_cons_of_mem _ hm, e⟩
      · simp only [List.length_cons]; omega
      · intro hlen
        simp only [List.length_cons] at hlen
        omega
    · have hf : canLoad l n = false := by simpa using h
      have ih := pass_spec defs ns l (fun m hm => hp m (List.mem_cons_of_mem _ hm)) hc
      simp only [pass, hf, Bool.false_eq_true, if_false]
      obtain ⟨i1, i2, i3, i4, i5, i6, i7⟩ := ih
      refine ⟨i1, i2, ?_, ?_, ?_, ?_, ?_⟩
      · intro m hm
        rcases List.mem_cons.mp hm with e | hm
        · subst e; right; exact List.mem_cons_self ..
        · rcases i3 m hm with h1 | h1
          · left; exact h1
          · right; exact List.mem_cons_of_mem _ h1
      · intro m hm
        rcases List.mem_cons.mp hm with e | hm
        · subst e; exact List.mem_cons_self ..
        · exact List.mem_cons_of_mem _ (i4 m hm)
      · intro x hx
        rcases i5 x hx with h1 | ⟨m, hm, e⟩
        · left; exact h1
        · right; exact ⟨m, List.mem_cons_of_mem _ hm, e⟩
      · simp only [List.length_cons]; omega
      · intro hlen
        simp only [List.length_cons, Nat.add_right_cancel_iff] at hlen
        obtain ⟨j1, j2, j3⟩ := i7 hlen
        refine ⟨j1, by rw [j2], ?_⟩
        intro m hm
        rcases List.mem_cons.mp hm with e | hm
        · subst e; exact hf
        · exact j3 m hm

/-- the state the loop is in -/
structure Inv (defs : List NodeDef) (l : List String) (p : List NodeDef) : Prop where
  closed : Closed defs l
  sub : ∀ n ∈ p, n ∈ defs
  part : ∀ n ∈ defs, n.id ∈ l ∨ n ∈ p
  from_defs : ∀ x ∈ l, ∃ n ∈ defs, n.id = x

theorem retry_spec (defs : List NodeDef) : ∀ (f : Nat) (l : List String) (p : List NodeDef),
    Inv defs l p → p.length < f →
    Inv defs (retry f l p).1 (retry f l p).2 ∧ ∀ n ∈ (retry f l p).2, canLoad (retry f l p).1 n = false
  | 0, l, p, _, hf => by omega
  | f + 1, l, p, hi, hf => by
    have hs := pass_spec defs p l hi.sub hi.closed
    obtain ⟨s1, s2, s3, s4, s5, s6, s7⟩ := hs
    have hinv : Inv defs (pass l p).1 (pass l p).2 := by
      refine ⟨s1, fun n hn => hi.sub n (s4 n hn), ?_, ?_⟩
      · intro n hn
        rcases hi.part n hn with h | h
        · left; exact s2 _ h
        · exact s3 n h
      · intro x hx
        rcases s5 x hx with h | ⟨n, hn, e⟩
        · exact hi.from_defs x h
        · exact ⟨n, hi.sub n hn, e⟩
    simp only [retry]
    by_cases hlen : (pass l p).2.length = p.length
    · simp only [hlen, if_true]
      refine ⟨hinv, ?_⟩
      obtain ⟨j1, j2, j3⟩ := s7 hlen
      intro n hn
      rw [j1]
      rw [j2] at hn
      exact j3 n hn
    · simp only [hlen, if_false]
      exact retry_spec defs f _ _ hinv (by omega)

end Pyc.Refs
