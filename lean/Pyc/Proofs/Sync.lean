/- Helper lemmas for the child-reconciliation model (used by Props C02, C03, C06). -/
import Pyc.Model.Sync

namespace Pyc.Sync
variable {α : Type} [DecidableEq α]

theorem isM_of_mem_wanted (managed : α → Bool) (wanted : List α) {c : α} (h : c ∈ wanted) :
    isM managed wanted c = true := by
  simp [isM, h]

theorem kept_not_isM (managed : α → Bool) (wanted old : List α) :
    ∀ c ∈ kept managed wanted old, isM managed wanted c = false := by
  intro c hc
  simp [kept] at hc
  simpa using hc.2

theorem filter_isM_kept (managed : α → Bool) (wanted old : List α) :
    (kept managed wanted old).filter (isM managed wanted) = [] := by
  rw [List.filter_eq_nil_iff]
  intro c hc
  simp [kept_not_isM managed wanted old c hc]

theorem filter_notM_kept (managed : α → Bool) (wanted old : List α) :
    (kept managed wanted old).filter (fun c => !isM managed wanted c) = kept managed wanted old := by
  rw [List.filter_eq_self]
  intro c hc
  simp [kept_not_isM managed wanted old c hc]

theorem filter_isM_wanted (managed : α → Bool) (wanted : List α) :
    wanted.filter (isM managed wanted) = wanted := by
  rw [List.filter_eq_self]
  intro c hc
  exact isM_of_mem_wanted managed wanted hc

theorem filter_notM_wanted (managed : α → Bool) (wanted : List α) :
    wanted.filter (fun c => !isM managed wanted c) = [] := by
  rw [List.filter_eq_nil_iff]
  intro c hc
  simp [isM_of_mem_wanted managed wanted hc]

omit [DecidableEq α] in
theorem filter_take_drop (p : α → Bool) (l : List α) (n : Nat) :
    (l.take n).filter p ++ (l.drop n).filter p = l.filter p := by
  rw [← List.filter_append, List.take_append_drop]

end Pyc.Sync

namespace Pyc.Sync
variable {α : Type} [DecidableEq α]

theorem kept_sync (managed : α → Bool) (wanted old : List α) (before : Option α) :
    kept managed wanted (syncChildren managed wanted old before) = kept managed wanted old := by
  unfold syncChildren
  simp only [kept, List.filter_append]
  have h1 := filter_notM_wanted managed wanted
  have hk := filter_notM_kept managed wanted old
  simp only [kept] at hk
  rw [h1, List.append_nil]
  have := filter_take_drop (fun c => !isM managed wanted c) (List.filter (fun c => !isM managed wanted c) old)
    (pos managed wanted old before)
  rw [this]
  exact hk

omit [DecidableEq α] in
theorem findIdx?_none_of_all_false (p : α → Bool) (l : List α) (h : ∀ c ∈ l, p c = false) :
    l.findIdx? p = none := by
  rw [List.findIdx?_eq_none_iff]
  exact h

theorem findIdx?_take_kept (managed : α → Bool) (wanted old : List α) (n : Nat) :
    ((kept managed wanted old).take n).findIdx? (isM managed wanted) = none := by
  apply findIdx?_none_of_all_false
  intro c hc
  exact kept_not_isM managed wanted old c (List.mem_of_mem_take hc)

end Pyc.Sync

namespace Pyc.Sync
variable {α : Type} [DecidableEq α]

/-- the managed children after a save are exactly the wanted elements, in order
    (nothing removed survives, nothing added is missing or duplicated, order kept) -/
theorem sync_managed (managed : α → Bool) (wanted old : List α) (before : Option α) :
    (syncChildren managed wanted old before).filter (isM managed wanted) = wanted := by
  unfold syncChildren
  simp only [List.filter_append]
  rw [filter_isM_wanted]
  have h1 : List.filter (isM managed wanted) (List.take (pos managed wanted old before) (kept managed wanted old)) = [] := by
    rw [List.filter_eq_nil_iff]
    intro c hc
    simp [kept_not_isM managed wanted old c (List.mem_of_mem_take hc)]
  have h2 : List.filter (isM managed wanted) (List.drop (pos managed wanted old before) (kept managed wanted old)) = [] := by
    rw [List.filter_eq_nil_iff]
    intro c hc
    simp [kept_not_isM managed wanted old c (List.mem_of_mem_drop hc)]
  simp [h1, h2]

/-- unmanaged children survive, in their relative order -/
theorem sync_unmanaged (managed : α → Bool) (wanted old : List α) (before : Option α) :
    (syncChildren managed wanted old before).filter (fun c => !isM managed wanted c)
      = old.filter (fun c => !isM managed wanted c) :=
  kept_sync managed wanted old before

/-- when every child is managed (libraries, <node>, <visual_scene>, <technique_common> of a
    bind_material) the children are replaced wholesale -/
theorem sync_all (wanted old : List α) (before : Option α) :
    syncChildren (fun _ => true) wanted old before = wanted := by
  have : kept (fun _ => true) wanted old = [] := by simp [kept, isM]
  simp [syncChildren, this]

/-- saving twice is saving once -/
theorem sync_idem (managed : α → Bool) (wanted old : List α) (before : Option α) :
    syncChildren managed wanted (syncChildren managed wanted old before) before
      = syncChildren managed wanted old before := by
  have hk := kept_sync managed wanted old before
  cases hw : wanted with
  | nil =>
    subst hw
    have hnone : ∀ l : List α, (kept managed [] l).findIdx? (isM managed []) = none := by
      intro l
      apply findIdx?_none_of_all_false
      exact kept_not_isM managed [] l
    have e1 : syncChildren managed [] old before = kept managed [] old := by
      simp [syncChildren]
    rw [e1]
    have e2 : kept managed [] (kept managed [] old) = kept managed [] old := by
      have h := hk; rw [e1] at h; exact h
    simp [syncChildren, e2]
  | cons w ws =>
    rw [← hw]
    have hne : wanted ≠ [] := by rw [hw]; simp
    generalize hp : pos managed wanted old before = p at *
    have hnew : syncChildren managed wanted old before
        = (kept managed wanted old).take p ++ wanted ++ (kept managed wanted old).drop p := by
      simp [syncChildren, hp]
    have hfirst : (syncChildren managed wanted old before).findIdx? (isM managed wanted)
        = some ((kept managed wanted old).take p).length := by
      rw [hnew, List.append_assoc, List.findIdx?_append, findIdx?_take_kept]
      have : (wanted ++ (kept managed wanted old).drop p).findIdx? (isM managed wanted) = some 0 := by
        rw [hw]
        simp [List.findIdx?_cons, isM]
      simp [this]
    have hpos : pos managed wanted (syncChildren managed wanted old before) before
        = ((kept managed wanted old).take p).length := by
      simp [pos, hfirst]
    have hdef : ∀ l : List α, syncChildren managed wanted l before
        = (kept managed wanted l).take (pos managed wanted l before) ++ wanted
          ++ (kept managed wanted l).drop (pos managed wanted l before) := fun _ => rfl
    rw [hdef (syncChildren managed wanted old before), hpos, hk, hnew]
    simp only [List.length_take]
    by_cases h : p ≤ (kept managed wanted old).length
    · simp [Nat.min_eq_left h]
    · have h' : (kept managed wanted old).length ≤ p := by omega
      simp [Nat.min_eq_right h', List.take_of_length_le h', List.drop_of_length_le h']

/-! ### lists split into blocks (for `sync_block`) -/

theorem filter_none {p : α → Bool} : ∀ {l : List α}, (∀ c ∈ l, p c = false) → l.filter p = []
  | [], _ => rfl
  | a :: l, h => by
    simp [List.filter_cons, h a (by simp), filter_none (l := l) (fun c hc => h c (by simp [hc]))]

theorem filter_all {p : α → Bool} : ∀ {l : List α}, (∀ c ∈ l, p c = true) → l.filter p = l
  | [], _ => rfl
  | a :: l, h => by
    simp [List.filter_cons, h a (by simp), filter_all (l := l) (fun c hc => h c (by simp [hc]))]

theorem findIdx?_prefix {p : α → Bool} : ∀ {B : List α} (t : List α), (∀ c ∈ B, p c = false) →
    (B ++ t).findIdx? p = (t.findIdx? p).map (· + B.length)
  | [], t, _ => by simp
  | b :: B, t, h => by
    have hb : p b = false := h b (by simp)
    simp only [List.cons_append, List.findIdx?_cons, hb]
    rw [findIdx?_prefix t (fun c hc => h c (by simp [hc]))]
    cases t.findIdx? p <;> simp [Nat.add_assoc]


theorem findIdx?_le_filter_not (p : α → Bool) : ∀ (M : List α) (i : Nat), M.findIdx? p = some i →
    i ≤ (M.filter (fun c => !p c)).length
  | [], i, h => by simp at h
  | m :: M, i, h => by
    by_cases hm : p m = true
    · simp [List.findIdx?_cons, hm] at h; omega
    · have hm' : p m = false := by simpa using hm
      simp only [List.findIdx?_cons, hm'] at h
      cases hM : M.findIdx? p with
      | none => simp [hM] at h
      | some j =>
        simp [hM] at h
        have := findIdx?_le_filter_not p M j hM
        simp [List.filter_cons, hm']
        omega

theorem findIdx?_none_suffix (p : α → Bool) (M T : List α) (hT : ∀ c ∈ T, p c = false) :
    (M ++ T).findIdx? p = M.findIdx? p := by
  induction M with
  | nil =>
    simp only [List.nil_append, List.findIdx?_nil]
    rw [List.findIdx?_eq_none_iff]
    intro c hc; simp [hT c hc]
  | cons m M ih =>
    simp only [List.cons_append, List.findIdx?_cons]
    split
    · rfl
    · rw [ih]


end Pyc.Sync
