/- Helper lemmas for the child-reconciliation model (used by Props C02, C03, C06). -/
import Pyc.Model.Sync

namespace Pyc.Sync
variable {α : Type} [DecidableEq α]

theorem isM_of_mem_wanted (managed : α → Bool) (wanted : List α) {c : α} (h : c ∈ wanted) :
    isM managed wanted c = true := by
  simp [isM, h]

theorem kept_not_isM (managed : α → Bool) (wanted old : List α) :
    ∀ c ∈ kept managed wanted old, isM managed wanted c = false := by
  intro c hc
  simp [kept] at hc
  simpa using hc.2

theorem filter_isM_kept (managed : α → Bool) (wanted old : List α) :
    (kept managed wanted old).filter (isM managed wanted) = [] := by
  rw [List.filter_eq_nil_iff]
  intro c hc
  simp [kept_not_isM managed wanted old c hc]

theorem filter_notM_kept (managed : α → Bool) (wanted old : List α) :
    (kept managed wanted old).filter (fun c => !isM managed wanted c) = kept managed wanted old := by
  rw [List.filter_eq_self]
  intro c hc
  simp [kept_not_isM managed wanted old c hc]

theorem filter_isM_wanted (managed : α → Bool) (wanted : List α) :
    wanted.filter (isM managed wanted) = wanted := by
  rw [List.filter_eq_self]
  intro c hc
  exact isM_of_mem_wanted managed wanted hc

theorem filter_notM_wanted (managed : α → Bool) (wanted : List α) :
    wanted.filter (fun c => !isM managed wanted c) = [] := by
  rw [List.filter_eq_nil_iff]
  intro c hc
  simp [isM_of_mem_wanted managed wanted hc]

theorem filter_take_drop (p : α → Bool) (l : List α) (n : Nat) :
    (l.take n).filter p ++ (l.drop n).filter p = l.filter p := by
  rw [← List.filter_append, List.take_append_drop]

end Pyc.Sync

namespace Pyc.Sync
variable {α : Type} [DecidableEq α]

theorem kept_sync (managed : α → Bool) (wanted old : List α) (before : Option α) :
    kept managed wanted (syncChildren managed wanted old before) = kept managed wanted old := by
  unfold syncChildren
  simp only [kept, List.filter_append]
  have h1 := filter_notM_wanted managed wanted
  have hk := filter_notM_kept managed wanted old
  simp only [kept] at hk
  rw [h1, List.append_nil]
  have := filter_take_drop (fun c => !isM managed wanted c) (List.filter (fun c => !isM managed wanted c) old)
    (pos managed wanted old before)
  rw [this]
  exact hk

theorem findIdx?_none_of_all_false (p : α → Bool) (l : List α) (h : ∀ c ∈ l, p c = false) :
    l.findIdx? p = none := by
  rw [List.findIdx?_eq_none_iff]
  exact h

theorem findIdx?_take_kept (managed : α → Bool) (wanted old : List α) (n : Nat) :
    ((kept managed wanted old).take n).findIdx? (isM managed wanted) = none := by
  apply findIdx?_none_of_all_false
  intro c hc
  exact kept_not_isM managed wanted old c (List.mem_of_mem_take hc)

end Pyc.Sync
