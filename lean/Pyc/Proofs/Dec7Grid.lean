/-
The set of decimals with at most seven significant digits (what '%.7g' can write) is, around every value that is
not a power of ten, a uniform grid (C01: discharges the `LocalGrid` hypothesis of `text_fixed_point`).
dec7 values = { m · 10^e : m, e ∈ ℤ, |m| < 10^7 }.
-/
import Pyc.Proofs.NumText
import Mathlib.Tactic.Linarith
import Mathlib.Tactic.Ring
import Mathlib.Tactic.Positivity
import Mathlib.Algebra.Order.Field.Power
import Mathlib.Data.Rat.Cast.Order

namespace Pyc.NumTextP

/-- the decimals of at most seven significant digits -/
def IsDec7 (q : ℚ) : Prop := ∃ (m e : ℤ), |m| < 10 ^ 7 ∧ q = m * (10 : ℚ) ^ e

theorem ten_zpow_pos (e : ℤ) : (0 : ℚ) < (10 : ℚ) ^ e := by positivity

/-- `m·10^e` with a full seven-digit mantissa that is not 1000000 (not a power of ten) -/
structure DInterior (m e : ℤ) : Prop where
  mant : |m| < 10 ^ 7
  canon : 10 ^ 6 < |m|

theorem ten_zpow_succ (e : ℤ) : (10 : ℚ) ^ (e + 1) = 10 * (10 : ℚ) ^ e := by
  rw [zpow_add₀ (by norm_num : (10 : ℚ) ≠ 0)]; simp; ring

theorem ten_zpow_split (e : ℤ) (n : ℕ) : (10 : ℚ) ^ (e + n) = (10 : ℚ) ^ n * (10 : ℚ) ^ e := by
  rw [zpow_add₀ (by norm_num : (10 : ℚ) ≠ 0), zpow_natCast]; ring

/-- a neighbour (m ± 1)·10^e is a dec7 value (9999999 + 1 renormalises to 1000000·10^(e+1)) -/
theorem neighbour_isDec7 {m e : ℤ} (h : DInterior m e) (s : ℤ) (hs : s = 1 ∨ s = -1) :
    IsDec7 (m * (10 : ℚ) ^ e + s * (10 : ℚ) ^ e) := by
  have hval : (m : ℚ) * (10 : ℚ) ^ e + s * (10 : ℚ) ^ e = ((m + s : ℤ) : ℚ) * (10 : ℚ) ^ e := by push_cast; ring
  rw [hval]
  have habs : |m + s| ≤ |m| + 1 := by
    rcases hs with rfl | rfl
    · exact (abs_add_le m 1).trans (by simp)
    · exact (abs_add_le m (-1)).trans (by simp)
  by_cases hlt : |m + s| < 10 ^ 7
  · exact ⟨m + s, e, hlt, rfl⟩
  · have heq : |m + s| = 10 ^ 7 := by
      have := h.mant
      omega
    rcases abs_eq (by positivity : (0 : ℤ) ≤ 10 ^ 7) |>.mp heq with hp | hn
    · refine ⟨10 ^ 6, e + 1, by norm_num, ?_⟩
      rw [hp, ten_zpow_succ]; push_cast; ring
    · refine ⟨-(10 ^ 6), e + 1, by norm_num, ?_⟩
      rw [hn, ten_zpow_succ]; push_cast; ring

/-- every other dec7 value is at least one unit in the last place away -/
theorem far_of_dinterior {m e : ℤ} (h : DInterior m e) {d : ℚ} (hd : IsDec7 d) (hne : d ≠ m * (10 : ℚ) ^ e) :
    (10 : ℚ) ^ e ≤ |d - m * (10 : ℚ) ^ e| := by
  obtain ⟨m', e', hm', rfl⟩ := hd
  have hpos := ten_zpow_pos e
  by_cases hge : e ≤ e'
  · obtain ⟨n, hn⟩ : ∃ n : ℕ, e' = e + n := ⟨(e' - e).toNat, by omega⟩
    subst hn
    rw [ten_zpow_split]
    have hk : (m' : ℚ) * ((10 : ℚ) ^ n * (10 : ℚ) ^ e) - m * (10 : ℚ) ^ e = ((m' * 10 ^ n - m : ℤ) : ℚ) * (10 : ℚ) ^ e := by
      push_cast; ring
    rw [hk, abs_mul, abs_of_pos hpos]
    have hk0 : (m' * 10 ^ n - m : ℤ) ≠ 0 := by
      intro h0
      apply hne
      rw [ten_zpow_split]
      have : (m : ℚ) = ((m' * 10 ^ n : ℤ) : ℚ) := by
        have : m' * 10 ^ n = m := by omega
        rw [this]
      rw [this]; push_cast; ring
    have h1 : (1 : ℚ) ≤ |((m' * 10 ^ n - m : ℤ) : ℚ)| := by
      rw [← Int.cast_abs]
      exact_mod_cast Int.one_le_abs hk0
    nlinarith
  · have hlt : e' + 1 ≤ e := by omega
    have hmq : ((10 : ℚ) ^ 6 + 1) ≤ |(m : ℚ)| := by
      rw [← Int.cast_abs]
      have : (10 : ℤ) ^ 6 + 1 ≤ |m| := by have := h.canon; omega
      exact_mod_cast this
    have hm'q : |(m' : ℚ)| < (10 : ℚ) ^ 7 := by
      rw [← Int.cast_abs]
      exact_mod_cast hm'
    obtain ⟨n, hn⟩ : ∃ n : ℕ, e = e' + 1 + n := ⟨(e - e' - 1).toNat, by omega⟩
    have he : (10 : ℚ) ^ e = (10 : ℚ) ^ n * (10 * (10 : ℚ) ^ e') := by
      rw [hn, ten_zpow_split, ten_zpow_succ]
    have hpos' := ten_zpow_pos e'
    have hn1 : (1 : ℚ) ≤ (10 : ℚ) ^ n := one_le_pow₀ (by norm_num)
    have hd : |(m' : ℚ) * (10 : ℚ) ^ e'| ≤ (10 : ℚ) ^ 6 * (10 : ℚ) ^ e := by
      rw [abs_mul, abs_of_pos hpos', he]
      have : |(m' : ℚ)| * (10 : ℚ) ^ e' ≤ (10 : ℚ) ^ 7 * (10 : ℚ) ^ e' := by nlinarith [abs_nonneg (m' : ℚ)]
      nlinarith
    have hb : ((10 : ℚ) ^ 6 + 1) * (10 : ℚ) ^ e ≤ |(m : ℚ) * (10 : ℚ) ^ e| := by
      rw [abs_mul, abs_of_pos hpos]; nlinarith
    have tri : |(m : ℚ) * (10 : ℚ) ^ e| - |(m' : ℚ) * (10 : ℚ) ^ e'| ≤ |(m' : ℚ) * (10 : ℚ) ^ e' - m * (10 : ℚ) ^ e| := by
      rw [abs_sub_comm]; exact abs_sub_abs_le_abs_sub _ _
    linarith

/-- around an interior dec7 value the dec7 values are a uniform grid of spacing 10^e -/
theorem localGrid_dec7 {m e : ℤ} (h : DInterior m e) : LocalGrid IsDec7 (m * (10 : ℚ) ^ e) ((10 : ℚ) ^ e) where
  pos := ten_zpow_pos e
  lo := by
    have := neighbour_isDec7 h (-1) (Or.inr rfl)
    have e1 : (m : ℚ) * (10 : ℚ) ^ e - (10 : ℚ) ^ e = m * (10 : ℚ) ^ e + ((-1 : ℤ) : ℚ) * (10 : ℚ) ^ e := by push_cast; ring
    rw [e1]; exact this
  hi := by
    have := neighbour_isDec7 h 1 (Or.inl rfl)
    have e1 : (m : ℚ) * (10 : ℚ) ^ e + (10 : ℚ) ^ e = m * (10 : ℚ) ^ e + ((1 : ℤ) : ℚ) * (10 : ℚ) ^ e := by push_cast; ring
    rw [e1]; exact this
  far := fun d hd hne => far_of_dinterior h hd hne

/-- every non-zero dec7 value can be written with a full seven-digit mantissa -/
theorem canonical_dec : ∀ (n : ℕ) (m e : ℤ), n ≤ 6 → (10 : ℤ) ^ (6 - n) ≤ |m| → |m| < 10 ^ 7 →
    ∃ (m' e' : ℤ), 10 ^ 6 ≤ |m'| ∧ |m'| < 10 ^ 7 ∧ (m : ℚ) * (10 : ℚ) ^ e = m' * (10 : ℚ) ^ e'
  | 0, m, e, _, hlo, hm => ⟨m, e, by simpa using hlo, hm, rfl⟩
  | n + 1, m, e, hn, hlo, hm => by
    by_cases hbig : (10 : ℤ) ^ 6 ≤ |m|
    · exact ⟨m, e, hbig, hm, rfl⟩
    · have h10 : |10 * m| = 10 * |m| := by rw [abs_mul]; norm_num
      have hlo' : (10 : ℤ) ^ (6 - n) ≤ |10 * m| := by
        rw [h10]
        have : (10 : ℤ) ^ (6 - n) = 10 * 10 ^ (6 - (n + 1)) := by
          rw [← pow_succ']; congr 1; omega
        rw [this]; omega
      obtain ⟨m', e', c1, c2, c3⟩ := canonical_dec n (10 * m) (e - 1) (by omega) hlo' (by rw [h10]; omega)
      refine ⟨m', e', c1, c2, ?_⟩
      rw [← c3]
      have : (10 : ℚ) ^ e = 10 * (10 : ℚ) ^ (e - 1) := by
        have := ten_zpow_succ (e - 1)
        rwa [sub_add_cancel] at this
      rw [this]; push_cast; ring

/-- a dec7 value that is not zero and not ± a power of ten is interior: `localGrid_dec7` applies to it -/
theorem dinterior_of_dec7 (q : ℚ) (hq : IsDec7 q) (h0 : q ≠ 0) (hp : ∀ k : ℤ, |q| ≠ (10 : ℚ) ^ k) :
    ∃ m e, DInterior m e ∧ q = m * (10 : ℚ) ^ e := by
  obtain ⟨m, e, hm, rfl⟩ := hq
  have hm0 : m ≠ 0 := by
    rintro rfl; simp at h0
  have h1 : (10 : ℤ) ^ (6 - 6) ≤ |m| := by
    simp; exact Int.one_le_abs hm0
  obtain ⟨m', e', c1, c2, c3⟩ := canonical_dec 6 m e (le_refl _) h1 hm
  refine ⟨m', e', ⟨c2, ?_⟩, c3⟩
  rcases lt_or_eq_of_le c1 with h | h
  · exact h
  · exfalso
    apply hp (6 + e')
    rw [c3, abs_mul, abs_of_pos (ten_zpow_pos e'), ← Int.cast_abs, ← h, zpow_add₀ (by norm_num : (10 : ℚ) ≠ 0)]
    norm_num

end Pyc.NumTextP
