/- Helper lemmas for the C14 theorems (Pyc/Props/C14.lean). -/
import Pyc.Model.IndexedList

namespace Pyc.IL
open Pyc.PyList

/-! ### the association list behaves like a dict -/

@[simp] theorem get_erase (ix : Index) (k k' : String) :
    (ix.erase k).get k' = if k' = k then none else ix.get k' := by
  induction ix with
  | nil => simp [Index.erase, Index.get]
  | cons p t ih =>
    obtain ⟨a, v⟩ := p
    simp only [Index.erase]
    by_cases h : a = k
    · simp only [h, if_true, ih, Index.get]
      by_cases h2 : k' = k
      · simp [h2]
      · have : ¬ k = k' := fun e => h2 e.symm
        simp [h2, this]
    · simp only [h, if_false, Index.get, ih]
      by_cases h2 : k' = k
      · subst h2; simp [h]
      · simp [h2]

@[simp] theorem get_set (ix : Index) (k k' : String) (v : Obj) :
    (ix.set k v).get k' = if k' = k then some v else ix.get k' := by
  simp only [Index.set, Index.get, get_erase]
  by_cases h : k' = k
  · simp [h]
  · have : ¬ k = k' := fun e => h e.symm
    simp [h, this]

/-! ### coherence -/

/-- every index entry names an element of the list that carries that key -/
def Sound (items : List Obj) (ix : Index) : Prop :=
  ∀ k o, ix.get k = some o → o ∈ items ∧ o.id = k

/-- every element of the list can be found under its id -/
def Complete (items : List Obj) (ix : Index) : Prop :=
  ∀ o ∈ items, (ix.get o.id).isSome

/-- soundness while `_delindex` calls are still pending for `pending` -/
def WSound (items pending : List Obj) (ix : Index) : Prop :=
  ∀ k o, ix.get k = some o → o.id = k ∧ (o ∈ items ∨ o ∈ pending)

theorem find_rev_some {items : List Obj} {k : String} {y : Obj}
    (h : items.reverse.find? (fun x => x.id == k) = some y) : y ∈ items ∧ y.id = k := by
  have h1 := List.mem_of_find?_eq_some h
  have h2 := List.find?_some h
  simp at h1 h2
  exact ⟨h1, h2⟩

theorem find_rev_none {items : List Obj} {k : String}
    (h : items.reverse.find? (fun x => x.id == k) = none) : ∀ o ∈ items, o.id ≠ k := by
  intro o ho
  have := List.find?_eq_none.mp h o (by simpa using ho)
  simpa using this

theorem delIndex_wsound {items : List Obj} {r : Obj} {rest : List Obj} {ix : Index}
    (h : WSound items (r :: rest) ix) : WSound items rest (delIndex items ix r) := by
  intro k o hk
  unfold delIndex at hk
  split at hk
  next hr =>
    split at hk
    next y hy =>
      obtain ⟨hy1, hy2⟩ := find_rev_some hy
      rw [get_set] at hk
      split at hk
      next e => cases hk; subst e; exact ⟨hy2, Or.inl hy1⟩
      next ne =>
        obtain ⟨h1, h2⟩ := h k o hk
        refine ⟨h1, ?_⟩
        rcases h2 with h2 | h2
        · exact Or.inl h2
        · rcases List.mem_cons.mp h2 with e | h2
          · subst e; exact absurd h1.symm ne
          · exact Or.inr h2
    next hn =>
      rw [get_erase] at hk
      split at hk
      next e => cases hk
      next ne =>
        obtain ⟨h1, h2⟩ := h k o hk
        refine ⟨h1, ?_⟩
        rcases h2 with h2 | h2
        · exact Or.inl h2
        · rcases List.mem_cons.mp h2 with e | h2
          · subst e; exact absurd h1.symm ne
          · exact Or.inr h2
  next hr =>
    obtain ⟨h1, h2⟩ := h k o hk
    refine ⟨h1, ?_⟩
    rcases h2 with h2 | h2
    · exact Or.inl h2
    · rcases List.mem_cons.mp h2 with e | h2
      · subst e; subst h1; exact absurd hk hr
      · exact Or.inr h2

theorem delIndex_cover {items : List Obj} {r o : Obj} {ix : Index}
    (ho : o ∈ items) (h : (ix.get o.id).isSome) : ((delIndex items ix r).get o.id).isSome := by
  unfold delIndex
  split
  next hr =>
    split
    next y hy => rw [get_set]; split <;> simp [h]
    next hn =>
      rw [get_erase]
      split
      next e => exact absurd e (find_rev_none hn o ho)
      next ne => exact h
  next => exact h

theorem foldl_delIndex_wsound {items : List Obj} (rs : List Obj) {ix : Index}
    (h : WSound items rs ix) : WSound items [] (rs.foldl (delIndex items) ix) := by
  induction rs generalizing ix with
  | nil => simpa using h
  | cons r rest ih => simp only [List.foldl_cons]; exact ih (delIndex_wsound h)

theorem foldl_delIndex_cover {items : List Obj} (rs : List Obj) {ix : Index} {o : Obj}
    (ho : o ∈ items) (h : (ix.get o.id).isSome) :
    ((rs.foldl (delIndex items) ix).get o.id).isSome := by
  induction rs generalizing ix with
  | nil => simpa using h
  | cons r rest ih => simp only [List.foldl_cons]; exact ih (delIndex_cover ho h)

theorem addIndex_sound {items : List Obj} {a : Obj} {ix : Index}
    (ha : a ∈ items) (h : Sound items ix) : Sound items (addIndex ix a) := by
  intro k o hk
  unfold addIndex at hk
  rw [get_set] at hk
  split at hk
  next e => cases hk; exact ⟨ha, e.symm⟩
  next => exact h k o hk

theorem addIndex_cover {a o : Obj} {ix : Index}
    (h : (ix.get o.id).isSome ∨ o = a) : ((addIndex ix a).get o.id).isSome := by
  unfold addIndex
  rw [get_set]
  split
  · simp
  · rcases h with h | h
    · exact h
    · subst h; simp_all

theorem foldl_addIndex_sound {items : List Obj} (as : List Obj) {ix : Index}
    (ha : ∀ a ∈ as, a ∈ items) (h : Sound items ix) : Sound items (as.foldl addIndex ix) := by
  induction as generalizing ix with
  | nil => simpa using h
  | cons a rest ih =>
    simp only [List.foldl_cons]
    exact ih (fun x hx => ha x (List.mem_cons_of_mem _ hx)) (addIndex_sound (ha a (List.mem_cons_self ..)) h)

theorem foldl_addIndex_cover (as : List Obj) {ix : Index} {o : Obj}
    (h : (ix.get o.id).isSome ∨ o ∈ as) : ((as.foldl addIndex ix).get o.id).isSome := by
  induction as generalizing ix with
  | nil => simpa using h
  | cons a rest ih =>
    simp only [List.foldl_cons]
    apply ih
    rcases h with h | h
    · exact Or.inl (addIndex_cover (Or.inl h))
    · rcases List.mem_cons.mp h with e | h
      · exact Or.inl (addIndex_cover (Or.inr e))
      · exact Or.inr h

/-- The bookkeeping lemma behind every mutator: if whatever left the list is in `removed`
    and whatever entered it is in `added`, the finalised index is coherent with the new list. -/
theorem finalize_coherent {items items' removed added : List Obj} {ix : Index}
    (hs : Sound items ix) (hc : Complete items ix)
    (h1 : ∀ o ∈ items, o ∈ items' ∨ o ∈ removed)
    (h2 : ∀ o ∈ items', o ∈ items ∨ o ∈ added)
    (h3 : ∀ o ∈ added, o ∈ items') :
    Sound items' (finalize items' removed added ix) ∧
    Complete items' (finalize items' removed added ix) := by
  have hw : WSound items' removed ix := by
    intro k o hk
    obtain ⟨a, b⟩ := hs k o hk
    exact ⟨b, h1 o a⟩
  have hw' := foldl_delIndex_wsound removed hw
  have hs' : Sound items' (removed.foldl (delIndex items') ix) := by
    intro k o hk
    obtain ⟨a, b⟩ := hw' k o hk
    rcases b with b | b
    · exact ⟨b, a⟩
    · simp at b
  constructor
  · exact foldl_addIndex_sound added h3 hs'
  · intro o ho
    apply foldl_addIndex_cover
    rcases h2 o ho with h | h
    · exact Or.inl (foldl_delIndex_cover removed ho (hc o h))
    · exact Or.inr h

end Pyc.IL

namespace Pyc.IL
open Pyc.PyList

/-! ### list facts used by the per-operation cases -/

theorem mem_split_at (l : List Obj) (k : Nat) (x : Obj) :
    x ∈ l ↔ x ∈ l.take k ∨ x ∈ l.drop k := by
  conv => lhs; rw [← List.take_append_drop k l]
  exact List.mem_append

theorem mem_eraseIdx_or (l : List Obj) (k : Nat) (x : Obj) (hx : x ∈ l) :
    x ∈ l.eraseIdx k ∨ x ∈ l[k]?.toList := by
  induction l generalizing k with
  | nil => simp at hx
  | cons a t ih =>
    cases k with
    | zero =>
      rcases List.mem_cons.mp hx with e | h
      · right; simp [e]
      · left; simpa using h
    | succ k =>
      rcases List.mem_cons.mp hx with e | h
      · left; simp [e]
      · rcases ih k h with h | h
        · left; simp [h]
        · right; simpa using h

theorem mem_set_or (l : List Obj) (k : Nat) (o x : Obj) (hx : x ∈ l) :
    x ∈ l.set k o ∨ x ∈ l[k]?.toList := by
  induction l generalizing k with
  | nil => simp at hx
  | cons a t ih =>
    cases k with
    | zero =>
      rcases List.mem_cons.mp hx with e | h
      · right; simp [e]
      · left; simp [h]
    | succ k =>
      rcases List.mem_cons.mp hx with e | h
      · left; simp [e]
      · rcases ih k h with h | h
        · left; simp [h]
        · right; simpa using h

theorem mem_slice_split (l : List Obj) (lo hi : Nat) (h : lo ≤ hi) (x : Obj) (hx : x ∈ l) :
    (x ∈ l.take lo ∨ x ∈ l.drop hi) ∨ x ∈ (l.take hi).drop lo := by
  rcases (mem_split_at l hi x).mp hx with h1 | h1
  · rcases (mem_split_at (l.take hi) lo x).mp h1 with h2 | h2
    · left; left
      rw [List.take_take] at h2
      simpa [Nat.min_eq_left h] using h2
    · right; exact h2
  · left; right; exact h1

theorem mem_replicate_flatten (l : List Obj) (n : Nat) (hn : n ≠ 0) (x : Obj) :
    x ∈ (List.replicate n l).flatten ↔ x ∈ l := by
  simp [List.mem_flatten, List.mem_replicate, hn]

theorem coherent_congr {items items' : List Obj} {ix : Index}
    (h : ∀ x, x ∈ items' ↔ x ∈ items) (hs : Sound items ix) (hc : Complete items ix) :
    Sound items' ix ∧ Complete items' ix :=
  ⟨fun k o hk => ⟨(h o).mpr (hs k o hk).1, (hs k o hk).2⟩, fun o ho => hc o ((h o).mp ho)⟩

theorem sound_nil (items : List Obj) : Sound items [] := by
  intro k o h; simp [Index.get] at h

end Pyc.IL
