/- Helper lemmas for the C09 theorems (Pyc/Props/C09.lean). -/
import Pyc.Model.Validate

namespace Pyc.Validate

/-! ### `allOk`: a loop that stops at the first failure -/

section allOk
variable {ε α β : Type} {f : α → Except ε β}

theorem allOk_ok_cons {a : α} {as : List α} {bs : List β} (h : allOk f (a :: as) = .ok bs) :
    ∃ b bs', bs = b :: bs' ∧ f a = .ok b ∧ allOk f as = .ok bs' := by
  simp only [allOk] at h
  cases hfa : f a with
  | error e => simp [hfa] at h
  | ok b =>
    cases hr : allOk f as with
    | error e => simp [hfa, hr] at h
    | ok bs' =>
      simp [hfa, hr] at h
      exact ⟨b, bs', h.symm, rfl, rfl⟩

theorem allOk_ok_length : ∀ {l : List α} {bs : List β}, allOk f l = .ok bs → bs.length = l.length
  | [], bs, h => by simp [allOk] at h; subst h; rfl
  | a :: as, bs, h => by
    obtain ⟨b, bs', rfl, _, hr⟩ := allOk_ok_cons h
    simp [allOk_ok_length hr]

/-- every result comes from an argument -/
theorem allOk_ok_mem : ∀ {l : List α} {bs : List β}, allOk f l = .ok bs →
    ∀ b ∈ bs, ∃ a ∈ l, f a = .ok b
  | [], bs, h => by simp [allOk] at h; subst h; simp
  | a :: as, bs, h => by
    obtain ⟨b0, bs', rfl, hfa, hr⟩ := allOk_ok_cons h
    intro b hb
    rcases List.mem_cons.mp hb with rfl | hb
    · exact ⟨a, List.mem_cons_self, hfa⟩
    · obtain ⟨a', ha', hf⟩ := allOk_ok_mem hr b hb
      exact ⟨a', List.mem_cons_of_mem _ ha', hf⟩

/-- every argument has its result -/
theorem allOk_ok_mem' : ∀ {l : List α} {bs : List β}, allOk f l = .ok bs →
    ∀ a ∈ l, ∃ b ∈ bs, f a = .ok b
  | [], bs, h => by simp
  | a :: as, bs, h => by
    obtain ⟨b0, bs', rfl, hfa, hr⟩ := allOk_ok_cons h
    intro a' ha'
    rcases List.mem_cons.mp ha' with rfl | ha'
    · exact ⟨b0, List.mem_cons_self, hfa⟩
    · obtain ⟨b, hb, hf⟩ := allOk_ok_mem' hr a' ha'
      exact ⟨b, List.mem_cons_of_mem _ hb, hf⟩

/-- results are in argument order -/
theorem allOk_ok_get : ∀ {l : List α} {bs : List β}, allOk f l = .ok bs →
    ∀ (i : Nat) a, l[i]? = some a → ∃ b, bs[i]? = some b ∧ f a = .ok b
  | [], bs, h => by simp
  | a :: as, bs, h => by
    obtain ⟨b0, bs', rfl, hfa, hr⟩ := allOk_ok_cons h
    intro i a' hi
    cases i with
    | zero => simp at hi; subst hi; exact ⟨b0, by simp, hfa⟩
    | succ j =>
      simp at hi
      obtain ⟨b, hb, hf⟩ := allOk_ok_get hr j a' hi
      exact ⟨b, by simpa using hb, hf⟩

theorem allOk_error : ∀ {l : List α} {e : ε}, allOk f l = .error e → ∃ a ∈ l, f a = .error e
  | [], e, h => by simp [allOk] at h
  | a :: as, e, h => by
    simp only [allOk] at h
    cases hfa : f a with
    | error e' =>
      simp [hfa] at h; subst h
      exact ⟨a, List.mem_cons_self, hfa⟩
    | ok b =>
      cases hr : allOk f as with
      | error e' =>
        simp [hfa, hr] at h; subst h
        obtain ⟨a', ha', hf⟩ := allOk_error hr
        exact ⟨a', List.mem_cons_of_mem _ ha', hf⟩
      | ok bs' => simp [hfa, hr] at h

theorem allOk_total : ∀ {l : List α}, (∀ a ∈ l, ∃ b, f a = .ok b) → ∃ bs, allOk f l = .ok bs
  | [], _ => ⟨[], rfl⟩
  | a :: as, h => by
    obtain ⟨b, hb⟩ := h a List.mem_cons_self
    obtain ⟨bs, hbs⟩ := allOk_total (l := as) (fun x hx => h x (List.mem_cons_of_mem _ hx))
    exact ⟨b :: bs, by simp [allOk, hb, hbs]⟩

theorem allOk_append {l1 l2 : List α} {b1 b2 : List β} (h1 : allOk f l1 = .ok b1)
    (h2 : allOk f l2 = .ok b2) : allOk f (l1 ++ l2) = .ok (b1 ++ b2) := by
  induction l1 generalizing b1 with
  | nil => simp [allOk] at h1; subst h1; simpa using h2
  | cons a as ih =>
    obtain ⟨b, bs', rfl, hfa, hr⟩ := allOk_ok_cons h1
    simp [allOk, hfa, ih hr]

/-- if something fails and every failure is `E`, the loop fails with `E` -/
theorem allOk_fails {l : List α} {E : ε} (hall : ∀ a ∈ l, ∀ e, f a = .error e → e = E)
    (hbad : ∃ a ∈ l, ∃ e, f a = .error e) : allOk f l = .error E := by
  cases h : allOk f l with
  | error e =>
    obtain ⟨a, ha, hf⟩ := allOk_error h
    rw [hall a ha e hf]
  | ok bs =>
    obtain ⟨a, ha, e, hf⟩ := hbad
    obtain ⟨b, _, hb⟩ := allOk_ok_mem' h a ha
    rw [hf] at hb; cases hb

end allOk

/-! ### `maxOf` -/

theorem foldl_max_ge (xs : List Nat) (x : Nat) :
    x ≤ xs.foldl max x ∧ ∀ e ∈ xs, e ≤ xs.foldl max x := by
  induction xs generalizing x with
  | nil => simp
  | cons y ys ih =>
    simp only [List.foldl_cons]
    obtain ⟨h1, h2⟩ := ih (max x y)
    refine ⟨by omega, ?_⟩
    intro e he
    rcases List.mem_cons.mp he with rfl | he
    · omega
    · exact h2 e he

theorem foldl_max_mem (xs : List Nat) (x : Nat) : xs.foldl max x = x ∨ xs.foldl max x ∈ xs := by
  induction xs generalizing x with
  | nil => simp
  | cons y ys ih =>
    simp only [List.foldl_cons]
    rcases ih (max x y) with h | h
    · rw [h]
      rcases Nat.le_total x y with hxy | hxy
      · right; simp [Nat.max_eq_right hxy]
      · left; exact Nat.max_eq_left hxy
    · right; exact List.mem_cons_of_mem _ h

theorem maxOf_none {xs : List Nat} : maxOf xs = none ↔ xs = [] := by
  cases xs <;> simp [maxOf]

theorem maxOf_ge {xs : List Nat} {m : Nat} (h : maxOf xs = some m) : ∀ e ∈ xs, e ≤ m := by
  cases xs with
  | nil => simp [maxOf] at h
  | cons x xs =>
    simp only [maxOf, Option.some.injEq] at h
    subst h
    intro e he
    obtain ⟨h1, h2⟩ := foldl_max_ge xs x
    rcases List.mem_cons.mp he with rfl | he
    · exact h1
    · exact h2 e he

theorem maxOf_mem {xs : List Nat} {m : Nat} (h : maxOf xs = some m) : m ∈ xs := by
  cases xs with
  | nil => simp [maxOf] at h
  | cons x xs =>
    simp only [maxOf, Option.some.injEq] at h
    subst h
    rcases foldl_max_mem xs x with h | h
    · rw [h]; exact List.mem_cons_self
    · exact List.mem_cons_of_mem _ h

theorem maxOf_some_of_ne_nil {xs : List Nat} (h : xs ≠ []) : ∃ m, maxOf xs = some m := by
  cases xs with
  | nil => exact absurd rfl h
  | cons x xs => exact ⟨_, rfl⟩

/-! ### arithmetic of rows -/

theorem row_lt {len n r o : Nat} (hr : r < len / n) (ho : o < n) : r * n + o < len := by
  have hn : 0 < n := by omega
  have h1 : (r + 1) * n ≤ len := (Nat.le_div_iff_mul_le hn).mp hr
  have h2 : (r + 1) * n = r * n + n := by rw [Nat.add_mul, Nat.one_mul]
  omega

theorem row_of_lt {len n r o : Nat} (hdiv : len % n = 0) (h : r * n + o < len) :
    r < len / n := by
  have hq : n * (len / n) = len := by
    have := Nat.div_add_mod len n
    omega
  apply Nat.lt_of_not_le
  intro hle
  have h1 : n * (len / n) ≤ n * r := Nat.mul_le_mul_left n hle
  rw [Nat.mul_comm n r] at h1
  omega

/-! ### de-interleaving -/

theorem corners_length (n : Nat) (xs : List Nat) : (corners n xs).length = xs.length / n := by
  simp [corners]

theorem corners_get {n : Nat} {xs : List Nat} {r : Nat} (hr : r < xs.length / n) :
    (corners n xs)[r]? = some ((xs.drop (r * n)).take n) := by
  simp [corners, List.getElem?_map, List.getElem?_range hr]

theorem corner_entry (n o r : Nat) (xs : List Nat) :
    ((xs.drop (r * n)).take n)[o]? = if o < n then xs[r * n + o]? else none := by
  by_cases h : o < n
  · simp [h, List.getElem?_drop]
  · simp [h, List.getElem?_take]

/-- what `index[..., o]` holds when it succeeds -/
theorem column_ok {n o : Nat} {xs col : List Nat} (h : column n o xs = .ok col) :
    col.length = xs.length / n ∧
    ∀ r, r < xs.length / n → ∃ e, col[r]? = some e ∧ xs[r * n + o]? = some e ∧ o < n := by
  unfold column at h
  refine ⟨by rw [allOk_ok_length h, corners_length], ?_⟩
  intro r hr
  obtain ⟨e, he, hf⟩ := allOk_ok_get h r _ (corners_get hr)
  refine ⟨e, he, ?_⟩
  rw [corner_entry] at hf
  by_cases ho : o < n
  · simp only [ho, if_true] at hf
    cases hx : xs[r * n + o]? with
    | none => simp [hx] at hf
    | some e' => simp [hx] at hf; exact ⟨by rw [hf], ho⟩
  · simp [ho] at hf

theorem column_mem {n o : Nat} {xs col : List Nat} (h : column n o xs = .ok col) :
    ∀ e ∈ col, ∃ r, r < xs.length / n ∧ xs[r * n + o]? = some e := by
  intro e he
  obtain ⟨r, hr, hget⟩ := List.getElem_of_mem he
  obtain ⟨hl, hspec⟩ := column_ok h
  have hr' : r < xs.length / n := by omega
  obtain ⟨e', h1, h2, _⟩ := hspec r hr'
  rw [List.getElem?_eq_getElem hr] at h1
  simp at h1
  exact ⟨r, hr', by rw [h2, ← h1, hget]⟩

/-- an offset below the stride is never out of the row -/
theorem column_total {n o : Nat} (xs : List Nat) (ho : o < n) : ∃ col, column n o xs = .ok col := by
  unfold column
  apply allOk_total
  intro c hc
  obtain ⟨r, hr, hget⟩ := List.getElem_of_mem hc
  rw [corners_length] at hr
  have := corners_get (n := n) (xs := xs) hr
  rw [List.getElem?_eq_getElem (by rw [corners_length]; exact hr)] at this
  simp only [Option.some.injEq] at this
  rw [← hget, this, corner_entry]
  have hlt := row_lt hr ho
  simp [ho, List.getElem?_eq_getElem hlt]

theorem column_error {n o : Nat} {xs : List Nat} {e : DaeErr} (ho : o < n)
    (h : column n o xs = .error e) : False := by
  obtain ⟨col, hc⟩ := column_total xs ho
  rw [hc] at h; cases h

/-! ### `checkSource` -/

theorem checkSource_ok {s s' : Src} {c : List String} {m : Nat} (h : checkSource s c m = .ok s') :
    m < s.rows ∧ s.comps.length = c.length ∧ s'.rows = s.rows ∧ s'.comps = c := by
  unfold checkSource at h
  by_cases h1 : s.rows ≤ m
  · simp [h1] at h
  · simp only [h1, if_false] at h
    by_cases h2 : s.comps.length = c.length
    · simp [h2] at h
      subst h
      exact ⟨by omega, h2, rfl, rfl⟩
    · simp only [h2, if_false] at h
      by_cases h3 : s.comps = c
      · exact absurd (by rw [h3]) h2
      · simp [h3] at h

theorem checkSource_error {s : Src} {c : List String} {m : Nat} {e : DaeErr}
    (h : checkSource s c m = .error e) : e = .malformed := by
  unfold checkSource at h
  by_cases h1 : s.rows ≤ m
  · simp [h1] at h; exact h.symm
  · simp only [h1, if_false] at h
    by_cases h2 : s.comps.length = c.length
    · simp [h2] at h
    · simp only [h2, if_false] at h
      by_cases h3 : s.comps = c
      · simp [h3] at h
      · simp [h3] at h; exact h.symm

theorem checkSource_total {s : Src} {c : List String} {m : Nat} (h1 : m < s.rows)
    (h2 : s.comps.length = c.length) : ∃ s', checkSource s c m = .ok s' := by
  unfold checkSource
  have : ¬ s.rows ≤ m := by omega
  simp [this, h2]

/-! ### one view -/

/-- a view is in range and is the de-interleaved column of its input -/
structure ViewOk (kind : Kind) (n : Nat) (xs : List Nat) (i : Input) (v : View) : Prop where
  offset : v.offset = i.offset
  shape : v.shape = viewShape kind n xs.length
  length : v.flat.length = xs.length / n
  entries : ∀ r, r < xs.length / n → ∃ e, v.flat[r]? = some e ∧ xs[r * n + i.offset]? = some e
  inRange : ∀ e ∈ v.flat, e < v.src.rows
  rows : v.src.rows = i.src.rows
  comps : v.src.comps = want i.sem
  arity : i.src.comps.length = (want i.sem).length

theorem viewOf_ok {kind : Kind} {n : Nat} {xs : List Nat} {i : Input} {v : View}
    (h : viewOf kind n xs i = .ok v) : ViewOk kind n xs i v := by
  unfold viewOf at h
  cases hc : column n i.offset xs with
  | error e => simp [hc] at h
  | ok col =>
    cases hm : maxOf col with
    | none => simp [hc, hm] at h
    | some m =>
      cases hs : checkSource i.src (want i.sem) m with
      | error e => simp [hc, hm, hs] at h
      | ok s =>
        simp [hc, hm, hs] at h
        subst h
        obtain ⟨hlen, hent⟩ := column_ok hc
        obtain ⟨h1, h2, h3, h4⟩ := checkSource_ok hs
        refine ⟨rfl, rfl, hlen, ?_, ?_, h3, h4, h2⟩
        · intro r hr
          obtain ⟨e, he1, he2, _⟩ := hent r hr
          exact ⟨e, he1, he2⟩
        · intro e he
          have := maxOf_ge hm e he
          simp only [h3]
          omega

/-- with a sane offset and at least one row the only failure is DaeMalformedError -/
theorem viewOf_error {kind : Kind} {n : Nat} {xs : List Nat} {i : Input} {e : DaeErr}
    (ho : i.offset < n) (hrow : 0 < xs.length / n) (h : viewOf kind n xs i = .error e) :
    e = .malformed := by
  unfold viewOf at h
  cases hc : column n i.offset xs with
  | error e' => exact (column_error ho hc).elim
  | ok col =>
    cases hm : maxOf col with
    | none =>
      have := (column_ok hc).1
      have hnil := maxOf_none.mp hm
      rw [hnil] at this
      simp at this
      omega
    | some m =>
      cases hs : checkSource i.src (want i.sem) m with
      | error e' =>
        simp [hc, hm, hs] at h
        subst h
        exact checkSource_error hs
      | ok s => simp [hc, hm, hs] at h

/-- a view is built when every entry of the column is in range and the arity fits -/
theorem viewOf_total {kind : Kind} {n : Nat} {xs : List Nat} {i : Input}
    (ho : i.offset < n) (hrow : 0 < xs.length / n)
    (hin : ∀ r e, r < xs.length / n → xs[r * n + i.offset]? = some e → e < i.src.rows)
    (har : i.src.comps.length = (want i.sem).length) : ∃ v, viewOf kind n xs i = .ok v := by
  unfold viewOf
  obtain ⟨col, hc⟩ := column_total xs ho
  have hlen := (column_ok hc).1
  have hne : col ≠ [] := by
    intro h; rw [h] at hlen; simp at hlen; omega
  obtain ⟨m, hm⟩ := maxOf_some_of_ne_nil hne
  obtain ⟨r, hr, hx⟩ := column_mem hc m (maxOf_mem hm)
  obtain ⟨s, hs⟩ := checkSource_total (hin r m hr hx) har
  exact ⟨{ flat := col, shape := viewShape kind n xs.length, src := s, offset := i.offset },
    by simp [hc, hm, hs]⟩

/-! ### the constructors -/

/-- the inputs a primitive validates and exposes: the first VERTEX, the first NORMAL, every
    TEXCOORD, TEXTANGENT and TEXBINORMAL input -/
def checked (t : List Input) : List Input :=
  (sel .vertex t).head?.toList ++ (sel .normal t).head?.toList ++ sel .texcoord t ++
    sel .textangent t ++ sel .texbinormal t

/-- `nindices`: largest offset + 1 -/
def strideOf (t : List Input) : Nat := (t.map (·.offset)).foldl max 0 + 1

theorem maxOf_eq_foldl {l : List Nat} {m : Nat} (h : maxOf l = some m) : l.foldl max 0 = m := by
  cases l with
  | nil => simp [maxOf] at h
  | cons x xs =>
    simp only [maxOf, Option.some.injEq] at h
    simp [List.foldl_cons, h]

theorem offset_lt_stride {t : List Input} {i : Input} (hi : i ∈ t) : i.offset < strideOf t := by
  unfold strideOf
  have := (foldl_max_ge (t.map (·.offset)) 0).2 i.offset (List.mem_map_of_mem hi)
  omega

theorem sel_sub {s : Sem} {t : List Input} {i : Input} (h : i ∈ sel s t) : i ∈ t ∧ i.sem = s := by
  simpa [sel] using h

theorem checked_sub {t : List Input} {i : Input} (h : i ∈ checked t) : i ∈ t := by
  simp only [checked, List.mem_append] at h
  rcases h with (((h | h) | h) | h) | h
  · exact (sel_sub (List.mem_of_mem_head? (by simpa using h))).1
  · exact (sel_sub (List.mem_of_mem_head? (by simpa using h))).1
  · exact (sel_sub h).1
  · exact (sel_sub h).1
  · exact (sel_sub h).1

/-- everything an accepted construction establishes -/
structure BuildOk (kind : Kind) (t : List Input) (vc : List Nat) (polys : List (List Nat))
    (pv : PrimViews) : Prop where
  hasInput : t ≠ []
  stride : pv.stride = strideOf t
  vcounts : pv.vcounts =
    if kind = .polygons then polys.map (fun p => p.length / strideOf t) else vc
  whole : polys.flatten.length % (itemWidth kind * strideOf t) = 0
  total : (kind = .polylist ∨ kind = .polygons) → pv.vcounts.sum = polys.flatten.length / strideOf t
  empty : polys.flatten = [] →
    pv.textangent = [] ∧ pv.texbinormal = [] ∧
    (∃ vi, (sel .vertex t).head? = some vi ∧ pv.vertex = some (emptyView kind (strideOf t) vi)) ∧
    pv.normal = (sel .normal t).head?.map (emptyView kind (strideOf t)) ∧
    pv.texcoord = (sel .texcoord t).map (emptyView kind (strideOf t))
  views : polys.flatten ≠ [] →
    allOk (viewOf kind (strideOf t) polys.flatten) (checked t) = .ok pv.all ∧
    (∃ vi, (sel .vertex t).head? = some vi ∧ ∃ vv, pv.vertex = some vv ∧
      viewOf kind (strideOf t) polys.flatten vi = .ok vv) ∧
    allOk (viewOf kind (strideOf t) polys.flatten) (sel .normal t).head?.toList = .ok pv.normal.toList ∧
    allOk (viewOf kind (strideOf t) polys.flatten) (sel .texcoord t) = .ok pv.texcoord ∧
    allOk (viewOf kind (strideOf t) polys.flatten) (sel .textangent t) = .ok pv.textangent ∧
    allOk (viewOf kind (strideOf t) polys.flatten) (sel .texbinormal t) = .ok pv.texbinormal

theorem head?_toList_of_allOk_singleton {α : Type} (l : List α) (h : l.length ≤ 1) :
    l.head?.toList = l := by
  match l, h with
  | [], _ => rfl
  | [a], _ => rfl

theorem build_ok {kind : Kind} {t : List Input} {vc : List Nat} {polys : List (List Nat)}
    {pv : PrimViews} (h : build kind t vc polys = .ok pv) : BuildOk kind t vc polys pv := by
  unfold build at h
  by_cases hl : kind = .lines ∧ sel .vertex t = []
  · rw [if_pos hl] at h; cases h
  · rw [if_neg hl] at h
    cases hm : maxOf (t.map (·.offset)) with
    | none => simp [hm] at h
    | some mo =>
      have hn : strideOf t = mo + 1 := by unfold strideOf; rw [maxOf_eq_foldl hm]
      have hne : t ≠ [] := by
        intro ht; subst ht; simp [maxOf] at hm
      simp only [hm] at h
      rw [← hn] at h
      by_cases hr : polys.flatten.length % (itemWidth kind * strideOf t) ≠ 0
      · rw [if_pos hr] at h; cases h
      · rw [if_neg hr] at h
        have hr' : polys.flatten.length % (itemWidth kind * strideOf t) = 0 := by omega
        by_cases hv : (kind = .polylist ∨ kind = .polygons) ∧
            (if kind = .polygons then polys.map (fun p => p.length / strideOf t) else vc).sum ≠
              polys.flatten.length / strideOf t
        · rw [if_pos hv] at h; cases h
        · rw [if_neg hv] at h
          have hv' : (kind = .polylist ∨ kind = .polygons) →
              (if kind = .polygons then polys.map (fun p => p.length / strideOf t) else vc).sum =
                polys.flatten.length / strideOf t := by
            intro hk
            apply Classical.byContradiction
            intro hc
            exact hv ⟨hk, hc⟩
          by_cases hx : polys.flatten = []
          · rw [if_pos hx] at h
            cases hsv : sel .vertex t with
            | nil => simp [hsv] at h
            | cons vi rest =>
              simp only [hsv, Except.ok.injEq] at h
              subst h
              exact ⟨hne, rfl, rfl, hr', hv',
                fun _ => ⟨rfl, rfl, ⟨vi, by simp [hsv], rfl⟩, rfl, rfl⟩, fun hc => absurd hx hc⟩
          · rw [if_neg hx] at h
            cases hsv : sel .vertex t with
            | nil => simp [hsv] at h
            | cons vi rest =>
              simp only [hsv] at h
              cases h1 : viewOf kind (strideOf t) polys.flatten vi with
              | error e => simp [h1] at h
              | ok vv =>
                cases h2 : allOk (viewOf kind (strideOf t) polys.flatten) (sel .normal t).head?.toList with
                | error e => simp [h1, h2] at h
                | ok nv =>
                  cases h3 : allOk (viewOf kind (strideOf t) polys.flatten) (sel .texcoord t) with
                  | error e => simp [h1, h2, h3] at h
                  | ok tv =>
                    cases h4 : allOk (viewOf kind (strideOf t) polys.flatten) (sel .textangent t) with
                    | error e => simp [h1, h2, h3, h4] at h
                    | ok av =>
                      cases h5 : allOk (viewOf kind (strideOf t) polys.flatten) (sel .texbinormal t) with
                      | error e => simp [h1, h2, h3, h4, h5] at h
                      | ok bv =>
                        simp [h1, h2, h3, h4, h5] at h
                        subst h
                        have hnv : nv.head?.toList = nv := by
                          apply head?_toList_of_allOk_singleton
                          rw [allOk_ok_length h2]
                          cases (sel Sem.normal t).head? <;> simp
                        have h0 : allOk (viewOf kind (strideOf t) polys.flatten) (sel .vertex t).head?.toList
                            = .ok [vv] := by
                          simp [hsv, allOk, h1]
                        refine ⟨hne, rfl, rfl, hr', hv', fun hc => absurd hc hx, fun _ => ⟨?_, ?_, ?_, h3, h4, h5⟩⟩
                        · have := allOk_append (allOk_append (allOk_append (allOk_append h0 h2) h3) h4) h5
                          simp only [checked, PrimViews.all]
                          rw [hnv]
                          exact this
                        · exact ⟨vi, by simp [hsv], vv, rfl, h1⟩
                        · simpa [hnv] using h2

/-- the views of an empty primitive: zero rows over the unchecked source of a validated input -/
theorem BuildOk.emptyViews {kind : Kind} {t : List Input} {vc : List Nat} {polys : List (List Nat)}
    {pv : PrimViews} (b : BuildOk kind t vc polys pv) (hx : polys.flatten = []) :
    ∀ v ∈ pv.all, ∃ i ∈ checked t, v = emptyView kind (strideOf t) i := by
  obtain ⟨hta, hbi, ⟨vi, hvi, hvv⟩, hn, htx⟩ := b.empty hx
  intro v hv
  simp only [PrimViews.all, hta, hbi, List.append_nil, List.mem_append, hvv, hn, htx] at hv
  rcases hv with (hv | hv) | hv
  · simp at hv
    exact ⟨vi, by simp [checked, hvi], hv⟩
  · cases hh : (sel Sem.normal t).head? with
    | none => simp [hh] at hv
    | some ni =>
      simp [hh] at hv
      exact ⟨ni, by simp [checked, hh], hv⟩
  · obtain ⟨i, hi, rfl⟩ := List.mem_map.mp hv
    refine ⟨i, ?_, rfl⟩
    simp only [checked, List.mem_append]
    exact Or.inl (Or.inl (Or.inr hi))

theorem itemWidth_pos (k : Kind) : 0 < itemWidth k := by cases k <;> simp [itemWidth]

theorem strideOf_pos (t : List Input) : 0 < strideOf t := by unfold strideOf; omega

theorem mod_of_mod_mul {len k n : Nat} (h : len % (k * n) = 0) : len % n = 0 :=
  Nat.mod_eq_zero_of_dvd (Nat.dvd_trans (Nat.dvd_mul_left n k) (Nat.dvd_of_mod_eq_zero h))

theorem rows_pos {len k n : Nat} (hlen : 0 < len) (hk : 0 < k) (hn : 0 < n)
    (h : len % (k * n) = 0) : 0 < len / n := by
  have h1 : k * n ≤ len := Nat.le_of_dvd hlen (Nat.dvd_of_mod_eq_zero h)
  have h2 : n ≤ k * n := Nat.le_mul_of_pos_left n hk
  exact Nat.div_pos (by omega) hn

theorem length_pos_of_ne_nil {xs : List Nat} (h : xs ≠ []) : 0 < xs.length := by
  cases xs with
  | nil => exact absurd rfl h
  | cons _ _ => simp

/-- with a VERTEX input, a constructor fails with DaeMalformedError or not at all -/
theorem build_error {kind : Kind} {t : List Input} {vc : List Nat} {polys : List (List Nat)}
    {e : DaeErr} (hv : sel .vertex t ≠ []) (h : build kind t vc polys = .error e) :
    e = .malformed := by
  unfold build at h
  have hl : ¬ (kind = .lines ∧ sel .vertex t = []) := fun hc => hv hc.2
  rw [if_neg hl] at h
  have hne : t ≠ [] := by
    intro ht; subst ht; simp [sel] at hv
  cases hm : maxOf (t.map (·.offset)) with
  | none =>
    have := maxOf_none.mp hm
    simp at this
    exact absurd this hne
  | some mo =>
    have hn : strideOf t = mo + 1 := by unfold strideOf; rw [maxOf_eq_foldl hm]
    simp only [hm] at h
    rw [← hn] at h
    by_cases hr : polys.flatten.length % (itemWidth kind * strideOf t) ≠ 0
    · rw [if_pos hr] at h; exact (Except.error.inj h).symm
    · rw [if_neg hr] at h
      have hr' : polys.flatten.length % (itemWidth kind * strideOf t) = 0 := by omega
      by_cases hv2 : (kind = .polylist ∨ kind = .polygons) ∧
          (if kind = .polygons then polys.map (fun p => p.length / strideOf t) else vc).sum ≠
            polys.flatten.length / strideOf t
      · rw [if_pos hv2] at h; exact (Except.error.inj h).symm
      · rw [if_neg hv2] at h
        by_cases hx : polys.flatten = []
        · rw [if_pos hx] at h
          cases hsv : sel .vertex t with
          | nil => exact absurd hsv hv
          | cons vi rest => simp [hsv] at h
        · rw [if_neg hx] at h
          have hrow : 0 < polys.flatten.length / strideOf t :=
            rows_pos (length_pos_of_ne_nil hx) (itemWidth_pos kind) (strideOf_pos t) hr'
          have hview : ∀ i ∈ t, ∀ e', viewOf kind (strideOf t) polys.flatten i = .error e' →
              e' = .malformed := fun i hi e' he => viewOf_error (offset_lt_stride hi) hrow he
          have hall : ∀ (s : Sem) (l : List Input), (∀ i ∈ l, i ∈ t) → ∀ e',
              allOk (viewOf kind (strideOf t) polys.flatten) l = .error e' → e' = .malformed := by
            intro s l hsub e' he
            obtain ⟨i, hi, hf⟩ := allOk_error he
            exact hview i (hsub i hi) e' hf
          cases hsv : sel .vertex t with
          | nil => exact absurd hsv hv
          | cons vi rest =>
            have hvi : vi ∈ t := (sel_sub (s := .vertex) (by rw [hsv]; exact List.mem_cons_self)).1
            simp only [hsv] at h
            cases h1 : viewOf kind (strideOf t) polys.flatten vi with
            | error e' => simp [h1] at h; subst h; exact hview vi hvi _ h1
            | ok vv =>
              cases h2 : allOk (viewOf kind (strideOf t) polys.flatten) (sel .normal t).head?.toList with
              | error e' =>
                simp [h1, h2] at h; subst h
                refine hall .normal _ ?_ _ h2
                intro i hi
                exact (sel_sub (List.mem_of_mem_head? (by simpa using hi))).1
              | ok nv =>
                cases h3 : allOk (viewOf kind (strideOf t) polys.flatten) (sel .texcoord t) with
                | error e' =>
                  simp [h1, h2, h3] at h; subst h
                  exact hall .texcoord _ (fun i hi => (sel_sub hi).1) _ h3
                | ok tv =>
                  cases h4 : allOk (viewOf kind (strideOf t) polys.flatten) (sel .textangent t) with
                  | error e' =>
                    simp [h1, h2, h3, h4] at h; subst h
                    exact hall .textangent _ (fun i hi => (sel_sub hi).1) _ h4
                  | ok av =>
                    cases h5 : allOk (viewOf kind (strideOf t) polys.flatten) (sel .texbinormal t) with
                    | error e' =>
                      simp [h1, h2, h3, h4, h5] at h; subst h
                      exact hall .texbinormal _ (fun i hi => (sel_sub hi).1) _ h5
                    | ok bv => simp [h1, h2, h3, h4, h5] at h

/-- nothing wrong ⇒ accepted -/
theorem build_total {kind : Kind} {t : List Input} {vc : List Nat} {polys : List (List Nat)}
    (hv : sel .vertex t ≠ [])
    (hw : polys.flatten.length % (itemWidth kind * strideOf t) = 0)
    (htot : (kind = .polylist ∨ kind = .polygons) →
      (if kind = .polygons then polys.map (fun p => p.length / strideOf t) else vc).sum =
        polys.flatten.length / strideOf t)
    (hin : polys.flatten ≠ [] → ∀ i ∈ checked t, i.src.comps.length = (want i.sem).length ∧
      ∀ r e, polys.flatten[r * strideOf t + i.offset]? = some e → e < i.src.rows) :
    ∃ pv, build kind t vc polys = .ok pv := by
  cases hb : build kind t vc polys with
  | ok pv => exact ⟨pv, rfl⟩
  | error e =>
    exfalso
    unfold build at hb
    have hl : ¬ (kind = .lines ∧ sel .vertex t = []) := fun hc => hv hc.2
    rw [if_neg hl] at hb
    have hne : t ≠ [] := by
      intro ht; subst ht; simp [sel] at hv
    cases hm : maxOf (t.map (·.offset)) with
    | none =>
      have := maxOf_none.mp hm
      simp at this
      exact absurd this hne
    | some mo =>
      have hn : strideOf t = mo + 1 := by unfold strideOf; rw [maxOf_eq_foldl hm]
      simp only [hm] at hb
      rw [← hn] at hb
      rw [if_neg (by omega)] at hb
      have hv2 : ¬ ((kind = .polylist ∨ kind = .polygons) ∧
          (if kind = .polygons then polys.map (fun p => p.length / strideOf t) else vc).sum ≠
            polys.flatten.length / strideOf t) := fun hc => hc.2 (htot hc.1)
      rw [if_neg hv2] at hb
      by_cases hx : polys.flatten = []
      · rw [if_pos hx] at hb
        cases hsv : sel .vertex t with
        | nil => exact absurd hsv hv
        | cons vi rest => simp [hsv] at hb
      · rw [if_neg hx] at hb
        have hrow : 0 < polys.flatten.length / strideOf t :=
          rows_pos (length_pos_of_ne_nil hx) (itemWidth_pos kind) (strideOf_pos t) hw
        have hview : ∀ i ∈ checked t, ∃ v, viewOf kind (strideOf t) polys.flatten i = .ok v := by
          intro i hi
          obtain ⟨har, hrng⟩ := hin hx i hi
          exact viewOf_total (offset_lt_stride (checked_sub hi)) hrow
            (fun r e _ he => hrng r e he) har
        have hall : ∀ l : List Input, (∀ i ∈ l, i ∈ checked t) →
            ∃ vs, allOk (viewOf kind (strideOf t) polys.flatten) l = .ok vs :=
          fun l hsub => allOk_total (fun i hi => hview i (hsub i hi))
        cases hsv : sel .vertex t with
        | nil => exact absurd hsv hv
        | cons vi rest =>
          simp only [hsv] at hb
          obtain ⟨vv, h1⟩ := hview vi (by simp [checked, hsv])
          obtain ⟨nv, h2⟩ := hall (sel .normal t).head?.toList (by
            intro i hi; simp only [checked, List.mem_append]; exact Or.inl (Or.inl (Or.inl (Or.inr hi))))
          obtain ⟨tv, h3⟩ := hall (sel .texcoord t) (by
            intro i hi; simp only [checked, List.mem_append]; exact Or.inl (Or.inl (Or.inr hi)))
          obtain ⟨av, h4⟩ := hall (sel .textangent t) (by
            intro i hi; simp only [checked, List.mem_append]; exact Or.inl (Or.inr hi))
          obtain ⟨bv, h5⟩ := hall (sel .texbinormal t) (by
            intro i hi; simp only [checked, List.mem_append]; exact Or.inr hi)
          simp [h1, h2, h3, h4, h5] at hb

/-! ### sources -/

theorem floatSource_spec (rawLen : Nat) (comps : List String) (hc : comps ≠ []) :
    (rawLen % comps.length = 0 → floatSource rawLen comps = .ok ⟨rawLen / comps.length, comps⟩) ∧
    (rawLen % comps.length ≠ 0 → floatSource rawLen comps = .error .malformed) := by
  have : comps.length ≠ 0 := by
    cases comps with
    | nil => exact absurd rfl hc
    | cons _ _ => simp
  unfold floatSource
  constructor
  · intro h; simp [this, h]
  · intro h; simp [this, h]

/-- a source with named components is built exactly when its data length is a multiple of the
    stride, and fails with DaeMalformedError otherwise -/
theorem buildSource_spec (loaded : Bool) (s : SrcSpec) (hn : s.names ≠ []) :
    (s.rawLen % s.stride loaded = 0 → ∃ src, buildSource loaded s = .ok src) ∧
    (s.rawLen % s.stride loaded ≠ 0 → buildSource loaded s = .error .malformed) := by
  unfold buildSource SrcSpec.stride
  cases loaded with
  | false =>
    simp only [Bool.false_eq_true, false_and, if_false]
    exact ⟨fun h => ⟨_, (floatSource_spec _ _ hn).1 h⟩, fun h => (floatSource_spec _ _ hn).2 h⟩
  | true =>
    simp only [true_and, if_true]
    unfold loadSource
    rw [if_neg hn]
    by_cases huv : s.names = ["U", "V"]
    · have hne : ¬ s.names = ["S", "T", "P"] := by rw [huv]; decide
      rw [if_pos huv, if_neg hne]
      have hl : s.names.length = 2 := by rw [huv]; rfl
      rw [hl]
      have := floatSource_spec s.rawLen ["S", "T"] (by decide)
      exact ⟨fun h => ⟨_, this.1 h⟩, fun h => this.2 h⟩
    · rw [if_neg huv]
      by_cases hstp : s.names = ["S", "T", "P"]
      · rw [if_pos hstp, if_pos hstp]
        constructor
        · intro h
          have h' : ¬ s.rawLen % 3 ≠ 0 := by omega
          rw [if_neg h']
          have := floatSource_spec (s.rawLen / 3 * 2) ["S", "T"] (by decide)
          exact ⟨_, this.1 (by simp [Nat.mul_mod_left])⟩
        · intro h; rw [if_pos h]
      · rw [if_neg hstp, if_neg hstp]
        exact ⟨fun h => ⟨_, (floatSource_spec _ _ hn).1 h⟩, fun h => (floatSource_spec _ _ hn).2 h⟩

theorem buildSource_error (loaded : Bool) (s : SrcSpec) (hn : s.names ≠ []) {e : DaeErr}
    (h : buildSource loaded s = .error e) : e = .malformed := by
  by_cases hd : s.rawLen % s.stride loaded = 0
  · obtain ⟨src, hs⟩ := (buildSource_spec loaded s hn).1 hd
    rw [hs] at h; cases h
  · rw [(buildSource_spec loaded s hn).2 hd] at h
    exact (Except.error.inj h).symm

/-! ### polygons: the two whole-stream checks imply that every `<p>` is whole -/

theorem sum_div_mod (n : Nat) (ls : List Nat) :
    n * (ls.map (· / n)).sum + (ls.map (· % n)).sum = ls.sum := by
  induction ls with
  | nil => simp
  | cons l ls ih =>
    simp only [List.map_cons, List.sum_cons, Nat.mul_add]
    have := Nat.div_add_mod l n
    omega

theorem sum_eq_zero {ls : List Nat} (h : ls.sum = 0) : ∀ x ∈ ls, x = 0 := by
  induction ls with
  | nil => simp
  | cons l ls ih =>
    simp only [List.sum_cons] at h
    intro x hx
    rcases List.mem_cons.mp hx with rfl | hx
    · omega
    · exact ih (by omega) x hx

theorem polygons_div {n : Nat} {polys : List (List Nat)}
    (hw : polys.flatten.length % n = 0)
    (hs : (polys.map (fun p => p.length / n)).sum = polys.flatten.length / n) :
    ∀ p ∈ polys, p.length % n = 0 := by
  have h1 := sum_div_mod n (polys.map List.length)
  rw [List.map_map, List.map_map] at h1
  have h2 : (polys.map List.length).sum = polys.flatten.length := by
    rw [List.length_flatten]
  have h3 : n * (polys.flatten.length / n) = polys.flatten.length := by
    have := Nat.div_add_mod polys.flatten.length n
    omega
  have h4 : (List.map ((fun x => x / n) ∘ List.length) polys).sum = polys.flatten.length / n := hs
  rw [h4, h2, h3] at h1
  have h5 : (List.map ((fun x => x % n) ∘ List.length) polys).sum = 0 := by omega
  intro p hp
  exact sum_eq_zero h5 _ (List.mem_map_of_mem (f := (fun x => x % n) ∘ List.length) hp)

/-! ### the whole request -/

theorem construct_of_table {spec : PrimSpec} {t : List Input} (ht : tableOf spec = .ok t) :
    construct spec =
      if parsedEarly spec = true ∧ parsedLate spec = true then
        build spec.kind t spec.vcounts spec.polys
      else .error .malformed := by
  unfold tableOf at ht
  unfold construct
  cases hs : sourcesOf spec with
  | error e => simp [hs] at ht
  | ok srcs =>
    simp only [hs] at ht ⊢
    rw [ht]
    cases parsedEarly spec <;> cases parsedLate spec <;> simp

theorem construct_ok {spec : PrimSpec} {pv : PrimViews} (h : construct spec = .ok pv) :
    ∃ t, tableOf spec = .ok t ∧ parsedEarly spec = true ∧ parsedLate spec = true ∧
      build spec.kind t spec.vcounts spec.polys = .ok pv := by
  unfold construct at h
  unfold tableOf
  cases hs : sourcesOf spec with
  | error e => simp [hs] at h
  | ok srcs =>
    simp only [hs] at h ⊢
    cases he : parsedEarly spec with
    | false => simp [he] at h
    | true =>
      simp only [he] at h
      cases ht : tableFrom spec srcs with
      | error e => simp [ht] at h
      | ok t =>
        simp only [ht] at h
        cases hl : parsedLate spec with
        | false => simp [hl] at h
        | true =>
          simp [hl] at h
          exact ⟨t, rfl, rfl, rfl, h⟩

theorem sourcesOf_malformed {spec : PrimSpec} (hn : ∀ s ∈ spec.sources, s.names ≠ [])
    {s : SrcSpec} (hs : s ∈ spec.sources) (hbad : s.rawLen % s.stride spec.loaded ≠ 0) :
    sourcesOf spec = .error .malformed := by
  unfold sourcesOf
  apply allOk_fails
  · intro a ha e he
    exact buildSource_error _ a (hn a ha) he
  · exact ⟨s, hs, _, (buildSource_spec _ s (hn s hs)).2 hbad⟩

theorem resolve_error {srcs : List Src} {i : RawInput} {e : DaeErr}
    (h : resolve srcs i = .error e) : (e = .malformed ∧ i.ref = .bad) ∨ (e = .brokenRef ∧ i.ref ≠ .bad) := by
  unfold resolve at h
  split at h
  · next hb => exact Or.inl ⟨(Except.error.inj h).symm, hb⟩
  · next hv => exact Or.inr ⟨(Except.error.inj h).symm, by rw [hv]; decide⟩
  · next k hk =>
    split at h
    · exact Or.inr ⟨(Except.error.inj h).symm, by rw [hk]; simp⟩
    · cases h

theorem allOk_self {ε : Type} {f : Nat → Except ε Nat} : ∀ {l : List Nat},
    (∀ e ∈ l, f e = .ok e) → allOk f l = .ok l
  | [], _ => rfl
  | a :: as, h => by
    simp [allOk, h a List.mem_cons_self,
      allOk_self (l := as) (fun e he => h e (List.mem_cons_of_mem _ he))]

theorem div_mul_width {len k n : Nat} (hk : 0 < k) (hn : 0 < n) (h : len % (k * n) = 0) :
    len / (k * n) * k = len / n := by
  obtain ⟨q, hq⟩ := Nat.dvd_of_mod_eq_zero h
  have hkn : 0 < k * n := Nat.mul_pos hk hn
  rw [hq, Nat.mul_div_cancel_left q hkn]
  have : k * n * q = n * (q * k) := by
    rw [Nat.mul_comm k n, Nat.mul_assoc, Nat.mul_comm k q]
  rw [this, Nat.mul_div_cancel_left _ hn]

theorem sum_map_div {n : Nat} (hn : 0 < n) {ls : List Nat} (h : ∀ l ∈ ls, l % n = 0) :
    (ls.map (· / n)).sum = ls.sum / n := by
  have h1 := sum_div_mod n ls
  have h2 : (ls.map (· % n)).sum = 0 := by
    clear h1
    induction ls with
    | nil => rfl
    | cons l ls ih =>
      simp only [List.map_cons, List.sum_cons]
      rw [h l List.mem_cons_self, ih (fun x hx => h x (List.mem_cons_of_mem _ hx))]
  rw [h2, Nat.add_zero] at h1
  rw [← h1, Nat.mul_div_cancel_left _ hn]

end Pyc.Validate
