/-
Helper lemmas for C11 (strips, fans, polygon triangulation). Core Lean only.
-/
import Pyc.Model.IndexOps

namespace Pyc.IndexOps

/-! ### traverse / gather / tri? -/

theorem traverse_eq_some_iff {α β : Type} (f : α → Option β) :
    ∀ (l : List α) (out : List β), traverse f l = some out ↔ out.map some = l.map f
  | [], out => by
    cases out <;> simp [traverse]
  | a :: t, out => by
    cases out with
    | nil =>
      simp only [traverse, List.map_nil, List.map_cons]
      cases f a <;> cases traverse f t <;> simp
    | cons b bs =>
      have ih := traverse_eq_some_iff f t bs
      simp only [traverse, List.map_cons, List.cons.injEq]
      cases hfa : f a with
      | none => simp
      | some b' =>
        cases ht : traverse f t with
        | none =>
          simp only [ht] at ih
          simp only [Option.some.injEq]
          constructor
          · intro h; cases h
          · intro h; exact absurd (ih.mpr h.2) (by simp)
        | some bs' =>
          simp only [ht, Option.some.injEq] at ih
          simp only [Option.some.injEq, List.cons.injEq]
          constructor
          · rintro ⟨h1, h2⟩; exact ⟨h1.symm, ih.mp h2⟩
          · rintro ⟨h1, h2⟩; exact ⟨h1.symm, ih.mpr h2⟩

theorem traverse_map_some {α β : Type} (f : α → Option β) (g : α → β) (l : List α)
    (h : ∀ a ∈ l, f a = some (g a)) : traverse f l = some (l.map g) := by
  rw [traverse_eq_some_iff]
  rw [List.map_map]
  apply List.map_congr_left
  intro a ha
  simp [h a ha]

theorem traverse_append {α β : Type} (f : α → Option β) (l₁ l₂ : List α) (o₁ o₂ : List β)
    (h₁ : traverse f l₁ = some o₁) (h₂ : traverse f l₂ = some o₂) :
    traverse f (l₁ ++ l₂) = some (o₁ ++ o₂) := by
  rw [traverse_eq_some_iff] at *
  simp [h₁, h₂]

theorem tri?_none_of_le {α : Type} (xs : List α) (a b c : Nat) (h : xs.length ≤ c) :
    tri? xs a b c = none := by
  unfold tri?
  have : xs[c]? = none := List.getElem?_eq_none h
  rw [this]
  cases xs[a]? <;> cases xs[b]? <;> rfl

theorem tri?_cons {α : Type} (x : α) (xs : List α) (a b c : Nat) :
    tri? (x :: xs) (a + 1) (b + 1) (c + 1) = tri? xs a b c := by
  simp [tri?]

theorem tri?_map {α β : Type} (f : α → β) (xs : List α) (a b c : Nat) :
    tri? (xs.map f) a b c = (tri? xs a b c).map (mapTri f) := by
  unfold tri?
  simp only [List.getElem?_map]
  cases xs[a]? <;> cases xs[b]? <;> cases xs[c]? <;> simp [mapTri]

/-! ### slices -/

theorem evens_length {α : Type} : ∀ (l : List α), (evens l).length = (l.length + 1) / 2
  | [] => by simp [evens]
  | [_] => by simp [evens]
  | _ :: _ :: t => by simp [evens, evens_length t]; omega

theorem evens_getElem? {α : Type} : ∀ (l : List α) (k : Nat), (evens l)[k]? = l[2 * k]?
  | [], k => by simp [evens]
  | [a], k => by cases k <;> simp [evens]
  | a :: b :: t, 0 => by simp [evens]
  | a :: b :: t, k + 1 => by
    have : 2 * (k + 1) = (2 * k) + 1 + 1 := by omega
    simp [evens, evens_getElem? t k, this]

theorem evens_cons {α : Type} (a : α) (l : List α) : evens (a :: l) = a :: evens l.tail := by
  cases l <;> simp [evens]

theorem evens_map {α β : Type} (f : α → β) : ∀ (l : List α), evens (l.map f) = (evens l).map f
  | [] => by simp [evens]
  | [_] => by simp [evens]
  | _ :: _ :: t => by simp [evens, evens_map f t]

/-- the elements at even and at odd positions together are all the elements -/
theorem evens_odds_perm {α : Type} : ∀ (l : List α), (evens l ++ evens l.tail).Perm l
  | [] => by simp [evens]
  | a :: l => by
    rw [evens_cons]
    simp only [List.tail_cons, List.cons_append]
    exact List.Perm.cons a ((List.perm_append_comm).trans (evens_odds_perm l))

theorem slice2_getElem? {α : Type} (xs : List α) (a b k : Nat) :
    (slice2 xs a b)[k]? = if a + 2 * k < b then xs[a + 2 * k]? else none := by
  simp [slice2, evens_getElem?, List.getElem?_drop, List.getElem?_take]

theorem slice2_length {α : Type} (xs : List α) (a b : Nat) :
    (slice2 xs a b).length = (min b xs.length - a + 1) / 2 := by
  simp [slice2, evens_length]

/-! ### zip3 -/

theorem zip3_getElem? {α : Type} : ∀ (as bs cs : List α) (i : Nat),
    (zip3 as bs cs)[i]? =
      match as[i]?, bs[i]?, cs[i]? with
      | some a, some b, some c => some (a, b, c)
      | _, _, _ => none
  | [], _, _, i => by simp [zip3]
  | _ :: _, [], _, i => by
    simp only [zip3, List.getElem?_nil]
    split <;> simp_all
  | _ :: _, _ :: _, [], i => by
    simp only [zip3, List.getElem?_nil]
    split <;> simp_all
  | a :: as, b :: bs, c :: cs, 0 => by simp [zip3]
  | a :: as, b :: bs, c :: cs, i + 1 => by simp [zip3, zip3_getElem? as bs cs i]

theorem zip3_map {α β : Type} (f : α → β) : ∀ (as bs cs : List α),
    zip3 (as.map f) (bs.map f) (cs.map f) = (zip3 as bs cs).map (mapTri f)
  | [], _, _ => by simp [zip3]
  | _ :: _, [], _ => by simp [zip3]
  | _ :: _, _ :: _, [] => by simp [zip3]
  | a :: as, b :: bs, c :: cs => by simp [zip3, zip3_map f as bs cs, mapTri]

/-! ### strips -/

/-- the even-numbered triangles as the code builds them (before the raggedness check) -/
def evenTris {α : Type} (xs : List α) : List (Tri α) :=
  zip3 (slice2 xs 0 (xs.length - 2)) (slice2 xs 1 (xs.length - 1)) (slice2 xs 2 xs.length)

def oddTris {α : Type} (xs : List α) : List (Tri α) :=
  zip3 (slice2 xs 2 (xs.length - 1)) (slice2 xs 1 (xs.length - 2)) (slice2 xs 3 xs.length)

/-- the three slices of `cw_` always have the same length: `numpy.array` never sees ragged input -/
theorem stripEven_some {α : Type} (xs : List α) : stripEven xs = some (evenTris xs) := by
  unfold stripEven evenTris zip3?
  simp only [slice2_length]
  rw [if_pos]
  constructor <;> omega

theorem stripOdd_some {α : Type} (xs : List α) : stripOdd xs = some (oddTris xs) := by
  unfold stripOdd oddTris zip3?
  simp only [slice2_length]
  rw [if_pos]
  constructor <;> omega

theorem strip_some {α : Type} (xs : List α) : strip xs = some (evenTris xs ++ oddTris xs) := by
  simp [strip, stripEven_some, stripOdd_some]

theorem evenTris_getElem? {α : Type} (xs : List α) (j : Nat) :
    (evenTris xs)[j]? = tri? xs (2 * j) (2 * j + 1) (2 * j + 2) := by
  unfold evenTris
  rw [zip3_getElem?]
  simp only [slice2_getElem?]
  by_cases h : 2 * j + 2 < xs.length
  · have h1 : 0 + 2 * j < xs.length - 2 := by omega
    have h2 : 1 + 2 * j < xs.length - 1 := by omega
    have h3 : 2 + 2 * j < xs.length := by omega
    simp only [h1, h2, h3, if_true]
    have e1 : 0 + 2 * j = 2 * j := by omega
    have e2 : 1 + 2 * j = 2 * j + 1 := by omega
    have e3 : 2 + 2 * j = 2 * j + 2 := by omega
    rw [e1, e2, e3]
    rfl
  · have h1 : ¬ (0 + 2 * j < xs.length - 2) := by omega
    simp only [h1, if_false]
    rw [tri?_none_of_le xs _ _ _ (by omega)]

theorem oddTris_getElem? {α : Type} (xs : List α) (j : Nat) :
    (oddTris xs)[j]? = tri? xs (2 * j + 2) (2 * j + 1) (2 * j + 3) := by
  unfold oddTris
  rw [zip3_getElem?]
  simp only [slice2_getElem?]
  by_cases h : 2 * j + 3 < xs.length
  · have h1 : 2 + 2 * j < xs.length - 1 := by omega
    have h2 : 1 + 2 * j < xs.length - 2 := by omega
    have h3 : 3 + 2 * j < xs.length := by omega
    simp only [h1, h2, h3, if_true]
    have e1 : 2 + 2 * j = 2 * j + 2 := by omega
    have e2 : 1 + 2 * j = 2 * j + 1 := by omega
    have e3 : 3 + 2 * j = 2 * j + 3 := by omega
    rw [e1, e2, e3]
    rfl
  · have h1 : ¬ (2 + 2 * j < xs.length - 1) := by omega
    simp only [h1, if_false]
    rw [tri?_none_of_le xs _ _ _ (by omega)]

theorem stripOrder_cons3 {α : Type} (odd : Bool) (a b c : α) (t : List α) :
    stripOrder odd (a :: b :: c :: t) =
      (if odd then (b, a, c) else (a, b, c)) :: stripOrder (!odd) (b :: c :: t) := by
  rw [stripOrder]

theorem stripOrder_getElem? {α : Type} : ∀ (xs : List α) (odd : Bool) (i : Nat),
    (stripOrder odd xs)[i]? =
      if (odd ^^ decide (i % 2 = 1)) then tri? xs (i + 1) i (i + 2) else tri? xs i (i + 1) (i + 2)
  | [], odd, i => by
    simp [stripOrder, tri?]
  | [a], odd, i => by
    simp only [stripOrder, List.getElem?_nil]
    rw [tri?_none_of_le _ _ _ _ (by simp), tri?_none_of_le _ _ _ _ (by simp)]; simp
  | [a, b], odd, i => by
    simp only [stripOrder, List.getElem?_nil]
    rw [tri?_none_of_le _ _ _ _ (by simp), tri?_none_of_le _ _ _ _ (by simp)]; simp
  | a :: b :: c :: t, odd, 0 => by
    rw [stripOrder_cons3]
    cases odd <;> simp [tri?]
  | a :: b :: c :: t, odd, j + 1 => by
    have ih := stripOrder_getElem? (b :: c :: t) (!odd) j
    rw [stripOrder_cons3, List.getElem?_cons_succ, ih]
    have e1 : tri? (a :: b :: c :: t) (j + 1 + 1) (j + 1) (j + 1 + 2) = tri? (b :: c :: t) (j + 1) j (j + 2) :=
      tri?_cons a _ (j + 1) j (j + 2)
    have e2 : tri? (a :: b :: c :: t) (j + 1) (j + 1 + 1) (j + 1 + 2) = tri? (b :: c :: t) j (j + 1) (j + 2) :=
      tri?_cons a _ j (j + 1) (j + 2)
    rw [e1, e2]
    have hp : decide ((j + 1) % 2 = 1) = !decide (j % 2 = 1) := by
      by_cases h : j % 2 = 1
      · have : ¬ ((j + 1) % 2 = 1) := by omega
        simp [h, this]
      · have : (j + 1) % 2 = 1 := by omega
        simp [h, this]
    rw [hp]
    cases odd <;> cases decide (j % 2 = 1) <;> rfl

theorem stripOrder_false_getElem? {α : Type} (xs : List α) (i : Nat) :
    (stripOrder false xs)[i]? = stripTri? xs i := by
  rw [stripOrder_getElem?]
  unfold stripTri?
  by_cases h : i % 2 = 0
  · have : ¬ (i % 2 = 1) := by omega
    simp [h]
  · have : i % 2 = 1 := by omega
    simp [this]

theorem stripTri?_isSome {α : Type} (xs : List α) (i : Nat) :
    (stripTri? xs i).isSome = decide (i + 2 < xs.length) := by
  unfold stripTri? tri?
  by_cases h : i + 2 < xs.length
  · have h0 : i < xs.length := by omega
    have h1 : i + 1 < xs.length := by omega
    simp [h, List.getElem?_eq_getElem h0, List.getElem?_eq_getElem h1]
    split <;> rfl
  · have : xs[i + 2]? = none := List.getElem?_eq_none (by omega)
    simp only [this, h, decide_false]
    split <;> (cases xs[i]? <;> cases xs[i + 1]? <;> rfl)

theorem stripOrder_length {α : Type} (xs : List α) : (stripOrder false xs).length = xs.length - 2 := by
  apply Nat.le_antisymm
  · apply Nat.le_of_not_lt
    intro h
    have h1 : ((stripOrder false xs)[xs.length - 2]?).isSome = true := by
      rw [List.getElem?_eq_getElem h]; rfl
    rw [stripOrder_false_getElem?, stripTri?_isSome] at h1
    simp at h1
    omega
  · apply Nat.le_of_not_lt
    intro h
    have h1 : (stripOrder false xs)[(stripOrder false xs).length]? = none := List.getElem?_eq_none (Nat.le_refl _)
    rw [stripOrder_false_getElem?] at h1
    have h2 := stripTri?_isSome xs (stripOrder false xs).length
    rw [h1] at h2
    simp at h2
    omega

/-- the code's first block is the even positions of the strip-order reading -/
theorem evenTris_eq {α : Type} (xs : List α) : evenTris xs = evens (stripOrder false xs) := by
  apply List.ext_getElem?
  intro j
  rw [evenTris_getElem?, evens_getElem?, stripOrder_false_getElem?]
  unfold stripTri?
  simp

theorem oddTris_eq {α : Type} (xs : List α) : oddTris xs = evens (stripOrder false xs).tail := by
  apply List.ext_getElem?
  intro j
  rw [oddTris_getElem?, evens_getElem?, List.getElem?_tail, stripOrder_false_getElem?]
  unfold stripTri?
  simp

theorem stripOrder_map {α β : Type} (f : α → β) : ∀ (xs : List α) (odd : Bool),
    stripOrder odd (xs.map f) = (stripOrder odd xs).map (mapTri f)
  | [], odd => by simp [stripOrder]
  | [a], odd => by simp [stripOrder]
  | [a, b], odd => by simp [stripOrder]
  | a :: b :: c :: t, odd => by
    have ih := stripOrder_map f (b :: c :: t) (!odd)
    simp only [List.map_cons] at ih
    simp only [List.map_cons]
    rw [stripOrder_cons3, stripOrder_cons3, ih]
    cases odd <;> simp [mapTri]

/-! ### fans -/

theorem fanFrom_getElem? {α : Type} (a : α) : ∀ (l : List α) (i : Nat),
    (fanFrom a l)[i]? = match l[i]?, l[i + 1]? with
      | some b, some c => some (a, b, c)
      | _, _ => none
  | [], i => by simp [fanFrom]
  | [b], i => by
    simp only [fanFrom, List.getElem?_nil]
    cases i <;> simp
  | b :: c :: t, 0 => by simp [fanFrom]
  | b :: c :: t, i + 1 => by
    have ih := fanFrom_getElem? a (c :: t) i
    rw [fanFrom]
    simp only [List.getElem?_cons_succ]
    exact ih

/-- triangle `i` of a fan is `(x 0, x (i+1), x (i+2))`, and there is none from `i = n - 2` on -/
theorem fanSpec_getElem? {α : Type} (xs : List α) (i : Nat) :
    (fanSpec xs)[i]? = tri? xs 0 (i + 1) (i + 2) := by
  cases xs with
  | nil => simp [fanSpec, tri?]
  | cons a l =>
    simp only [fanSpec, fanFrom_getElem?, tri?, List.getElem?_cons_zero, List.getElem?_cons_succ]
    cases l[i]? <;> cases l[i + 1]? <;> rfl

theorem fanSpec_length {α : Type} (xs : List α) : (fanSpec xs).length = xs.length - 2 := by
  cases xs with
  | nil => simp [fanSpec]
  | cons a l =>
    simp only [fanSpec, List.length_cons]
    induction l with
    | nil => simp [fanFrom]
    | cons b t ih =>
      cases t with
      | nil => simp [fanFrom]
      | cons c t' =>
        rw [fanFrom]
        simp only [List.length_cons] at ih ⊢
        omega

theorem fanFrom_map {α β : Type} (f : α → β) (a : α) : ∀ (l : List α),
    fanFrom (f a) (l.map f) = (fanFrom a l).map (mapTri f)
  | [] => by simp [fanFrom]
  | [b] => by simp [fanFrom]
  | b :: c :: t => by
    have ih := fanFrom_map f a (c :: t)
    simp only [List.map_cons] at ih ⊢
    rw [fanFrom, fanFrom, ih]
    simp [mapTri]

theorem fanSpec_map {α β : Type} (f : α → β) (xs : List α) :
    fanSpec (xs.map f) = (fanSpec xs).map (mapTri f) := by
  cases xs with
  | nil => simp [fanSpec]
  | cons a l => simp [fanSpec, fanFrom_map]

/-- `_extendFromFan` never sees ragged operands and produces the fan around the first row -/
theorem fan_some {α : Type} (xs : List α) : fan xs = some (fanSpec xs) := by
  unfold fan zip3?
  have hl : ((xs.take 1).flatMap (List.replicate (xs.length - 2))).length = xs.length - 2 := by
    cases xs with
    | nil => simp
    | cons a l => simp
  rw [if_pos (by rw [hl]; simp; omega)]
  congr 1
  apply List.ext_getElem?
  intro i
  rw [zip3_getElem?, fanSpec_getElem?]
  unfold tri?
  have h0 : ((xs.take 1).flatMap (List.replicate (xs.length - 2)))[i]? =
      if i < xs.length - 2 then xs[0]? else none := by
    cases xs with
    | nil => simp
    | cons a l =>
      simp only [List.take_succ_cons, List.take_zero, List.flatMap_cons, List.flatMap_nil,
        List.append_nil, List.getElem?_replicate, List.getElem?_cons_zero]
  rw [h0]
  simp only [List.getElem?_drop, List.getElem?_take]
  by_cases h : i + 2 < xs.length
  · have h1 : i < xs.length - 2 := by omega
    have h2 : i + 1 < xs.length - 1 := by omega
    have e1 : 1 + i = i + 1 := by omega
    have e2 : 2 + i = i + 2 := by omega
    simp only [h1, h2, if_true, e1, e2]
    cases xs[0]? <;> cases xs[i + 1]? <;> cases xs[i + 2]? <;> rfl
  · have h1 : ¬ (i < xs.length - 2) := by omega
    have : xs[i + 2]? = none := List.getElem?_eq_none (by omega)
    simp only [h1, if_false, this]
    cases xs[0]? <;> cases xs[i + 1]? <;> rfl

/-- `Polygon.triangles()` produces the same fan -/
theorem polygonTriangles_some {α : Type} (xs : List α) : polygonTriangles xs = some (fanSpec xs) := by
  unfold polygonTriangles
  rw [traverse_eq_some_iff]
  apply List.ext_getElem?
  intro i
  simp only [List.getElem?_map, fanSpec_getElem?]
  by_cases h : i < xs.length - 2
  · rw [List.getElem?_range h]
    have h2 : i + 2 < xs.length := by omega
    have ht : tri? xs 0 (i + 1) (i + 2) = some (xs[0], xs[i + 1], xs[i + 2]) := by
      unfold tri?
      rw [List.getElem?_eq_getElem h2, List.getElem?_eq_getElem (by omega : i + 1 < xs.length),
        List.getElem?_eq_getElem (by omega : 0 < xs.length)]
    simp only [Option.map_some, ht]
  · have : (List.range (xs.length - 2))[i]? = none := List.getElem?_eq_none (by simp; omega)
    rw [this, tri?_none_of_le xs _ _ _ (by omega)]
    rfl

/-! ### reshape into rows, the per-<p> loop -/

theorem traverse_none {α β : Type} (f : α → Option β) : ∀ (l : List α) (a : α), a ∈ l → f a = none →
    traverse f l = none
  | [], a, h, _ => by cases h
  | x :: t, a, h, hf => by
    simp only [List.mem_cons] at h
    rcases h with rfl | h
    · simp [traverse, hf]
    · have := traverse_none f t a h hf
      simp only [traverse, this]
      cases f x <;> rfl

theorem traverse_map {α β γ : Type} (g : γ → α) (f : α → Option β) : ∀ (l : List γ),
    traverse f (l.map g) = traverse (fun x => f (g x)) l
  | [] => rfl
  | x :: t => by simp [traverse, traverse_map g f t]

theorem rowsGo_getElem? {β : Type} (k : Nat) : ∀ (m : Nat) (xs : List β) (i : Nat),
    (rowsGo k m xs)[i]? = if i < m then some ((xs.drop (k * i)).take k) else none
  | 0, xs, i => by simp [rowsGo]
  | m + 1, xs, 0 => by simp [rowsGo]
  | m + 1, xs, i + 1 => by
    simp only [rowsGo, List.getElem?_cons_succ, rowsGo_getElem? k m (xs.drop k) i, List.drop_drop]
    have : k + k * i = k * (i + 1) := by rw [Nat.mul_succ]; omega
    rw [this]
    by_cases h : i < m
    · simp [h]
    · simp [h]

theorem rowsGo_length {β : Type} (k : Nat) : ∀ (m : Nat) (xs : List β), (rowsGo k m xs).length = m
  | 0, _ => rfl
  | m + 1, xs => by simp [rowsGo, rowsGo_length k m]

theorem rowsGo_flatten {β : Type} (k : Nat) : ∀ (m : Nat) (xs : List β),
    (rowsGo k m xs).flatten = xs.take (m * k)
  | 0, xs => by simp [rowsGo]
  | m + 1, xs => by
    simp only [rowsGo, List.flatten_cons, rowsGo_flatten k m]
    have : (m + 1) * k = k + m * k := by rw [Nat.succ_mul]; omega
    rw [this, List.take_add]

theorem rowsGo_append {β : Type} (k : Nat) : ∀ (m n : Nat) (xs ys : List β), xs.length = m * k →
    rowsGo k (m + n) (xs ++ ys) = rowsGo k m xs ++ rowsGo k n ys
  | 0, n, xs, ys, h => by
    have : xs = [] := by
      apply List.eq_nil_of_length_eq_zero; simpa using h
    simp [this, rowsGo]
  | m + 1, n, xs, ys, h => by
    have hk : k ≤ xs.length := by rw [h, Nat.succ_mul]; omega
    have e : m + 1 + n = (m + n) + 1 := by omega
    rw [e]
    simp only [rowsGo]
    have h1 : (xs ++ ys).take k = xs.take k := by
      rw [List.take_append_of_le_length hk]
    have h2 : (xs ++ ys).drop k = xs.drop k ++ ys := by
      rw [List.drop_append_of_le_length hk]
    rw [h1, h2, rowsGo_append k m n (xs.drop k) ys (by rw [List.length_drop, h, Nat.succ_mul]; omega)]
    simp

/-- total version of `chunk` used in statements: the rows of a stream -/
def rowsOf {β : Type} (k : Nat) (xs : List β) : List (List β) := rowsGo k (xs.length / k) xs

theorem chunk_some {β : Type} (k : Nat) (xs : List β) (hk : k ≠ 0) (h : xs.length % k = 0) :
    chunk k xs = some (rowsOf k xs) := by
  simp [chunk, hk, h, rowsOf]

theorem chunk_none {β : Type} (k : Nat) (xs : List β) (h : xs.length % k ≠ 0) :
    chunk k xs = none := by
  unfold chunk
  split
  · rfl
  · simp

theorem chunk_eq_some {β : Type} (k : Nat) (xs : List β) (rows : List (List β)) (h : chunk k xs = some rows) :
    k ≠ 0 ∧ xs.length % k = 0 ∧ rows = rowsOf k xs := by
  unfold chunk at h
  split at h
  · cases h
  · next hk =>
    split at h
    · next hm => cases h; exact ⟨hk, hm, rfl⟩
    · cases h

theorem rowsOf_flatten {β : Type} (k : Nat) (xs : List β) (h : xs.length % k = 0) :
    (rowsOf k xs).flatten = xs := by
  unfold rowsOf
  rw [rowsGo_flatten]
  apply List.take_of_length_le
  have := Nat.div_add_mod xs.length k
  rw [h, Nat.mul_comm] at this
  omega

theorem rowsOf_getElem? {β : Type} (k : Nat) (xs : List β) (i : Nat) :
    (rowsOf k xs)[i]? = if i < xs.length / k then some ((xs.drop (k * i)).take k) else none := by
  unfold rowsOf; rw [rowsGo_getElem?]

theorem rowsOf_length {β : Type} (k : Nat) (xs : List β) : (rowsOf k xs).length = xs.length / k := by
  unfold rowsOf; rw [rowsGo_length]

/-- what one `<p>` expands to, as a total function -/
def expand {α : Type} : Kind → List α → List (Tri α)
  | .strip, xs => evenTris xs ++ oddTris xs
  | .fan, xs => fanSpec xs

theorem extend_some {α : Type} (kind : Kind) (xs : List α) : extend kind xs = some (expand kind xs) := by
  cases kind
  · exact strip_some xs
  · exact fan_some xs

theorem loadP_some {β : Type} (kind : Kind) (k : Nat) (p : List β) (hk : k ≠ 0) (h : p.length % k = 0) :
    loadP kind k p = some (expand kind (rowsOf k p)) := by
  simp [loadP, chunk_some k p hk h, extend_some]

theorem loadP_none {β : Type} (kind : Kind) (k : Nat) (p : List β) (h : p.length % k ≠ 0) :
    loadP kind k p = none := by
  simp [loadP, chunk_none k p h]

/-! ### polygons: starts, ends, item access -/

def startsFrom (b : Nat) (vc : List Nat) : List Nat := List.zipWith (· - ·) (cumsumFrom b vc) vc

theorem polystarts_eq (vc : List Nat) : polystarts vc = startsFrom 0 vc := rfl

theorem startsFrom_cons (b c : Nat) (cs : List Nat) :
    startsFrom b (c :: cs) = b :: startsFrom (b + c) cs := by
  simp [startsFrom, cumsumFrom]

def polygonsFrom {α : Type} (b : Nat) (rows : List α) (vc : List Nat) : List (List α) :=
  (List.zip (startsFrom b vc) (cumsumFrom b vc)).map (fun se => (rows.take se.2).drop se.1)

theorem polygonsFrom_eq {α : Type} (rows : List α) : ∀ (vc : List Nat) (b : Nat),
    polygonsFrom b rows vc = splitPolys (rows.drop b) vc
  | [], b => by simp [polygonsFrom, startsFrom, cumsumFrom, splitPolys]
  | c :: cs, b => by
    have ih := polygonsFrom_eq rows cs (b + c)
    unfold polygonsFrom at ih ⊢
    rw [startsFrom_cons]
    simp only [cumsumFrom, List.zip_cons_cons, List.map_cons, splitPolys, ih, List.drop_drop]
    congr 1
    rw [List.drop_take]
    congr 1
    omega

/-- `P[i]` for all `i`: the consecutive polygons -/
theorem polygonsOf_eq {α : Type} (rows : List α) (vc : List Nat) :
    polygonsOf rows vc = splitPolys rows vc := by
  have := polygonsFrom_eq rows vc 0
  simpa [polygonsFrom, polygonsOf, polystarts_eq, polyends] using this

theorem splitPolys_length {α : Type} : ∀ (vc : List Nat) (rows : List α),
    (splitPolys rows vc).length = vc.length
  | [], _ => rfl
  | _ :: cs, rows => by simp [splitPolys, splitPolys_length cs]

theorem splitPolys_map {α β : Type} (f : α → β) : ∀ (vc : List Nat) (rows : List α),
    splitPolys (rows.map f) vc = (splitPolys rows vc).map (List.map f)
  | [], _ => rfl
  | c :: cs, rows => by
    simp only [splitPolys, List.map_cons, ← List.map_take, ← List.map_drop, splitPolys_map f cs]

/-- with consistent counts, polygon `i` has `vcounts[i]` corners -/
theorem splitPolys_lengths {α : Type} : ∀ (vc : List Nat) (rows : List α), vc.sum ≤ rows.length →
    (splitPolys rows vc).map List.length = vc
  | [], _, _ => rfl
  | c :: cs, rows, h => by
    simp only [List.sum_cons] at h
    simp only [splitPolys, List.map_cons, List.length_take]
    rw [splitPolys_lengths cs (rows.drop c) (by rw [List.length_drop]; omega)]
    congr 1
    omega

theorem splitPolys_flatten {α : Type} : ∀ (vc : List Nat) (rows : List α), rows.length ≤ vc.sum →
    (splitPolys rows vc).flatten = rows
  | [], rows, h => by
    have : rows = [] := List.eq_nil_of_length_eq_zero (by simpa using h)
    simp [splitPolys, this]
  | c :: cs, rows, h => by
    simp only [List.sum_cons] at h
    simp only [splitPolys, List.flatten_cons]
    rw [splitPolys_flatten cs (rows.drop c) (by rw [List.length_drop]; omega)]
    exact List.take_append_drop c rows

/-! ### the corner selector of `Polylist.triangleset()` -/

/-- every corner with the start and the end of its own polygon: `(q, start, end)` -/
def cornerTable : Nat → List Nat → List (Nat × Nat × Nat)
  | _, [] => []
  | b, c :: cs => (List.range' b c).map (fun q => (q, b, b + c)) ++ cornerTable (b + c) cs

theorem cornerTable_corner : ∀ (vc : List Nat) (b : Nat),
    (cornerTable b vc).map (·.1) = List.range' b vc.sum
  | [], b => by simp [cornerTable]
  | c :: cs, b => by
    simp only [cornerTable, List.map_append, List.map_map, cornerTable_corner cs, List.sum_cons]
    rw [← List.range'_append_1]
    congr 1
    simp [Function.comp_def]

theorem cornerTable_start : ∀ (vc : List Nat) (b : Nat),
    (cornerTable b vc).map (·.2.1) = repeatBy (startsFrom b vc) vc
  | [], b => by simp [cornerTable, startsFrom, cumsumFrom, repeatBy]
  | c :: cs, b => by
    rw [startsFrom_cons]
    simp only [cornerTable, List.map_append, List.map_map, cornerTable_start cs, repeatBy]
    congr 1
    apply List.ext_getElem?
    intro i
    simp only [List.getElem?_map, List.getElem?_replicate, Function.comp_def]
    by_cases h : i < c
    · simp [h]
    · simp [h]

theorem cornerTable_end : ∀ (vc : List Nat) (b : Nat),
    (cornerTable b vc).map (·.2.2) = repeatBy (cumsumFrom b vc) vc
  | [], b => by simp [cornerTable, cumsumFrom, repeatBy]
  | c :: cs, b => by
    simp only [cornerTable, cumsumFrom, List.map_append, List.map_map, cornerTable_end cs, repeatBy]
    congr 1
    apply List.ext_getElem?
    intro i
    simp only [List.getElem?_map, List.getElem?_replicate, Function.comp_def]
    by_cases h : i < c
    · simp [h]
    · simp [h]

theorem cornerTable_length (vc : List Nat) (b : Nat) : (cornerTable b vc).length = vc.sum := by
  have := congrArg List.length (cornerTable_corner vc b)
  simpa using this

theorem cornerTable_bounds : ∀ (vc : List Nat) (b : Nat) (x : Nat × Nat × Nat), x ∈ cornerTable b vc →
    x.2.1 ≤ x.1 ∧ x.2.2 ≤ b + vc.sum
  | [], b, x, h => by simp [cornerTable] at h
  | c :: cs, b, x, h => by
    simp only [cornerTable, List.mem_append, List.mem_map, List.mem_range'_1] at h
    simp only [List.sum_cons]
    rcases h with ⟨q, hq, rfl⟩ | h
    · simp; omega
    · have := cornerTable_bounds cs (b + c) x h
      omega

/-- position `i` of the table describes corner `i` (for the whole primitive, base 0) -/
theorem cornerTable_getElem?_fst (vc : List Nat) (i : Nat) (x : Nat × Nat × Nat)
    (h : (cornerTable 0 vc)[i]? = some x) : x.1 = i := by
  have h1 : ((cornerTable 0 vc).map (·.1))[i]? = some x.1 := by simp [h]
  rw [cornerTable_corner] at h1
  have hi : i < vc.sum := by
    have := (List.getElem?_eq_some_iff.mp h).1
    rwa [cornerTable_length] at this
  rw [List.getElem?_range' hi] at h1
  simp at h1
  omega

theorem zip3?_cons {α : Type} (x y z : α) (a b c : List α) :
    zip3? (x :: a) (y :: b) (z :: c) = (zip3? a b c).map (fun t => (x, y, z) :: t) := by
  unfold zip3?
  simp only [List.length_cons, Nat.add_right_cancel_iff]
  split <;> simp [zip3]

/-- three fancy-index gathers through the same selection followed by `dstack` are one lookup
    of three positions per selected element -/
theorem gather_zip3 {α ι : Type} (rows : List α) (fa fb fc : ι → Nat) : ∀ (L : List ι),
    dstack3 (gather rows (L.map fa)) (gather rows (L.map fb)) (gather rows (L.map fc))
      = traverse (fun x => tri? rows (fa x) (fb x) (fc x)) L
  | [] => by simp [dstack3, gather, traverse, zip3?, zip3]
  | x :: L => by
    have ih := gather_zip3 rows fa fb fc L
    simp only [dstack3, gather, List.map_cons, traverse, tri?] at ih ⊢
    cases h1 : rows[fa x]? <;> cases h2 : rows[fb x]? <;> cases h3 : rows[fc x]? <;>
      cases g1 : traverse (fun i => rows[i]?) (L.map fa) <;>
      cases g2 : traverse (fun i => rows[i]?) (L.map fb) <;>
      cases g3 : traverse (fun i => rows[i]?) (L.map fc) <;>
      simp only [g1, g2, g3] at ih <;> simp [← ih, zip3?_cons]
    all_goals (cases zip3? _ _ _ <;> rfl)

theorem range'_filter_fan : ∀ (c b : Nat),
    (List.range' b c).filter (fun q => decide (q + 2 < b + c)) = List.range' b (c - 2)
  | 0, b => by simp
  | c + 1, b => by
    have ih := range'_filter_fan c (b + 1)
    have e : b + 1 + c = b + (c + 1) := by omega
    rw [e] at ih
    rw [List.range'_succ, List.filter_cons, ih]
    by_cases h : 2 ≤ c
    · have h1 : b + 2 < b + (c + 1) := by omega
      have e2 : c + 1 - 2 = (c - 2) + 1 := by omega
      simp only [h1, decide_true, if_true]
      rw [e2, List.range'_succ]
    · have h1 : ¬ (b + 2 < b + (c + 1)) := by omega
      have e2 : c + 1 - 2 = 0 := by omega
      have e3 : c - 2 = 0 := by omega
      simp [h1, e2, e3]

theorem tri?_some {α : Type} (xs : List α) (a b c : Nat) (ha : a < xs.length) (hb : b < xs.length)
    (hc : c < xs.length) : tri? xs a b c = some (xs[a], xs[b], xs[c]) := by
  unfold tri?
  rw [List.getElem?_eq_getElem ha, List.getElem?_eq_getElem hb, List.getElem?_eq_getElem hc]

/-- one polygon: the selected corners of the polygon that occupies `[b, b + c)` give its fan -/
theorem polygon_selected {α : Type} (rows : List α) (b c : Nat) (h : b + c ≤ rows.length) :
    traverse (fun x : Nat × Nat × Nat => tri? rows x.2.1 (x.1 + 1) (x.1 + 2))
      (((List.range' b c).map (fun q => (q, b, b + c))).filter (fun x => decide (x.1 + 2 < x.2.2)))
    = some (fanSpec ((rows.drop b).take c)) := by
  rw [List.filter_map, traverse_map]
  simp only [Function.comp_def]
  rw [range'_filter_fan, traverse_eq_some_iff]
  apply List.ext_getElem?
  intro j
  simp only [List.getElem?_map, fanSpec_getElem?]
  have hP : ((rows.drop b).take c).length = c := by simp; omega
  by_cases hj : j < c - 2
  · rw [List.getElem?_range' hj]
    have e : b + 1 * j = b + j := by omega
    simp only [Option.map_some, e]
    rw [tri?_some _ 0 (j + 1) (j + 2) (by omega) (by omega) (by omega),
      tri?_some rows b (b + j + 1) (b + j + 2) (by omega) (by omega) (by omega)]
    simp only [Option.map_some, List.getElem_take, List.getElem_drop]
    congr 3 <;> (congr 1; omega)
  · have : (List.range' b (c - 2))[j]? = none := List.getElem?_eq_none (by simp; omega)
    rw [this, tri?_none_of_le _ _ _ _ (by omega)]
    rfl

/-- all polygons: filtering the corner table and looking the three corners up gives the fans of
    the consecutive polygons, in polygon order -/
theorem table_selected {α : Type} (rows : List α) : ∀ (vc : List Nat) (b : Nat), b + vc.sum ≤ rows.length →
    traverse (fun x : Nat × Nat × Nat => tri? rows x.2.1 (x.1 + 1) (x.1 + 2))
      ((cornerTable b vc).filter (fun x => decide (x.1 + 2 < x.2.2)))
    = some ((splitPolys (rows.drop b) vc).flatMap fanSpec)
  | [], b, _ => by simp [cornerTable, splitPolys, traverse]
  | c :: cs, b, h => by
    simp only [List.sum_cons] at h
    simp only [cornerTable, List.filter_append, splitPolys, List.flatMap_cons]
    apply traverse_append
    · exact polygon_selected rows b c (by omega)
    · have := table_selected rows cs (b + c) (by omega)
      rw [List.drop_drop]
      exact this

theorem zipWith_map_map {ι β γ δ : Type} (h : β → γ → δ) (f : ι → β) (g : ι → γ) : ∀ (T : List ι),
    List.zipWith h (T.map f) (T.map g) = T.map (fun x => h (f x) (g x))
  | [] => rfl
  | x :: T => by simp [zipWith_map_map h f g T]

theorem select_by_mask {ι β γ : Type} (f : ι → β) (g : ι → γ) (P : β × γ → Bool) (T : List ι) :
    (((T.map f).zip (T.map g)).filter P).map (·.1) = (T.filter (fun x => P (f x, g x))).map f := by
  rw [List.zip_map', List.filter_map, List.map_map]
  rfl

theorem gather_table {β : Type} (T : List (Nat × Nat × Nat)) (g : Nat × Nat × Nat → β)
    (P : Nat × Nat × Nat → Bool) (hT : ∀ (i : Nat) (x : Nat × Nat × Nat), T[i]? = some x → x.1 = i) :
    gather (T.map g) ((T.filter P).map (·.1)) = some ((T.filter P).map g) := by
  unfold gather
  rw [traverse_map]
  apply traverse_map_some
  intro x hx
  have hx' : x ∈ T := (List.mem_filter.mp hx).1
  obtain ⟨i, hi⟩ := List.getElem?_of_mem hx'
  have := hT i x hi
  rw [this]
  simp [hi]

theorem repeatBy_cumsum_length (vc : List Nat) (b : Nat) : (repeatBy (cumsumFrom b vc) vc).length = vc.sum := by
  rw [← cornerTable_end, List.length_map, cornerTable_length]

theorem splitPolys_nil_fans {α : Type} : ∀ (vc : List Nat),
    (splitPolys ([] : List α) vc).flatMap fanSpec = []
  | [] => rfl
  | c :: cs => by simp [splitPolys, fanSpec, splitPolys_nil_fans cs]

/-- `Polylist.triangleset()`: with one row per counted corner the selector arithmetic succeeds
    and yields the fans of the consecutive polygons -/
theorem triangulate_some {α : Type} (rows : List α) (vc : List Nat) (h : rows.length = vc.sum) :
    triangulate rows vc = some ((splitPolys rows vc).flatMap fanSpec) := by
  unfold triangulate
  cases rows with
  | nil =>
    have h0 : vc.sum = 0 := by simpa using h.symm
    simp [polyends, repeatBy_cumsum_length, h0, gather, traverse, splitPolys_nil_fans]
  | cons r rs =>
    have hne : (r :: rs).isEmpty = false := rfl
    simp only [hne, Bool.false_eq_true, if_false]
    have hT := cornerTable_getElem?_fst vc
    have e1 : List.range vc.sum = (cornerTable 0 vc).map (·.1) := by
      rw [cornerTable_corner, List.range_eq_range']
    have e2 : repeatBy (polyends vc) vc = (cornerTable 0 vc).map (·.2.2) := by
      rw [cornerTable_end]; rfl
    have e3 : repeatBy (polystarts vc) vc = (cornerTable 0 vc).map (·.2.1) := by
      rw [cornerTable_start]; rfl
    rw [e1, e2, e3]
    rw [if_neg (by simp [cornerTable_length])]
    rw [select_by_mask (·.1) (·.2.2) (fun qe => decide (qe.1 + 2 < qe.2)) (cornerTable 0 vc)]
    rw [zipWith_map_map]
    rw [gather_table _ _ _ hT]
    simp only
    rw [zipWith_map_map, List.map_map, List.map_map]
    have e4 : (List.filter (fun x : Nat × Nat × Nat => decide (x.1 + 2 < x.2.2)) (cornerTable 0 vc)).map
          (fun x => x.1 - (x.1 - x.2.1)) =
        (List.filter (fun x : Nat × Nat × Nat => decide (x.1 + 2 < x.2.2)) (cornerTable 0 vc)).map (·.2.1) := by
      apply List.map_congr_left
      intro x hx
      have := (cornerTable_bounds vc 0 x (List.mem_filter.mp hx).1).1
      omega
    rw [e4]
    have := gather_zip3 (r :: rs) (fun x : Nat × Nat × Nat => x.2.1) (fun x => x.1 + 1) (fun x => x.1 + 2)
      (List.filter (fun x : Nat × Nat × Nat => decide (x.1 + 2 < x.2.2)) (cornerTable 0 vc))
    simp only [Function.comp_def] at this ⊢
    rw [this]
    have := table_selected (r :: rs) vc 0 (by omega)
    simpa using this

/-! ### `Polygons`: one `<p>` per polygon -/

theorem rowsOf_append {β : Type} (k : Nat) (hk : k ≠ 0) (p rest : List β) (h : p.length % k = 0) :
    rowsOf k (p ++ rest) = rowsOf k p ++ rowsOf k rest := by
  unfold rowsOf
  have hm : p.length = p.length / k * k := by
    have := Nat.div_add_mod p.length k
    rw [h, Nat.mul_comm] at this
    omega
  have hd : (p ++ rest).length / k = p.length / k + rest.length / k := by
    rw [List.length_append, Nat.add_comm p.length, hm, Nat.add_mul_div_right _ _ (Nat.pos_of_ne_zero hk),
      Nat.mul_div_cancel _ (Nat.pos_of_ne_zero hk)]
    omega
  rw [hd]
  exact rowsGo_append k _ _ p rest hm

theorem flatten_length_mod {β : Type} (k : Nat) : ∀ (ps : List (List β)), (∀ p ∈ ps, p.length % k = 0) →
    ps.flatten.length % k = 0
  | [], _ => by simp
  | p :: ps, h => by
    have h1 := h p (by simp)
    have h2 := flatten_length_mod k ps (fun q hq => h q (by simp [hq]))
    simp only [List.flatten_cons, List.length_append]
    rw [Nat.add_mod, h1, h2]
    simp

theorem rowsOf_flatten_all {β : Type} (k : Nat) (hk : k ≠ 0) : ∀ (ps : List (List β)),
    (∀ p ∈ ps, p.length % k = 0) → rowsOf k ps.flatten = (ps.map (rowsOf k)).flatten
  | [], _ => by simp [rowsOf, rowsGo]
  | p :: ps, h => by
    simp only [List.flatten_cons, List.map_cons]
    rw [rowsOf_append k hk p _ (h p (by simp)),
      rowsOf_flatten_all k hk ps (fun q hq => h q (by simp [hq]))]

theorem splitPolys_flatten_lengths {α : Type} : ∀ (rowss : List (List α)),
    splitPolys rowss.flatten (rowss.map List.length) = rowss
  | [] => rfl
  | r :: rest => by
    simp only [List.flatten_cons, List.map_cons, splitPolys, List.take_left', List.drop_left',
      splitPolys_flatten_lengths rest]

end Pyc.IndexOps
