/-
Helper lemmas for C11 (strips, fans, polygon triangulation). Core Lean only.
-/
import Pyc.Model.IndexOps

namespace Pyc.IndexOps

/-! ### traverse / gather / tri? -/

theorem traverse_eq_some_iff {α β : Type} (f : α → Option β) :
    ∀ (l : List α) (out : List β), traverse f l = some out ↔ out.map some = l.map f
  | [], out => by
    cases out <;> simp [traverse]
  | a :: t, out => by
    cases out with
    | nil =>
      simp only [traverse, List.map_nil, List.map_cons]
      cases f a <;> cases traverse f t <;> simp
    | cons b bs =>
      have ih := traverse_eq_some_iff f t bs
      simp only [traverse, List.map_cons, List.cons.injEq]
      cases hfa : f a with
      | none => simp
      | some b' =>
        cases ht : traverse f t with
        | none =>
          simp only [ht] at ih
          simp only [Option.some.injEq]
          constructor
          · intro h; cases h
          · intro h; exact absurd (ih.mpr h.2) (by simp)
        | some bs' =>
          simp only [ht, Option.some.injEq] at ih
          simp only [Option.some.injEq, List.cons.injEq]
          constructor
          · rintro ⟨h1, h2⟩; exact ⟨h1.symm, ih.mp h2⟩
          · rintro ⟨h1, h2⟩; exact ⟨h1.symm, ih.mpr h2⟩

theorem traverse_map_some {α β : Type} (f : α → Option β) (g : α → β) (l : List α)
    (h : ∀ a ∈ l, f a = some (g a)) : traverse f l = some (l.map g) := by
  rw [traverse_eq_some_iff]
  rw [List.map_map]
  apply List.map_congr_left
  intro a ha
  simp [h a ha]

theorem traverse_append {α β : Type} (f : α → Option β) (l₁ l₂ : List α) (o₁ o₂ : List β)
    (h₁ : traverse f l₁ = some o₁) (h₂ : traverse f l₂ = some o₂) :
    traverse f (l₁ ++ l₂) = some (o₁ ++ o₂) := by
  rw [traverse_eq_some_iff] at *
  simp [h₁, h₂]

theorem tri?_none_of_le {α : Type} (xs : List α) (a b c : Nat) (h : xs.length ≤ c) :
    tri? xs a b c = none := by
  unfold tri?
  have : xs[c]? = none := List.getElem?_eq_none h
  rw [this]
  cases xs[a]? <;> cases xs[b]? <;> rfl

theorem tri?_cons {α : Type} (x : α) (xs : List α) (a b c : Nat) :
    tri? (x :: xs) (a + 1) (b + 1) (c + 1) = tri? xs a b c := by
  simp [tri?]

theorem tri?_map {α β : Type} (f : α → β) (xs : List α) (a b c : Nat) :
    tri? (xs.map f) a b c = (tri? xs a b c).map (mapTri f) := by
  unfold tri?
  simp only [List.getElem?_map]
  cases xs[a]? <;> cases xs[b]? <;> cases xs[c]? <;> simp [mapTri]

/-! ### slices -/

theorem evens_length {α : Type} : ∀ (l : List α), (evens l).length = (l.length + 1) / 2
  | [] => by simp [evens]
  | [_] => by simp [evens]
  | _ :: _ :: t => by simp [evens, evens_length t]; omega

theorem evens_getElem? {α : Type} : ∀ (l : List α) (k : Nat), (evens l)[k]? = l[2 * k]?
  | [], k => by simp [evens]
  | [a], k => by cases k <;> simp [evens]
  | a :: b :: t, 0 => by simp [evens]
  | a :: b :: t, k + 1 => by
    have : 2 * (k + 1) = (2 * k) + 1 + 1 := by omega
    simp [evens, evens_getElem? t k, this]

theorem evens_cons {α : Type} (a : α) (l : List α) : evens (a :: l) = a :: evens l.tail := by
  cases l <;> simp [evens]

theorem evens_map {α β : Type} (f : α → β) : ∀ (l : List α), evens (l.map f) = (evens l).map f
  | [] => by simp [evens]
  | [_] => by simp [evens]
  | _ :: _ :: t => by simp [evens, evens_map f t]

/-- the elements at even and at odd positions together are all the elements -/
theorem evens_odds_perm {α : Type} : ∀ (l : List α), (evens l ++ evens l.tail).Perm l
  | [] => by simp [evens]
  | a :: l => by
    rw [evens_cons]
    simp only [List.tail_cons, List.cons_append]
    exact List.Perm.cons a ((List.perm_append_comm).trans (evens_odds_perm l))

theorem slice2_getElem? {α : Type} (xs : List α) (a b k : Nat) :
    (slice2 xs a b)[k]? = if a + 2 * k < b then xs[a + 2 * k]? else none := by
  simp [slice2, evens_getElem?, List.getElem?_drop, List.getElem?_take]

theorem slice2_length {α : Type} (xs : List α) (a b : Nat) :
    (slice2 xs a b).length = (min b xs.length - a + 1) / 2 := by
  simp [slice2, evens_length]

/-! ### zip3 -/

theorem zip3_getElem? {α : Type} : ∀ (as bs cs : List α) (i : Nat),
    (zip3 as bs cs)[i]? =
      match as[i]?, bs[i]?, cs[i]? with
      | some a, some b, some c => some (a, b, c)
      | _, _, _ => none
  | [], _, _, i => by simp [zip3]
  | _ :: _, [], _, i => by
    simp only [zip3, List.getElem?_nil]
    split <;> simp_all
  | _ :: _, _ :: _, [], i => by
    simp only [zip3, List.getElem?_nil]
    split <;> simp_all
  | a :: as, b :: bs, c :: cs, 0 => by simp [zip3]
  | a :: as, b :: bs, c :: cs, i + 1 => by simp [zip3, zip3_getElem? as bs cs i]

theorem zip3_map {α β : Type} (f : α → β) : ∀ (as bs cs : List α),
    zip3 (as.map f) (bs.map f) (cs.map f) = (zip3 as bs cs).map (mapTri f)
  | [], _, _ => by simp [zip3]
  | _ :: _, [], _ => by simp [zip3]
  | _ :: _, _ :: _, [] => by simp [zip3]
  | a :: as, b :: bs, c :: cs => by simp [zip3, zip3_map f as bs cs, mapTri]

end Pyc.IndexOps
