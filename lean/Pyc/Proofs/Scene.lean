/- Helper lemmas for the C12 theorems (Pyc/Props/C12.lean). Core Lean only (`grind`'s
commutative-ring solver does the polynomial identities). -/
import Pyc.Model.Scene

namespace Pyc.Scene

variable {M P : Type}

/-! ### counting paths -/

mutual
  theorem length_paths (kind : Kind) : ∀ n : SNode M P,
      (paths kind n).length = countInst kind n
    | .node m cs => by simp only [paths, countInst, List.length_map]; exact length_pathsList kind cs
    | .inst k p => by by_cases h : k = kind <;> simp [paths, countInst, h]
    | .ref t => by simp only [paths, countInst]; exact length_paths kind t
  theorem length_pathsList (kind : Kind) : ∀ cs : List (SNode M P),
      (pathsList kind cs).length = countInstList kind cs
    | [] => by simp [pathsList, countInstList]
    | c :: cs => by
        simp only [pathsList, countInstList, List.length_append]
        rw [length_paths kind c, length_pathsList kind cs]
end

theorem pathsList_append (kind : Kind) (xs ys : List (SNode M P)) :
    pathsList kind (xs ++ ys) = pathsList kind xs ++ pathsList kind ys := by
  induction xs with
  | nil => simp [pathsList]
  | cons x xs ih => simp [pathsList, ih]

/-! ### `paths` enumerates exactly the `Reach` relation -/

mutual
  theorem reach_of_mem_paths (kind : Kind) : ∀ (n : SNode M P) (ms : List M) (p : P),
      (ms, p) ∈ paths kind n → Reach kind n ms p
    | .node m cs, ms, p, h => by
        simp only [paths, List.mem_map] at h
        obtain ⟨⟨ms', p'⟩, hmem, heq⟩ := h
        simp only [Prod.mk.injEq] at heq
        obtain ⟨rfl, rfl⟩ := heq
        obtain ⟨c, hc, hr⟩ := reach_of_mem_pathsList kind cs ms' p' hmem
        exact Reach.node hc hr
    | .inst k q, ms, p, h => by
        by_cases hk : k = kind
        · subst hk
          simp [paths] at h
          obtain ⟨rfl, rfl⟩ := h
          exact Reach.inst _
        · simp [paths, hk] at h
    | .ref t, ms, p, h => by
        simp only [paths] at h
        exact Reach.ref (reach_of_mem_paths kind t ms p h)
  theorem reach_of_mem_pathsList (kind : Kind) : ∀ (cs : List (SNode M P)) (ms : List M) (p : P),
      (ms, p) ∈ pathsList kind cs → ∃ c, c ∈ cs ∧ Reach kind c ms p
    | [], ms, p, h => by simp [pathsList] at h
    | c :: cs, ms, p, h => by
        simp only [pathsList, List.mem_append] at h
        rcases h with h | h
        · exact ⟨c, List.mem_cons_self .., reach_of_mem_paths kind c ms p h⟩
        · obtain ⟨c', hc', hr⟩ := reach_of_mem_pathsList kind cs ms p h
          exact ⟨c', List.mem_cons_of_mem _ hc', hr⟩
end

theorem mem_pathsList_of_mem (kind : Kind) (cs : List (SNode M P)) (c : SNode M P) (x : List M × P)
    (hc : c ∈ cs) (hx : x ∈ paths kind c) : x ∈ pathsList kind cs := by
  induction cs with
  | nil => cases hc
  | cons d ds ih =>
    simp only [pathsList, List.mem_append]
    rcases List.mem_cons.mp hc with rfl | h
    · exact Or.inl hx
    · exact Or.inr (ih h)

theorem mem_paths_of_reach (kind : Kind) (n : SNode M P) (ms : List M) (p : P)
    (h : Reach kind n ms p) : (ms, p) ∈ paths kind n := by
  induction h with
  | inst p => simp [paths]
  | ref _ ih => simpa [paths] using ih
  | node hc _ ih =>
    simp only [paths, List.mem_map]
    exact ⟨_, mem_pathsList_of_mem kind _ _ _ hc ih, rfl⟩

/-! ### traversal = paths -/

section traversal
variable [Mul M] [One M]

mutual
  theorem objects_some (kind : Kind) (a : M) : ∀ n : SNode M P,
      objects kind (some a) n = (paths kind n).map (fun mp => (prodFrom a mp.1, mp.2))
    | .node m cs => by
        simp only [objects, paths, List.map_map]
        rw [objectsList_some kind (a * m) cs]
        rfl
    | .inst k p => by
        by_cases h : k = kind <;> simp [objects, paths, prodFrom, h]
    | .ref t => by simp only [objects, paths]; exact objects_some kind a t
  theorem objectsList_some (kind : Kind) (a : M) : ∀ cs : List (SNode M P),
      objectsList kind (some a) cs = (pathsList kind cs).map (fun mp => (prodFrom a mp.1, mp.2))
    | [] => by simp [objectsList, pathsList]
    | c :: cs => by
        simp only [objectsList, pathsList, List.map_append]
        rw [objects_some kind a c, objectsList_some kind a cs]
end

mutual
  theorem objects_none (kind : Kind) : ∀ n : SNode M P,
      objects kind none n = (paths kind n).map (fun mp => (pathProd mp.1, mp.2))
    | .node m cs => by
        simp only [objects, paths, List.map_map]
        rw [objectsList_some kind m cs]
        rfl
    | .inst k p => by
        by_cases h : k = kind <;> simp [objects, paths, pathProd, h]
    | .ref t => by simp only [objects, paths]; exact objects_none kind t
  theorem objectsList_none (kind : Kind) : ∀ cs : List (SNode M P),
      objectsList kind none cs = (pathsList kind cs).map (fun mp => (pathProd mp.1, mp.2))
    | [] => by simp [objectsList, pathsList]
    | c :: cs => by
        simp only [objectsList, pathsList, List.map_append]
        rw [objects_none kind c, objectsList_none kind cs]
end

/-! ### the left-associated product is the ordered product in a monoid -/

theorem prodFrom_eq [LawfulMonoid M] (a : M) (ms : List M) :
    prodFrom a ms = a * ms.foldr (· * ·) 1 := by
  induction ms generalizing a with
  | nil => simp [prodFrom, LawfulMonoid.mul_one]
  | cons m ms ih => simp [prodFrom, ih, LawfulMonoid.mul_assoc]

theorem pathProd_eq [LawfulMonoid M] (ms : List M) :
    pathProd ms = ms.foldr (· * ·) 1 := by
  cases ms with
  | nil => rfl
  | cons m ms => simp [pathProd, prodFrom_eq]

theorem pathProd_append [LawfulMonoid M] (xs ys : List M) :
    pathProd (xs ++ ys) = pathProd xs * pathProd ys := by
  rw [pathProd_eq, pathProd_eq, pathProd_eq]
  induction xs with
  | nil => simp [LawfulMonoid.one_mul]
  | cons x xs ih => simp [ih, LawfulMonoid.mul_assoc]

end traversal

/-! ### the material table behaves like a dict -/

theorem Table.get_set {V : Type} (t : Table V) (k k' : Option String) (v : V) :
    (t.set k v).get k' = if k = k' then some v else t.get k' := by
  induction t with
  | nil => simp [Table.set, Table.get]
  | cons hd t ih =>
    obtain ⟨k0, v0⟩ := hd
    by_cases h0 : k0 = k
    · subst h0
      by_cases h1 : k0 = k' <;> simp [Table.set, Table.get, h1]
    · by_cases h1 : k0 = k'
      · subst h1
        have : ¬ k = k0 := fun h => h0 h.symm
        simp [Table.set, Table.get, h0, this]
      · simp [Table.set, Table.get, h0, h1, ih]

theorem get_foldl_set {V : Type} (binds : List (String × V)) (t : Table V) (s : Option String) :
    (binds.foldl (fun t b => t.set (some b.1) b.2) t).get s =
      match (binds.filter (fun b => some b.1 = s)).getLast? with
      | some b => some b.2
      | none => t.get s := by
  induction binds generalizing t with
  | nil => simp
  | cons b binds ih =>
    simp only [List.foldl_cons]
    rw [ih]
    by_cases h : some b.1 = s
    · simp only [List.filter_cons, h, decide_true, if_true, List.getLast?_cons]
      cases (binds.filter (fun b => some b.1 = s)).getLast? <;> simp [Table.get_set]
    · simp [h, Table.get_set]

theorem materialOf_eq {V : Type} (binds : List (String × V)) (s : Option String) :
    materialOf binds s = ((binds.filter (fun b => some b.1 = s)).getLast?).map (·.2) := by
  unfold materialOf buildTable
  rw [get_foldl_set]
  cases (binds.filter (fun b => some b.1 = s)).getLast? <;> simp [Table.get]

/-! ### 4x4 matrices over a commutative ring form a monoid -/

@[ext] theorem Mat4.ext' {R : Type} {a b : Mat4 R}
    (h00 : a.a00 = b.a00) (h01 : a.a01 = b.a01) (h02 : a.a02 = b.a02) (h03 : a.a03 = b.a03)
    (h10 : a.a10 = b.a10) (h11 : a.a11 = b.a11) (h12 : a.a12 = b.a12) (h13 : a.a13 = b.a13)
    (h20 : a.a20 = b.a20) (h21 : a.a21 = b.a21) (h22 : a.a22 = b.a22) (h23 : a.a23 = b.a23)
    (h30 : a.a30 = b.a30) (h31 : a.a31 = b.a31) (h32 : a.a32 = b.a32) (h33 : a.a33 = b.a33) :
    a = b := by
  cases a; cases b; simp_all

@[ext] theorem V3.ext' {R : Type} {a b : V3 R} (hx : a.x = b.x) (hy : a.y = b.y) (hz : a.z = b.z) : a = b := by
  cases a; cases b; simp_all

section ring
open Lean.Grind
variable {R : Type} [CommRing R]

theorem Mat4.mul_def (a b : Mat4 R) : a * b = Mat4.mul a b := rfl
theorem Mat4.one_def : (1 : Mat4 R) = Mat4.one := rfl
theorem V3.add_def (a b : V3 R) : a + b = V3.add a b := rfl
theorem V3.neg_def (a : V3 R) : -a = V3.neg a := rfl

theorem Mat4.mul_assoc (a b c : Mat4 R) : a * b * c = a * (b * c) := by
  apply Mat4.ext' <;> simp only [Mat4.mul_def, Mat4.mul] <;> grind

theorem Mat4.one_mul (a : Mat4 R) : 1 * a = a := by
  apply Mat4.ext' <;> simp only [Mat4.mul_def, Mat4.one_def, Mat4.mul, Mat4.one] <;> grind

theorem Mat4.mul_one (a : Mat4 R) : a * 1 = a := by
  apply Mat4.ext' <;> simp only [Mat4.mul_def, Mat4.one_def, Mat4.mul, Mat4.one] <;> grind

instance : LawfulMonoid (Mat4 R) where
  mul_assoc := Mat4.mul_assoc
  one_mul := Mat4.one_mul
  mul_one := Mat4.mul_one

end ring

end Pyc.Scene
