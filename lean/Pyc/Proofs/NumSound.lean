/- Soundness of the executable recognisers of Pyc/Model/NumText.lean for the sets the C01 proofs speak about:
   isBin24 b = true → IsF32 b, isDec7 a = true → IsDec7 a (the converse directions rest on the log2 estimate and are tied by the correspondence). -/
import Pyc.Model.NumText
import Pyc.Proofs.Float32Grid
import Pyc.Proofs.Dec7Grid
import Mathlib.Tactic.Linarith
import Mathlib.Tactic.Ring
import Mathlib.Tactic.Positivity
import Mathlib.Tactic.FieldSimp
import Mathlib.Algebra.Order.Field.Power
import Mathlib.Data.Rat.Cast.Order

namespace Pyc.NumTextP
open Pyc.NumText

theorem pow2_eq (e : ℤ) : pow2 e = (2 : ℚ) ^ e := by
  unfold pow2
  split
  · next h =>
    conv_rhs => rw [← Int.toNat_of_nonneg h]
    rw [zpow_natCast]
  · next h =>
    have h' : 0 ≤ -e := by omega
    have : e = -((-e).toNat : ℤ) := by rw [Int.toNat_of_nonneg h']; ring
    conv_rhs => rw [this]
    rw [zpow_neg, zpow_natCast, one_div]

theorem absR_eq (q : ℚ) : absR q = |q| := by
  unfold absR
  split
  · next h => rw [abs_of_neg h]
  · next h => rw [abs_of_nonneg (not_lt.mp h)]

theorem findSome_if {α : Type} (P : α → Prop) [DecidablePred P] :
    ∀ (l : List α) (a : α), l.findSome? (fun e => if P e then some e else none) = some a → P a
  | [], a, h => by simp at h
  | x :: l, a, h => by
    rw [List.findSome?_cons] at h
    by_cases hx : P x
    · simp only [hx, if_true] at h
      cases h; exact hx
    · simp only [hx, if_false] at h
      exact findSome_if P l a h

theorem binade_spec {b : ℚ} {e : ℤ} (h : binade b = some e) : (2 : ℚ) ^ e ≤ |b| ∧ |b| < (2 : ℚ) ^ (e + 1) := by
  unfold binade at h
  have := findSome_if (fun e => pow2 e ≤ absR b ∧ absR b < pow2 (e + 1)) _ e h
  rwa [pow2_eq, pow2_eq, absR_eq] at this

/-- the executable recogniser of float32 values is sound for the set the proofs speak about -/
theorem isBin24_sound {b : ℚ} (h : isBin24 b = true) : IsF32 b := by
  unfold isBin24 at h
  split at h
  · next hb => exact ⟨0, 0, by norm_num, by norm_num, by norm_num, by simp [hb]⟩
  · next hb =>
    split at h
    · next e he =>
      obtain ⟨hlo, hhi⟩ := binade_spec he
      simp only [decide_eq_true_eq] at h
      obtain ⟨hden, he128⟩ := h
      set E : ℤ := (if e < -126 then -126 else e) - 23 with hE
      rw [pow2_eq] at hden
      have hpos : (0 : ℚ) < (2 : ℚ) ^ E := two_zpow_pos E
      have hq : b / (2 : ℚ) ^ E = ((b / (2 : ℚ) ^ E).num : ℚ) := by
        conv_lhs => rw [← Rat.num_div_den (b / (2 : ℚ) ^ E), hden]
        simp
      have hb' : b = ((b / (2 : ℚ) ^ E).num : ℚ) * (2 : ℚ) ^ E := by
        rw [← hq]; field_simp
      refine ⟨(b / (2 : ℚ) ^ E).num, E, ?_, ?_, ?_, hb'⟩
      · -- |m| = |b| / 2^E < 2^(e+1-E) ≤ 2^24
        have habs : |((b / (2 : ℚ) ^ E).num : ℚ)| = |b| / (2 : ℚ) ^ E := by
          rw [← hq, abs_div, abs_of_pos hpos]
        have hlt : |((b / (2 : ℚ) ^ E).num : ℚ)| < (2 : ℚ) ^ (24 : ℕ) := by
          rw [habs, div_lt_iff₀ hpos]
          calc |b| < (2 : ℚ) ^ (e + 1) := hhi
            _ ≤ (2 : ℚ) ^ ((24 : ℕ) + E) := by
              apply zpow_le_zpow_right₀ (by norm_num)
              rw [hE]; split <;> omega
            _ = (2 : ℚ) ^ (24 : ℕ) * (2 : ℚ) ^ E := by
              rw [zpow_add₀ (by norm_num : (2 : ℚ) ≠ 0), zpow_natCast]
        rw [← Int.cast_abs] at hlt
        exact_mod_cast hlt
      · rw [hE]; split <;> omega
      · rw [hE]; split <;> omega
    · cases h

theorem pow10_eq (e : ℤ) : pow10 e = (10 : ℚ) ^ e := by
  unfold pow10
  split
  · next h =>
    conv_rhs => rw [← Int.toNat_of_nonneg h]
    rw [zpow_natCast]
  · next h =>
    have h' : 0 ≤ -e := by omega
    have : e = -((-e).toNat : ℤ) := by rw [Int.toNat_of_nonneg h']; ring
    conv_rhs => rw [this]
    rw [zpow_neg, zpow_natCast, one_div]

theorem decade_spec {a : ℚ} {e : ℤ} (h : decade a = some e) : (10 : ℚ) ^ e ≤ |a| ∧ |a| < (10 : ℚ) ^ (e + 1) := by
  unfold decade at h
  have := findSome_if (fun e => pow10 e ≤ absR a ∧ absR a < pow10 (e + 1)) _ e h
  rwa [pow10_eq, pow10_eq, absR_eq] at this

/-- the executable recogniser of seven-digit decimals is sound for the set the proofs speak about -/
theorem isDec7_sound {a : ℚ} (h : isDec7 a = true) : IsDec7 a := by
  unfold isDec7 at h
  split at h
  · next ha => exact ⟨0, 0, by norm_num, by simp [ha]⟩
  · next ha =>
    split at h
    · next d hd =>
      unfold step10 at hd
      cases hdec : decade a with
      | none => rw [hdec] at hd; simp at hd
      | some e =>
        rw [hdec] at hd
        simp only [Option.map_some, Option.some.injEq] at hd
        obtain ⟨hlo, hhi⟩ := decade_spec hdec
        simp only [decide_eq_true_eq] at h
        rw [← hd, pow10_eq] at h
        have hpos : (0 : ℚ) < (10 : ℚ) ^ (e - 6) := ten_zpow_pos _
        have hq : a / (10 : ℚ) ^ (e - 6) = ((a / (10 : ℚ) ^ (e - 6)).num : ℚ) := by
          conv_lhs => rw [← Rat.num_div_den (a / (10 : ℚ) ^ (e - 6)), h]
          simp
        have ha' : a = ((a / (10 : ℚ) ^ (e - 6)).num : ℚ) * (10 : ℚ) ^ (e - 6) := by
          rw [← hq]; field_simp
        refine ⟨(a / (10 : ℚ) ^ (e - 6)).num, e - 6, ?_, ha'⟩
        have habs : |((a / (10 : ℚ) ^ (e - 6)).num : ℚ)| = |a| / (10 : ℚ) ^ (e - 6) := by
          rw [← hq, abs_div, abs_of_pos hpos]
        have hlt : |((a / (10 : ℚ) ^ (e - 6)).num : ℚ)| < (10 : ℚ) ^ (7 : ℕ) := by
          rw [habs, div_lt_iff₀ hpos]
          calc |a| < (10 : ℚ) ^ (e + 1) := hhi
            _ = (10 : ℚ) ^ ((7 : ℕ) + (e - 6)) := by congr 1; push_cast; ring
            _ = (10 : ℚ) ^ (7 : ℕ) * (10 : ℚ) ^ (e - 6) := by
              rw [zpow_add₀ (by norm_num : (10 : ℚ) ≠ 0), zpow_natCast]
        rw [← Int.cast_abs] at hlt
        exact_mod_cast hlt
    · cases h

end Pyc.NumTextP
