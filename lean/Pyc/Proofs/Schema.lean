/- Language-level lemmas for the emission theorems (Props C04). -/
import Pyc.Model.Schema

namespace Pyc.Schema
open RegularExpression

variable {α : Type} [DecidableEq α]

theorem mem_char (a : α) : [a] ∈ (char a).matches' := by
  rw [matches'_char]; exact Set.mem_singleton _

theorem mem_one : ([] : List α) ∈ (1 : RegularExpression α).matches' := by
  simp [matches'_epsilon]

theorem mem_mul {P Q : RegularExpression α} {x y : List α} (hx : x ∈ P.matches') (hy : y ∈ Q.matches') :
    x ++ y ∈ (P * Q).matches' := by
  rw [matches'_mul]
  exact Language.append_mem_mul hx hy

theorem mem_add_left {P Q : RegularExpression α} {x : List α} (hx : x ∈ P.matches') : x ∈ (P + Q).matches' := by
  rw [matches'_add]; exact Or.inl hx

theorem mem_add_right {P Q : RegularExpression α} {x : List α} (hx : x ∈ Q.matches') : x ∈ (P + Q).matches' := by
  rw [matches'_add]; exact Or.inr hx

theorem mem_opt_nil {P : RegularExpression α} : ([] : List α) ∈ (1 + P).matches' := mem_add_left mem_one
theorem mem_opt_some {P : RegularExpression α} {x : List α} (hx : x ∈ P.matches') : x ∈ (1 + P).matches' := mem_add_right hx

/-- a list all of whose letters are accepted by P is accepted by P* -/
theorem mem_star_of_forall {P : RegularExpression α} (l : List α) (h : ∀ a ∈ l, [a] ∈ P.matches') :
    l ∈ (star P).matches' := by
  rw [matches'_star, Language.mem_kstar]
  refine ⟨l.map (fun a => [a]), ?_, ?_⟩
  · clear h
    induction l with
    | nil => rfl
    | cons a t ih => simpa using ih
  · intro y hy
    simp only [List.mem_map] at hy
    obtain ⟨a, ha, rfl⟩ := hy
    exact h a ha

theorem mem_star_replicate (a : α) (n : Nat) : List.replicate n a ∈ (star (char a)).matches' := by
  apply mem_star_of_forall
  intro b hb
  rw [List.eq_of_mem_replicate hb]
  exact mem_char a

/-- `char a₀ + char a₁ + … + char aₙ`, associated to the left as the generated table writes it -/
def altOf : List α → RegularExpression α
  | [] => 0
  | a :: l => l.foldl (fun r x => r + char x) (char a)

theorem mem_foldl_alt (l : List α) (acc : RegularExpression α) (x : α)
    (h : [x] ∈ acc.matches' ∨ x ∈ l) : [x] ∈ (l.foldl (fun r y => r + char y) acc).matches' := by
  induction l generalizing acc with
  | nil =>
    rcases h with h | h
    · exact h
    · simp at h
  | cons b t ih =>
    simp only [List.foldl_cons]
    apply ih
    rcases h with h | h
    · exact Or.inl (mem_add_left h)
    · rcases List.mem_cons.mp h with e | h
      · left; rw [e]; exact mem_add_right (mem_char b)
      · exact Or.inr h

theorem mem_altOf (l : List α) (x : α) (h : x ∈ l) : [x] ∈ (altOf l).matches' := by
  cases l with
  | nil => simp at h
  | cons a t =>
    apply mem_foldl_alt
    rcases List.mem_cons.mp h with e | h
    · left; rw [e]; exact mem_char a
    · exact Or.inr h

/-- from the decision procedure's point of view -/
theorem rmatch_of_mem {P : RegularExpression α} {x : List α} (h : x ∈ P.matches') : P.rmatch x = true :=
  (rmatch_iff_matches' P x).mpr h

/-! ### list lemmas for `saveTechnique` -/

theorem foldl_erase_absent (l : List String) (ts : List String) (h : ∀ t ∈ ts, t ∉ l) :
    ts.foldl (fun acc t => acc.erase t) l = l := by
  induction ts with
  | nil => rfl
  | cons t ts ih =>
    simp only [List.foldl_cons]
    rw [List.erase_of_not_mem (h t (by simp))]
    exact ih (fun t' ht' => h t' (by simp [ht']))

theorem foldl_erase_one (P E : List String) (old : String) (ts : List String)
    (hP : ∀ t ∈ ts, t ∉ P) (hE : ∀ t ∈ ts, t ∉ E) :
    ts.foldl (fun acc t => acc.erase t) (P ++ old :: E) = if old ∈ ts then P ++ E else P ++ old :: E := by
  induction ts with
  | nil => simp
  | cons t ts ih =>
    simp only [List.foldl_cons]
    have hPt : t ∉ P := hP t (by simp)
    have hEt : t ∉ E := hE t (by simp)
    by_cases hto : t = old
    · subst hto
      rw [List.erase_append_right _ hPt, List.erase_cons_head]
      rw [foldl_erase_absent]
      · simp
      · intro t' ht'
        simp only [List.mem_append, not_or]
        exact ⟨hP t' (by simp [ht']), hE t' (by simp [ht'])⟩
    · have : (P ++ old :: E).erase t = P ++ old :: E := by
        apply List.erase_of_not_mem
        simp only [List.mem_append, List.mem_cons, not_or]
        exact ⟨hPt, hto, hEt⟩
      rw [this, ih (fun t' ht' => hP t' (by simp [ht'])) (fun t' ht' => hE t' (by simp [ht']))]
      have : (old ∈ t :: ts) ↔ old ∈ ts := by
        simp only [List.mem_cons]
        constructor
        · rintro (h | h)
          · exact absurd h.symm hto
          · exact h
        · exact Or.inr
      simp only [this]

theorem findIdx_after_prefix (p : String → Bool) (P E : List String) (hP : ∀ x ∈ P, p x = false)
    (hE : ∀ x ∈ E, p x = true) : (P ++ E).findIdx p = P.length := by
  induction P with
  | nil =>
    cases E with
    | nil => rfl
    | cons e E => simp [List.findIdx_cons, hE e (by simp)]
  | cons x P ih =>
    simp only [List.cons_append, List.findIdx_cons, hP x (by simp), List.length_cons]
    simp [ih (fun y hy => hP y (by simp [hy]))]


end Pyc.Schema
