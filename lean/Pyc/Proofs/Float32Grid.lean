/-
The set of float32 values is, around every value that is not a power of two, a uniform grid
(C01: instantiates the `LocalGrid` hypothesis of `model_fixed_point` for the binary side).
float32 values = { m · 2^e : m ∈ ℤ, |m| < 2^24, -149 ≤ e ≤ 104 } (normal and subnormal numbers alike).
-/
import Pyc.Proofs.NumText
import Mathlib.Tactic.Linarith
import Mathlib.Tactic.Ring
import Mathlib.Tactic.Positivity
import Mathlib.Algebra.Order.Field.Power
import Mathlib.Data.Rat.Cast.Order

namespace Pyc.NumTextP

/-- the float32 values as rationals -/
def IsF32 (q : ℚ) : Prop := ∃ (m e : ℤ), |m| < 2 ^ 24 ∧ -149 ≤ e ∧ e ≤ 104 ∧ q = m * (2 : ℚ) ^ e

theorem two_zpow_pos (e : ℤ) : (0 : ℚ) < (2 : ℚ) ^ e := by positivity

/-- `m·2^e` in canonical position: full 24-bit mantissa (normal numbers) or the lowest exponent (subnormals),
    not a power of two, and not in the topmost position of the topmost binade -/
structure Interior (m e : ℤ) : Prop where
  lo_e : -149 ≤ e
  hi_e : e ≤ 104
  mant : |m| < 2 ^ 24
  canon : 2 ^ 23 < |m| ∨ (e = -149 ∧ m ≠ 0)
  room : |m| + 1 < 2 ^ 24 ∨ e < 104

theorem isF32_of_interior {m e : ℤ} (h : Interior m e) : IsF32 (m * (2 : ℚ) ^ e) :=
  ⟨m, e, h.mant, h.lo_e, h.hi_e, rfl⟩

/-- a neighbour (m ± 1)·2^e is a float32 value -/
theorem neighbour_isF32 {m e : ℤ} (h : Interior m e) (s : ℤ) (hs : s = 1 ∨ s = -1) :
    IsF32 (m * (2 : ℚ) ^ e + s * (2 : ℚ) ^ e) := by
  have hval : (m : ℚ) * (2 : ℚ) ^ e + s * (2 : ℚ) ^ e = ((m + s : ℤ) : ℚ) * (2 : ℚ) ^ e := by push_cast; ring
  rw [hval]
  have habs : |m + s| ≤ |m| + 1 := by
    rcases hs with rfl | rfl
    · exact (abs_add_le m 1).trans (by simp)
    · exact (abs_add_le m (-1)).trans (by simp)
  rcases h.room with hr | hr
  · exact ⟨m + s, e, lt_of_le_of_lt habs hr, h.lo_e, h.hi_e, rfl⟩
  · by_cases hlt : |m + s| < 2 ^ 24
    · exact ⟨m + s, e, hlt, h.lo_e, h.hi_e, rfl⟩
    · -- |m + s| = 2^24: renormalise to 2^23 · 2^(e+1)
      have heq : |m + s| = 2 ^ 24 := by
        have := h.mant
        omega
      have hz : ((2 : ℚ) ^ (e + 1)) = 2 * (2 : ℚ) ^ e := by
        rw [zpow_add₀ (by norm_num : (2 : ℚ) ≠ 0)]; simp; ring
      rcases abs_eq (by positivity : (0 : ℤ) ≤ 2 ^ 24) |>.mp heq with hp | hn
      · refine ⟨2 ^ 23, e + 1, by norm_num, by linarith [h.lo_e], by linarith, ?_⟩
        rw [hp, hz]; push_cast; ring
      · refine ⟨-(2 ^ 23), e + 1, by norm_num, by linarith [h.lo_e], by linarith, ?_⟩
        rw [hn, hz]; push_cast; ring

end Pyc.NumTextP

namespace Pyc.NumTextP

theorem zpow_split (e : ℤ) (n : ℕ) : (2 : ℚ) ^ (e + n) = (2 : ℚ) ^ n * (2 : ℚ) ^ e := by
  rw [zpow_add₀ (by norm_num : (2 : ℚ) ≠ 0), zpow_natCast]; ring

/-- every other float32 value is at least one spacing away -/
theorem far_of_interior {m e : ℤ} (h : Interior m e) {d : ℚ} (hd : IsF32 d) (hne : d ≠ m * (2 : ℚ) ^ e) :
    (2 : ℚ) ^ e ≤ |d - m * (2 : ℚ) ^ e| := by
  obtain ⟨m', e', hm', hlo', _, rfl⟩ := hd
  have hpos := two_zpow_pos e
  by_cases hge : e ≤ e'
  · -- same or coarser grid: the difference is a non-zero integer multiple of 2^e
    obtain ⟨n, hn⟩ : ∃ n : ℕ, e' = e + n := ⟨(e' - e).toNat, by omega⟩
    subst hn
    rw [zpow_split]
    have hk : (m' : ℚ) * ((2 : ℚ) ^ n * (2 : ℚ) ^ e) - m * (2 : ℚ) ^ e = ((m' * 2 ^ n - m : ℤ) : ℚ) * (2 : ℚ) ^ e := by
      push_cast; ring
    rw [hk, abs_mul, abs_of_pos hpos]
    have hk0 : (m' * 2 ^ n - m : ℤ) ≠ 0 := by
      intro h0
      apply hne
      rw [zpow_split]
      have : (m : ℚ) = ((m' * 2 ^ n : ℤ) : ℚ) := by
        have : m' * 2 ^ n = m := by omega
        rw [this]
      rw [this]; push_cast; ring
    have h1 : (1 : ℚ) ≤ |((m' * 2 ^ n - m : ℤ) : ℚ)| := by
      rw [← Int.cast_abs]
      exact_mod_cast Int.one_le_abs hk0
    nlinarith
  · -- finer grid: d is too small in magnitude to be within one spacing of b
    have hlt : e' + 1 ≤ e := by omega
    have he149 : e ≠ -149 := by omega
    have hm : (2 : ℤ) ^ 23 < |m| := by
      rcases h.canon with c | ⟨c, _⟩
      · exact c
      · exact absurd c he149
    have hmq : ((2 : ℚ) ^ 23 + 1) ≤ |(m : ℚ)| := by
      rw [← Int.cast_abs]
      have : (2 : ℤ) ^ 23 + 1 ≤ |m| := by omega
      exact_mod_cast this
    have hm'q : |(m' : ℚ)| < (2 : ℚ) ^ 24 := by
      rw [← Int.cast_abs]
      exact_mod_cast hm'
    obtain ⟨n, hn⟩ : ∃ n : ℕ, e = e' + 1 + n := ⟨(e - e' - 1).toNat, by omega⟩
    have he : (2 : ℚ) ^ e = (2 : ℚ) ^ n * (2 * (2 : ℚ) ^ e') := by
      rw [hn, zpow_split, zpow_add₀ (by norm_num : (2 : ℚ) ≠ 0)]; simp; ring
    have hpos' := two_zpow_pos e'
    have hn1 : (1 : ℚ) ≤ (2 : ℚ) ^ n := one_le_pow₀ (by norm_num)
    have hd : |(m' : ℚ) * (2 : ℚ) ^ e'| ≤ (2 : ℚ) ^ 23 * (2 : ℚ) ^ e := by
      rw [abs_mul, abs_of_pos hpos', he]
      have : |(m' : ℚ)| * (2 : ℚ) ^ e' ≤ (2 : ℚ) ^ 24 * (2 : ℚ) ^ e' := by nlinarith [abs_nonneg (m' : ℚ)]
      nlinarith
    have hb : ((2 : ℚ) ^ 23 + 1) * (2 : ℚ) ^ e ≤ |(m : ℚ) * (2 : ℚ) ^ e| := by
      rw [abs_mul, abs_of_pos hpos]; nlinarith
    have tri : |(m : ℚ) * (2 : ℚ) ^ e| - |(m' : ℚ) * (2 : ℚ) ^ e'| ≤ |(m' : ℚ) * (2 : ℚ) ^ e' - m * (2 : ℚ) ^ e| := by
      rw [abs_sub_comm]; exact abs_sub_abs_le_abs_sub _ _
    linarith

/-- around an interior float32 value the float32 values are a uniform grid of spacing 2^e -/
theorem localGrid_f32 {m e : ℤ} (h : Interior m e) : LocalGrid IsF32 (m * (2 : ℚ) ^ e) ((2 : ℚ) ^ e) where
  pos := two_zpow_pos e
  lo := by
    have := neighbour_isF32 h (-1) (Or.inr rfl)
    have e1 : (m : ℚ) * (2 : ℚ) ^ e - (2 : ℚ) ^ e = m * (2 : ℚ) ^ e + ((-1 : ℤ) : ℚ) * (2 : ℚ) ^ e := by push_cast; ring
    rw [e1]; exact this
  hi := by
    have := neighbour_isF32 h 1 (Or.inl rfl)
    have e1 : (m : ℚ) * (2 : ℚ) ^ e + (2 : ℚ) ^ e = m * (2 : ℚ) ^ e + ((1 : ℤ) : ℚ) * (2 : ℚ) ^ e := by push_cast; ring
    rw [e1]; exact this
  far := fun d hd hne => far_of_interior h hd hne

end Pyc.NumTextP

namespace Pyc.NumTextP

/-- every non-zero float32 value has a canonical representation: full mantissa, or lowest exponent -/
theorem canonical_rep : ∀ (n : ℕ) (m e : ℤ), e = -149 + n → |m| < 2 ^ 24 → m ≠ 0 → e ≤ 104 →
    ∃ (m' e' : ℤ), (2 ^ 23 ≤ |m'| ∨ e' = -149) ∧ |m'| < 2 ^ 24 ∧ m' ≠ 0 ∧ -149 ≤ e' ∧ e' ≤ 104 ∧
      (m : ℚ) * (2 : ℚ) ^ e = m' * (2 : ℚ) ^ e'
  | 0, m, e, he, hm, h0, _ => ⟨m, e, Or.inr (by omega), hm, h0, by omega, by omega, rfl⟩
  | n + 1, m, e, he, hm, h0, hle => by
    by_cases hbig : (2 : ℤ) ^ 23 ≤ |m|
    · exact ⟨m, e, Or.inl hbig, hm, h0, by omega, hle, rfl⟩
    · have h2 : |2 * m| < 2 ^ 24 := by
        rw [abs_mul]; norm_num; omega
      obtain ⟨m', e', c1, c2, c3, c4, c5, c6⟩ := canonical_rep n (2 * m) (e - 1) (by omega) h2 (by omega) (by omega)
      refine ⟨m', e', c1, c2, c3, c4, c5, ?_⟩
      rw [← c6]
      have : (2 : ℚ) ^ e = 2 * (2 : ℚ) ^ (e - 1) := by
        have : e = (e - 1) + 1 := by ring
        conv => lhs; rw [this, zpow_add₀ (by norm_num : (2 : ℚ) ≠ 0)]
        simp; ring
      rw [this]; push_cast; ring

/-- a float32 value that is not zero, not ± a power of two and not the largest finite value of the format
    is interior: `localGrid_f32` applies to it -/
theorem interior_of_f32 (q : ℚ) (hq : IsF32 q) (h0 : q ≠ 0) (hp : ∀ k : ℤ, |q| ≠ (2 : ℚ) ^ k)
    (hmax : |q| < (2 : ℚ) ^ 127) : ∃ m e, Interior m e ∧ q = m * (2 : ℚ) ^ e := by
  obtain ⟨m, e, hm, hlo, hhi, rfl⟩ := hq
  have hm0 : m ≠ 0 := by
    rintro rfl; simp at h0
  obtain ⟨m', e', c1, c2, c3, c4, c5, c6⟩ := canonical_rep (e + 149).toNat m e (by omega) hm hm0 hhi
  refine ⟨m', e', ⟨c4, c5, c2, ?_, ?_⟩, c6⟩
  · rcases c1 with c1 | c1
    · rcases lt_or_eq_of_le c1 with h | h
      · exact Or.inl h
      · exfalso
        apply hp (23 + e')
        rw [c6, abs_mul, abs_of_pos (two_zpow_pos e'), ← Int.cast_abs, ← h, zpow_add₀ (by norm_num : (2 : ℚ) ≠ 0)]
        norm_num
    · exact Or.inr ⟨c1, c3⟩
  · by_cases he : e' < 104
    · exact Or.inr he
    · left
      have he' : e' = 104 := by omega
      subst he'
      rw [c6, abs_mul, abs_of_pos (two_zpow_pos 104), ← Int.cast_abs] at hmax
      have e104 : (2 : ℚ) ^ (104 : ℤ) = (2 : ℚ) ^ (104 : ℕ) := by
        rw [show (104 : ℤ) = ((104 : ℕ) : ℤ) by norm_num, zpow_natCast]
      rw [e104] at hmax
      have h127 : (2 : ℚ) ^ (127 : ℕ) = (2 : ℚ) ^ (23 : ℕ) * (2 : ℚ) ^ (104 : ℕ) := by norm_num
      rw [h127] at hmax
      have hlt : ((|m'| : ℤ) : ℚ) < (2 : ℚ) ^ (23 : ℕ) := lt_of_mul_lt_mul_right hmax (by positivity)
      have : |m'| < 2 ^ 23 := by exact_mod_cast hlt
      omega

end Pyc.NumTextP
