/- Helper lemmas for the C19 theorems (Pyc/Props/C19.lean). -/
import Pyc.Model.Skin
import Mathlib.Tactic.Ring

namespace Pyc.Skin

/-! ### `rows`: reshaping a slice into `ct` rows of `nind` entries -/

theorem rows_length (nind : Nat) : ∀ (ct : Nat) (s : List Int), (rows nind ct s).length = ct := by
  intro ct
  induction ct with
  | zero => intro s; rfl
  | succ n ih => intro s; simp [rows, ih]

theorem rows_getElem? (nind : Nat) : ∀ (ct : Nat) (s : List Int) (k : Nat), k < ct →
    (rows nind ct s)[k]? = some ((s.drop (nind * k)).take nind) := by
  intro ct
  induction ct with
  | zero => intro s k h; omega
  | succ n ih =>
    intro s k h
    cases k with
    | zero => simp [rows]
    | succ k =>
      simp only [rows, List.getElem?_cons_succ]
      rw [ih (s.drop nind) k (by omega), List.drop_drop, Nat.mul_succ, Nat.add_comm]

theorem rows_flatten (nind : Nat) : ∀ (ct : Nat) (s : List Int),
    (rows nind ct s).flatten = s.take (nind * ct) := by
  intro ct
  induction ct with
  | zero => intro s; simp [rows]
  | succ n ih =>
    intro s
    simp only [rows, List.flatten_cons, ih]
    rw [Nat.mul_succ, Nat.add_comm, List.take_add]

/-- every row of a full block has exactly `nind` entries -/
theorem rows_row_length (nind ct : Nat) (s : List Int) (h : nind * ct ≤ s.length) (k : Nat) (hk : k < ct)
    (row : List Int) (hr : (rows nind ct s)[k]? = some row) : row.length = nind := by
  rw [rows_getElem? nind ct s k hk] at hr
  cases hr
  simp only [List.length_take, List.length_drop]
  have : nind * (k + 1) ≤ nind * ct := Nat.mul_le_mul_left nind hk
  rw [Nat.mul_succ] at this
  omega

/-! ### `groupsFrom`: the loop over `vcounts` -/

theorem groupsFrom_length (nind : Nat) (st : List Int) : ∀ (vc : List Nat) (a : Nat),
    (groupsFrom nind st a vc).length = vc.length := by
  intro vc
  induction vc with
  | nil => intro a; rfl
  | cons c rest ih => intro a; simp [groupsFrom, ih]

/-- group `i` is the reshaped `i`-th block: it starts after the `Σ_{j<i} vcounts[j]` tuples of the
    earlier vertices and holds `vcounts[i]` tuples -/
theorem groupsFrom_getElem? (nind : Nat) (st : List Int) : ∀ (vc : List Nat) (a i ct : Nat),
    vc[i]? = some ct →
    (groupsFrom nind st a vc)[i]? =
      some (rows nind ct ((st.drop (nind * (a + (vc.take i).sum))).take (nind * ct))) := by
  intro vc
  induction vc with
  | nil => intro a i ct h; simp at h
  | cons c rest ih =>
    intro a i ct h
    cases i with
    | zero =>
      simp only [List.getElem?_cons_zero, Option.some.injEq] at h
      subst h
      simp [groupsFrom]
    | succ i =>
      simp only [List.getElem?_cons_succ] at h
      simp only [groupsFrom, List.getElem?_cons_succ]
      rw [ih (a + c) i ct h]
      simp [List.take_succ_cons, List.sum_cons, Nat.add_assoc]

theorem groupsFrom_flatten (nind : Nat) (st : List Int) : ∀ (vc : List Nat) (a : Nat),
    ((groupsFrom nind st a vc).map List.flatten).flatten =
      (st.drop (nind * a)).take (nind * vc.sum) := by
  intro vc
  induction vc with
  | nil => intro a; simp [groupsFrom]
  | cons c rest ih =>
    intro a
    simp only [groupsFrom, List.map_cons, List.flatten_cons, rows_flatten, ih, List.sum_cons]
    rw [List.take_take, Nat.min_self, Nat.mul_add, Nat.mul_add nind c, List.take_add, List.drop_drop]

/-- entry `c` of tuple `k` of the block that starts `A` entries into the stream -/
theorem block_entry (nind : Nat) (st : List Int) (A ct k c : Nat) (hk : k < ct) (hc : c < nind) :
    ((((st.drop A).take (nind * ct)).drop (nind * k)).take nind)[c]? = st[A + (nind * k + c)]? := by
  have h1 : nind * (k + 1) ≤ nind * ct := Nat.mul_le_mul_left nind hk
  rw [Nat.mul_succ] at h1
  have h2 : nind * k + c < nind * ct := by omega
  simp [List.getElem?_drop, hc, h2]

/-! ### `partition` -/

theorem natCounts_sum_cast (vc : List Int) (h : ∀ c ∈ vc, 0 ≤ c) : ((natCounts vc).sum : Int) = vc.sum := by
  induction vc with
  | nil => rfl
  | cons c rest ih =>
    have hc : 0 ≤ c := h c (by simp)
    have := ih (fun x hx => h x (by simp [hx]))
    simp only [natCounts, List.map_cons, List.sum_cons, Nat.cast_add] at this ⊢
    rw [this]
    omega

theorem partition_eq_ok (vcounts stream : List Int) (nind : Nat) (gs : List (List (List Int))) :
    partition vcounts stream nind = .ok gs ↔
      (∀ c ∈ vcounts, 0 ≤ c) ∧ stream.length = nind * (natCounts vcounts).sum ∧
      gs = groupsFrom nind stream 0 (natCounts vcounts) := by
  unfold partition
  by_cases h1 : vcounts.any (fun c => decide (c < 0)) = true
  · simp only [h1, if_true]
    constructor
    · intro h; cases h
    · rintro ⟨hn, _, _⟩
      obtain ⟨c, hc, hlt⟩ := List.any_eq_true.mp h1
      have := hn c hc
      simp at hlt
      omega
  · have hn : ∀ c ∈ vcounts, 0 ≤ c := by
      intro c hc
      by_cases hlt : c < 0
      · exact absurd (List.any_eq_true.mpr ⟨c, hc, by simp [hlt]⟩) h1
      · omega
    simp only [h1]
    by_cases h2 : stream.length = nind * (natCounts vcounts).sum
    · simp only [h2, ne_eq, not_true_eq_false, if_false, Except.ok.injEq, true_and, Bool.false_eq_true]
      constructor
      · intro h; exact ⟨hn, h.symm⟩
      · intro h; exact h.2.symm
    · simp [h2]

theorem partition_error (vcounts stream : List Int) (nind : Nat) (e : Err)
    (h : partition vcounts stream nind = .error e) : e = .malformed := by
  unfold partition at h
  split at h
  · cases h; rfl
  · split at h
    · cases h; rfl
    · cases h

/-! ### `column` / `columns` -/

theorem map_some_inj {α : Type} : ∀ (a b : List α), a.map some = b.map some → a = b := by
  intro a
  induction a with
  | nil => intro b h; cases b <;> simp_all
  | cons x xs ih =>
    intro b h
    cases b with
    | nil => simp at h
    | cons y ys =>
      simp only [List.map_cons, List.cons.injEq, Option.some.injEq] at h
      rw [h.1, ih ys h.2]

theorem column_eq_ok (off : Nat) : ∀ (g : List (List Int)) (xs : List Int),
    column off g = .ok xs ↔ g.map (fun row => row[off]?) = xs.map some := by
  intro g
  induction g with
  | nil =>
    intro xs
    cases xs <;> simp [column]
  | cons row rest ih =>
    intro xs
    simp only [column, List.map_cons]
    cases h1 : row[off]? with
    | none =>
      cases xs <;> simp
    | some x =>
      cases h2 : column off rest with
      | error e =>
        cases xs with
        | nil => simp
        | cons y ys =>
          have := (ih ys).not.mp (by rw [h2]; simp)
          simp [this]
      | ok ys =>
        have hy := (ih ys).mp h2
        cases xs with
        | nil => simp
        | cons z zs =>
          simp only [Except.ok.injEq, List.cons.injEq, List.map_cons, Option.some.injEq]
          constructor
          · rintro ⟨rfl, rfl⟩; exact ⟨rfl, hy⟩
          · rintro ⟨rfl, hz⟩
            refine ⟨rfl, ?_⟩
            have : ys.map some = zs.map some := by rw [← hy, hz]
            exact map_some_inj _ _ this

theorem column_error (off : Nat) (g : List (List Int)) (e : Err) (h : column off g = .error e) :
    e = .malformed := by
  cases g with
  | nil => simp [column] at h
  | cons row rest =>
    simp only [column] at h
    split at h
    · cases h
    · cases h; rfl

theorem columns_eq_ok (off : Nat) : ∀ (gs : List (List (List Int))) (cs : List (List Int)),
    columns off gs = .ok cs ↔ gs.map (fun g => g.map (fun row => row[off]?)) = cs.map (fun c => c.map some) := by
  intro gs
  induction gs with
  | nil =>
    intro cs
    cases cs <;> simp [columns]
  | cons g rest ih =>
    intro cs
    simp only [columns, List.map_cons]
    cases h1 : column off g with
    | error e =>
      cases cs with
      | nil => simp
      | cons c cs' =>
        have := (column_eq_ok off g c).not.mp (by rw [h1]; simp)
        simp [this]
    | ok x =>
      have hx := (column_eq_ok off g x).mp h1
      cases h2 : columns off rest with
      | error e =>
        cases cs with
        | nil => simp
        | cons y ys =>
          have := (ih ys).not.mp (by rw [h2]; simp)
          simp [this]
      | ok ys =>
        have hy := (ih ys).mp h2
        cases cs with
        | nil => simp
        | cons z zs =>
          simp only [Except.ok.injEq, List.cons.injEq, List.map_cons]
          constructor
          · rintro ⟨rfl, rfl⟩; exact ⟨hx, hy⟩
          · rintro ⟨hz1, hz2⟩
            constructor
            · have : x.map some = z.map some := by rw [← hx, hz1]
              exact map_some_inj _ _ this
            · have h3 : columns off rest = .ok zs := (ih zs).mpr hz2
              rw [h2] at h3
              cases h3; rfl

theorem columns_error (off : Nat) (gs : List (List (List Int))) (e : Err) (h : columns off gs = .error e) :
    e = .malformed := by
  cases gs with
  | nil => simp [columns] at h
  | cons g rest =>
    simp only [columns] at h
    split at h
    · cases h
    · cases h; rfl

/-- when every tuple is wide enough the offset column exists -/
theorem columns_total (off : Nat) (gs : List (List (List Int)))
    (h : ∀ g ∈ gs, ∀ row ∈ g, off < row.length) : ∃ cs, columns off gs = .ok cs := by
  refine ⟨gs.map (fun g => g.map (fun row => row.getD off 0)), (columns_eq_ok off gs _).mpr ?_⟩
  simp only [List.map_map]
  apply List.map_congr_left
  intro g hg
  simp only [Function.comp, List.map_map]
  apply List.map_congr_left
  intro row hr
  have := h g hg row hr
  simp [List.getD, List.getElem?_eq_getElem this]

/-! ### entries of an accepted partition -/

theorem take_sum_add_le : ∀ (vc : List Nat) (i ct : Nat), vc[i]? = some ct → (vc.take i).sum + ct ≤ vc.sum := by
  intro vc
  induction vc with
  | nil => intro i ct h; simp at h
  | cons c rest ih =>
    intro i ct h
    cases i with
    | zero => simp at h; subst h; simp
    | succ i =>
      simp only [List.getElem?_cons_succ] at h
      have := ih i ct h
      simp only [List.take_succ_cons, List.sum_cons]
      omega

/-- tuple `k` of vertex `i` in an accepted partition, entry by entry -/
theorem partition_row (vcounts stream : List Int) (nind : Nat) (gs : List (List (List Int)))
    (h : partition vcounts stream nind = .ok gs) (i ct k : Nat)
    (hi : (natCounts vcounts)[i]? = some ct) (hk : k < ct) :
    ∃ g row, gs[i]? = some g ∧ g.length = ct ∧ g[k]? = some row ∧ row.length = nind ∧
      ∀ c, c < nind → row[c]? = stream[nind * (((natCounts vcounts).take i).sum + k) + c]? ∧
        nind * (((natCounts vcounts).take i).sum + k) + c < stream.length := by
  obtain ⟨_, hlen, rfl⟩ := (partition_eq_ok _ _ _ _).mp h
  have hg := groupsFrom_getElem? nind stream (natCounts vcounts) 0 i ct hi
  have hsum := take_sum_add_le _ i ct hi
  have hbound : nind * (((natCounts vcounts).take i).sum + ct) ≤ stream.length := by
    rw [hlen]; exact Nat.mul_le_mul_left nind hsum
  have hk1 : nind * (((natCounts vcounts).take i).sum + (k + 1)) ≤ nind * (((natCounts vcounts).take i).sum + ct) :=
    Nat.mul_le_mul_left nind (by omega)
  simp only [Nat.mul_add, Nat.mul_one] at hbound hk1
  refine ⟨_, _, hg, rows_length _ _ _, rows_getElem? nind ct _ k hk, ?_, ?_⟩
  · simp only [List.length_take, List.length_drop, Nat.zero_add]
    have : nind * (k + 1) ≤ nind * ct := Nat.mul_le_mul_left nind hk
    rw [Nat.mul_succ] at this
    omega
  · intro c hc
    rw [block_entry nind stream _ ct k c hk hc]
    simp only [Nat.zero_add, Nat.mul_add, Nat.add_assoc]
    refine ⟨trivial, ?_⟩
    omega

theorem columns_getElem (off : Nat) (gs : List (List (List Int))) (cs : List (List Int))
    (h : columns off gs = .ok cs) (i : Nat) (g : List (List Int)) (hg : gs[i]? = some g) :
    ∃ c, cs[i]? = some c ∧ c.length = g.length ∧
      ∀ (k : Nat) (row : List Int), g[k]? = some row → ∃ x, c[k]? = some x ∧ row[off]? = some x := by
  have hm := (columns_eq_ok off gs cs).mp h
  have h1 : (gs.map (fun g => g.map (fun row => row[off]?)))[i]? = (cs.map (fun c => c.map some))[i]? := by rw [hm]
  simp only [List.getElem?_map, hg, Option.map_some] at h1
  cases hc : cs[i]? with
  | none => rw [hc] at h1; simp at h1
  | some c =>
    rw [hc] at h1
    simp only [Option.map_some, Option.some.injEq] at h1
    refine ⟨c, rfl, ?_, ?_⟩
    · have := congrArg List.length h1
      simpa using this.symm
    · intro k row hr
      have h2 : (g.map (fun row => row[off]?))[k]? = (c.map some)[k]? := by rw [h1]
      simp only [List.getElem?_map, hr, Option.map_some] at h2
      cases hx : c[k]? with
      | none => rw [hx] at h2; simp at h2
      | some x =>
        rw [hx] at h2
        simp only [Option.map_some, Option.some.injEq] at h2
        exact ⟨x, rfl, h2⟩

theorem columns_length (off : Nat) (gs : List (List (List Int))) (cs : List (List Int))
    (h : columns off gs = .ok cs) : cs.length = gs.length := by
  have hm := (columns_eq_ok off gs cs).mp h
  have := congrArg List.length hm
  simpa using this.symm

/-- the column at offset `off` of an accepted partition: entry `k` of vertex `i` is the stream
    entry `off` places into that vertex's `k`-th tuple -/
theorem offset_entry (vcounts stream : List Int) (nind off : Nat) (hoff : off < nind)
    (gs : List (List (List Int))) (cs : List (List Int))
    (h : partition vcounts stream nind = .ok gs) (hc : columns off gs = .ok cs) (i ct : Nat)
    (hi : (natCounts vcounts)[i]? = some ct) :
    ∃ c, cs[i]? = some c ∧ c.length = ct ∧
      ∀ k, k < ct → ∃ x, c[k]? = some x ∧
        stream[nind * (((natCounts vcounts).take i).sum + k) + off]? = some x := by
  cases ct with
  | zero =>
    obtain ⟨_, _, rfl⟩ := (partition_eq_ok _ _ _ _).mp h
    have hg := groupsFrom_getElem? nind stream (natCounts vcounts) 0 i 0 hi
    obtain ⟨c, hci, hlen, _⟩ := columns_getElem off _ cs hc i _ hg
    refine ⟨c, hci, by simpa [rows] using hlen, ?_⟩
    intro k hk; omega
  | succ n =>
    obtain ⟨g, _, hg, hglen, _, _, _⟩ := partition_row vcounts stream nind gs h i (n + 1) 0 hi (by omega)
    obtain ⟨c, hci, hlen, hall⟩ := columns_getElem off gs cs hc i g hg
    refine ⟨c, hci, by omega, ?_⟩
    intro k hk
    obtain ⟨g', row, hg', _, hrow, _, hent⟩ := partition_row vcounts stream nind gs h i (n + 1) k hi hk
    rw [hg] at hg'
    cases hg'
    obtain ⟨x, hx, hrx⟩ := hall k row hrow
    refine ⟨x, hx, ?_⟩
    rw [← (hent off hoff).1]
    exact hrx

/-- every tuple of an accepted partition has `nind` entries -/
theorem partition_width (vcounts stream : List Int) (nind : Nat) (gs : List (List (List Int)))
    (h : partition vcounts stream nind = .ok gs) : ∀ g ∈ gs, ∀ row ∈ g, row.length = nind := by
  intro g hg row hr
  obtain ⟨i, hi⟩ := List.mem_iff_getElem?.mp hg
  obtain ⟨k, hk⟩ := List.mem_iff_getElem?.mp hr
  obtain ⟨_, _, hgs⟩ := (partition_eq_ok _ _ _ _).mp h
  have hil : i < (natCounts vcounts).length := by
    have : i < gs.length := by
      by_contra hn
      rw [List.getElem?_eq_none (by omega)] at hi
      cases hi
    rw [hgs, groupsFrom_length] at this
    exact this
  have hct : (natCounts vcounts)[i]? = some ((natCounts vcounts)[i]) := List.getElem?_eq_getElem hil
  obtain ⟨g0, _, hg0, hg0len, _⟩ := partition_row vcounts stream nind gs h i _ 0 hct (by
    by_contra hn
    have hz : (natCounts vcounts)[i] = 0 := by omega
    have hg' := groupsFrom_getElem? nind stream (natCounts vcounts) 0 i _ hct
    rw [← hgs, hi, hz] at hg'
    simp only [rows, Option.some.injEq] at hg'
    subst hg'
    simp at hk)
  rw [hi] at hg0
  cases hg0
  have hkl : k < (natCounts vcounts)[i] := by
    by_contra hn
    rw [List.getElem?_eq_none (by omega)] at hk
    cases hk
  obtain ⟨g1, row1, hg1, _, hrow1, hw, _⟩ := partition_row vcounts stream nind gs h i _ k hct hkl
  rw [hi] at hg1
  cases hg1
  rw [hk] at hrow1
  cases hrow1
  exact hw

/-! ### index range -/

theorem maxList_spec : ∀ (l : List Int), (maxList l = none ↔ l = []) ∧
    ∀ m, maxList l = some m → m ∈ l ∧ ∀ x ∈ l, x ≤ m := by
  intro l
  induction l with
  | nil => simp [maxList]
  | cons a t ih =>
    refine ⟨by simp [maxList], ?_⟩
    intro m hm
    simp only [maxList, Option.some.injEq] at hm
    cases ht : maxList t with
    | none =>
      rw [ht] at hm
      have : t = [] := ih.1.mp ht
      subst this; subst hm
      simp
    | some m' =>
      rw [ht] at hm
      obtain ⟨hmem, hle⟩ := ih.2 m' ht
      have hm' : m = max a m' := hm.symm
      subst hm'
      constructor
      · by_cases h : a ≤ m'
        · rw [Int.max_eq_right h]; exact List.mem_cons_of_mem _ hmem
        · rw [Int.max_eq_left (by omega)]; exact List.mem_cons_self
      · intro x hx
        rcases List.mem_cons.mp hx with rfl | hx
        · exact Int.le_max_left _ _
        · exact Int.le_trans (hle x hx) (Int.le_max_right _ _)

theorem minList_spec : ∀ (l : List Int), (minList l = none ↔ l = []) ∧
    ∀ m, minList l = some m → m ∈ l ∧ ∀ x ∈ l, m ≤ x := by
  intro l
  induction l with
  | nil => simp [minList]
  | cons a t ih =>
    refine ⟨by simp [minList], ?_⟩
    intro m hm
    simp only [minList, Option.some.injEq] at hm
    cases ht : minList t with
    | none =>
      rw [ht] at hm
      have : t = [] := ih.1.mp ht
      subst this; subst hm
      simp
    | some m' =>
      rw [ht] at hm
      obtain ⟨hmem, hle⟩ := ih.2 m' ht
      have hm' : m = min a m' := hm.symm
      subst hm'
      constructor
      · by_cases h : a ≤ m'
        · rw [Int.min_eq_left h]; exact List.mem_cons_self
        · rw [Int.min_eq_right (by omega)]; exact List.mem_cons_of_mem _ hmem
      · intro x hx
        rcases List.mem_cons.mp hx with rfl | hx
        · exact Int.min_le_left _ _
        · exact Int.le_trans (Int.min_le_right _ _) (hle x hx)

/-- `len(source) <= maxindex` fires exactly when some index used reaches the source length -/
theorem le_maxIndex_iff (n : Nat) (gs : List (List Int)) :
    (n : Int) ≤ maxIndex gs ↔ ∃ x ∈ gs.flatten, (n : Int) ≤ x := by
  unfold maxIndex
  cases h : maxList gs.flatten with
  | none =>
    have := (maxList_spec _).1.mp h
    rw [this]
    simp only [Option.getD_none, List.not_mem_nil, false_and, exists_false, iff_false]
    omega
  | some m =>
    obtain ⟨hm, hle⟩ := (maxList_spec _).2 m h
    simp only [Option.getD_some]
    constructor
    · intro hn; exact ⟨m, hm, hn⟩
    · rintro ⟨x, hx, hn⟩; exact Int.le_trans hn (hle x hx)

theorem minIndex_lt_iff (lo : Int) (hlo : lo ≤ 0) (gs : List (List Int)) :
    minIndex gs < lo ↔ ∃ x ∈ gs.flatten, x < lo := by
  unfold minIndex
  cases h : minList gs.flatten with
  | none =>
    have := (minList_spec _).1.mp h
    rw [this]
    simp only [Option.getD_none, List.not_mem_nil, false_and, exists_false, iff_false]
    omega
  | some m =>
    obtain ⟨hm, hle⟩ := (minList_spec _).2 m h
    simp only [Option.getD_some]
    constructor
    · intro hn; exact ⟨m, hm, hn⟩
    · rintro ⟨x, hx, hn⟩; exact Int.lt_of_le_of_lt (hle x hx) hn

theorem checkRange_ok_iff (nJ nW : Nat) (ji wi : List (List Int)) :
    checkRange nJ nW ji wi = .ok () ↔
      (∀ g ∈ ji, ∀ j ∈ g, -1 ≤ j ∧ j < (nJ : Int)) ∧ (∀ g ∈ wi, ∀ w ∈ g, 0 ≤ w ∧ w < (nW : Int)) := by
  have m1 := minIndex_lt_iff (-1) (by omega) ji
  have m2 := minIndex_lt_iff 0 (by omega) wi
  have m3 := le_maxIndex_iff nJ ji
  have m4 := le_maxIndex_iff nW wi
  unfold checkRange
  by_cases h1 : minIndex ji < -1 ∨ minIndex wi < 0
  · simp only [h1, if_true]
    constructor
    · intro h; cases h
    · rintro ⟨hj, hw⟩
      exfalso
      rcases h1 with h | h
      · obtain ⟨x, hx, hlt⟩ := m1.mp h
        obtain ⟨g, hg, hxg⟩ := List.mem_flatten.mp hx
        have := (hj g hg x hxg).1; omega
      · obtain ⟨x, hx, hlt⟩ := m2.mp h
        obtain ⟨g, hg, hxg⟩ := List.mem_flatten.mp hx
        have := (hw g hg x hxg).1; omega
  · by_cases h2 : (nJ : Int) ≤ maxIndex ji
    · simp only [h1, if_false, h2, if_true]
      constructor
      · intro h; cases h
      · rintro ⟨hj, hw⟩
        exfalso
        obtain ⟨x, hx, hge⟩ := m3.mp h2
        obtain ⟨g, hg, hxg⟩ := List.mem_flatten.mp hx
        have := (hj g hg x hxg).2; omega
    · by_cases h3 : (nW : Int) ≤ maxIndex wi
      · simp only [h1, if_false, h2, h3, if_true]
        constructor
        · intro h; cases h
        · rintro ⟨hj, hw⟩
          exfalso
          obtain ⟨x, hx, hge⟩ := m4.mp h3
          obtain ⟨g, hg, hxg⟩ := List.mem_flatten.mp hx
          have := (hw g hg x hxg).2; omega
      · simp only [h1, if_false, h2, h3, true_iff]
        rw [not_or] at h1
        constructor
        · intro g hg j hj
          have hmem : j ∈ ji.flatten := List.mem_flatten.mpr ⟨g, hg, hj⟩
          constructor
          · by_cases hlt : j < -1
            · exact absurd (m1.mpr ⟨j, hmem, hlt⟩) h1.1
            · omega
          · by_cases hge : (nJ : Int) ≤ j
            · exact absurd (m3.mpr ⟨j, hmem, hge⟩) h2
            · omega
        · intro g hg w hw
          have hmem : w ∈ wi.flatten := List.mem_flatten.mpr ⟨g, hg, hw⟩
          constructor
          · by_cases hlt : w < 0
            · exact absurd (m2.mpr ⟨w, hmem, hlt⟩) h1.2
            · omega
          · by_cases hge : (nW : Int) ≤ w
            · exact absurd (m4.mpr ⟨w, hmem, hge⟩) h3
            · omega

theorem checkRange_error (nJ nW : Nat) (ji wi : List (List Int)) (e : Err)
    (h : checkRange nJ nW ji wi = .error e) : e = .malformed := by
  unfold checkRange at h
  repeat' split at h
  all_goals first | (cases h; rfl) | cases h

/-! ### joints and matrices -/

theorem pairJoints_eq_ok (names : List String) (mats : List Int) (ps : List (String × List Int)) :
    pairJoints names mats = .ok ps ↔
      mats.length = 16 * names.length ∧ ps = names.zip (rows 16 names.length mats) := by
  unfold pairJoints
  by_cases h1 : mats.length % 16 = 0
  · by_cases h2 : names.length = mats.length / 16
    · have h3 : mats.length = 16 * names.length := by omega
      simp only [h1, ne_eq, not_true_eq_false, if_false, ← h2, Except.ok.injEq]
      constructor
      · intro h; exact ⟨h3, h.symm⟩
      · intro h; exact h.2.symm
    · simp only [h1, ne_eq, not_true_eq_false, if_false, h2, not_false_eq_true, if_true]
      constructor
      · intro h; cases h
      · rintro ⟨h3, _⟩; omega
  · simp only [ne_eq, h1, not_false_eq_true, if_true]
    constructor
    · intro h; cases h
    · rintro ⟨h3, _⟩; omega

theorem pairJoints_error (names : List String) (mats : List Int) (e : Err)
    (h : pairJoints names mats = .error e) : e = .malformed := by
  unfold pairJoints at h
  repeat' split at h
  all_goals first | (cases h; rfl) | cases h

theorem dictGet_dictSet {α : Type} (k k' : String) (v : α) : ∀ (d : List (String × α)),
    dictGet (dictSet d k v) k' = if k = k' then some v else dictGet d k' := by
  intro d
  induction d with
  | nil => simp [dictSet, dictGet]
  | cons p t ih =>
    obtain ⟨a, b⟩ := p
    simp only [dictSet]
    by_cases h : a = k
    · subst h
      simp only [if_true, dictGet]
      by_cases h2 : a = k' <;> simp [h2]
    · simp only [h, if_false, dictGet, ih]
      by_cases h2 : a = k'
      · subst h2; simp [Ne.symm h]
      · simp [h2]

/-- the mapping built by successive assignments returns, for each name, its last matrix -/
theorem dictGet_foldl {α : Type} (k : String) : ∀ (ps d : List (String × α)),
    dictGet (ps.foldl (fun d p => dictSet d p.1 p.2) d) k =
      (match ps.reverse.find? (fun p => decide (p.1 = k)) with
       | some p => some p.2
       | none => dictGet d k) := by
  intro ps
  induction ps with
  | nil => intro d; simp
  | cons p rest ih =>
    intro d
    simp only [List.foldl_cons, List.reverse_cons, List.find?_append, ih]
    cases h : rest.reverse.find? (fun p => decide (p.1 = k)) with
    | some q => simp
    | none =>
      simp only [Option.none_or, dictGet_dictSet]
      by_cases h2 : p.1 = k <;> simp [List.find?, h2]

theorem dictSet_fresh {α : Type} (k : String) (v : α) : ∀ (d : List (String × α)),
    k ∉ d.map (·.1) → dictSet d k v = d ++ [(k, v)] := by
  intro d
  induction d with
  | nil => intro _; rfl
  | cons p t ih =>
    intro h
    obtain ⟨a, b⟩ := p
    simp only [List.map_cons, List.mem_cons, not_or] at h
    have ha : ¬ a = k := fun e => h.1 e.symm
    simp [dictSet, ha, ih h.2]

theorem foldl_dictSet_nodup {α : Type} : ∀ (ps d : List (String × α)),
    ((d ++ ps).map (·.1)).Nodup → ps.foldl (fun d p => dictSet d p.1 p.2) d = d ++ ps := by
  intro ps
  induction ps with
  | nil => intro d _; simp
  | cons p rest ih =>
    intro d h
    have hfresh : p.1 ∉ d.map (·.1) := by
      rw [List.map_append, List.map_cons] at h
      have := (List.nodup_append.mp h).2.2
      intro hm
      exact this _ hm _ List.mem_cons_self rfl
    simp only [List.foldl_cons]
    rw [dictSet_fresh _ _ _ hfresh, ih (d ++ [(p.1, p.2)]) (by simpa using h)]
    simp

/-! ### geometry references -/

theorem findGeom_some (geoms : List String) (id : String) (g : Nat) (h : findGeom geoms id = some g) :
    geoms[g]? = some id := by
  unfold findGeom at h
  split at h
  · next hlt =>
    cases h
    rw [List.getElem?_eq_getElem hlt, List.getElem_idxOf hlt]
  · cases h

theorem findGeom_none (geoms : List String) (id : String) : findGeom geoms id = none ↔ id ∉ geoms := by
  unfold findGeom
  rw [← List.idxOf_lt_length_iff]
  split <;> simp_all

/-! ### morph targets -/

theorem resolveTargets_some (geoms : List String) : ∀ (tw : List (String × Int)) (l : List (Nat × Int)),
    resolveTargets geoms tw = some l →
      l.length = tw.length ∧
      ∀ (i : Nat) (t : String) (w : Int), tw[i]? = some (t, w) → ∃ g, findGeom geoms t = some g ∧ l[i]? = some (g, w) := by
  intro tw
  induction tw with
  | nil =>
    intro l h
    simp only [resolveTargets, Option.some.injEq] at h
    subst h
    simp
  | cons p rest ih =>
    intro l h
    obtain ⟨t0, w0⟩ := p
    simp only [resolveTargets] at h
    split at h
    · next g l' hg hl' =>
      cases h
      obtain ⟨hlen, hall⟩ := ih l' hl'
      refine ⟨by simp [hlen], ?_⟩
      intro i t w hi
      cases i with
      | zero =>
        simp only [List.getElem?_cons_zero, Option.some.injEq, Prod.mk.injEq] at hi
        obtain ⟨rfl, rfl⟩ := hi
        exact ⟨g, hg, by simp⟩
      | succ i =>
        simp only [List.getElem?_cons_succ] at hi ⊢
        exact hall i t w hi
    · cases h

theorem resolveTargets_none (geoms : List String) : ∀ (tw : List (String × Int)),
    resolveTargets geoms tw = none ↔ ∃ p ∈ tw, p.1 ∉ geoms := by
  intro tw
  induction tw with
  | nil => simp [resolveTargets]
  | cons p rest ih =>
    obtain ⟨t0, w0⟩ := p
    simp only [resolveTargets, List.mem_cons, exists_eq_or_imp]
    cases hg : findGeom geoms t0 with
    | none =>
      have := (findGeom_none geoms t0).mp hg
      simp [this]
    | some g =>
      have hin : t0 ∈ geoms := by
        by_contra hn
        rw [(findGeom_none geoms t0).mpr hn] at hg
        cases hg
      cases hr : resolveTargets geoms rest with
      | none =>
        have := ih.mp hr
        simp [this]
      | some l =>
        have : ¬ ∃ p ∈ rest, p.1 ∉ geoms := by
          intro hex
          rw [ih.mpr hex] at hr
          cases hr
        simp [hin, this]

/-! ### binding through a scene -/

/-- the minimal algebra the binding theorem needs: an associative product with a two-sided unit -/
class Mon (M : Type) extends Mul M, One M where
  one_mul : ∀ a : M, 1 * a = a
  mul_one : ∀ a : M, a * 1 = a
  mul_assoc : ∀ a b c : M, a * b * c = a * (b * c)

/-- the product of the node matrices from the root down, nested as the code nests `numpy.dot` -/
def pathProd {M : Type} [Mul M] [One M] (p : List M) : M := p.foldl (· * ·) 1

section
variable {M : Type} [Mon M]

theorem accGet_mul (acc : Option M) (m : M) : accGet acc * m = accMul acc m := by
  cases acc with
  | none => exact Mon.one_mul m
  | some a => rfl

mutual
theorem objects_eq_paths : ∀ (n : SNode M) (acc : Option M),
    n.objects acc = n.paths.map (fun p => (p.1.foldl (· * ·) (accGet acc), p.2))
  | .node m cs, acc => by
      simp only [SNode.objects, SNode.paths, List.map_map]
      rw [objectsList_eq_paths cs (some (accMul acc m))]
      apply List.map_congr_left
      intro p _
      simp only [Function.comp, List.foldl_cons, accGet_mul]
      rfl
  | .inst c, acc => by simp [SNode.objects, SNode.paths]
theorem objectsList_eq_paths : ∀ (cs : List (SNode M)) (acc : Option M),
    SNode.objectsList cs acc = (SNode.pathsList cs).map (fun p => (p.1.foldl (· * ·) (accGet acc), p.2))
  | [], acc => by simp [SNode.objectsList, SNode.pathsList]
  | c :: cs, acc => by
      simp only [SNode.objectsList, SNode.pathsList, List.map_append]
      rw [objects_eq_paths c acc, objectsList_eq_paths cs acc]
end

theorem foldl_mul_eq (a : M) : ∀ (p : List M) (b : M), p.foldl (· * ·) a * b = a * p.foldr (· * ·) b := by
  intro p
  induction p generalizing a with
  | nil => intro b; rfl
  | cons m t ih =>
    intro b
    simp only [List.foldl_cons, List.foldr_cons]
    rw [ih (a * m) b, Mon.mul_assoc]

end

/-! ### 4x4 integer matrices form such an algebra -/

theorem Mat.ext' (a b : Mat) (h : ∀ i j, a.f i j = b.f i j) : a = b := by
  cases a; cases b
  congr
  funext i j
  exact h i j

theorem Mat.mul_f (a b : Mat) (i j : Fin 4) :
    (a * b).f i j = a.f i 0 * b.f 0 j + a.f i 1 * b.f 1 j + a.f i 2 * b.f 2 j + a.f i 3 * b.f 3 j := rfl

theorem Mat.one_f (i j : Fin 4) : (1 : Mat).f i j = if i = j then 1 else 0 := rfl

instance : Mon Mat where
  one_mul a := by
    apply Mat.ext'
    intro i j
    rw [Mat.mul_f]
    simp only [Mat.one_f]
    match i with
    | 0 => simp
    | 1 => simp
    | 2 => simp
    | 3 => simp
  mul_one a := by
    apply Mat.ext'
    intro i j
    rw [Mat.mul_f]
    simp only [Mat.one_f]
    match j with
    | 0 => simp
    | 1 => simp
    | 2 => simp
    | 3 => simp
  mul_assoc a b c := by
    apply Mat.ext'
    intro i j
    simp only [Mat.mul_f]
    ring

end Pyc.Skin
