/-
Helper lemmas for C20 (Pyc/Props/C20.lean): frame lemmas for one step and the induction over
schedules, for the generic scheduler of Pyc/Model/Isolation.lean.
-/
import Pyc.Model.Isolation

namespace Pyc.Iso

variable {D G O : Type}

@[simp] theorem setDoc_same (f : Nat → D) (i : Nat) (d : D) : setDoc f i d i = d := by
  simp [setDoc]

theorem setDoc_other (f : Nat → D) (i j : Nat) (d : D) (h : j ≠ i) : setDoc f i d j = f j := by
  simp [setDoc, h]

theorem setDoc_comm (f : Nat → D) (i j : Nat) (a b : D) (h : i ≠ j) :
    setDoc (setDoc f i a) j b = setDoc (setDoc f j b) i a := by
  funext k
  simp only [setDoc]
  by_cases hj : k = j
  · subst hj
    have : ¬ k = i := fun hk => h hk.symm
    simp [this]
  · simp [hj]

@[simp] theorem stepSys_globals (s : Sys D G) (e : Ev D O) : (stepSys s e).1.globals = s.globals := rfl

@[simp] theorem stepSys_out (s : Sys D G) (e : Ev D O) : (stepSys s e).2 = (e.op (s.docs e.doc)).2 := rfl

theorem stepSys_docs_self (s : Sys D G) (e : Ev D O) :
    (stepSys s e).1.docs e.doc = (e.op (s.docs e.doc)).1 := by
  simp [stepSys]

theorem stepSys_docs_other (s : Sys D G) (e : Ev D O) (j : Nat) (h : j ≠ e.doc) :
    (stepSys s e).1.docs j = s.docs j := by
  simp [stepSys, setDoc_other _ _ _ _ h]

theorem run_nil (s : Sys D G) : run ([] : List (Ev D O)) s = (s, []) := rfl

theorem run_cons (e : Ev D O) (σ : List (Ev D O)) (s : Sys D G) :
    run (e :: σ) s = ((run σ (stepSys s e).1).1, (e.doc, (stepSys s e).2) :: (run σ (stepSys s e).1).2) := rfl

theorem run_globals (σ : List (Ev D O)) (s : Sys D G) : (run σ s).1.globals = s.globals := by
  induction σ generalizing s with
  | nil => rfl
  | cons e σ ih => rw [run_cons]; simp [ih]

theorem opsOf_cons_self (e : Ev D O) (σ : List (Ev D O)) :
    opsOf e.doc (e :: σ) = e.op :: opsOf e.doc σ := by
  simp [opsOf]

theorem opsOf_cons_other (e : Ev D O) (σ : List (Ev D O)) (i : Nat) (h : e.doc ≠ i) :
    opsOf i (e :: σ) = opsOf i σ := by
  simp [opsOf, h]

theorem opsOf_append (i : Nat) (σ τ : List (Ev D O)) : opsOf i (σ ++ τ) = opsOf i σ ++ opsOf i τ := by
  simp [opsOf, List.filter_append]

theorem outsOf_cons_self (i : Nat) (o : O) (tr : List (Nat × O)) :
    outsOf i ((i, o) :: tr) = o :: outsOf i tr := by
  simp [outsOf]

theorem outsOf_cons_other (i j : Nat) (o : O) (tr : List (Nat × O)) (h : j ≠ i) :
    outsOf i ((j, o) :: tr) = outsOf i tr := by
  simp [outsOf, h]

/-- the induction over schedules -/
theorem run_proj (σ : List (Ev D O)) (s : Sys D G) (i : Nat) :
    proj i (run σ s) = runSolo (opsOf i σ) (s.docs i) := by
  induction σ generalizing s with
  | nil => rfl
  | cons e σ ih =>
    rw [run_cons]
    by_cases h : e.doc = i
    · subst h
      rw [opsOf_cons_self]
      have := ih (stepSys s e).1
      simp only [proj] at this ⊢
      rw [outsOf_cons_self, stepSys_docs_self] at *
      simp only [runSolo, stepSys_out]
      rw [← this]
    · rw [opsOf_cons_other e σ i h]
      have := ih (stepSys s e).1
      simp only [proj] at this ⊢
      rw [outsOf_cons_other i e.doc _ _ h, ← stepSys_docs_other s e i (Ne.symm h)]
      exact this

/-! ### the leaky scheduler restricted to lifted frame operations is the frame scheduler -/

theorem stepL_lift (s : Sys D G) (e : Ev D O) : stepL s (liftEv e) = stepSys s e := rfl

theorem runL_lift (σ : List (Ev D O)) (s : Sys D G) : runL (σ.map liftEv) s = run σ s := by
  induction σ generalizing s with
  | nil => rfl
  | cons e σ ih =>
    simp only [List.map_cons, runL, run, stepL_lift, ih]
    rfl

theorem runSoloL_lift (fs : List (FrameOp D O)) (g : G) (d : D) :
    runSoloL (fs.map liftOp) g d = runSolo fs d := by
  induction fs generalizing g d with
  | nil => rfl
  | cons f fs ih => simp only [List.map_cons, runSoloL, runSolo, liftOp, ih]

theorem opsOfL_lift (i : Nat) (σ : List (Ev D O)) :
    opsOfL (G := G) i (σ.map liftEv) = (opsOf i σ).map liftOp := by
  induction σ with
  | nil => rfl
  | cons e σ ih =>
    by_cases h : e.doc = i
    · simp [opsOfL, opsOf, liftEv, h] at ih ⊢; exact ih
    · simp [opsOfL, opsOf, liftEv, h] at ih ⊢; exact ih

end Pyc.Iso
