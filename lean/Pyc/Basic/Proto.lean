/-
Line-protocol plumbing shared by the drivers in lean/drv: one request per line on stdin,
one canonical answer per line on stdout.
-/
namespace Pyc.Proto

def words (line : String) : List String :=
  (line.trimAscii.toString.splitOn " ").filter (fun w => w != "")

def joinWith (sep : String) (xs : List String) : String := sep.intercalate xs

/-- insertion sort on strings so that dict-like output is canonical -/
def sortStrings (xs : List String) : List String :=
  xs.foldl (fun acc x => (acc.takeWhile (fun y => y < x)) ++ x :: (acc.dropWhile (fun y => y < x))) []

partial def loop {σ : Type} (h : IO.FS.Stream) (out : IO.FS.Stream) (s : σ)
    (step : σ → String → σ × String) : IO Unit := do
  let line ← h.getLine
  if line.isEmpty then
    out.flush
    return ()
  let (s', ans) := step s line
  out.putStrLn ans
  loop h out s' step

def mainLoop {σ : Type} (init : σ) (step : σ → String → σ × String) : IO Unit := do
  loop (← IO.getStdin) (← IO.getStdout) init step

end Pyc.Proto
