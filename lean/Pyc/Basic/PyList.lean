/-
Python `list` index conventions, as total functions.
Modelled, not verified: these are CPython's documented semantics; the correspondence
checks exercise them against the interpreter on every run.
-/
namespace Pyc.PyList

/-- `l[i]`, `l[i] = x`, `del l[i]`, `l.pop(i)`: negative positions wrap once, anything
    outside `-n ≤ i < n` is an `IndexError` (`none`). -/
def normIdx (n : Nat) (i : Int) : Option Nat :=
  if 0 ≤ i then (if i.toNat < n then some i.toNat else none)
  else (if (-i).toNat ≤ n then some (n - (-i).toNat) else none)

/-- `l.insert(i, x)` and slice bounds: negative positions wrap once, then clamp into `[0, n]`. -/
def clampIdx (n : Nat) (i : Int) : Nat :=
  if 0 ≤ i then min i.toNat n else n - min (-i).toNat n

/-- bounds of the step-1 slice `l[a:b]` (`none` = omitted bound); `hi` is never below `lo`. -/
def sliceBounds (n : Nat) (a b : Option Int) : Nat × Nat :=
  let lo := match a with | none => 0 | some i => clampIdx n i
  let hi := match b with | none => n | some i => clampIdx n i
  (lo, max lo hi)

theorem normIdx_lt {n : Nat} {i : Int} {k : Nat} (h : normIdx n i = some k) : k < n := by
  unfold normIdx at h
  split at h <;> split at h <;> simp at h <;> omega

theorem clampIdx_le (n : Nat) (i : Int) : clampIdx n i ≤ n := by
  unfold clampIdx; split <;> omega

theorem sliceBounds_le (n : Nat) (a b : Option Int) :
    (sliceBounds n a b).1 ≤ (sliceBounds n a b).2 ∧ (sliceBounds n a b).2 ≤ n := by
  unfold sliceBounds
  cases a with
  | none => cases b with
    | none => simp
    | some j => have := clampIdx_le n j; simp; omega
  | some i => cases b with
    | none => have := clampIdx_le n i; simp; omega
    | some j => have := clampIdx_le n i; have := clampIdx_le n j; simp; omega

end Pyc.PyList
