import Pyc.Basic.Proto
import Pyc.Model.Transform
open Pyc.Tf Pyc.Proto

/-!
Line protocol of the C13 driver (numbers are rationals `p` or `p/q`):

  ctor T x y z | ctor S x y z | ctor R x y z c s | ctor M a0 … | ctor L e… ; i… ; u… ; rf rs
  load T f… | load S f… | load R f… ; c s | load M f… | load L f… ; rf rs
      -> `ok m00 m01 … m33` (row-major) | `err DaeMalformedError`
  node new <ctor> | <ctor> | …        node load <child> | <child> | …   (child = `O` or a load form)
      -> `ok n=<len> m00 … m33` | `err DaeMalformedError`
  node append <ctor> · node insert i <ctor> · node set i <ctor> · node pop [i] · node del i ·
  node swap i j · node reverse · node clear · node extend <ctor> | … · node assign <ctor> | …
      -> `ok n=<len>` | `fail:IndexError n=<len>`
  node save
      -> `ok n=<len> m00 … m33`
-/

def parseRat (w : String) : Option Rat :=
  match w.splitOn "/" with
  | [a] => a.toInt?.map (fun n => (n : Rat))
  | [a, b] => do
    let n ← a.toInt?
    let d ← b.toNat?
    if d = 0 then none else some (mkRat n d)
  | _ => none

def parseRats (ws : List String) : Option (List Rat) := ws.mapM parseRat

def showRat (q : Rat) : String :=
  if q.den = 1 then toString q.num else s!"{q.num}/{q.den}"

def showM (m : M4 Rat) : String := joinWith " " (m.toList.map showRat)

/-- split a word list at a separator word -/
def splitAt (sep : String) (ws : List String) : List (List String) :=
  let (groups, cur) := ws.foldl (fun (acc : List (List String) × List String) w =>
    if w == sep then (acc.1 ++ [acc.2], []) else (acc.1, acc.2 ++ [w])) ([], [])
  groups ++ [cur]

def parseCtor (ws : List String) : Option (Ctor Rat) :=
  match ws with
  | "T" :: rest => do
    match ← parseRats rest with
    | [x, y, z] => some (.translate x y z)
    | _ => none
  | "S" :: rest => do
    match ← parseRats rest with
    | [x, y, z] => some (.scale x y z)
    | _ => none
  | "R" :: rest => do
    match ← parseRats rest with
    | [x, y, z, c, s] => some (.rotate x y z c s)
    | _ => none
  | "M" :: rest => (parseRats rest).map .matrix
  | "L" :: rest =>
    match splitAt ";" rest with
    | [e, i, u, p] => do
      match ← parseRats p with
      | [rf, rs] => some (.lookat (← parseRats e) (← parseRats i) (← parseRats u) rf rs)
      | _ => none
    | _ => none
  | _ => none

def parseElem (ws : List String) : Option (Elem Rat) :=
  match ws with
  | "T" :: rest => (parseRats rest).map .translate
  | "S" :: rest => (parseRats rest).map .scale
  | "M" :: rest => (parseRats rest).map .matrix
  | "R" :: rest =>
    match splitAt ";" rest with
    | [fl, p] => do
      match ← parseRats p with
      | [c, s] => some (.rotate (← parseRats fl) c s)
      | _ => none
    | _ => none
  | "L" :: rest =>
    match splitAt ";" rest with
    | [fl, p] => do
      match ← parseRats p with
      | [rf, rs] => some (.lookat (← parseRats fl) rf rs)
      | _ => none
    | _ => none
  | _ => none

def parseChild (ws : List String) : Option (Child Rat) :=
  match ws with
  | ["O"] => some .other
  | _ => (parseElem ws).map .tf

/-- a transform object that exists: its constructor succeeded -/
def parseTf (ws : List String) : Option (M4 Rat) :=
  match parseCtor ws with
  | some c => match c.build with
    | .ok m => some m
    | .error _ => none
  | none => none

def parseTfs (ws : List String) : Option (List (M4 Rat)) :=
  if ws.isEmpty then some [] else (splitAt "|" ws).mapM parseTf

def showRes : Except Err (M4 Rat) → String
  | .ok m => "ok " ++ showM m
  | .error .malformed => "err DaeMalformedError"

def showNode (n : Node Rat) : String := s!"ok n={n.transforms.length} " ++ showM n.matrix

def parseEdit : List String → Option (Edit (M4 Rat))
  | "append" :: t => (parseTf t).map .append
  | "insert" :: i :: t => do some (.insert (← i.toInt?) (← parseTf t))
  | "set" :: i :: t => do some (.setitem (← i.toInt?) (← parseTf t))
  | ["pop"] => some (.pop none)
  | ["pop", i] => i.toInt?.map (fun k => .pop (some k))
  | ["del", i] => i.toInt?.map .delitem
  | ["swap", i, j] => do some (.swap (← i.toInt?) (← j.toInt?))
  | ["reverse"] => some .reverse
  | ["clear"] => some .clear
  | "extend" :: ts => (parseTfs ts).map .extend
  | "assign" :: ts => (parseTfs ts).map .assign
  | _ => none

def handle (n : Node Rat) (line : String) : Node Rat × String :=
  match words line with
  | "ctor" :: ws =>
    match parseCtor ws with
    | some c => (n, showRes c.build)
    | none => (n, "bad-op")
  | "load" :: ws =>
    match parseElem ws with
    | some e => (n, showRes e.load)
    | none => (n, "bad-op")
  | "node" :: "new" :: ws =>
    match parseTfs ws with
    | some ts => let n' := Node.new ts; (n', showNode n')
    | none => (n, "bad-op")
  | "node" :: "load" :: ws =>
    match (if ws.isEmpty then some [] else (splitAt "|" ws).mapM parseChild) with
    | some cs =>
      match Node.load cs with
      | .ok n' => (n', showNode n')
      | .error .malformed => (n, "err DaeMalformedError")
    | none => (n, "bad-op")
  | ["node", "save"] => let n' := (n.step .save).1; (n', showNode n')
  | "node" :: ws =>
    match parseEdit ws with
    | some e =>
      let (n', out) := n.step (.edit e)
      (n', (match out with | .done => "ok" | .indexError => "fail:IndexError") ++ s!" n={n'.transforms.length}")
    | none => (n, "bad-op")
  | _ => (n, "bad-op")

def main : IO Unit := mainLoop (Node.new ([] : List (M4 Rat))) handle
