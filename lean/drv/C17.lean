import Pyc.Basic.Proto
import Pyc.Model.Query
open Pyc.Query Pyc.Proto

/-- `poly <vcounts…> ; <n>` → the answers of n successive triangleset() calls (triangle counts) and
    whether the data is unchanged: `answers=6,6,6 data-unchanged=true cached=true`
    `heap <array…> ; <i> <v>` → unbound array after binding (negate) and writing v at i into the bound copy -/
def handle (_ : Unit) (line : String) : Unit × String :=
  match line.trimAscii.toString.splitOn ";" with
  | [hd, tl] =>
    match words hd, words tl with
    | "poly" :: vs, [n] =>
      match vs.mapM String.toNat?, n.toNat? with
      | some vc, some n =>
        let r := run triCount (⟨vc, []⟩ : Memo (List Nat) Unit Nat) (List.replicate n ())
        ((), s!"answers={joinWith "," (r.2.map toString)} data-unchanged={r.1.data == vc} cached={!r.1.cache.isEmpty}")
      | _, _ => ((), "bad-op")
    | "heap" :: xs, [i, v] =>
      match xs.mapM String.toInt?, i.toNat?, v.toInt? with
      | some arr, some i, some v =>
        let h : Heap := [arr]
        let b := bindFresh h 0 (fun x => -x)
        let h' := writeArr b.1 b.2 i v
        ((), s!"unbound={joinWith "," ((readArr h' 0).map toString)} bound={joinWith "," ((readArr h' b.2).map toString)}")
      | _, _, _ => ((), "bad-op")
    | _, _ => ((), "bad-op")
  | _ => ((), "bad-op")

def main : IO Unit := mainLoop () handle
