import Pyc.Basic.Proto
import Pyc.Model.Refs
open Pyc.Refs Pyc.Proto

/-- `nodes A:B,C B:C C: …` (id:comma-separated instance_node targets, document order)
    → `loaded=<ids in loading order> library=<loaded ids in document order> broken=<ids left>`
    `url <#id|text> ; uid:id uid:id …` → `obj:<uid>` | `brokenRef` | `malformed` -/
def parseDef (w : String) : Option NodeDef :=
  match w.splitOn ":" with
  | [id, refs] => some ⟨id, (refs.splitOn ",").filter (· != "")⟩
  | _ => none

def parseObj (w : String) : Option Obj :=
  match w.splitOn ":" with
  | [u, i] => u.toNat?.map (fun n => ⟨n, i⟩)
  | _ => none

def handle (_ : Unit) (line : String) : Unit × String :=
  match words line with
  | "nodes" :: ds =>
    match ds.mapM parseDef with
    | some defs =>
      let r := loadNodes defs
      ((), s!"loaded={joinWith "," r.1} library={joinWith "," (library defs)} broken={joinWith "," (r.2.map (·.id))}")
    | none => ((), "bad-op")
  | "url" :: u :: ";" :: os =>
    match os.mapM parseObj with
    | some lib =>
      let url : Url := if u.startsWith "#" then .hash (u.drop 1).toString else .bare u
      match resolveUrl lib url with
      | .obj o => ((), s!"obj:{o.uid}")
      | .brokenRef => ((), "brokenRef")
      | .malformed => ((), "malformed")
    | none => ((), "bad-op")
  | _ => ((), "bad-op")

def main : IO Unit := mainLoop () handle
