import Pyc.Basic.Proto
import Pyc.Model.Refs
import Pyc.Model.DirectTex
open Pyc.Refs Pyc.Proto

/-- `nodes A:B,C B:C C: …` (id:comma-separated instance_node targets, document order)
    → `loaded=<ids in loading order> library=<loaded ids in document order> broken=<ids left>`
    `url <#id|text> ; uid:id uid:id …` → `obj:<uid>` | `brokenRef` | `malformed`
    `direct key:image key:image …` (properties whose texture names an image, document order)
    → `params=<surf:im-surface|samp:im …, sorted> maps=<key:first property holding the same sampler …>` -/
def parseDef (w : String) : Option NodeDef :=
  match w.splitOn ":" with
  | [id, refs] => some ⟨id, (refs.splitOn ",").filter (· != "")⟩
  | _ => none

def parseObj (w : String) : Option Obj :=
  match w.splitOn ":" with
  | [u, i] => u.toNat?.map (fun n => ⟨n, i⟩)
  | _ => none

def parsePair (w : String) : Option (String × String) :=
  match w.splitOn ":" with
  | [k, im] => some (k, im)
  | _ => none

def showPId : Pyc.DirectTex.PId → String
  | .samp im => "samp:" ++ im
  | .surf im => "surf:" ++ im ++ "-surface"

def handle (_ : Unit) (line : String) : Unit × String :=
  match words line with
  | "nodes" :: ds =>
    match ds.mapM parseDef with
    | some defs =>
      let r := loadNodes defs
      ((), s!"loaded={joinWith "," r.1} library={joinWith "," (library defs)} broken={joinWith "," (r.2.map (·.id))}")
    | none => ((), "bad-op")
  | "url" :: u :: ";" :: os =>
    match os.mapM parseObj with
    | some lib =>
      let url : Url := if u.startsWith "#" then .hash (u.drop 1).toString else .bare u
      match resolveUrl lib url with
      | .obj o => ((), s!"obj:{o.uid}")
      | .brokenRef => ((), "brokenRef")
      | .malformed => ((), "malformed")
    | none => ((), "bad-op")
  | "direct" :: ps =>
    match ps.mapM parsePair with
    | some pairs =>
      let r := Pyc.DirectTex.run pairs
      -- canonical: parameters as a sorted list, each map by the first property that holds the same sampler object
      let first (u : Nat) : String := ((r.maps.find? (fun m => m.2.2 == u)).map (·.1)).getD "none"
      ((), s!"params={joinWith "," (sortStrings (r.params.map (fun q => showPId q.1)))} maps={joinWith "," (r.maps.map (fun m => s!"{m.1}:{first m.2.2}"))}")
    | none => ((), "bad-op")
  | _ => ((), "bad-op")

def main : IO Unit := mainLoop () handle
