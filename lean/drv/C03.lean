import Pyc.Basic.Proto
import Pyc.Model.SaveMachine
open Pyc.Sync Pyc.SaveM Pyc.Proto

/-- `save <failAt|_> ;; <managed> ; <wanted> ; <old> ; <before> ;; ...` (one `;;` block per site,
    same site grammar as drv/C02). Answer: the children of every site, blocks joined by ` | `. -/
def parseNats (s : String) : Option (List Nat) := (words s).mapM String.toNat?

def parseSite (blk : String) : Option (Site Nat × List Nat) :=
  match blk.splitOn ";" with
  | [m, w, o, b] =>
    let ms := words m
    let managed : Option (Nat → Bool) :=
      if ms == ["*"] then some (fun _ => true)
      else (ms.mapM String.toNat?).map (fun l => fun c => l.contains c)
    let before : Option (Option Nat) :=
      match words b with
      | ["_"] => some none
      | [x] => x.toNat?.map some
      | _ => none
    match managed, parseNats w, parseNats o, before with
    | some mg, some wl, some ol, some bf => some (⟨mg, bf, ol⟩, wl)
    | _, _, _, _ => none
  | _ => none

def handle (_ : Unit) (line : String) : Unit × String :=
  match line.trimAscii.toString.splitOn ";;" with
  | hd :: blks =>
    match words hd, blks.mapM parseSite with
    | ["save", k], some sw =>
      let ss := sw.map (·.1)
      let ws := sw.map (·.2)
      let res : Option (List (Site Nat)) :=
        if k == "_" then some (saveAll ss ws) else k.toNat?.map (fun n => savePrefix n ss ws)
      match res with
      | some r => ((), joinWith " | " (r.map (fun s => joinWith " " (s.kids.map toString))))
      | none => ((), "bad-op")
    | _, _ => ((), "bad-op")
  | _ => ((), "bad-op")

def main : IO Unit := mainLoop () handle
