import Pyc.Basic.Proto
import Pyc.Model.Skin
open Pyc.Skin Pyc.Proto

/-- `key=value` fields of a request line -/
def field (ws : List String) (k : String) : Option String :=
  ws.findSome? (fun w => if w.startsWith (k ++ "=") then some ((w.drop (k.length + 1)).toString) else none)

def csv (s : String) : List String := if s == "" then [] else s.splitOn ","

def parseInts (s : String) : Option (List Int) := (csv s).mapM String.toInt?

def parseOptInts (s : String) : Option (Option (List Int)) :=
  if s == "_" then some none else (parseInts s).map some

def showInts (l : List Int) : String := joinWith "," (l.map toString)

def showErr : Err → String
  | .malformed => "err:DaeMalformedError"
  | .brokenRef => "err:DaeBrokenRefError"
  | .incomplete => "err:DaeIncompleteError"

def showSkin (jo wo : Nat) (o : SkinOut) : String :=
  let joints := joinWith ";" ((dictOf o.joints).map (fun p => p.1 ++ ":" ++ showInts p.2))
  let groups := String.join (o.index.map (fun g => "(" ++ joinWith " " (g.map showInts) ++ ")"))
  let pairs := String.join ((o.jointIndex.zip o.weightIndex).map (fun gw =>
    "(" ++ joinWith " " ((gw.1.zip gw.2).map (fun jw => s!"{jw.1}:{jw.2}")) ++ ")"))
  let _ := (jo, wo)
  s!"ok geom={o.geom} bind={showInts o.bind.toList} joints={joints} groups={groups} pairs={pairs}"

def doSkin (ws : List String) : Option String := do
  let geoms := csv (← field ws "geoms")
  let src ← field ws "src"
  let bind ← parseOptInts (← field ws "bind")
  let names := csv (← field ws "names")
  let mats ← parseInts (← field ws "mats")
  let nwj ← (← field ws "nwj").toNat?
  let nw ← (← field ws "nw").toNat?
  let jo ← (← field ws "jo").toNat?
  let wo ← (← field ws "wo").toNat?
  let vc ← parseInts (← field ws "vc")
  let v ← parseInts (← field ws "v")
  match decodeSkin ⟨geoms, src, bind, names, mats, nwj, nw, jo, wo, vc, v⟩ with
  | .ok o => some (showSkin jo wo o)
  | .error e => some (showErr e)

def doMorph (ws : List String) : Option String := do
  let geoms := csv (← field ws "geoms")
  let src ← field ws "src"
  let m ← field ws "method"
  let method := if m == "_" then none else some m
  let targets := csv (← field ws "targets")
  let weights ← parseInts (← field ws "weights")
  match decodeMorph geoms src method targets weights with
  | .ok (b, l) => some (s!"ok base={b} pairs=" ++ joinWith "," (l.map (fun p => s!"{p.1}:{p.2}")))
  | .error e => some (showErr e)

/-- prefix form of a scene tree: `N m0 … m15 k child_1 … child_k` or `I` -/
partial def parseTree : List String → Option (SNode Mat × List String)
  | "I" :: rest => some (.inst 0, rest)
  | "N" :: rest => do
    let m ← (rest.take 16).mapM String.toInt?
    if m.length ≠ 16 then none
    let k ← (← (rest.drop 16).head?).toNat?
    let rec kids : Nat → List String → Option (List (SNode Mat) × List String)
      | 0, ts => some ([], ts)
      | n + 1, ts => do
        let (c, ts') ← parseTree ts
        let (cs, ts'') ← kids n ts'
        some (c :: cs, ts'')
    let (cs, rest') ← kids k (rest.drop 17)
    some (.node (Mat.ofList m) cs, rest')
  | _ => none

def doScene (ws : List String) : Option String := do
  let bind ← parseOptInts (← field ws "bind")
  let b ← match bindShape bind with | .ok b => some b | .error _ => none
  let (t, rest) ← parseTree (csv (← field ws "tree"))
  if rest ≠ [] then none
  some ("ok " ++ joinWith ";" ((sceneBoundSkins (fun _ => b) [t]).map (fun p => showInts p.1.toList)))

def handle (s : Unit) (line : String) : Unit × String :=
  let ws := words line
  let r := match ws with
    | "skin" :: rest => doSkin rest
    | "morph" :: rest => doMorph rest
    | "scene" :: rest => doScene rest
    | _ => none
  (s, r.getD "bad-op")

def main : IO Unit := mainLoop () handle
