import Pyc.Basic.Proto
import Pyc.Model.Validate
open Pyc.Validate Pyc.Proto

/-
request:  <kind> <L|C> S <rawLen>/<n1,n2,..>* V <VSEM>/<src>* I <offset>/<SEM>/<v|src>* C <vcount>* (P <index>*)*
answer:   ok stride=.. vcounts=.. vertex=<view> normal=<view> tex=[<view>;..] tan=[..] bin=[..] select=ok
          | err:<DaeError class> | raw:<Python class>
view:     <source rows>x<components>|<shape>|<entries>      (None when absent)
-/

def parseKind : String → Option Kind
  | "triangles" => some .triangles | "lines" => some .lines
  | "polylist" => some .polylist | "polygons" => some .polygons | _ => none

def parseSem : String → Option Sem
  | "VERTEX" => some .vertex | "NORMAL" => some .normal | "TEXCOORD" => some .texcoord
  | "TEXBINORMAL" => some .texbinormal | "TEXTANGENT" => some .textangent | "COLOR" => some .color
  | "TANGENT" => some .tangent | "BINORMAL" => some .binormal | _ => none

def parseVSem (w : String) : Option VSem :=
  if w == "POSITION" then some .position else (parseSem w).map VSem.other

def parseSrc (w : String) : Option SrcSpec :=
  match w.splitOn "/" with
  | [l, ns] => l.toNat?.map (fun n => ⟨n, (ns.splitOn ",").filter (· != "")⟩)
  | _ => none

def parseVert (w : String) : Option (VSem × Nat) :=
  match w.splitOn "/" with
  | [s, i] => do some (← parseVSem s, ← i.toNat?)
  | _ => none

def parseInput (w : String) : Option RawInput :=
  match w.splitOn "/" with
  | [o, s, r] => do
    let ref ← if r == "v" then some Ref.verts else if r == "x" then some Ref.bad else r.toNat?.map Ref.src
    some ⟨← o.toNat?, ← parseSem s, ref⟩
  | _ => none

structure ParseAcc where
  sec : Char := ' '
  srcs : List SrcSpec := []
  verts : List (VSem × Nat) := []
  inputs : List RawInput := []
  vcounts : List Nat := []
  polys : List (List Nat) := []      -- reversed, each reversed

def feed (a : Option ParseAcc) (w : String) : Option ParseAcc := do
  let a ← a
  match w with
  | "S" => some { a with sec := 'S' }
  | "V" => some { a with sec := 'V' }
  | "I" => some { a with sec := 'I' }
  | "C" => some { a with sec := 'C' }
  | "P" => some { a with sec := 'P', polys := [] :: a.polys }
  | _ =>
    match a.sec with
    | 'S' => do some { a with srcs := (← parseSrc w) :: a.srcs }
    | 'V' => do some { a with verts := (← parseVert w) :: a.verts }
    | 'I' => do some { a with inputs := (← parseInput w) :: a.inputs }
    | 'C' => do some { a with vcounts := (← w.toNat?) :: a.vcounts }
    | 'P' =>
      match a.polys with
      | p :: ps => do some { a with polys := ((← w.toNat?) :: p) :: ps }
      | [] => none
    | _ => none

def parseSpec (ws : List String) : Option PrimSpec :=
  match ws with
  | k :: r :: rest => do
    let kind ← parseKind k
    let loaded ← if r == "L" then some true else if r == "C" then some false else none
    let a ← rest.foldl feed (some {})
    some { kind := kind, loaded := loaded, sources := a.srcs.reverse, verts := a.verts.reverse,
           inputs := a.inputs.reverse, vcounts := a.vcounts.reverse,
           polys := (a.polys.map List.reverse).reverse }
  | _ => none

def nats (xs : List Nat) : String := joinWith "," (xs.map toString)

def showView (v : View) : String :=
  s!"{v.src.rows}x{v.src.comps.length}|{nats v.shape}|{nats v.flat}"

def showOpt : Option View → String
  | none => "None"
  | some v => showView v

def showViews (vs : List View) : String := "[" ++ joinWith ";" (vs.map showView) ++ "]"

def showErr : DaeErr → String
  | .malformed => "err:DaeMalformedError"
  | .incomplete => "err:DaeIncompleteError"
  | .brokenRef => "err:DaeBrokenRefError"
  | .raw c => "raw:" ++ c

def answer (spec : PrimSpec) : String :=
  match construct spec with
  | .error e => showErr e
  | .ok pv =>
    let selOk := pv.all.all (fun v => match select v with | .ok _ => true | .error _ => false)
    s!"ok stride={pv.stride} vcounts={nats pv.vcounts} vertex={showOpt pv.vertex} normal={showOpt pv.normal} " ++
    s!"tex={showViews pv.texcoord} tan={showViews pv.textangent} bin={showViews pv.texbinormal} " ++
    s!"select={if selOk then "ok" else "fail"}"

def handle (s : Unit) (line : String) : Unit × String :=
  match parseSpec (words line) with
  | some spec => (s, answer spec)
  | none => (s, "bad-op")

def main : IO Unit := mainLoop () handle
