import Pyc.Basic.Proto
import Pyc.Model.Errors
open Pyc.Err Pyc.Proto

/-- `mask <classes…> ; <error classes in the order the all-ignoring load recorded them>`
    → `ok errors=<all>` when every class is masked, else `raise:<first unmasked> errors=<prefix up to it>`;
    `sub <c> <d>` → issubclass; `ignore <mask…> ; <args… with None>` → the new mask -/
def handle (_ : Unit) (line : String) : Unit × String :=
  match line.trimAscii.toString.splitOn ";" with
  | [hd, tl] =>
    match words hd with
    | "mask" :: ms =>
      let items : List (Item Unit) := (words tl).map (fun e => .error e)
      match loadAll ms ⟨[], []⟩ items with
      | .ok s => ((), s!"ok errors={joinWith "," s.errors}")
      | .error (e, s) => ((), s!"raise:{e} errors={joinWith "," s.errors}")
    | "ignore" :: ms =>
      let args := (words tl).map (fun a => if a == "None" then none else some a)
      ((), joinWith "," (ignoreErrors ms args))
    | _ => ((), "bad-op")
  | [hd] =>
    match words hd with
    | ["sub", c, d] => ((), toString (subclass c d))
    | _ => ((), "bad-op")
  | _ => ((), "bad-op")

def main : IO Unit := mainLoop () handle
