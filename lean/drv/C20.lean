import Pyc.Basic.Proto
import Pyc.Model.Isolation
open Pyc.Iso Pyc.Proto

/-
Line protocol of the C20 driver.  A schedule is replayed over the abstract per-document machine.
  reset frame|leaky                        -> ok           (forget everything; choose the machine)
  <i> new                                  -> <out> ; <state of document i>
  <i> load <ns> <fatal|-> <mask|-> item*   item = lib|id|ens|fault   (fault `-` = loads fine)
  <i> ignore <cls,cls|->
  <i> add <lib> <id>     <i> remove <lib> <id>     <i> save     <i> query
  proj <i>      -> outs=<o>/<o>/… ; <state>   projection of `run` over the whole recorded schedule
  solo <i>      -> same, from the solo run of document i's own operations
  globals       -> tagNs=… sharedMask=…
-/

def errNames : List (String × ErrClass) :=
  [("DaeError", .daeError), ("DaeIncompleteError", .incomplete), ("DaeBrokenRefError", .brokenRef),
   ("DaeMalformedError", .malformed), ("DaeUnsupportedError", .unsupported),
   ("DaeSaveValidationError", .saveValidation)]

def libNames : List (String × Lib) :=
  [("images", .images), ("effects", .effects), ("materials", .materials), ("animations", .animations),
   ("geometries", .geometries), ("controllers", .controllers), ("lights", .lights),
   ("cameras", .cameras), ("nodes", .nodes), ("scenes", .scenes)]

def parseErr (w : String) : Option ErrClass := (errNames.find? (·.1 == w)).map (·.2)
def parseLib (w : String) : Option Lib := (libNames.find? (·.1 == w)).map (·.2)
def showErr (e : ErrClass) : String := ((errNames.find? (·.2 == e)).map (·.1)).getD "?"

def parseErrs (w : String) : Option (List ErrClass) :=
  if w == "-" then some [] else (w.splitOn ",").mapM parseErr

def parseOptErr (w : String) : Option (Option ErrClass) :=
  if w == "-" then some none else (parseErr w).map some

def parseItem (w : String) : Option Item :=
  match w.splitOn "|" with
  | [l, id, ens, f] => do
    let soft := f.endsWith "~"
    let f := if soft then (f.dropEnd 1).toString else f
    some ⟨← parseLib l, id, ens, ← parseOptErr f, soft⟩
  | _ => none

def parseOp : List String → Option Op
  | ["new"] => some .new
  | "load" :: ns :: fatal :: mask :: items => do
    some (.load ns (← parseOptErr fatal) (← parseErrs mask) (← items.mapM parseItem))
  | ["ignore", cs] => (parseErrs cs).map .setIgnore
  | ["add", l, id] => (parseLib l).map (fun l => .add l id)
  | ["remove", l, id] => (parseLib l).map (fun l => .remove l id)
  | ["save"] => some .save
  | ["query"] => some .query
  | ["handle", c] => (parseErr c).map .handle
  | ["clear"] => some .clearIgnore
  | _ => none

def showOut : Out → String
  | .ok => "ok" | .loaded => "loaded" | .fail e => "fail:" ++ showErr e | .nodoc => "nodoc"
  | .dup => "dup" | .missing => "missing" | .saved ns => "saved:" ++ ns

def showState (d : DocState) : String :=
  if !d.live then "empty" else
  let libs := libNames.map (fun p => p.1 ++ "=" ++ joinWith "," (idsOf d p.2))
  s!"ns={d.ns} mask={joinWith "," (d.mask.map showErr)} errors={joinWith "," (d.errors.map showErr)} "
    ++ joinWith " " libs

def showProj (r : DocState × List Out) : String :=
  "outs=" ++ joinWith "/" (r.2.map showOut) ++ " ; " ++ showState r.1

structure Drv where
  leaky : Bool
  sched : Sched          -- recorded schedule, most recent first
  sys : Sys DocState Globals

def Drv.init (leaky : Bool) : Drv := ⟨leaky, [], initSys⟩

def handle (s : Drv) (line : String) : Drv × String :=
  match words line with
  | ["reset", "frame"] => (Drv.init false, "ok")
  | ["reset", "leaky"] => (Drv.init true, "ok")
  | ["globals"] =>
    (s, s!"tagNs={s.sys.globals.tagNs} sharedMask={joinWith "," (s.sys.globals.sharedMask.map showErr)}")
  | ["proj", i] =>
    match i.toNat? with
    | some i =>
      let σ := s.sched.reverse
      (s, showProj (proj i (if s.leaky then runDocsL σ initSys else runDocs σ initSys)))
    | none => (s, "bad-op")
  | ["solo", i] =>
    match i.toNat? with
    | some i =>
      let σ := s.sched.reverse
      (s, showProj (if s.leaky then soloDocL i σ initSys.globals (initSys.docs i)
                    else soloDoc i σ (initSys.docs i)))
    | none => (s, "bad-op")
  | i :: ws =>
    match i.toNat?, parseOp ws with
    | some i, some op =>
      let r := if s.leaky then stepL s.sys (toLEv (i, op)) else stepSys s.sys (toEv (i, op))
      ({ s with sched := (i, op) :: s.sched, sys := r.1 }, showOut r.2 ++ " ; " ++ showState (r.1.docs i))
    | _, _ => (s, "bad-op")
  | _ => (s, "bad-op")

def main : IO Unit := mainLoop (Drv.init false) handle
