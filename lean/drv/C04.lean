import Pyc.Basic.Proto
import Pyc.Model.Schema
open Pyc.Schema Pyc.Proto

/-- requests:
    `tree tok tok …` with tokens `name|attr,attr|nkids` in preorder → `true`/`false` (Pyc.Schema.valid at the root)
    `emit mesh <nsrc> <nextra> ; <prims…>` / `emit node ; <transforms…> ; <children…>` / `emit source <array>` → child names
    `tech <shading type> ; <children of <technique>…>` → children after Effect.save (Pyc.Schema.saveTechnique) -/
structure Tok where
  name : String
  attrs : List String
  nkids : Nat

def parseTok (w : String) : Option Tok :=
  match w.splitOn "|" with
  | [name, attrs, n] => n.toNat?.map (fun k => ⟨name, (attrs.splitOn ",").filter (· != ""), k⟩)
  | _ => none

def build : Nat → List Tok → Option (XTree × List Tok)
  | 0, _ => none
  | _, [] => none
  | fuel + 1, t :: rest =>
    let rec kids (f : Nat) (n : Nat) (ts : List Tok) (acc : List XTree) : Option (List XTree × List Tok) :=
      match n, f with
      | 0, _ => some (acc.reverse, ts)
      | _, 0 => none
      | n + 1, f + 1 =>
        match build f ts with
        | some (x, ts') => kids f n ts' (x :: acc)
        | none => none
    match kids fuel t.nkids rest [] with
    | some (ks, rest') => some (.node t.name t.attrs ks, rest')
    | none => none

def handle (_ : Unit) (line : String) : Unit × String :=
  match line.trimAscii.toString.splitOn ";" with
  | [one] =>
    match words one with
    | "tree" :: toks =>
      match toks.mapM parseTok with
      | some ts =>
        match build (2 * ts.length + 2) ts with
        | some (x, []) => ((), toString (valid "" x))
        | _ => ((), "bad-op")
      | none => ((), "bad-op")
    | ["emit", "source", k] => ((), joinWith " " (emitSource k))
    | _ => ((), "bad-op")
  | [hd, a] =>
    match words hd with
    | ["emit", "mesh", ns, ne] =>
      match ns.toNat?, ne.toNat? with
      | some ns, some ne => ((), joinWith " " (emitMesh ns (words a) ne))
      | _, _ => ((), "bad-op")
    | ["tech", sh] => ((), joinWith " " (saveTechnique (words a) sh))
    | _ => ((), "bad-op")
  | [hd, a, b] =>
    match words hd with
    | ["emit", "node"] => ((), joinWith " " (emitNode (words a) (words b)))
    | _ => ((), "bad-op")
  | _ => ((), "bad-op")

def main : IO Unit := mainLoop () handle
