import Pyc.Basic.Proto
import Pyc.Model.IndexedList
open Pyc.IL Pyc.Proto

def parseObj (w : String) : Option Obj :=
  match w.splitOn ":" with
  | [u, i] => u.toNat?.map (fun n => ⟨n, i⟩)
  | _ => none

def parseObjs (ws : List String) : Option (List Obj) := ws.mapM parseObj

def parseArg (w : String) : Option Arg :=
  match w.splitOn ":" with
  | ["p", i] => i.toInt?.map Arg.pos
  | ["k", k] => some (Arg.key k)
  | _ => none

def parseBound (w : String) : Option (Option Int) :=
  if w == "_" then some none else w.toInt?.map some

def parseOp : List String → Option Op
  | ["append", o] => (parseObj o).map Op.append
  | "extend" :: os => (parseObjs os).map Op.extend
  | "iadd" :: os => (parseObjs os).map Op.iadd
  | ["insert", a, o] => do some (Op.insert (← parseArg a) (← parseObj o))
  | ["setitem", a, o] => do some (Op.setitem (← parseArg a) (← parseObj o))
  | "setslice" :: a :: b :: os => do some (Op.setslice (← parseBound a) (← parseBound b) (← parseObjs os))
  | ["delitem", a] => (parseArg a).map Op.delitem
  | ["delslice", a, b] => do some (Op.delslice (← parseBound a) (← parseBound b))
  | ["pop"] => some (Op.pop none)
  | ["pop", a] => (parseArg a).map (fun x => Op.pop (some x))
  | ["removeobj", o] => (parseObj o).map Op.removeObj
  | ["removekey", k] => some (Op.removeKey k)
  | ["clear"] => some Op.clear
  | ["imul", n] => n.toNat?.map Op.imul
  | "replace" :: os => (parseObjs os).map Op.replace
  | _ => none

def showErr : Err → String
  | .indexError => "IndexError" | .keyError => "KeyError" | .valueError => "ValueError"

def showOut : Out → String
  | .done => "ok" | .val o => s!"val:{o.uid}" | .fail e => s!"fail:{showErr e}"

def keysOf (ix : Index) : List String := ix.map (·.1)

def showState (s : State) : String :=
  let items := joinWith "," (s.items.map (fun o => toString o.uid))
  let idx := joinWith "," (sortStrings ((keysOf s.index).eraseDups.filterMap (fun k =>
    (s.index.get k).map (fun o => s!"{k}:{o.uid}"))))
  s!"items={items} index={idx}"

def handle (s : State) (line : String) : State × String :=
  match words line with
  | "new" :: os =>
    match parseObjs os with
    | some os => let s' := mk os; (s', "ok " ++ showState s')
    | none => (s, "bad-op")
  | ws =>
    match parseOp ws with
    | some op => let (s', out) := step s op; (s', showOut out ++ " " ++ showState s')
    | none => (s, "bad-op")

def main : IO Unit := mainLoop (mk []) handle
