import Pyc.Basic.Proto
import Pyc.Model.ItemAccess
open Pyc.ItemAccess Pyc.Proto

/-!
Line protocol of the C10 driver (one request per line, one answer per line).

  new <kind> <material|_> | v <off> <ints…> | [n <off> <ints…>] | {t <off> <ints…>} | {p <ints…>}
        | [c <vcounts…>] | m <16 ints> | b {<symbol>=<target>}
      kind = tri | line | plist | pgons; vertex and normal data come in triples, texcoord data in
      pairs; the stride is 1 + the largest offset; `pgons` takes one `p` group per polygon, the
      other kinds exactly one; `m` is the 4×4 matrix row-major, `b` the material nodes in order.
      -> `ok len=<n>` | `reject`
  len u|b            -> <n>
  item u|b <i>       -> <item> | IndexError
  iter u|b           -> n=<k> <item>;<item>;…           (legacy __getitem__ protocol)
  shapes u|b         -> n=<k> <item>;…  | IndexError     (for i in range(n): yield self[i])
`u` is the unbound primitive, `b` the bound one.  Anything else -> bad-op.
-/

inductive Kind | tri | line | plist | pgons
deriving DecidableEq

inductive Prim
  | fixed (p : FixedSet Vec (Option String))
  | poly (p : PolySet Vec (Option String))

structure St where
  kind : Kind
  u : Prim
  b : Prim

def showList {β : Type} (f : β → String) (xs : List β) : String := "[" ++ joinWith "," (xs.map f) ++ "]"
def showNats (xs : List Nat) : String := showList toString xs
def showVec (v : Vec) : String := showList toString v
def showRows (vs : List Vec) : String := showList showVec vs
def showOpt {β : Type} (f : β → String) : Option β → String
  | none => "None"
  | some x => f x

def showItem (k : Kind) (it : Item Vec (Option String)) : String :=
  let mat := showOpt id it.material
  match k with
  | .line =>
    s!"idx={showNats it.indices} v={showRows it.vertices} n={showOpt showRows it.normals} " ++
    s!"t={showList showRows it.texcoords} mat={mat}"
  | _ =>
    -- a Triangle without normals computes a face normal; the harness prints that as `gen`
    let n := match k, it.normals with
      | .tri, none => "gen"
      | _, n => showOpt showRows n
    s!"idx={showNats it.indices} v={showRows it.vertices} nidx={showOpt showNats it.normalIndices} n={n} " ++
    s!"tidx={showList showNats it.texcoordIndices} t={showList showRows it.texcoords} mat={mat}"

def Prim.len : Prim → Nat
  | .fixed p => p.len
  | .poly p => p.len
def Prim.getItem : Prim → Int → Option (Item Vec (Option String))
  | .fixed p, i => p.getItem i
  | .poly p, i => p.getItem i
def Prim.iterate : Prim → List (Item Vec (Option String))
  | .fixed p => p.iterate
  | .poly p => p.iterate
def Prim.shapes : Prim → Option (List (Item Vec (Option String)))
  | .fixed p => p.shapes
  | .poly p => p.shapes

def showItems (k : Kind) (xs : List (Item Vec (Option String))) : String :=
  s!"n={xs.length} " ++ joinWith ";" (xs.map (showItem k))

/-- split the words of a line into `|`-separated groups -/
def groups (ws : List String) : List (List String) :=
  let r := ws.foldl (fun (acc : List (List String) × List String) w =>
    if w == "|" then (acc.2.reverse :: acc.1, []) else (acc.1, w :: acc.2)) ([], [])
  (r.2.reverse :: r.1).reverse

def parseInts (ws : List String) : Option (List Int) := ws.mapM String.toInt?
def parseNats (ws : List String) : Option (List Nat) := ws.mapM String.toNat?

def parseInput (dim : Nat) : List String → Option (Input Vec)
  | off :: ws => do
    let o ← off.toNat?
    let xs ← parseInts ws
    let rows ← chunks dim xs
    some ⟨o, rows⟩
  | [] => none

def parseBinding (w : String) : Option (String × String) :=
  match w.splitOn "=" with
  | [a, b] => some (a, b)
  | _ => none

structure Spec where
  vertex : Option (Input Vec) := none
  normal : Option (Input Vec) := none
  tex : List (Input Vec) := []
  ps : List (List Nat) := []
  vcounts : Option (List Nat) := none
  matrix : Option Mat := none
  bindings : Option (List (String × String)) := none

def addGroup (s : Spec) : List String → Option Spec
  | "v" :: ws => if s.vertex.isSome then none else (parseInput 3 ws).map (fun i => { s with vertex := some i })
  | "n" :: ws => if s.normal.isSome then none else (parseInput 3 ws).map (fun i => { s with normal := some i })
  | "t" :: ws => (parseInput 2 ws).map (fun i => { s with tex := s.tex ++ [i] })
  | "p" :: ws => (parseNats ws).map (fun p => { s with ps := s.ps ++ [p] })
  | "c" :: ws => if s.vcounts.isSome then none else (parseNats ws).map (fun c => { s with vcounts := some c })
  | "m" :: ws => do
    if s.matrix.isSome then none
    let xs ← parseInts ws
    if xs.length != 16 then none
    let rows ← chunks 4 xs
    some { s with matrix := some rows }
  | "b" :: ws => if s.bindings.isSome then none else (ws.mapM parseBinding).map (fun b => { s with bindings := some b })
  | _ => none

def parseKind : String → Option Kind
  | "tri" => some .tri | "line" => some .line | "plist" => some .plist | "pgons" => some .pgons
  | _ => none

inductive NewResult
  | bad
  | reject
  | ok (s : St)

def mkNew (ws : List String) : NewResult :=
  match groups ws with
  | [kind, mat] :: gs =>
    match parseKind kind, gs.foldlM addGroup ({} : Spec) with
    | some k, some sp =>
      match sp.vertex, sp.matrix, sp.bindings with
      | some v, some m, some bs =>
        let material : Option String := if mat == "_" then none else some mat
        let offs := v.offset :: (sp.normal.toList.map (·.offset) ++ sp.tex.map (·.offset))
        let stride := offs.foldl max 0 + 1
        let u : Option (Option Prim) :=
          match k, sp.ps, sp.vcounts with
          | .tri, [p], none => some ((mkFixed 3 stride p v sp.normal sp.tex material).map Prim.fixed)
          | .line, [p], none => some ((mkFixed 2 stride p v sp.normal sp.tex material).map Prim.fixed)
          | .plist, [p], some vc => some ((mkPoly stride p vc v sp.normal sp.tex material).map Prim.poly)
          | .pgons, ps, none => some ((mkPolygons stride ps v sp.normal sp.tex material).map Prim.poly)
          | _, _, _ => none
        match u with
        | none => .bad
        | some none => .reject
        | some (some u) =>
          let f := applyPoint m
          let g := applyDir m
          let look := matLookup bs
          let b := match u with
            | .fixed p => Prim.fixed (p.bind f g look)
            | .poly p => Prim.poly (p.bind f g look)
          .ok ⟨k, u, b⟩
      | _, _, _ => .bad
    | _, _ => .bad
  | _ => .bad

def pick (s : St) : String → Option Prim
  | "u" => some s.u | "b" => some s.b | _ => none

def handle (st : Option St) (line : String) : Option St × String :=
  match words line with
  | "new" :: ws =>
    match mkNew ws with
    | .bad => (st, "bad-op")
    | .reject => (none, "reject")
    | .ok s => (some s, s!"ok len={s.u.len}")
  | [op, which] =>
    match st.bind (fun s => (pick s which).map (fun p => (s.kind, p))) with
    | none => (st, "bad-op")
    | some (k, p) =>
      match op with
      | "len" => (st, toString p.len)
      | "iter" => (st, showItems k p.iterate)
      | "shapes" => (st, match p.shapes with | none => "IndexError" | some xs => showItems k xs)
      | _ => (st, "bad-op")
  | ["item", which, i] =>
    match st.bind (fun s => (pick s which).map (fun p => (s.kind, p))), i.toInt? with
    | some (k, p), some i => (st, match p.getItem i with | none => "IndexError" | some it => showItem k it)
    | _, _ => (st, "bad-op")
  | _ => (st, "bad-op")

def main : IO Unit := mainLoop (none : Option St) handle
