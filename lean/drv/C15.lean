import Pyc.Basic.Proto
import Pyc.Model.Namespace
open Pyc.Ns Pyc.Proto

/-- `tree <newns> ; tok tok …` with tokens `ns|name|id-or-_|nkids` in preorder (top two levels of a
    document are enough for the example loader). Answer: geometry ids seen by the per-document loader
    before and after renaming the root namespace to <newns>, and by a loader hard-wired to `ns0`. -/
structure Tok where
  ns : String
  name : String
  id : Option String
  nkids : Nat

def parseTok (w : String) : Option Tok :=
  match w.splitOn "|" with
  | [ns, name, id, n] => n.toNat?.map (fun k => ⟨ns, name, if id == "_" then none else some id, k⟩)
  | _ => none

/-- rebuild the tree from the preorder token list (fuel = number of tokens) -/
def build : Nat → List Tok → Option (Xml × List Tok)
  | 0, _ => none
  | _, [] => none
  | fuel + 1, t :: rest =>
    let rec kids (f : Nat) (n : Nat) (ts : List Tok) (acc : List Xml) : Option (List Xml × List Tok) :=
      match n, f with
      | 0, _ => some (acc.reverse, ts)
      | _, 0 => none
      | n + 1, f + 1 =>
        match build f ts with
        | some (x, ts') => kids f n ts' (x :: acc)
        | none => none
    match kids fuel t.nkids rest [] with
    | some (ks, rest') => some (.node t.ns t.name (match t.id with | some i => [("id", i)] | none => []) "" ks, rest')
    | none => none

def handle (_ : Unit) (line : String) : Unit × String :=
  match line.trimAscii.toString.splitOn ";" with
  | [hd, tl] =>
    match words hd, (words tl).mapM parseTok with
    | ["tree", b], some toks =>
      match build (2 * toks.length + 2) toks with
      | some (x, []) =>
        let r1 := loadWith geometryIds x
        let r2 := loadWith geometryIds (renameNs x.ns b x)
        let r3 := loadHardwired "ns0" geometryIds (renameNs x.ns b x)
        ((), s!"own={joinWith "," r1} renamed={joinWith "," r2} hardwired={joinWith "," r3} fresh={!(occurs b x)}")
      | _ => ((), "bad-op")
    | ["retag", a, b], some toks =>
      -- Collada._retagNamespace(a, b): namespaces of all elements in document order afterwards
      match build (2 * toks.length + 2) toks with
      | some (x, []) => ((), joinWith "," (nsList (renameNs a b x)))
      | _ => ((), "bad-op")
    | ["nssave", dflt, parked], some toks =>
      -- the namespace wrapper of Collada.save around a save that changes nothing
      match build (2 * toks.length + 2) toks with
      | some (x, []) => ((), joinWith "," (nsList (saveNs dflt parked id x)))
      | _ => ((), "bad-op")
    | _, _ => ((), "bad-op")
  | _ => ((), "bad-op")

def main : IO Unit := mainLoop () handle
