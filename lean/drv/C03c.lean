import Pyc.Basic.Proto
import Pyc.Model.RootSave
import Pyc.Generated.WriteOrder
open Pyc.RootSave Pyc.Proto Pyc.Generated.WriteOrder

/-- `root <0|1 default scene> ; <managed libraries that hold objects…> ; <children of <COLLADA>…>` → children after Collada.save() -/
def handle (_ : Unit) (line : String) : Unit × String :=
  match line.trimAscii.toString.splitOn ";" with
  | [hd, ne, kids] =>
    match words hd with
    | ["root", hs] =>
      let full := words ne
      ((), joinWith " " (saveRoot libOrder (fun l => full.contains l) (hs == "1") (words kids)))
    | _ => ((), "bad-op")
  | _ => ((), "bad-op")

def main : IO Unit := mainLoop () handle
