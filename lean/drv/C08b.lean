import Pyc.Basic.Proto
import Pyc.Model.DocLoad
import Pyc.Generated.LoadOrder
open Pyc.DocLoad Pyc.Proto

/-- `doc <mask…> ; <lib> <id>/<damage class or ->/<lib:id,…> … ; <lib> …` — libraries may come in any order on the
    line, they are loaded in the order of the generated `LoadOrder.order`.
    → `ok env=<lib:id,…> errors=<…>` or `raise:<class> env=<…> errors=<…>` -/
def parseEntry (w : String) : Option Entry :=
  match w.splitOn "/" with
  | [i, d, rs] =>
    let refs := (rs.splitOn ",").filterMap (fun r => match r.splitOn ":" with
      | [l, x] => some (l, x)
      | _ => none)
    let late := d.endsWith "@late"
    let d := if late then (d.dropEnd 5).toString else d
    some ⟨i, if d == "-" then none else some d, !late, refs⟩
  | _ => none

def parseLib (seg : String) : Option Lib :=
  match words seg with
  | name :: ws => some ⟨name, ws.filterMap parseEntry⟩
  | [] => none

def showState (s : DState) : String :=
  s!"env={joinWith "," (s.env.map (fun p => p.1 ++ ":" ++ p.2))} errors={joinWith "," s.errors}"

def handle (_ : Unit) (line : String) : Unit × String :=
  match line.trimAscii.toString.splitOn ";" with
  | hd :: segs =>
    match words hd with
    | "doc" :: mask =>
      let given := segs.filterMap parseLib
      let libs := Pyc.Generated.LoadOrder.order.filterMap (fun n => given.find? (fun l => l.name == n))
      match loadDoc mask ⟨[], []⟩ libs with
      | .ok s => ((), "ok " ++ showState s)
      | .error (e, s) => ((), s!"raise:{e} " ++ showState s)
    | _ => ((), "bad-op")
  | _ => ((), "bad-op")

def main : IO Unit := mainLoop () handle
