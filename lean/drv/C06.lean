import Pyc.Basic.Proto
import Pyc.Model.Emit
open Pyc.Emit Pyc.Proto

/-- requests (fields separated by ` ; `, pairs written `tag:value`, `_` = None):
    `cv <tag> <value|_> <later tags…> ; <kids>` → _correctValInNode (later = tags after <tag> in the schema order given)
    `redir <vertId> <vertRef> ; <sem:src>…`  → Geometry.save redirection
    `emit <supported…> ; <p:v|p:_ …> ; <kids>` → Effect.save parameter loop
    `attr <name> <value|_> ; <k:v>…` → _setAttribute on an element with these attributes -/
def parsePairs (s : String) : Option (List (String × String)) :=
  (words s).mapM (fun w => match w.splitOn ":" with
    | [a, b] => some (a, b)
    | _ => none)

def showPairs (l : List (String × String)) : String := joinWith " " (l.map (fun p => p.1 ++ ":" ++ p.2))

def handle (_ : Unit) (line : String) : Unit × String :=
  match (line.trimAscii.toString.splitOn ";").map words, line.trimAscii.toString.splitOn ";" with
  | [("cv" :: k :: v :: later), _], [_, kids] =>
    match parsePairs kids with
    | some ks => ((), showPairs (correctVal ks k (if v == "_" then none else some v) later))
    | none => ((), "bad-op")
  | [["redir", vid, vref], _], [_, ins] =>
    match parsePairs ins with
    | some is =>
      ((), showPairs ((redirect vid vref (is.map (fun p => ⟨p.1, p.2⟩))).map (fun i => (i.semantic, i.source))))
    | none => ((), "bad-op")
  | ("emit" :: sup) :: _, [_, vals, kids] =>
    match parsePairs vals, parsePairs kids with
    | some vs, some ks =>
      let value : String → Option String := fun p =>
        match vs.find? (fun e => e.1 == p) with
        | some e => if e.2 == "_" then none else some e.2
        | none => none
      ((), showPairs (emitProps sup value ks))
    | _, _ => ((), "bad-op")
  | [["attr", name, v], _], [_, attrs] =>
    match parsePairs attrs with
    | some as => ((), showPairs (setAttr as name (if v == "_" then none else some v)))
    | none => ((), "bad-op")
  | _, _ => ((), "bad-op")

def main : IO Unit := mainLoop () handle
