import Pyc.Basic.Proto
import Pyc.Model.Indent
open Pyc.Indent Pyc.Proto

/-- `indent tok tok …` with tokens `text|tail|nkids` in preorder, strings given as code points joined by `.` (`-` = empty)
    → the text and tail strings of the tree after `indent(root)`, in document order, in the same encoding -/
def decodeStr (w : String) : Option String :=
  if w == "-" then some "" else
  ((w.splitOn ".").mapM (fun (t : String) => t.toNat?.map Char.ofNat)).map String.ofList

def encodeStr (s : String) : String :=
  if s.isEmpty then "-" else joinWith "." (s.toList.map (fun c => toString c.toNat))

structure Tok where
  text : String
  tail : String
  nkids : Nat

def parseTok (w : String) : Option Tok :=
  match w.splitOn "|" with
  | [a, b, n] => do some ⟨← decodeStr a, ← decodeStr b, ← n.toNat?⟩
  | _ => none

def build : Nat → List Tok → Option (X × List Tok)
  | 0, _ => none
  | _, [] => none
  | fuel + 1, t :: rest =>
    let rec kids (f : Nat) (n : Nat) (ts : List Tok) (acc : List X) : Option (List X × List Tok) :=
      match n, f with
      | 0, _ => some (acc.reverse, ts)
      | _, 0 => none
      | n + 1, f + 1 =>
        match build f ts with
        | some (x, ts') => kids f n ts' (x :: acc)
        | none => none
    match kids fuel t.nkids rest [] with
    | some (ks, rest') => some (.node 0 t.text t.tail ks, rest')
    | none => none

def handle (_ : Unit) (line : String) : Unit × String :=
  match words line with
  | "indent" :: toks =>
    match toks.mapM parseTok with
    | some ts =>
      match build (2 * ts.length + 2) ts with
      | some (x, []) => ((), joinWith " " ((strings (indent 0 x)).map encodeStr))
      | _ => ((), "bad-op")
    | none => ((), "bad-op")
  | _ => ((), "bad-op")

def main : IO Unit := mainLoop () handle
