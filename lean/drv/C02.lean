import Pyc.Basic.Proto
import Pyc.Model.Sync
open Pyc.Sync Pyc.Proto

/-- `sync <managed> ; <wanted> ; <old> ; <before>`: managed is `*` or a list of labels,
    `before` is `_` or a label. Answer: the new child list. -/
def parseNats (s : String) : Option (List Nat) := (words s).mapM String.toNat?

def handle (_ : Unit) (line : String) : Unit × String :=
  match line.trimAscii.toString.splitOn ";" with
  | [m, w, o, b] =>
    match words m with
    | "sync" :: ms =>
      let managed : Option (Nat → Bool) :=
        if ms == ["*"] then some (fun _ => true)
        else (ms.mapM String.toNat?).map (fun l => fun c => l.contains c)
      let before : Option (Option Nat) :=
        match words b with
        | ["_"] => some none
        | [x] => x.toNat?.map some
        | _ => none
      match managed, parseNats w, parseNats o, before with
      | some mg, some wl, some ol, some bf =>
        ((), joinWith " " ((syncChildren mg wl ol bf).map toString))
      | _, _, _, _ => ((), "bad-op")
    | _ => ((), "bad-op")
  | _ => ((), "bad-op")

def main : IO Unit := mainLoop () handle
