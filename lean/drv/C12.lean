import Pyc.Basic.Proto
import Pyc.Model.Scene
open Pyc.Scene Pyc.Proto

/-!
Line protocol of the C12 driver. One request per line:

  objs <kind> G <ng> geom* C <nc> ctrl* L <nl> lkind* N <nlib> node* R <nroots> node*

  kind  := geometry | light | camera | controller
  geom  := g <nprims> prim*
  prim  := p <sym|_> <nv|-1> int^(3nv) <nn|-1> int^(3nn) <ni> int^ni
  ctrl  := c <geomidx> int^16                      (skin: source geometry, bind shape matrix)
  lkind := point | spot | directional | ambient
  node  := n int^16 <nchildren> node*              (Node with its matrix, row major)
         | ig <geomidx> <nb> (sym matidx)^nb        (GeometryNode with its MaterialNodes)
         | ic <ctrlidx> <nb> (sym matidx)^nb        (ControllerNode)
         | il <lightidx> | ik <camidx>              (LightNode, CameraNode)
         | r <i>                                    (NodeNode whose .node is shared node i)
         | s <i>                                    (shared node i itself placed here)
  shared node i (section N) may only mention shared nodes j < i.

Answer: `ok <count> entry*`, entries in traversal order; `bad-op` for anything unparsable.
-/

abbrev Mx := Mat4 Int

inductive Payload where
  | geom (g : Nat) (binds : List (String × Nat))
  | ctrl (c : Nat) (binds : List (String × Nat))
  | light (l : Nat)
  | cam (k : Nat)

abbrev Tree := SNode Mx Payload

structure Case where
  geoms : Array (List (Prim Int))
  ctrls : Array (Nat × Mx)
  lights : Array LightKind
  roots : List Tree

abbrev Parser := StateT (List String) Option

def tok : Parser String := do
  match (← get) with
  | [] => failure
  | w :: ws => set ws; pure w

def expect (s : String) : Parser Unit := do
  if (← tok) == s then pure () else failure

def pInt : Parser Int := do
  match (← tok).toInt? with
  | some i => pure i
  | none => failure

def pNat : Parser Nat := do
  match (← tok).toNat? with
  | some i => pure i
  | none => failure

def pMany {α : Type} (n : Nat) (p : Parser α) : Parser (List α) :=
  match n with
  | 0 => pure []
  | n + 1 => do
    let x ← p
    let xs ← pMany n p
    pure (x :: xs)

def pV3 : Parser (V3 Int) := do
  let x ← pInt
  let y ← pInt
  let z ← pInt
  pure ⟨x, y, z⟩

def pMat : Parser Mx := do
  let xs ← pMany 16 pInt
  match xs with
  | [a, b, c, d, e, f, g, h, i, j, k, l, m, n, o, p] => pure ⟨a, b, c, d, e, f, g, h, i, j, k, l, m, n, o, p⟩
  | _ => failure

/-- `-1` = None, else that many vectors -/
def pOptVecs : Parser (Option (List (V3 Int))) := do
  let n ← pInt
  if n < 0 then pure none else
    let vs ← pMany n.toNat pV3
    pure (some vs)

def pPrim : Parser (Prim Int) := do
  expect "p"
  let s ← tok
  let v ← pOptVecs
  let n ← pOptVecs
  let ni ← pNat
  let ix ← pMany ni pInt
  pure ⟨if s == "_" then none else some s, v, n, ix⟩

def pGeom : Parser (List (Prim Int)) := do
  expect "g"
  let n ← pNat
  pMany n pPrim

def pCtrl : Parser (Nat × Mx) := do
  expect "c"
  let g ← pNat
  let m ← pMat
  pure (g, m)

def pLKind : Parser LightKind := do
  match (← tok) with
  | "point" => pure .point
  | "spot" => pure .spot
  | "directional" => pure .directional
  | "ambient" => pure .ambient
  | _ => failure

def pBind : Parser (String × Nat) := do
  let s ← tok
  let m ← pNat
  pure (s, m)

partial def pNode (shared : Array Tree) : Parser Tree := do
  match (← tok) with
  | "n" =>
    let m ← pMat
    let k ← pNat
    let cs ← pMany k (pNode shared)
    pure (.node m cs)
  | "ig" =>
    let g ← pNat
    let nb ← pNat
    let bs ← pMany nb pBind
    pure (.inst .geometry (.geom g bs))
  | "ic" =>
    let c ← pNat
    let nb ← pNat
    let bs ← pMany nb pBind
    pure (.inst .controller (.ctrl c bs))
  | "il" => do let l ← pNat; pure (.inst .light (.light l))
  | "ik" => do let k ← pNat; pure (.inst .camera (.cam k))
  | "r" =>
    let i ← pNat
    match shared[i]? with
    | some t => pure (.ref t)
    | none => failure
  | "s" =>
    let i ← pNat
    match shared[i]? with
    | some t => pure t
    | none => failure
  | _ => failure

def pShared : Nat → Array Tree → Parser (Array Tree)
  | 0, acc => pure acc
  | n + 1, acc => do
    let t ← pNode acc
    pShared n (acc.push t)

def pKind : Parser Kind := do
  match (← tok) with
  | "geometry" => pure .geometry
  | "light" => pure .light
  | "camera" => pure .camera
  | "controller" => pure .controller
  | _ => failure

def pCase : Parser (Kind × Case) := do
  expect "objs"
  let kind ← pKind
  expect "G"
  let gs ← pMany (← pNat) pGeom
  expect "C"
  let cs ← pMany (← pNat) pCtrl
  expect "L"
  let ls ← pMany (← pNat) pLKind
  expect "N"
  let shared ← pShared (← pNat) #[]
  expect "R"
  let roots ← pMany (← pNat) (pNode shared)
  match (← get) with
  | [] => pure (kind, ⟨gs.toArray, cs.toArray, ls.toArray, roots⟩)
  | _ => failure

/-! ### canonical output -/

def showInts (xs : List Int) : String := joinWith "," (xs.map toString)

def showMat (m : Mx) : String :=
  showInts [m.a00, m.a01, m.a02, m.a03, m.a10, m.a11, m.a12, m.a13,
            m.a20, m.a21, m.a22, m.a23, m.a30, m.a31, m.a32, m.a33]

def showVecs : Option (List (V3 Int)) → String
  | none => "None"
  | some vs => showInts (vs.flatMap (fun v => [v.x, v.y, v.z]))

def showV3 : Option (V3 Int) → String
  | none => "-"
  | some v => showInts [v.x, v.y, v.z]

def showPrim (b : BoundPrim Int) : String :=
  let mat := match b.material with | none => "None" | some i => toString i
  "{mat=" ++ mat ++ " v=" ++ showVecs b.vertex ++ " n=" ++ showVecs b.normal ++ " i=" ++ showInts b.index ++ "}"

def showPose (p : Pose Int) : String :=
  "pos=" ++ showV3 p.position ++ " dir=" ++ showV3 p.direction

def showEntry (c : Case) : Mx × Payload → Option String
  | (m, .geom g binds) => do
    let prims ← c.geoms[g]?
    pure ("[m=" ++ showMat m ++ " g=" ++ toString g ++ " " ++
      String.join ((bindGeometry m binds prims).map showPrim) ++ "]")
  | (m, .ctrl ci binds) => do
    let (g, bsm) ← c.ctrls[ci]?
    let prims ← c.geoms[g]?
    pure ("[m=" ++ showMat m ++ " c=" ++ toString ci ++ " gm=" ++ showMat (m * bsm) ++ " " ++
      String.join ((bindSkin m bsm binds prims).map showPrim) ++ "]")
  | (m, .light l) => do
    let k ← c.lights[l]?
    let ms := if k == .spot then "m=" ++ showMat m ++ " " else ""
    pure ("[" ++ ms ++ "l=" ++ toString l ++ " " ++ showPose (bindLight k m) ++ "]")
  | (m, .cam k) =>
    pure ("[m=" ++ showMat m ++ " k=" ++ toString k ++ " " ++ showPose (bindCamera m) ++ "]")

def handle (_ : Unit) (line : String) : Unit × String :=
  match pCase.run (words line) with
  | some ((kind, c), _) =>
    let objs := sceneObjects kind c.roots
    match objs.mapM (showEntry c) with
    | some es => ((), "ok " ++ toString es.length ++ (if es.isEmpty then "" else " ") ++ joinWith " " es)
    | none => ((), "bad-op")
  | none => ((), "bad-op")

def main : IO Unit := mainLoop () handle
