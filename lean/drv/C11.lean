import Pyc.Basic.Proto
import Pyc.Model.IndexOps
open Pyc.IndexOps Pyc.Proto

/-
requests
  strip K | p-stream ; p-stream ; …      <tristrips> with stride K = max_offset + 1 (no `|`: no <p> at all)
  fan   K | p-stream ; p-stream ; …      <trifans>
  poly  K | vcounts | stream             <polylist>: triangleset() and per-polygon triangles()
  pgons K | p-stream ; p-stream ; …      <polygons>: vcounts, then as poly (no `|`: no <p> at all)
answers
  ok T T …                               T = row/row/row, row = i,i,…
  ok vc=c,c,… tris=T T … per=T T;T;;T    per-polygon groups separated by `;`
  fail:<what>
-/

def parseNats (s : String) : Option (List Nat) := (words s).mapM String.toNat?

def parsePs (s : String) : Option (List (List Nat)) := (s.splitOn ";").mapM parseNats

def showRow (r : List Nat) : String := joinWith "," (r.map toString)

def showTri (t : Tri (List Nat)) : String := joinWith "/" [showRow t.1, showRow t.2.1, showRow t.2.2]

def showTris (ts : List (Tri (List Nat))) : String := joinWith " " (ts.map showTri)

def showLoad : Except LoadErr (List (Tri (List Nat))) → String
  | .ok ts => "ok " ++ showTris ts
  | .error .incomplete => "fail:DaeIncompleteError"
  | .error .malformed => "fail:DaeMalformedError"

def showPoly (rows : List (List Nat)) (vc : List Nat) : String :=
  match triangulate rows vc, perPolygon rows vc with
  | some ts, some parts =>
    "ok vc=" ++ joinWith "," (vc.map toString) ++ " tris=" ++ showTris ts ++ " per=" ++
      joinWith ";" (parts.map showTris)
  | none, _ => "fail:triangleset"
  | _, none => "fail:triangles"

def answer (line : String) : String :=
  match line.splitOn "|" with
  | [head] =>
    match words head with
    | ["strip", k] => match k.toNat? with
      | some k => showLoad (loadTris .strip k ([] : List (List Nat)))
      | none => "bad-op"
    | ["fan", k] => match k.toNat? with
      | some k => showLoad (loadTris .fan k ([] : List (List Nat)))
      | none => "bad-op"
    | ["pgons", k] => match k.toNat? with
      | some k =>
        match polygonsRows k ([] : List (List Nat)) with
        | some rows => showPoly rows (polygonsVcounts k ([] : List (List Nat)))
        | none => "fail:reshape"
      | none => "bad-op"
    | _ => "bad-op"
  | [head, body] =>
    match words head, parsePs body with
    | ["strip", k], some ps => match k.toNat? with
      | some k => showLoad (loadTris .strip k ps)
      | none => "bad-op"
    | ["fan", k], some ps => match k.toNat? with
      | some k => showLoad (loadTris .fan k ps)
      | none => "bad-op"
    | ["pgons", k], some ps => match k.toNat? with
      | some k =>
        match polygonsRows k ps with
        | some rows => showPoly rows (polygonsVcounts k ps)
        | none => "fail:reshape"
      | none => "bad-op"
    | _, _ => "bad-op"
  | [head, vcs, body] =>
    match words head, parseNats vcs, parseNats body with
    | ["poly", k], some vc, some flat => match k.toNat? with
      | some k =>
        match chunk k flat with
        | some rows => showPoly rows vc
        | none => "fail:reshape"
      | none => "bad-op"
    | _, _, _ => "bad-op"
  | _ => "bad-op"

def main : IO Unit := mainLoop () (fun _ line => ((), answer line))
