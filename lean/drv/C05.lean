import Pyc.Basic.Proto
import Pyc.Model.Load
open Pyc.Load Pyc.Proto

/-- requests:
    `idx <perShape> <stride> <offset> ; <stream>`            → rows of the exposed index array `a,b,c a,b,c`
    `col <stride> <offset> ; <stream>`                        → one column (polylist / polygons)
    `expand <vid>=<sem>:<src>,<sem>:<src> … ; <off>:<sem>:<src>:<set|_> …` → inputs after <vertices> expansion
    `comps <names…>`                                          → normalised component names
    `pad <ints…>`                                             → colour padded to RGBA with 0 / 1 -/
def parseNats (s : String) : Option (List Nat) := (words s).mapM String.toNat?

def showRows (rows : List (List Nat)) : String :=
  joinWith " " (rows.map (fun r => joinWith "," (r.map toString)))

def parseVerts (ws : List String) : Option (List (String × List (String × String))) :=
  ws.mapM (fun w => match w.splitOn "=" with
    | [vid, rest] =>
      ((rest.splitOn ",").mapM (fun (p : String) => match p.splitOn ":" with
        | [a, b] => some (a, b)
        | _ => none)).map (fun l => (vid, l))
    | _ => none)

def parseInput (w : String) : Option RawInput :=
  match w.splitOn ":" with
  | [o, sem, src, st] => o.toNat?.map (fun n => ⟨n, sem, src, if st == "_" then none else some st⟩)
  | _ => none

def showInput (i : RawInput) : String := s!"{i.offset}:{i.semantic}:{i.source}:{i.set.getD "_"}"

def handle (_ : Unit) (line : String) : Unit × String :=
  match line.trimAscii.toString.splitOn ";" with
  | [hd, tl] =>
    match words hd with
    | ["idx", k, n, o] =>
      match k.toNat?, n.toNat?, o.toNat?, parseNats tl with
      | some k, some n, some o, some xs => if n = 0 ∨ k = 0 then ((), "bad-op") else ((), showRows (indexArray k n o xs))
      | _, _, _, _ => ((), "bad-op")
    | ["col", n, o] =>
      match n.toNat?, o.toNat?, parseNats tl with
      | some n, some o, some xs => if n = 0 then ((), "bad-op") else ((), joinWith " " ((column n o xs).map toString))
      | _, _, _ => ((), "bad-op")
    | "expand" :: vs =>
      match parseVerts vs, (words tl).mapM parseInput with
      | some v, some ins => ((), joinWith " " ((expandInputs v ins).map showInput))
      | _, _ => ((), "bad-op")
    | _ => ((), "bad-op")
  | [hd] =>
    match words hd with
    | "comps" :: cs => ((), joinWith " " (normComponents cs))
    | "pad" :: cs =>
      match cs.mapM String.toInt? with
      | some c => ((), joinWith " " ((padRGBA c 0 1).map toString))
      | none => ((), "bad-op")
    | _ => ((), "bad-op")
  | _ => ((), "bad-op")

def main : IO Unit := mainLoop () handle
