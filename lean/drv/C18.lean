import Pyc.Basic.Proto
import Pyc.Model.Normals
open Pyc.Normals Pyc.Normals.V3 Pyc.Proto

/-
Requests (numbers are `p` or `p/q`, indices naturals):
  gen <nv> <nt> <3nv coords> <3nt indices>
      -> oob | ok f=<unit face normals> s=<accumulate> b=<accumulateAssign>
         (a face normal whose length is irrational is prefixed with `!` and left unnormalised)
  tri <9 coords>            -> ok x,y,z | irr x,y,z      (Triangle implicit normal, `triNormal unitQ`)
  tan <nv> <nt> <nuv> <nn> <3nv coords> <3nt idx> <2nuv uv> <3nt uvidx> <3nn normal dirs> <3nt nidx>
      -> undef | ok t=<tangentSums> d=<tangentDirs, 3 per triangle>
-/

def parseRat (w : String) : Option Rat :=
  match w.splitOn "/" with
  | [p] => p.toInt?.map (fun n => (n : Rat))
  | [p, q] => do
      let n ← p.toInt?
      let d ← q.toNat?
      if d = 0 then none else some (mkRat n d)
  | _ => none

def showRat (r : Rat) : String :=
  if r.den = 1 then toString r.num else s!"{r.num}/{r.den}"

def showV (v : V3 Rat) : String := s!"{showRat v.x},{showRat v.y},{showRat v.z}"
def showVs (vs : List (V3 Rat)) : String := joinWith ";" (vs.map showV)

def group3 {γ : Type} : List γ → Option (List (γ × γ × γ))
  | [] => some []
  | a :: b :: c :: rest => (group3 rest).map ((a, b, c) :: ·)
  | _ => none

def group2 {γ : Type} : List γ → Option (List (γ × γ))
  | [] => some []
  | a :: b :: rest => (group2 rest).map ((a, b) :: ·)
  | _ => none

def parseVecs (ws : List String) : Option (List (V3 Rat)) := do
  let xs ← ws.mapM parseRat
  let g ← group3 xs
  some (g.map (fun p => ⟨p.1, p.2.1, p.2.2⟩))

def parseUVs (ws : List String) : Option (List (V2 Rat)) := do
  let xs ← ws.mapM parseRat
  let g ← group2 xs
  some (g.map (fun p => ⟨p.1, p.2⟩))

def parseTris (ws : List String) : Option (List Tri) := do
  let xs ← ws.mapM String.toNat?
  let g ← group3 xs
  some (g.map (fun p => ⟨p.1, p.2.1, p.2.2⟩))

/-- split `ws` into consecutive blocks of the given sizes; `none` unless the sizes add up -/
def blocks : List Nat → List String → Option (List (List String))
  | [], [] => some []
  | [], _ => none
  | n :: ns, ws => if ws.length < n then none else (blocks ns (ws.drop n)).map (ws.take n :: ·)

def showFace (v : V3 Rat) : String := (if isUnitOrZero v then "" else "!") ++ showV v

def doGen (ws : List String) : Option String := do
  match ws with
  | nv :: nt :: rest =>
    let nv ← nv.toNat?
    let nt ← nt.toNat?
    match ← blocks [3 * nv, 3 * nt] rest with
    | [vs, ts] =>
      let V ← parseVecs vs
      let T ← parseTris ts
      match faceNormals unitQ V T with
      | none => some "oob"
      | some ns =>
        some s!"ok f={joinWith ";" (ns.map showFace)} s={showVs (accumulate V.length T ns)} b={showVs (accumulateAssign V.length T ns)}"
    | _ => none
  | _ => none

def doTri (ws : List String) : Option String := do
  match ← parseVecs ws with
  | [v0, v1, v2] =>
    let n := triNormal unitQ v0 v1 v2
    some ((if dot n n == 1 then "ok " else "irr ") ++ showV n)
  | _ => none

def showTriple (p : V3 Rat × V3 Rat × V3 Rat) : String :=
  s!"{showV p.1};{showV p.2.1};{showV p.2.2}"

def doTan (ws : List String) : Option String := do
  match ws with
  | nv :: nt :: nuv :: nn :: rest =>
    let nv ← nv.toNat?
    let nt ← nt.toNat?
    let nuv ← nuv.toNat?
    let nn ← nn.toNat?
    match ← blocks [3 * nv, 3 * nt, 2 * nuv, 3 * nt, 3 * nn, 3 * nt] rest with
    | [vs, ts, uvs, uvts, ns, nts] =>
      let V ← parseVecs vs
      let T ← parseTris ts
      let UV ← parseUVs uvs
      let UT ← parseTris uvts
      let N ← parseVecs ns
      let NT ← parseTris nts
      match tangentSums V T UV UT, tangentDirs V T UV UT N NT with
      | some sums, some dirs => some s!"ok t={showVs sums} d={joinWith ";" (dirs.map showTriple)}"
      | _, _ => some "undef"
    | _ => none
  | _ => none

def handle (s : Unit) (line : String) : Unit × String :=
  let r := match words line with
    | "gen" :: ws => doGen ws
    | "tri" :: ws => doTri ws
    | "tan" :: ws => doTan ws
    | _ => none
  (s, r.getD "bad-op")

def main : IO Unit := mainLoop () handle
