import Pyc.Basic.Proto
import Pyc.Model.Container
open Pyc.Container Pyc.Proto

/-! Line protocol for C16.  Names are percent-encoded tokens: `~` is the empty string, `%XX` a
    byte, everything else literal (the harness escapes everything but alphanumerics and `._/`). -/

def splitBy (d : Char) : List Char → List (List Char)
  | [] => [[]]
  | c :: t =>
    if c = d then [] :: splitBy d t
    else match splitBy d t with
      | h :: r => (c :: h) :: r
      | [] => [[c]]

def hexVal (c : Char) : Option Nat :=
  if '0' ≤ c ∧ c ≤ '9' then some (c.toNat - '0'.toNat)
  else if 'A' ≤ c ∧ c ≤ 'F' then some (c.toNat - 'A'.toNat + 10)
  else none

def decChars : List Char → Option (List Char)
  | [] => some []
  | '%' :: a :: b :: t => do
    let x ← hexVal a
    let y ← hexVal b
    let r ← decChars t
    some (Char.ofNat (16 * x + y) :: r)
  | '%' :: _ => none
  | c :: t => (decChars t).map (c :: ·)

def dec (w : List Char) : Option Name := if w = ['~'] then some [] else decChars w

def hexDigit (n : Nat) : Char := if n < 10 then Char.ofNat ('0'.toNat + n) else Char.ofNat ('A'.toNat + n - 10)

def encChar (c : Char) : List Char :=
  if c.isAlphanum || c = '.' || c = '_' || c = '/' then [c]
  else ['%', hexDigit (c.toNat / 16), hexDigit (c.toNat % 16)]

def enc (n : Name) : String := if n.isEmpty then "~" else String.ofList (n.flatMap encChar)

def decS (w : String) : Option Name := dec w.toList

def natOf (w : List Char) : Option Nat := (String.ofList w).toNat?

/-- `enc:blob,enc:blob` (empty text = empty list) -/
def parsePairs (w : List Char) : Option (List (Name × Blob)) :=
  if w.isEmpty then some []
  else (splitBy ',' w).mapM (fun item =>
    match splitBy ':' item with
    | [n, b] => do some ((← dec n), (← natOf b))
    | _ => none)

def parseNames (w : List Char) : Option (List Name) :=
  if w = ['.'] then some [] else (splitBy ',' w).mapM dec

def parseOpt (w : List Char) : Option (Option Name) :=
  match w with
  | ['-'] => some none
  | '=' :: r => (dec r).map some
  | _ => none

def parseMask (w : List Char) : Option (List Cls) :=
  if w = ['.'] then some [] else w.mapM (fun c =>
    if c = 'E' then some Cls.daeError else if c = 'I' then some Cls.incomplete
    else if c = 'B' then some Cls.brokenRef else if c = 'M' then some Cls.malformed
    else if c = 'U' then some Cls.unsupported else none)

def parseOrigin (w : List Char) : Option Origin :=
  match w with
  | ['f'] => some .fileobj
  | 'p' :: '=' :: r => (dec r).map Origin.path
  | _ => none

def parsePayload (w : List Char) : Option Payload :=
  match w with
  | 'd' :: '=' :: r => (natOf r).map Payload.doc
  | 'z' :: '=' :: r => (parsePairs r).map (fun es => Payload.zip ⟨es⟩)
  | _ => none

def parseLoader (w : List Char) : Option (Option (List (Name × Blob))) :=
  match w with
  | ['-'] => some none
  | '+' :: r => (parsePairs r).map some
  | _ => none

def parseFs (cwd w : List Char) : Option Disk := do
  let c ← dec cwd
  let fl ← if w = ['.'] then some [] else parsePairs w
  some ⟨c, fl⟩

def showErr : Err → String
  | .incomplete => "Incomplete" | .brokenRef => "BrokenRef"

def showAccess : Access → String
  | .data b => s!"d{b}" | .raised e => "r" ++ showErr e | .empty => "e"

def showRes : Resolver → String
  | .null => "null" | .disk _ => "disk" | .zip _ _ => "zip" | .loader => "loader"

def runCase (o : Origin) (zf : Option Name) (ld : Option (List (Name × Blob))) (mask : List Cls)
    (fs : Disk) (pl : Payload) (imgs : List Name) : String :=
  match openSource ⟨o, pl⟩ zf ld.isSome with
  | .error e => "err " ++ showErr e
  | .ok op =>
    let table := ld.getD []
    let loader : Name → Option Blob := fun n => (table.find? (fun e => e.1 == n)).map (·.2)
    let acc := imgs.map (fun i => showAccess (imageData mask (getFileData fs loader op.resolver i)).1)
    let file := match op.filename with | some f => "=" ++ enc f | none => "-"
    s!"ok file={file} data={op.data} res={showRes op.resolver} imgs={joinWith "," acc}"

def handle (_ : Unit) (line : String) : Unit × String :=
  let L := String.toList
  let ans : Option String :=
    match words line with
    | "select" :: zf :: names => do
      let zf ← parseOpt (L zf)
      let names ← names.mapM decS
      some (match selectMember names zf with
        | .ok n => "ok " ++ enc n
        | .error e => "err " ++ showErr e)
    | ["norm", p] => (decS p).map (fun p => enc (normpath p))
    | ["dirname", p] => (decS p).map (fun p => enc (dirname p))
    | ["join", a, b] => do some (enc (join (← decS a) (← decS b)))
    | ["aux", m, r] => do some (enc (auxPath (← decS m) (← decS r)))
    | ["case", o, zf, ld, mask, cwd, fs, pl, imgs] => do
      some (runCase (← parseOrigin (L o)) (← parseOpt (L zf)) (← parseLoader (L ld)) (← parseMask (L mask))
        (← parseFs (L cwd) (L fs)) (← parsePayload (L pl)) (← parseNames (L imgs)))
    | _ => none
  ((), ans.getD "bad-op")

def main : IO Unit := mainLoop () handle
