import Pyc.Basic.Proto
import Pyc.Model.Schema
open Pyc.Schema Pyc.Proto

/-- `req <parent> <name> <i> ; <child names…>` → `true` / `false` / `none`: does the shipped schema require the i-th child of this element
    (Pyc.Schema.requiredChild over the content models generated from collada/resources/schema-1.4.1.xml)? -/
def handle (_ : Unit) (line : String) : Unit × String :=
  match line.trimAscii.toString.splitOn ";" with
  | [hd, tl] =>
    match words hd with
    | ["req", parent, name, i] =>
      match i.toNat? with
      | some i =>
        let p := if parent == "-" then "" else parent
        ((), match requiredChild p name (words tl) i with
             | some b => toString b
             | none => "none")
      | none => ((), "bad-op")
    | _ => ((), "bad-op")
  | _ => ((), "bad-op")

def main : IO Unit := mainLoop () handle
