import Pyc.Basic.Proto
import Pyc.Model.NumText
open Pyc.NumText Pyc.Proto

/-- `num <x> <a> <b>` with rationals written `n/d` (n possibly negative):
    x a float32 value, a the number the writer printed for it, b the float32 the loader read from a.
    Answer: `dec7=<isNearestDec7 x a> bin24=<isNearestBin24 a b> next=<nearestDec7 |b| as n/d>` -/
def parseRat (w : String) : Option Rat :=
  match w.splitOn "/" with
  | [n, d] => do
    let n ← n.toInt?
    let d ← d.toNat?
    if d = 0 then none else some ((n : Rat) / (d : Rat))
  | _ => none

def showRat (q : Rat) : String := s!"{q.num}/{q.den}"

def handle (_ : Unit) (line : String) : Unit × String :=
  match words line with
  | ["num", x, a, b] =>
    match parseRat x, parseRat a, parseRat b with
    | some x, some a, some b =>
      ((), s!"dec7={isNearestDec7 x a} bin24={isNearestBin24 a b} next={showRat (nearestDec7 (absR b))}")
    | _, _, _ => ((), "bad-op")
  | _ => ((), "bad-op")

def main : IO Unit := mainLoop () handle
