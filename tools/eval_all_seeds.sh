#!/bin/bash
# re-evaluate every seeded change under /verif/seeded in 4 streams (one property never runs in two streams at once)
cd /verif
for k in 0 1 2 3; do
  ( for d in seeded/C??[a-z]; do n=$(basename $d); p=${n:0:3}; i=$((10#${n:1:2})); if [ $((i % 4)) -eq $k ]; then tools/eval_seed.py $p seeded/$n $n; fi; done > /tmp/evalall_$k.log 2>&1 ) &
done
wait
