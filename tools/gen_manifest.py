#!/venv/bin/python
"""Regenerate MANIFEST.json from the META blocks of props/cXX.py (run after adding a check)."""
import importlib
import json
import os
import sys

VERIF = os.path.dirname(os.path.dirname(os.path.abspath(__file__)))
sys.path.insert(0, VERIF)
props = [json.loads(l) for l in open(os.path.join(VERIF, 'properties.jsonl'))]
checks, na = [], []
for p in props:
    pid = p['id']
    path = os.path.join(VERIF, 'props', pid.lower() + '.py')
    meta = None
    if os.path.exists(path):
        mod = importlib.import_module('props.' + pid.lower())
        meta = getattr(mod, 'META', None)
    if not meta or not meta.get('registered', True):
        na.append(dict(property_id=pid, reason=(meta or {}).get('reason', 'check not built yet (planned in DESIGN.md section 3); not claimed until it is quiet on the unchanged tree')))
        continue
    checks.append(dict(
        property_id=pid,
        quick_cmd='/venv/bin/python check.py %s --tier quick' % pid,
        thorough_cmd='/venv/bin/python check.py %s --tier thorough' % pid,
        evidence_file='evidence/%s.json' % pid,
        replay_cmd_template='/venv/bin/python check.py %s --replay {path}' % pid,
        engine='lean4-proof+correspondence',
        level_claimed=dict(category='proof', text=meta['level_text'], design_ref=meta.get('design_ref', 'DESIGN.md section 3, ' + pid)),
        level_note=meta['level_note'],
        technique=meta.get('technique', 'Lean 4 theorems about a hand-written model + differential correspondence check model<->implementation'),
    ))
man = dict(
    version=1,
    setup_cmd='/venv/bin/python tools/setup_extra.py && cd lean && lake build',
    hooks=dict(guard='PYCOLLADA_VERIF', enable='no instrumentation in /repo: checks import the working tree directly (VERIF_REPO overrides the path)',
               baseline_off_cmd='cd /repo && /venv/bin/python -m pytest -ra -q -p no:cacheprovider --timeout=900 --continue-on-collection-errors',
               source_commits=[], add_only=True),
    engines=[dict(name='lean4-proof+correspondence', path='check.py', serves_properties=[c['property_id'] for c in checks],
                  kind_free_text='Lean 4 model + theorems (lean/Pyc), axiom audit, line-protocol correspondence against the implementation, direct property oracle for replays')],
    checks=checks,
    notes='See DESIGN.md. Every check: translators -> lake build -> axiom audit -> correspondence (lean --run drv/<id>.lean vs /repo) -> direct oracle -> known_findings.json classification -> evidence.',
    not_applicable=na,
)
json.dump(man, open(os.path.join(VERIF, 'MANIFEST.json'), 'w'), indent=1)
print('checks:', [c['property_id'] for c in checks], 'not claimed:', [n['property_id'] for n in na])
