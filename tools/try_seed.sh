#!/bin/bash
# tools/try_seed.sh <PID> <seedname> [seed] : run check.py <PID> against a scratch worktree with seeded/<seedname>/patch.diff applied
pid=$1; name=$2; seed=${3:-0}
wt=/tmp/tryseed_$name
git -C /repo worktree remove --force $wt 2>/dev/null
git -C /repo worktree add -q --detach $wt main || exit 3
git -C $wt apply /verif/seeded/$name/patch.diff || { git -C /repo worktree remove --force $wt; exit 3; }
cd /verif
VERIF_REPO=$wt VERIF_SEED=$seed /venv/bin/python check.py $pid ${TIER:+--tier $TIER}; rc=$?
git -C /repo worktree remove --force $wt
git -C /repo worktree prune
echo "exit $rc"
