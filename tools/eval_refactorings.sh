#!/bin/bash
# tools/eval_refactorings.sh : apply every behaviour-preserving refactoring of seeded/_refactorings to a scratch worktree of /repo and
# run all 20 quick checks against it: every alarm printed here is a false alarm of the machinery.
cd /verif
for d in seeded/_refactorings/*.diff; do
  n=$(basename $d .diff); wt=/tmp/refac_$n
  git -C /repo worktree remove --force $wt 2>/dev/null
  git -C /repo worktree add -q --detach $wt main
  if ! git -C $wt apply /verif/$d 2>/dev/null; then echo "$n: does not apply to the current tree (skipped)"; git -C /repo worktree remove --force $wt; continue; fi
  t=$(cd $wt && /venv/bin/python -m pytest -q -p no:cacheprovider collada 2>&1 | tail -1)
  echo "$n: tests: $t"
  for i in $(seq -w 1 20); do echo C$i; done | xargs -P 5 -I{} bash -c "VERIF_REPO=$wt VERIF_SEED=${1:-0} /venv/bin/python check.py {} > /tmp/refac_${n}_{}.log 2>&1; rc=\$?; v=\$(grep -c '^VIOLATION' /tmp/refac_${n}_{}.log); if [ \$rc -ne 0 ] || [ \$v -ne 0 ]; then echo \"  $n {} exit \$rc violations \$v: \$(grep -A1 '^VIOLATION' /tmp/refac_${n}_{}.log | head -2 | cut -c1-200 | tr '\n' ' ')\"; fi"
  git -C /repo worktree remove --force $wt
done
git -C /repo worktree prune
echo done
