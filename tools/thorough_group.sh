#!/bin/bash
# tools/thorough_group.sh P1 P2 … : the thorough tier of the given properties, one after the other (for `vp run`)
cd "$(dirname "$0")/.."
(cd lean && lake build >/dev/null 2>&1)
/venv/bin/python tools/setup_extra.py >/dev/null 2>&1
for p in "$@"; do
  /usr/bin/time -f "$p %es" /venv/bin/python check.py $p --tier thorough > /tmp/thor_$$_$p.log 2>&1; rc=$?
  grep 'VIOLATION\|INFRA\|Traceback\|Error\|KNOWN\|^C[0-9][0-9] ' /tmp/thor_$$_$p.log | cut -c1-300
  echo "$p rc=$rc"
  rm -f /tmp/thor_$$_$p.log
done
