#!/venv/bin/python
"""Rewrite the seeded-change table of DESIGN.md from seeded/*/meta.json."""
import glob
import json
import os
import re
VERIF = os.path.dirname(os.path.dirname(os.path.abspath(__file__)))
rows = []
for f in sorted(glob.glob(os.path.join(VERIF, 'seeded', '*', 'meta.json'))):
    m = json.load(open(f))
    need = re.sub(r'\s+', ' ', m.get('needs', ''))[:170].replace('|', '/')
    first = ''
    for r in m.get('check_runs', []):
        if r.get('detail'):
            first = re.sub(r'\s+', ' ', r['detail'][0])[:110].replace('|', '/')
            break
    verdict = 'not a valid seed' if not m.get('valid_seed') else ('caught (replay)' if m.get('caught_with_input') else ('caught (no failing input)' if m.get('caught') else 'MISSED'))
    rows.append('| %s | %s | %s | %s | %s |' % (m['name'], m['property'], need, verdict, first))
table = '| seed | property | what was changed / what it needs | check.py %s | first report |\n|---|---|---|---|---|\n' % '<property>' + '\n'.join(rows)
p = os.path.join(VERIF, 'DESIGN.md')
s = open(p).read()
s = re.sub(r'<!-- SEED-TABLE-BEGIN -->.*<!-- SEED-TABLE-END -->', '<!-- SEED-TABLE-BEGIN -->\n' + table.replace('\\', '\\\\') + '\n<!-- SEED-TABLE-END -->', s, flags=re.S)
open(p, 'w').write(s)
print(len(rows), 'seeds;', sum(1 for r in rows if 'MISSED' in r), 'missed;', sum(1 for r in rows if 'not a valid' in r), 'invalid')
