#!/bin/bash
# tools/eval_round3.sh C16 C17 ... : evaluate /tmp/seed3_<P>/_seed/{a,b} as <P>e / <P>f, one property after the other
cd /verif
for p in "$@"; do
  tools/eval_seed.py $p /tmp/seed3_$p/_seed/a ${p}e
  tools/eval_seed.py $p /tmp/seed3_$p/_seed/b ${p}f
done
