#!/venv/bin/python
"""Evaluate a seeded breaking change: tools/eval_seed.py <PID> <dir containing patch.diff demo.py notes.md> [name]
 1. copy it to /verif/seeded/<name>/,
 2. in a scratch worktree of /repo: demo passes on the clean tree; apply the patch; the repository's tests still pass; demo fails,
 3. run check.py <PID> (quick, seeds 0 and 1) against the patched worktree and record whether it reports a violation,
 4. write meta.json; remove the worktree."""
import json
import os
import shutil
import subprocess
import sys

VERIF = os.path.dirname(os.path.dirname(os.path.abspath(__file__)))
pid, src = sys.argv[1], sys.argv[2]
name = sys.argv[3] if len(sys.argv) > 3 else pid + os.path.basename(src.rstrip('/'))
dst = os.path.join(VERIF, 'seeded', name)
os.makedirs(dst, exist_ok=True)
for f in ('patch.diff', 'demo.py', 'notes.md'):
    if os.path.exists(os.path.join(src, f)) and os.path.abspath(src) != os.path.abspath(dst):
        shutil.copy(os.path.join(src, f), os.path.join(dst, f))
wt = '/tmp/evalseed_%s' % name
subprocess.run(['git', '-C', '/repo', 'worktree', 'remove', '--force', wt], capture_output=True)
subprocess.run(['git', '-C', '/repo', 'worktree', 'add', '-q', '--detach', wt, 'main'], check=True)
meta = dict(property=pid, name=name)
try:
    env = dict(os.environ, PYTHONPATH=wt)

    def demo():
        r = subprocess.run(['/venv/bin/python', os.path.join(dst, 'demo.py')], cwd=wt, env=env, capture_output=True, text=True, timeout=600)
        return r.returncode, (r.stdout + r.stderr)[-400:]
    meta['demo_clean'] = demo()[0]
    ap = subprocess.run(['git', '-C', wt, 'apply', os.path.join(dst, 'patch.diff')], capture_output=True, text=True)
    meta['patch_applies'] = ap.returncode == 0
    if ap.returncode != 0:
        meta['patch_error'] = ap.stderr[-300:]
    else:
        t = subprocess.run(['/venv/bin/python', '-m', 'pytest', '-q', '-p', 'no:cacheprovider', 'collada'], cwd=wt, capture_output=True, text=True, timeout=900)
        meta['tests'] = t.stdout.strip().splitlines()[-1] if t.stdout.strip() else t.stderr[-200:]
        rc, out = demo()
        meta['demo_patched'] = rc
        meta['demo_output'] = out
        meta['valid_seed'] = meta['demo_clean'] == 0 and rc != 0 and ' failed' not in meta['tests'] and 'passed' in meta['tests']
        runs = []
        for seed in ('0', '1'):
            c = subprocess.run(['/venv/bin/python', os.path.join(VERIF, 'check.py'), pid], cwd=VERIF,
                               env=dict(os.environ, VERIF_REPO=wt, VERIF_SEED=seed), capture_output=True, text=True, timeout=1800)
            viol = [l for l in c.stdout.splitlines() if l.startswith('VIOLATION')]
            detail = [l.strip() for l in c.stdout.splitlines() if l.startswith('  ')][:2]
            runs.append(dict(seed=int(seed), exit=c.returncode, violations=len(viol), first=(viol[0] if viol else ''), detail=detail,
                             with_input=any('no-failing-input-found' not in l for l in viol)))
        meta['check_runs'] = runs
        meta['caught'] = any(r['exit'] == 1 for r in runs)
        meta['caught_with_input'] = any(r['exit'] == 1 and r.get('with_input') for r in runs)
    notes = os.path.join(dst, 'notes.md')
    meta['needs'] = open(notes).read()[:1200] if os.path.exists(notes) else ''
    meta['ran'] = 'tools/eval_seed.py %s %s' % (pid, src)
finally:
    subprocess.run(['git', '-C', '/repo', 'worktree', 'remove', '--force', wt], capture_output=True)
json.dump(meta, open(os.path.join(dst, 'meta.json'), 'w'), indent=1)
print(name, 'valid_seed=%s caught=%s with_input=%s tests=%r' % (meta.get('valid_seed'), meta.get('caught'), meta.get('caught_with_input'), meta.get('tests')))
for r in meta.get('check_runs', []):
    print('   seed %d exit %d %s %s' % (r['seed'], r['exit'], r['first'][:100], r['detail'][:1]))
