#!/bin/bash
# tools/run_all.sh [seed] [tier] : every check against /repo, 6 at a time; prints one line per property
seed=${1:-0}; tier=${2:-quick}
cd /verif
mkdir -p /tmp/runall_$seed
for i in $(seq -w 1 20); do echo C$i; done | xargs -P 6 -I{} bash -c "VERIF_SEED=$seed /venv/bin/python check.py {} --tier $tier > /tmp/runall_$seed/{}.log 2>&1; echo {} exit \$? \$(grep -c '^VIOLATION' /tmp/runall_$seed/{}.log) violations \$(grep -c '^KNOWN-FINDING' /tmp/runall_$seed/{}.log) known"
