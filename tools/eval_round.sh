#!/bin/bash
# tools/eval_round.sh <round-dir-prefix> <suffix-a> <suffix-b> P1 P2 ... : evaluate <prefix>_<P>/_seed/{a,b} as <P><suffix-a> / <P><suffix-b>
pre=$1; sa=$2; sb=$3; shift 3
cd /verif
for p in "$@"; do
  tools/eval_seed.py $p ${pre}_$p/_seed/a ${p}${sa}
  tools/eval_seed.py $p ${pre}_$p/_seed/b ${p}${sb}
done
