#!/venv/bin/python
"""print a python file without docstrings, comments and blank lines, with line numbers: tools/nodoc.py file [from] [to]"""
import ast, sys
src = open(sys.argv[1]).read()
lo = int(sys.argv[2]) if len(sys.argv) > 2 else 1
hi = int(sys.argv[3]) if len(sys.argv) > 3 else 10**9
tree = ast.parse(src)
drop = set()
for n in ast.walk(tree):
    if isinstance(n, ast.Expr) and isinstance(getattr(n, 'value', None), ast.Constant) and isinstance(n.value.value, str):
        drop.update(range(n.lineno, n.end_lineno + 1))
for i, l in enumerate(src.splitlines(), 1):
    if lo <= i <= hi and i not in drop and l.strip() and not l.strip().startswith('#'):
        print('%d:%s' % (i, l))
