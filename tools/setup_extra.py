#!/venv/bin/python
"""Offline setup steps beyond `lake build` (compiles the Xerces wrapper when present)."""
import os
import subprocess
import sys
VERIF = os.path.dirname(os.path.dirname(os.path.abspath(__file__)))
xsd = os.path.join(VERIF, 'vlib', 'xsd')
if os.path.exists(os.path.join(xsd, 'XsdValidate.java')):
    r = subprocess.run(['javac', '-d', xsd, os.path.join(xsd, 'XsdValidate.java')])
    sys.exit(r.returncode)
