#!/venv/bin/python
"""Offline setup steps run before `lake build`: regenerate the translated tables from /repo's current
source (so that the first build sees them) and compile the Xerces wrapper when present."""
import importlib
import os
import subprocess
import sys
VERIF = os.path.dirname(os.path.dirname(os.path.abspath(__file__)))
sys.path.insert(0, VERIF)
from vlib import core  # noqa
for fn in sorted(os.listdir(os.path.join(VERIF, 'translators'))):
    if fn.endswith('.py') and fn != '__init__.py':
        mod = importlib.import_module('translators.' + fn[:-3])
        if hasattr(mod, 'generate'):
            print('translator', fn, '->', mod.generate(core.REPO, os.path.join(core.LEAN, 'Pyc', 'Generated')))
xsd = os.path.join(VERIF, 'vlib', 'xsd')
if os.path.exists(os.path.join(xsd, 'XsdValidate.java')):
    r = subprocess.run(['javac', '-d', xsd, os.path.join(xsd, 'XsdValidate.java')])
    sys.exit(r.returncode)
